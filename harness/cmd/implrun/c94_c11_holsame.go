package main

// C11 - "every handler invocation carries the address (and role) of the
// connection the request came from. A connection ... whose handler call is
// blocked does not delay requests on other connections", for all interleavings
// of the connections' requests: nothing in the property lets the requests of
// different connections differ. Scenario "holsame": the connections send
// BIT-IDENTICAL requests (same transaction id, unit id, function code,
// address, quantity / values; all 8 supported function codes, reads and
// writes) at the same time.
//
//   phase 1  connection 0 sends the frame F; its handler call blocks (the
//            shared handler blocks the first call that carries connection 0's
//            ClientAddr, whatever the request is). While it is blocked the
//            other connections send, following a generated script, F itself
//            (whole, or stalled mid-frame and completed later), F's request
//            under another transaction id / unit id, near misses (other
//            quantity, other table) and unrelated requests. Every response
//            must arrive while the call of connection 0 is still blocked
//            (one-sided bound holSameBound).
//   phase 2  the blocked call is released and answered.
//   phase 3  no call is blocked any more, every handler call now takes d ms (a
//            slow backend): all connections, connection 0 included, send their
//            (mostly identical, partly pipelined) frames in one burst, then
//            all responses are read. No timing is asserted here (2 s read
//            deadline as a watchdog); the delay only makes the identical
//            requests overlap inside the server.
//   mode "sim" consists of phase 3 only.
//
// Observables as in "iso": per connection the response frames it received and
// the handler invocations attributed to its ClientAddr: every request must
// show up as ONE invocation with the address of the connection that sent it.
// Expected: grun of Model/Sessions.v on the same interleaving
// (ocaml/scn_sessionssame.ml).
//
//   in:  <mode hol|sim> <d> <n> <F> step... ! step...
//        step = "<i>:<hex>:<k>"   connection i sends the chunk; k = number of
//               frames it completes (phase 1: read at once; phase 3: read at the end)
//   out: ok <per connection events|calls> | noresp:<step> | harness-error:...

import (
	"net"
	"strings"
	"sync"
	"time"

	"github.com/simonvetter/modbus"
)

func init() {
	register("C11", scnHolSame)
	executors["holsame"] = runHolSame
}

// a healthy connection is answered in well under a millisecond; a request
// that waits for the blocked call of connection 0 stays unanswered until the
// harness releases that call
const holSameBound = 1 * time.Second

// sameHandler: the recording isoHandler (answers derived from the request
// only) behind a gate that blocks ONE call - the first one carrying the
// address blockClient - and otherwise takes `delay` per call.
type sameHandler struct {
	inner       *isoHandler
	mu          sync.Mutex
	blockClient string
	blocked     bool
	delay       time.Duration
	block       chan struct{}
	entered     chan struct{}
}

func (h *sameHandler) gate(client string) {
	h.mu.Lock()
	first := h.blockClient != "" && client == h.blockClient && !h.blocked
	if first {
		h.blocked = true
	}
	d := h.delay
	h.mu.Unlock()
	if first {
		select {
		case h.entered <- struct{}{}:
		default:
		}
		select {
		case <-h.block:
		case <-time.After(6 * time.Second): // safety release
		}
		return
	}
	if d > 0 {
		time.Sleep(d)
	}
}

func (h *sameHandler) setDelay(d time.Duration) {
	h.mu.Lock()
	h.delay = d
	h.mu.Unlock()
}

func (h *sameHandler) HandleCoils(r *modbus.CoilsRequest) ([]bool, error) {
	h.gate(r.ClientAddr)
	return h.inner.HandleCoils(r)
}

func (h *sameHandler) HandleDiscreteInputs(r *modbus.DiscreteInputsRequest) ([]bool, error) {
	h.gate(r.ClientAddr)
	return h.inner.HandleDiscreteInputs(r)
}

func (h *sameHandler) HandleHoldingRegisters(r *modbus.HoldingRegistersRequest) ([]uint16, error) {
	h.gate(r.ClientAddr)
	return h.inner.HandleHoldingRegisters(r)
}

func (h *sameHandler) HandleInputRegisters(r *modbus.InputRegistersRequest) ([]uint16, error) {
	h.gate(r.ClientAddr)
	return h.inner.HandleInputRegisters(r)
}

// startSame: startIso with the gate in front of the recording handler
func startSame(n int, h *sameHandler) (*isoClients, string) {
	srv, err := modbus.NewServer(&modbus.ServerConfiguration{URL: "tcp://127.0.0.1:0", MaxClients: 16,
		Timeout: 8 * time.Second, Logger: quiet}, h)
	if err != nil {
		return nil, "harness-error:" + err.Error()
	}
	if err := srv.Start(); err != nil {
		return nil, "harness-error:start:" + err.Error()
	}
	a := srv.VerifListenAddr()
	if a == nil {
		srv.Stop()
		return nil, "harness-error:noaddr"
	}
	ic := &isoClients{srv: srv, h: h.inner, index: map[string]int{}}
	for i := 0; i < n; i++ {
		c, err := net.DialTimeout("tcp", a.String(), 2*time.Second)
		if err != nil {
			ic.close()
			return nil, "harness-error:dial"
		}
		ic.conns = append(ic.conns, c)
		ic.index[c.LocalAddr().String()] = i
	}
	return ic, ""
}

func runHolSame(in []string) (out string) {
	defer func() {
		if r := recover(); r != nil {
			out = "panic"
		}
	}()
	if len(in) < 5 {
		return "harness-error:input"
	}
	// a scheduling hiccup of the machine is not a finding: a request held up by
	// the blocked handler call stays unanswered on every attempt
	for attempt := 0; ; attempt++ {
		out = holSameOnce(in)
		if attempt >= 2 || !strings.HasPrefix(out, "noresp") {
			return out
		}
	}
}

func holSameOnce(in []string) string {
	mode := in[0]
	d := time.Duration(atoi(in[1])) * time.Millisecond
	n := atoi(in[2])
	if n < 1 || n > 16 || d < 0 || d > 200*time.Millisecond || (mode != "hol" && mode != "sim") {
		return "harness-error:input"
	}
	h := &sameHandler{inner: &isoHandler{}, block: make(chan struct{}), entered: make(chan struct{}, 4)}
	ic, e := startSame(n, h)
	if ic == nil {
		return e
	}
	released := false
	release := func() {
		if !released {
			released = true
			close(h.block)
		}
	}
	defer ic.close()
	defer release()
	events := make([][]string, n)
	dead := make([]bool, n) // closed by the server (protocol error): nothing more is read from it
	type step struct {
		i, k int
		data []byte
	}
	var ph1, ph3 []step
	cur := &ph1
	for _, st := range in[4:] {
		if st == "!" {
			cur = &ph3
			continue
		}
		p := strings.Split(st, ":")
		if len(p) != 3 {
			return "harness-error:step"
		}
		i := atoi(p[0])
		if i < 0 || i >= n {
			return "harness-error:conn"
		}
		*cur = append(*cur, step{i, atoi(p[2]), unhex(p[1])})
	}
	if mode == "hol" {
		// phase 1: the handler call of connection 0 blocks
		h.mu.Lock()
		h.blockClient = ic.conns[0].LocalAddr().String()
		h.mu.Unlock()
		ic.conns[0].SetWriteDeadline(time.Now().Add(time.Second))
		ic.conns[0].Write(unhex(in[3]))
		select {
		case <-h.entered:
		case <-time.After(2 * time.Second):
			return "harness-error:handler-not-entered"
		}
		for si, st := range ph1 {
			if st.i == 0 {
				return "harness-error:conn"
			}
			c := ic.conns[st.i]
			c.SetWriteDeadline(time.Now().Add(time.Second))
			c.Write(st.data) // writing to a connection the server closed may fail: ignored
			for k := st.k; k > 0 && !dead[st.i]; k-- {
				ev := readEvent(c, holSameBound)
				if ev == "T" {
					return "noresp:" + itoa(si)
				}
				events[st.i] = append(events[st.i], ev)
				if ev == "X" {
					dead[st.i] = true
				}
			}
		}
		// the call of connection 0 must still be held: nothing may have arrived for it
		if ev := readEvent(ic.conns[0], 20*time.Millisecond); ev != "T" {
			return "harness-error:0-not-blocked:" + ev
		}
		// phase 2: released and answered
		release()
		events[0] = append(events[0], readEvent(ic.conns[0], 2*time.Second))
	} else if len(ph1) > 0 {
		return "harness-error:input"
	}
	// phase 3: everybody at once, every handler call takes d
	h.setDelay(d)
	pending := make([]int, n)
	for _, st := range ph3 {
		c := ic.conns[st.i]
		c.SetWriteDeadline(time.Now().Add(time.Second))
		c.Write(st.data)
		pending[st.i] += st.k
	}
	for i := 0; i < n; i++ {
		for ; pending[i] > 0 && !dead[i]; pending[i]-- {
			ev := readEvent(ic.conns[i], 2*time.Second)
			events[i] = append(events[i], ev)
			if ev == "T" || ev == "X" {
				dead[i] = true
			}
		}
	}
	return "ok " + ic.render(events)
}

// ---------------------------------------------------------------- generator

// sameFrame: a request of one of the 8 supported function codes
func sameFrame(txn uint16, unit byte, fc byte, addr, q int, val []byte) []byte {
	switch fc {
	case 1, 2, 3, 4:
		return mbapFrame(txn, 0, -1, unit, fc, append(be2(addr), be2(q)...))
	case 5, 6:
		return mbapFrame(txn, 0, -1, unit, fc, append(be2(addr), val[:2]...))
	case 15:
		nb := (q + 7) / 8
		pl := append(append(be2(addr), be2(q)...), byte(nb))
		return mbapFrame(txn, 0, -1, unit, fc, append(pl, val[:nb]...))
	default:
		pl := append(append(be2(addr), be2(q)...), byte(2*q))
		return mbapFrame(txn, 0, -1, unit, 16, append(pl, val[:2*q]...))
	}
}

func genHolSame(o *Out, r *Rng, mode string) string {
	n := 2 + r.Intn(7)
	txn := uint16(r.Pick(0, 1, 7, 0xffff, r.Intn(65536)))
	unit := byte(r.Pick(0, 1, 17, 255, r.Intn(256)))
	// reads and writes; the four read codes a bit more often than the writes
	fc := byte(r.Pick(1, 2, 3, 4, 1, 2, 3, 4, 3, 5, 6, 15, 16))
	q := 1 + r.Intn(8)
	addr := r.Pick(0, 1, holMagic, 0xffff-q+1, r.Intn(65536-q), r.Intn(65536-q), r.Intn(65536-q))
	val := r.Bytes(2 * q)
	if fc == 5 {
		val = []byte{byte(r.Pick(0, 0xff)), 0}
	}
	F := sameFrame(txn, unit, fc, addr, q, val)
	o.Stat("holsame:mode:" + mode)
	o.Stat("holsame:conns:" + itoa(n))
	o.Stat("holsame:fc:" + itoa(int(fc)))
	nframes := map[int]int{}
	// a frame for connection i: mostly F itself
	frame := func(i int) ([]byte, string) {
		x := r.Intn(100)
		switch {
		case x < 60:
			return F, "identical"
		case x < 72:
			return sameFrame(txn+uint16(1+r.Intn(500)), unit, fc, addr, q, val), "same-request-other-txn"
		case x < 80:
			return sameFrame(txn, unit+byte(1+r.Intn(255)), fc, addr, q, val), "other-unit"
		case x < 86:
			q2 := q%8 + 1 // another quantity (single writes: another value)
			a2 := addr
			if a2+q2 > 65536 {
				a2 = 65536 - q2
			}
			v2 := append(r.Bytes(1), val...)
			if fc == 5 {
				v2 = []byte{val[0] ^ 0xff, 0} // the other legal coil value
			}
			return sameFrame(txn, unit, fc, a2, q2, append(v2, r.Bytes(2*q2)...)), "near-miss"
		case x < 92:
			// the same request on the neighbouring table / code
			fc2 := map[byte]byte{1: 2, 2: 1, 3: 4, 4: 3, 5: 6, 6: 5, 15: 16, 16: 15}[fc]
			v2 := append(append([]byte{}, val...), r.Bytes(2*q)...)
			if fc2 == 5 {
				v2 = []byte{0xff, 0}
			}
			return sameFrame(txn, unit, fc2, addr, q, v2), "other-code"
		default:
			f, _, _ := isoFrame(r, i, nframes[i], txn, false)
			nframes[i]++
			return f, "unrelated"
		}
	}
	var steps []string
	if mode == "hol" {
		rest := map[int][]byte{}
		var order []int // connections with a stalled frame, oldest first
		complete := func(i int) {
			steps = append(steps, itoa(i)+":"+hx(rest[i])+":1")
			delete(rest, i)
			for k, c := range order {
				if c == i {
					order = append(order[:k], order[k+1:]...)
					break
				}
			}
			o.Stat("holsame:blocked:complete-frame")
		}
		identical := 0
		ns := 2 + r.Intn(7)
		for s := 0; s < ns || identical == 0; s++ {
			i := 1 + r.Intn(n-1)
			if _, mid := rest[i]; mid {
				complete(i)
				continue
			}
			f, label := frame(i)
			if s >= ns {
				f, label = F, "identical"
			}
			if label == "identical" {
				identical++
			}
			o.Stat("holsame:blocked:" + label)
			switch r.Intn(8) {
			case 0:
				cut := 1 + r.Intn(len(f)-1)
				steps = append(steps, itoa(i)+":"+hx(f[:cut])+":0")
				rest[i] = f[cut:]
				order = append(order, i)
				o.Stat("holsame:blocked:stall-mid-frame")
			case 1:
				// two frames in one segment: the second one is F again
				steps = append(steps, itoa(i)+":"+hx(append(append([]byte{}, f...), F...))+":2")
				o.Stat("holsame:blocked:two-in-one-segment")
			default:
				steps = append(steps, itoa(i)+":"+hx(f)+":1")
			}
		}
		for len(order) > 0 {
			complete(order[0])
		}
	}
	steps = append(steps, "!")
	// the burst: every connection, in a random order, one to three frames each
	perm := make([]int, n)
	for i := range perm {
		perm[i] = i
	}
	for i := n - 1; i > 0; i-- {
		j := r.Intn(i + 1)
		perm[i], perm[j] = perm[j], perm[i]
	}
	for _, i := range perm {
		k := r.Pick(1, 1, 1, 2, 3)
		var data []byte
		for j := 0; j < k; j++ {
			f, label := frame(i)
			o.Stat("holsame:burst:" + label)
			data = append(data, f...)
		}
		if k > 1 {
			o.Stat("holsame:burst:pipelined")
		}
		steps = append(steps, itoa(i)+":"+hx(data)+":"+itoa(k))
	}
	d := 10 + r.Intn(31)
	return mode + " " + itoa(d) + " " + itoa(n) + " " + hx(F) + " " + strings.Join(steps, " ")
}

func scnHolSame(o *Out, r *Rng, thorough bool) {
	n := 12
	if thorough {
		n = 160
	}
	ins := []string{
		// the same read of holding registers (txn 1, unit 1, address 20, 2 registers) on three connections:
		// 1 and 2 are answered while the call of 0 is blocked; then all three at once
		"hol 20 3 000100000006010300140002 1:000100000006010300140002:1 2:000100000006010300140002:1 ! 0:000100000006010300140002:1 1:000100000006010300140002:1 2:000100000006010300140002:1",
		// the same write of two registers on two connections
		"hol 20 2 00070000000b01100030000204aabbccdd 1:00070000000b01100030000204aabbccdd:1 ! 1:00070000000b01100030000204aabbccdd:1 0:00070000000b01100030000204aabbccdd:1",
		// four connections read the same 8 coils at the same moment, two of them twice
		"sim 30 4 000100000006110100000008 ! 0:000100000006110100000008:1 1:000100000006110100000008000100000006110100000008:2 2:000100000006110100000008:1 3:000100000006110100000008000100000006110100000008:2",
	}
	for i := 0; i < n; i++ {
		mode := "hol"
		if r.Intn(3) == 0 {
			mode = "sim"
		}
		ins = append(ins, genHolSame(o, r, mode))
	}
	o.RunMany("holsame", ins)
}
