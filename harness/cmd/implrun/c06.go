package main

import (
	"os"
	"strings"
	"time"

	"verifharness/internal/sconn"

	"github.com/simonvetter/modbus"
)

func init() {
	register("C06", scnCrcStrings, scnRtuFlips)
	executors["rtuflip"] = execRtuFlip
	executors["rtufliptail"] = execRtuFlipTail
	executors["rtusess"] = execRtuSess

	executors["crc"] = func(in []string) string {
		v, st := modbus.VerifCRC(unhex(in[0]))
		return hx(v) + " " + hxu(uint64(st))
	}
	executors["crcchunks"] = func(in []string) string {
		var chunks [][]byte
		for _, t := range strings.Split(in[0], ",") {
			chunks = append(chunks, unhex(t))
		}
		return hx(modbus.VerifCRCChunks(chunks))
	}
	executors["crceq"] = func(in []string) string {
		if modbus.VerifCRCIsEqual(unhex(in[0]), byte(unhx(in[1])), byte(unhx(in[2]))) {
			return "1"
		}
		return "0"
	}
}

// CrcStepTable dumps the complete one-byte transition function
// (2^16 states x 2^8 bytes) as little-endian uint16.
func CrcStepTable(path string) error {
	buf := make([]byte, 65536*256*2)
	for s := 0; s < 65536; s++ {
		for b := 0; b < 256; b++ {
			n := modbus.VerifCRCStep(uint16(s), byte(b))
			i := (s*256 + b) * 2
			buf[i] = byte(n)
			buf[i+1] = byte(n >> 8)
		}
	}
	return os.WriteFile(path, buf, 0644)
}

func scnCrcStrings(o *Out, r *Rng, thorough bool) {
	reps := 3000
	if thorough {
		reps = 100000
	}
	o.Run("crc", "-")
	for b := 0; b < 256; b++ {
		o.Run("crc", hx([]byte{byte(b)}))
	}
	for i := 0; i < reps; i++ {
		n := r.Pick(0, 1, 2, 3, 6, 8, 13, 64, 254, 255, 256, 300, r.Intn(300))
		b := r.Bytes(n)
		switch r.Intn(4) {
		case 0:
			for k := range b {
				b[k] = 0
			}
		case 1:
			for k := range b {
				b[k] = 0xff
			}
		}
		o.Run("crc", hx(b))
		// chunked feeding, random chunking incl. empty chunks
		var toks []string
		rest := b
		for len(rest) > 0 {
			k := r.Intn(len(rest) + 1)
			if r.Intn(4) == 0 {
				k = r.Intn(3)
				if k > len(rest) {
					k = len(rest)
				}
			}
			toks = append(toks, hx(rest[:k]))
			rest = rest[k:]
		}
		if len(toks) == 0 {
			toks = append(toks, "-")
		}
		o.Run("crcchunks", strings.Join(toks, ","))
		// acceptance test with the right trailer, a flipped one, a random one
		v, _ := modbus.VerifCRC(b)
		lo, hi := v[0], v[1]
		switch r.Intn(3) {
		case 1:
			lo ^= 1 << uint(r.Intn(8))
		case 2:
			lo, hi = byte(r.U64()), byte(r.U64())
		}
		o.Run("crceq", hx(b)+" "+hxu(uint64(lo))+" "+hxu(uint64(hi)))
	}
}

// rtuflip: unit e w corrupted valid2 op... : two exchanges on one RTU client:
// the first reply is the corrupted frame, the second a valid one.
// -> "<result1> left=<unread bytes after call 1> <result2>"
func execRtuFlip(in []string) string {
	c := sconn.New(true)
	mc := newClientOn("r", c, uint8(unhx(in[0])), atoi(in[1]), atoi(in[2]))
	c.Feed(unhex(in[3]))
	r1 := callOp(mc, in[5:])
	left := c.Pending()
	c.Feed(unhex(in[4]))
	r2 := callOp(mc, in[5:])
	return r1 + " left=" + itoa(left) + " " + r2
}

func flipBit(b []byte, i int) []byte {
	c := append([]byte(nil), b...)
	c[i/8] ^= 1 << uint(i%8)
	return c
}

// valid RTU replies under single-bit, double-bit, burst (<= 16 bits) and
// CRC-field corruption, each followed by a clean exchange
func scnRtuFlips(o *Out, r *Rng, thorough bool) {
	n := 40
	if thorough {
		n = 1500
	}
	var ins []string
	emit := func(unit, e, w int, corrupted, valid2 []byte, op []string, label string) {
		ins = append(ins, strings.Join(append([]string{hxi(unit), itoa(e), itoa(w), hx(corrupted), hx(valid2)}, op...), " "))
		o.Stat("flip:" + label)
	}
	for i := 0; i < n; i++ {
		unit, e, w := randCfg(r)
		op := randOp(r, opValid)
		fc, payload, ok := buildReply(r, op, e)
		if !ok {
			continue
		}
		v := rtuFrame(byte(unit), fc, payload)
		fc2, payload2, _ := buildReply(r, op, e)
		v2 := rtuFrame(byte(unit), fc2, payload2)
		bitsN := len(v) * 8
		// single bits: all for short frames, sampled otherwise
		step := 1
		if len(v) > 16 && !thorough {
			step = 1 + bitsN/64
		}
		for b := r.Intn(step); b < bitsN; b += step {
			emit(unit, e, w, flipBit(v, b), v2, op, "single")
		}
		for k := 0; k < 24; k++ {
			a, b := r.Intn(bitsN), r.Intn(bitsN)
			if a != b {
				emit(unit, e, w, flipBit(flipBit(v, a), b), v2, op, "double")
			}
		}
		for k := 0; k < 16; k++ {
			// burst: first and last flipped bit at most 15 apart, random pattern in between
			start := r.Intn(bitsN)
			c := flipBit(v, start)
			span := r.Intn(16)
			for j := 1; j <= span && start+j < bitsN; j++ {
				if j == span || r.Bool() {
					c = flipBit(c, start+j)
				}
			}
			emit(unit, e, w, c, v2, op, "burst")
		}
		for k := 0; k < 4; k++ {
			c := append([]byte(nil), v...)
			c[len(c)-1], c[len(c)-2] = byte(r.U64()), byte(r.U64())
			emit(unit, e, w, c, v2, op, "crcfield")
		}
		// structured CRC fields: the two bytes exchanged, complemented, duplicated, zero, big-endian of the sum
		lo, hi := v[len(v)-2], v[len(v)-1]
		for _, t := range [][2]byte{{hi, lo}, {^lo, ^hi}, {lo, lo}, {hi, hi}, {0, 0}, {0xff, 0xff}, {lo ^ 0x80, hi}, {lo, hi ^ 1}} {
			if t[0] == lo && t[1] == hi {
				continue
			}
			c := append([]byte(nil), v...)
			c[len(c)-2], c[len(c)-1] = t[0], t[1]
			emit(unit, e, w, c, v2, op, "crcfield-structured")
		}
	}
	// the F8 family: a prefix of the corrupted reply is itself a CRC-valid frame
	for _, unit := range []int{1, 17} {
		op := []string{"ReadRegisters", "0", "2", "0"}
		// bit 7 of the function code: exception frame [unit 0x83 0x04 crc]
		lo, hi := crcRef([]byte{byte(unit), 0x83, 4})
		v := rtuFrame(byte(unit), 3, []byte{4, lo, hi, 0x12, 0x34})
		v2 := rtuFrame(byte(unit), 3, []byte{4, 0, 1, 0, 2})
		emit(unit, 1, 1, flipBit(v, 8+7), v2, op, "f8-fc")
		// the byte count 0x04 -> 0x00: frame [unit 03 00 crc]
		lo, hi = crcRef([]byte{byte(unit), 3, 0})
		v = rtuFrame(byte(unit), 3, []byte{4, lo, hi, 0x56, 0x78})
		emit(unit, 1, 1, flipBit(v, 16+2), v2, op, "f8-bc")
	}
	o.RunMany("rtuflip", ins)
	// byte count 0x04 -> 0x00 (a single bit): the frame looks 5 bytes long, its CRC fails,
	// the remaining 4 bytes arrive 10 ms after the request (at 19200 bps the quiet period is 146 ms)
	var tails []string
	for _, unit := range []int{1, 9} {
		v := rtuFrame(byte(unit), 3, []byte{4, 0xaa, 0xbb, 0xcc, 0xdd})
		bad := flipBit(v, 16+2)
		v2 := rtuFrame(byte(unit), 3, []byte{4, 0, 1, 0, 2})
		tails = append(tails, strings.Join([]string{hxi(unit), "19200", hx(bad[:5]), hx(bad[5:]), hx(v2), "ReadRegisters", "0", "2", "0"}, " "))
		o.Stat("flip:tail-during-quiet-period")
	}
	o.RunMany("rtufliptail", tails)
	scnRtuSess(o, r, thorough)
}

// the timed session model (Model/TimedSession.v, Properties/C06c.v) against the
// client: corrupted replies rejected before all their bytes are there
func scnRtuSess(o *Out, r *Rng, thorough bool) {
	var ins []string
	n := 1
	if thorough {
		n = 6
	}
	for rep := 0; rep < n; rep++ {
		for _, speed := range []int{9600, 19200} {
			_, _ = speed, rep
			t1us := 11 * 1000000 / speed
			quiet := 256 * t1us / 1000 // ms
			unit := 1 + r.Intn(247)
			qty := 2 + r.Intn(3)
			payload := []byte{byte(2 * qty)}
			for k := 0; k < 2*qty; k++ {
				payload = append(payload, byte(1+r.Intn(255)))
			}
			good := rtuFrame(byte(unit), 3, payload)
			p2 := []byte{byte(2 * qty)}
			for k := 0; k < 2*qty; k++ {
				p2 = append(p2, byte(r.Intn(256)))
			}
			v2 := rtuFrame(byte(unit), 3, p2)
			op := []string{"ReadRegisters", hxi(r.Intn(65000)), hxi(qty), "0"}
			type cut struct {
				bad  []byte
				head int
			}
			var cuts []cut
			b1 := append([]byte{}, good...)
			b1[2] = 0 // byte count -> 0: a 5-byte frame with a wrong CRC
			cuts = append(cuts, cut{b1, 5})
			b2 := append([]byte{}, good...)
			b2[1] ^= 0x10 // unknown function code: protocol error after the header
			cuts = append(cuts, cut{b2, 3})
			b3 := append([]byte{}, good...)
			b3[1] ^= 0x80 // looks like an exception frame (5 bytes) with a wrong CRC
			cuts = append(cuts, cut{b3, 5})
			for _, c := range cuts {
				for _, d := range []int{5000, 1000 * (quiet / 3), 1000 * (quiet - 50), -1} {
					if !thorough && rep == 0 && d == 1000*(quiet/3) && speed == 9600 {
						continue
					}
					ins = append(ins, strings.Join(append([]string{hxi(unit), itoa(speed), hx(c.bad[:c.head]), hx(c.bad[c.head:]), hx(v2), itoa(d)}, op...), " "))
					if d < 0 {
						o.Stat("rtusess:tail-after-flush")
					} else {
						o.Stat("rtusess:tail-in-quiet-period")
					}
				}
			}
		}
	}
	o.RunMany("rtusess", ins)
}

// rtusess: unit speed head tail valid2 d_us op... (see ocaml/scn_rtusess.ml)
func execRtuSess(in []string) string {
	c := sconn.New(false)
	mc, err := modbus.VerifNewClientOnConn(&modbus.ClientConfiguration{URL: "rtuovertcp://x",
		Timeout: time.Second, Speed: uint(atoi(in[1])), Logger: quiet}, c)
	if err != nil {
		return "harness-error"
	}
	mc.SetUnitId(uint8(unhx(in[0])))
	head, tail, valid2 := unhex(in[2]), unhex(in[3]), unhex(in[4])
	d := atoi(in[5])
	n := 0
	c.OnWrite = func(c *sconn.Conn, b []byte) {
		n++
		if n == 1 {
			c.Feed(head)
			if d >= 0 {
				go func() {
					// wait until the client has taken the head off the line
					for i := 0; i < 20000 && c.ConsumedNow() < len(head); i++ {
						time.Sleep(100 * time.Microsecond)
					}
					time.Sleep(time.Duration(d) * time.Microsecond)
					c.Feed(tail)
				}()
			}
		} else {
			c.Feed(valid2)
		}
	}
	r1 := callOp(mc, in[6:])
	if d < 0 {
		c.Feed(tail)
	}
	r2 := callOp(mc, in[6:])
	return r1 + " " + r2
}

// rtufliptail: unit speed head tail valid2 op... : real deadlines. The first part of
// a corrupted reply (enough for the client to reject it) arrives at once, its
// tail 10 ms after the request - while the client keeps the line quiet before
// flushing -, then a second exchange with a valid reply must succeed.
func execRtuFlipTail(in []string) string {
	c := sconn.New(false)
	mc, err := modbus.VerifNewClientOnConn(&modbus.ClientConfiguration{URL: "rtuovertcp://x",
		Timeout: 400 * time.Millisecond, Speed: uint(atoi(in[1])), Logger: quiet}, c)
	if err != nil {
		return "harness-error"
	}
	mc.SetUnitId(uint8(unhx(in[0])))
	n := 0
	c.OnWrite = func(c *sconn.Conn, b []byte) {
		n++
		if n == 1 {
			c.Feed(unhex(in[2]))
			go func() {
				time.Sleep(10 * time.Millisecond)
				c.Feed(unhex(in[3]))
			}()
		} else {
			c.Feed(unhex(in[4]))
		}
	}
	r1 := callOp(mc, in[5:])
	left := c.Pending()
	r2 := callOp(mc, in[5:])
	return r1 + " left=" + itoa(left) + " " + r2
}
