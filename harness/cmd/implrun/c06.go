package main

import (
	"os"
	"strings"

	"github.com/simonvetter/modbus"
)

func init() {
	register("C06", scnCrcStrings)

	executors["crc"] = func(in []string) string {
		v, st := modbus.VerifCRC(unhex(in[0]))
		return hx(v) + " " + hxu(uint64(st))
	}
	executors["crcchunks"] = func(in []string) string {
		var chunks [][]byte
		for _, t := range strings.Split(in[0], ",") {
			chunks = append(chunks, unhex(t))
		}
		return hx(modbus.VerifCRCChunks(chunks))
	}
	executors["crceq"] = func(in []string) string {
		if modbus.VerifCRCIsEqual(unhex(in[0]), byte(unhx(in[1])), byte(unhx(in[2]))) {
			return "1"
		}
		return "0"
	}
}

// CrcStepTable dumps the complete one-byte transition function
// (2^16 states x 2^8 bytes) as little-endian uint16.
func CrcStepTable(path string) error {
	buf := make([]byte, 65536*256*2)
	for s := 0; s < 65536; s++ {
		for b := 0; b < 256; b++ {
			n := modbus.VerifCRCStep(uint16(s), byte(b))
			i := (s*256 + b) * 2
			buf[i] = byte(n)
			buf[i+1] = byte(n >> 8)
		}
	}
	return os.WriteFile(path, buf, 0644)
}

func scnCrcStrings(o *Out, r *Rng, thorough bool) {
	reps := 3000
	if thorough {
		reps = 100000
	}
	o.Run("crc", "-")
	for b := 0; b < 256; b++ {
		o.Run("crc", hx([]byte{byte(b)}))
	}
	for i := 0; i < reps; i++ {
		n := r.Pick(0, 1, 2, 3, 6, 8, 13, 64, 254, 255, 256, 300, r.Intn(300))
		b := r.Bytes(n)
		switch r.Intn(4) {
		case 0:
			for k := range b {
				b[k] = 0
			}
		case 1:
			for k := range b {
				b[k] = 0xff
			}
		}
		o.Run("crc", hx(b))
		// chunked feeding, random chunking incl. empty chunks
		var toks []string
		rest := b
		for len(rest) > 0 {
			k := r.Intn(len(rest) + 1)
			if r.Intn(4) == 0 {
				k = r.Intn(3)
				if k > len(rest) {
					k = len(rest)
				}
			}
			toks = append(toks, hx(rest[:k]))
			rest = rest[k:]
		}
		if len(toks) == 0 {
			toks = append(toks, "-")
		}
		o.Run("crcchunks", strings.Join(toks, ","))
		// acceptance test with the right trailer, a flipped one, a random one
		v, _ := modbus.VerifCRC(b)
		lo, hi := v[0], v[1]
		switch r.Intn(3) {
		case 1:
			lo ^= 1 << uint(r.Intn(8))
		case 2:
			lo, hi = byte(r.U64()), byte(r.U64())
		}
		o.Run("crceq", hx(b)+" "+hxu(uint64(lo))+" "+hxu(uint64(hi)))
	}
}
