package main

import "strings"

func init() { register("C03", scnServerFrames, scnServerFcSweep) }

var behaviours = []string{"ok", "ok", "ok", "short", "long", "nil", "eproto", "eother",
	"e1", "e2", "e3", "e4", "e5", "e6", "e8", "e10", "e11"}

// a request PDU (fc, payload) for one of the supported function codes,
// valid or with a boundary-directed defect
func randRequest(r *Rng) (fc byte, payload []byte, label string) {
	be := func(v int) []byte { return []byte{byte(v >> 8), byte(v)} }
	fcs := []byte{1, 2, 3, 4, 5, 6, 15, 16}
	fc = fcs[r.Intn(len(fcs))]
	lim := map[byte]int{1: 2000, 2: 2000, 3: 125, 4: 125, 15: 1968, 16: 123}[fc]
	a := pickAddr(r)
	valid := r.Intn(3) != 0
	q := 1
	if lim > 0 {
		if valid {
			q = r.Pick(1, lim, 1+r.Intn(lim))
			if a+q-1 > 0xffff {
				a = 0x10000 - q
			}
		} else {
			q = around(r, lim)
		}
	}
	label = "valid"
	if !valid {
		label = "boundary"
	}
	switch fc {
	case 1, 2, 3, 4:
		payload = append(be(a), be(q)...)
	case 5:
		v := []byte{0xff, 0}
		if r.Bool() {
			v = []byte{0, 0}
		}
		if !valid {
			v = [][]byte{{0xff, 1}, {1, 0}, {0xfe, 0}, {0, 0xff}, {0xff, 0xff}}[r.Intn(5)]
			label = "badcoil"
		}
		payload = append(be(a), v...)
	case 6:
		payload = append(be(a), be(r.Intn(65536))...)
	case 15:
		n := (q + 7) / 8
		payload = append(append(be(a), be(q)...), byte(n))
		payload = append(payload, r.Bytes(n%300)...)
	case 16:
		n := 2 * q
		payload = append(append(be(a), be(q)...), byte(n))
		payload = append(payload, r.Bytes(n%300)...)
	}
	// further defects: wrong byte count, missing / extra data bytes, short payload
	if r.Intn(6) == 0 {
		switch r.Intn(4) {
		case 0:
			if len(payload) > 4 {
				payload[4] += byte(r.Pick(1, 255))
				label = "bytecount"
			}
		case 1:
			payload = payload[:r.Intn(len(payload)+1)]
			label = "truncated-pdu"
		case 2:
			payload = append(payload, r.Bytes(1+r.Intn(3))...)
			label = "extended-pdu"
		case 3:
			if len(payload) > 253 {
				payload = payload[:253]
			}
		}
	}
	if len(payload) > 253 {
		payload = payload[:253]
	}
	return
}

func serverCase(end string, chunks [][]byte, script []string) string {
	sc := "-"
	if len(script) > 0 {
		sc = strings.Join(script, ",")
	}
	return end + " " + writesStr(chunks) + " " + sc
}

func scnServerFrames(o *Out, r *Rng, thorough bool) {
	n := 5000
	if thorough {
		n = 300000
	}
	var ins []string
	for i := 0; i < n; i++ {
		nf := r.Pick(1, 1, 1, 2, 3, 4)
		var stream []byte
		var script []string
		for k := 0; k < nf; k++ {
			fc, payload, label := randRequest(r)
			o.Stat("req:" + label)
			txn := uint16(r.U64())
			unit := byte(r.Pick(0, 1, 17, 247, 255, r.Intn(256)))
			proto := uint16(0)
			length := -1
			switch r.Intn(40) {
			case 0:
				proto = uint16(1 + r.Intn(65535))
				o.Stat("hdr:proto")
			case 1:
				length = r.Pick(0, 1, 2, 254, 255, 256, 1000, 65535)
				o.Stat("hdr:lenabs")
			case 2:
				length = 2 + len(payload) + r.Pick(-1, 1)
				o.Stat("hdr:lenoff")
			case 3:
				fc = byte(r.Intn(256))
				o.Stat("hdr:anyfc")
			}
			stream = append(stream, mbapFrame(txn, proto, length, unit, fc, payload)...)
			script = append(script, behaviours[r.Intn(len(behaviours))])
		}
		switch r.Intn(12) {
		case 0:
			stream = stream[:r.Intn(len(stream)+1)]
			o.Stat("stream:cut")
		case 1:
			stream = append(stream, r.Bytes(1+r.Intn(12))...)
			o.Stat("stream:garbage-tail")
		}
		end := "c"
		if r.Intn(3) == 0 {
			end = "s"
		}
		ins = append(ins, serverCase(end, [][]byte{stream}, script))
	}
	o.RunMany("srv", ins)
}

// all 256 function codes x payload lengths 0..253 (stratified in quick)
func scnServerFcSweep(o *Out, r *Rng, thorough bool) {
	var ins []string
	for fc := 0; fc < 256; fc++ {
		for l := 0; l <= 253; l++ {
			if !thorough && !(l <= 8 || l >= 250 || (fc+l)%23 == 0) {
				continue
			}
			payload := r.Bytes(l)
			if l >= 4 && r.Bool() {
				// plausible address/quantity so that deeper checks are reached
				q := r.Pick(1, 2, 8, 16, (l-5)/2, (l-5)*8, l-5)
				if q < 0 {
					q = 1
				}
				payload[0], payload[1] = 0, byte(r.Intn(256))
				payload[2], payload[3] = byte(q>>8), byte(q)
				if l >= 5 {
					payload[4] = byte(l - 5)
				}
			}
			ins = append(ins, serverCase("c", [][]byte{mbapFrame(uint16(fc*256+l), 0, -1, 9, byte(fc), payload)},
				[]string{behaviours[(fc+l)%len(behaviours)]}))
			o.Stat("fc-len-sweep")
		}
	}
	o.RunMany("srv", ins)
}
