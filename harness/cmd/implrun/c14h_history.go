package main

// C14 (continued) - HISTORIES of handshakes on ONE running tcp+tls server.
//
// The property speaks of every peer a server invokes a handler for, hence of
// every connection a server instance ever takes, whatever it took before. The
// other C14 scenarios give every handshake a server of its own (tlssrv) or
// vary the leaf only (tlsroles). Here one real NewServer(tcp+tls) + Start
// takes 3-10 harness TLS clients one after the other, and what varies is the
// whole certificate list a peer SENDS: a client whose leaf verifies is free to
// send further certificates along (crypto/tls does not refuse certificates the
// verifier has no use for and lists them in ConnectionState.PeerCertificates):
// a foreign root, a foreign intermediate, look-alikes of the configured CA or
// of the genuine intermediate (same subject, somebody else's key; self-issued,
// issued by the foreign root, or bearing the genuine issuer's name as well),
// before or after the genuine intermediate. The peers that come before and
// after such a client hold leaves issued under those foreign keys and present
// them alone, with the foreign CA certificate, or with its whole foreign chain.
//
// scenario "tlshist": keyset pool step...
//   pool = the certificates of TLSClientCAs, names joined by "+"
//   step = <chain>;<ver>;<verifies>;<request>
//     chain    = the names of the certificates the peer sends, leaf first,
//                joined by "+" ("none": a peer without certificate)
//     verifies = x509.Certificate.Verify of that leaf with the CONFIGURED pool
//                as roots, the other certificates of THIS step as intermediates,
//                client-auth usage, now; computed when the case is generated,
//                without any connection and without any memory of other steps
//     request  = one valid MBAP request whose unit id is the step number
//   output: per step "<handler invocations>/<response seen 0|1>", joined by ","
//   (an invocation is attributed to a step by its unit id)
// expected per step: 1/1 iff verifies and ver >= TLS 1.2, else 0/0.
//
// Every network operation runs under a deadline (a miss turns into a refused
// step, never into a hang); a history in which a step that had to be served was
// not, and no step that had to be refused was served, is run once more on a
// fresh server (loaded machine); a history in which a step that had to be
// refused was served is never repeated.

import (
	"crypto/tls"
	"crypto/x509"
	"fmt"
	"net"
	"strings"
	"sync"
	"time"

	"github.com/simonvetter/modbus"
)

const c14hOpTimeout = 2 * c14OpTimeout

// ------------------------------------------------------------ certificates

type c14hPKI struct {
	srv     *tls.Certificate      // the modbus server's own certificate
	trust   *x509.CertPool        // what the harness clients verify the server with
	certs   map[string]*c14Signer // every certificate of the family, by name
	foreign []string              // the foreign CA certificates a client may send along
	parent  map[string]string     // foreign CA certificate -> the foreign certificate that issued it ("" = none)
	leafOf  map[string]string     // foreign CA certificate -> the client leaf issued under its key
}

var (
	c14hMu  sync.Mutex
	c14hSet = map[string]*c14hPKI{}
)

// keysets as in c14.go: "ec..." = ECDSA P-256, "rsa..." = RSA 2048, fresh keys per keyset
func c14hGetPKI(keyset string) *c14hPKI {
	c14hMu.Lock()
	defer c14hMu.Unlock()
	if p, ok := c14hSet[keyset]; ok {
		return p
	}
	rsaKeys := strings.HasPrefix(keyset, "rsa")
	f := &c14PKI{} // the certificate factory of c14.go (issue)
	const day = 24 * time.Hour
	cliEKU := []x509.ExtKeyUsage{x509.ExtKeyUsageClientAuth}
	p := &c14hPKI{certs: map[string]*c14Signer{}, parent: map[string]string{}, leafOf: map[string]string{}}
	mk := func(name string, s c14Spec, parent *c14Signer) *c14Signer {
		c, _ := f.issue(rsaKeys, s, parent)
		p.certs[name] = c
		return c
	}
	caSpec := func(cn string) c14Spec { return c14Spec{cn: cn, isCA: true, notBefore: -day, notAfter: 30 * day} }
	leaf := func(cn string) c14Spec { return c14Spec{cn: cn, notBefore: -time.Hour, notAfter: day, eku: cliEKU} }
	const caName, interName = "hist CA", "hist issuing CA"

	// ---- the plant's own PKI
	ca := mk("ca", caSpec(caName), nil)
	inter := mk("inter", caSpec(interName), ca)
	srv := mk("srv", c14Spec{cn: "hist modbus server", notBefore: -time.Hour, notAfter: day,
		eku: []x509.ExtKeyUsage{x509.ExtKeyUsageServerAuth}, ips: []net.IP{net.ParseIP("127.0.0.1")}}, ca)
	p.srv = c14TLSCert(srv)
	p.trust = c14Pool(ca)
	mk("good", leaf("hist client"), ca)
	mk("goodb", leaf("hist second client"), ca)
	mk("goodi", leaf("hist client of the issuing CA"), inter)
	mk("expired", c14Spec{cn: "hist expired client", notBefore: -2 * day, notAfter: -time.Hour, eku: cliEKU}, ca)
	mk("self", leaf("hist self-signed client"), nil)

	// ---- foreign material: CA certificates under keys the plant has nothing to do with
	fca := mk("fca", caSpec("foreign hist CA"), nil)         // a foreign root
	mk("finter", caSpec("foreign hist issuing CA"), fca)     // a foreign intermediate
	twinroot := mk("twinroot", caSpec(caName), nil)          // the configured CA's name, self-issued
	mk("twinca", caSpec(caName), fca)                        // the configured CA's name, issued by the foreign root
	mk("twininter", caSpec(interName), fca)                  // the genuine intermediate's name, issued by the foreign root
	mk("twininter2", caSpec(interName), twinroot)            // the genuine intermediate's subject AND issuer names
	p.foreign = []string{"fca", "finter", "twinroot", "twinca", "twininter", "twininter2"}
	p.parent = map[string]string{"fca": "", "finter": "fca", "twinroot": "", "twinca": "fca", "twininter": "fca",
		"twininter2": "twinroot"}
	// ---- and a client leaf under each of these keys
	for _, name := range p.foreign {
		mk("x"+name, leaf("hist client under "+name), p.certs[name])
		p.leafOf[name] = "x" + name
	}
	c14hSet[keyset] = p
	return p
}

// the tls.Certificate a peer presents: the named certificates, leaf first
func (p *c14hPKI) chain(tok string) (*tls.Certificate, bool) {
	if tok == "none" {
		return nil, true
	}
	var cs []*c14Signer
	for _, name := range strings.Split(tok, "+") {
		c := p.certs[name]
		if c == nil {
			return nil, false
		}
		cs = append(cs, c)
	}
	return c14TLSCert(cs[0], cs[1:]...), true
}

func (p *c14hPKI) pool(tok string) *x509.CertPool {
	pool := x509.NewCertPool()
	for _, name := range strings.Split(tok, "+") {
		c := p.certs[name]
		if c == nil {
			return nil
		}
		pool.AddCert(c.cert)
	}
	return pool
}

// ------------------------------------------------------------ tlshist

type c14hStep struct {
	cert   *tls.Certificate
	ver    uint16
	expect bool
	req    []byte
	resp   bool
}

func c14RunHist(in []string) string {
	out, again := c14RunHistOnce(in)
	if again {
		out, _ = c14RunHistOnce(in)
	}
	return out
}

func c14RunHistOnce(in []string) (out string, again bool) {
	defer func() {
		if r := recover(); r != nil {
			out, again = fmt.Sprintf("panic:%v", r), false
		}
	}()
	if len(in) < 3 {
		return "harness-error:bad-input", false
	}
	pki := c14hGetPKI(in[0])
	pool := pki.pool(in[1])
	if pool == nil {
		return "harness-error:unknown-pool-certificate", false
	}
	var steps []*c14hStep
	for _, tok := range in[2:] {
		f := strings.Split(tok, ";")
		if len(f) != 4 {
			return "harness-error:bad-step-token", false
		}
		cert, ok := pki.chain(f[0])
		if !ok {
			return "harness-error:unknown-certificate", false
		}
		steps = append(steps, &c14hStep{cert: cert, ver: c14Version(f[1]),
			expect: cert != nil && f[2] == "1" && (f[1] == "12" || f[1] == "13"), req: unhex(f[3])})
	}
	if len(steps) > 200 {
		return "harness-error:too-many-steps", false
	}

	h := &c14RoleHandler{}
	srv, err := modbus.NewServer(&modbus.ServerConfiguration{
		URL:           "tcp+tls://127.0.0.1:0",
		TLSServerCert: pki.srv,
		TLSClientCAs:  pool,
		Timeout:       10 * time.Second,
		Logger:        quiet,
	}, h)
	if err != nil {
		return "harness-error:newserver:" + err.Error(), false
	}
	if err = srv.Start(); err != nil {
		return "harness-error:start:" + err.Error(), false
	}
	defer srv.Stop()
	addr := srv.VerifListenAddr()
	if addr == nil {
		return "harness-error:no-listener", false
	}

	for _, s := range steps {
		raw, err := net.DialTimeout("tcp", addr.String(), c14hOpTimeout)
		if err != nil {
			continue
		}
		conf := &tls.Config{RootCAs: pki.trust, ServerName: "127.0.0.1", MinVersion: s.ver, MaxVersion: s.ver}
		if s.cert != nil {
			cert := s.cert
			// the whole list is sent, whatever CAs the server names as acceptable
			conf.GetClientCertificate = func(*tls.CertificateRequestInfo) (*tls.Certificate, error) { return cert, nil }
		}
		tc := tls.Client(raw, conf)
		raw.SetDeadline(time.Now().Add(c14hOpTimeout))
		var w net.Conn = raw // no tunnel: the request goes in the clear on the same socket
		if tc.Handshake() == nil {
			w = tc
		}
		w.SetDeadline(time.Now().Add(c14hOpTimeout))
		if _, werr := w.Write(s.req); werr == nil {
			s.resp = c14ReadResponse(w, s.req)
		}
		raw.Close()
		// the session is over once the server has dropped the connection from its list
		waitCount(srv, 0, c14hOpTimeout)
	}

	h.mu.Lock()
	defer h.mu.Unlock()
	calls := make([]int, len(steps))
	stray := 0
	for _, rec := range h.recs {
		i := int(rec.unit) - 1
		if i < 0 || i >= len(steps) {
			stray++
			continue
		}
		calls[i]++
	}
	missed, intruded := false, false
	var parts []string
	for i, s := range steps {
		parts = append(parts, fmt.Sprintf("%d/%s", calls[i], b01(s.resp)))
		served := calls[i] > 0 || s.resp
		if s.expect && !(calls[i] == 1 && s.resp) {
			missed = true
		}
		if !s.expect && served {
			intruded = true
		}
	}
	out = strings.Join(parts, ",")
	if stray > 0 {
		out += fmt.Sprintf(",stray=%d", stray)
	}
	return out, missed && !intruded
}

// ------------------------------------------------------------ generators

type c14hGen struct {
	pki    *c14hPKI
	r      *Rng
	ks     string
	pool   string
	steps  []string
	class  []string        // per step, for the statistics
	warm   map[string]bool // foreign CA certificates a served step has sent so far
	nextID int
}

func (g *c14hGen) verifies(chain string) bool {
	cert, _ := g.pki.chain(chain)
	return c14Verifies(&c14Cred{name: chain, cert: cert, pool: g.pki.pool(g.pool)}, x509.ExtKeyUsageClientAuth, "")
}

func (g *c14hGen) add(chain, ver string) {
	g.nextID++
	q := c14Request(g.r)
	q[6] = byte(g.nextID) // the unit id names the step
	v := g.verifies(chain)
	modern := ver == "12" || ver == "13"
	names := strings.Split(chain, "+")
	class := "other"
	switch {
	case strings.HasPrefix(names[0], "x"):
		class = "foreign-leaf-cold"
		if g.warm[strings.TrimPrefix(names[0], "x")] {
			class = "foreign-leaf-after-its-ca-was-sent"
		}
	case v && len(names) == 1:
		class = "valid-bare"
	case v:
		class = "valid-chain"
		for _, n := range names[1:] {
			if _, ok := g.pki.leafOf[n]; ok {
				class = "valid-with-foreign-extras"
			}
		}
	}
	if !modern {
		class += "-old-version"
	}
	if v && modern {
		for _, n := range names[1:] {
			if _, ok := g.pki.leafOf[n]; ok {
				g.warm[n] = true
			}
		}
	}
	g.steps = append(g.steps, strings.Join([]string{chain, ver, b01(v), hx(q)}, ";"))
	g.class = append(g.class, class)
}

func (g *c14hGen) modernVer() string { return []string{"12", "13"}[g.r.Intn(2)] }

// what the holder of the leaf under foreign CA certificate f may send
func (g *c14hGen) intruderChains(f string) []string {
	x := g.pki.leafOf[f]
	out := []string{x, x + "+" + f}
	if up := g.pki.parent[f]; up != "" {
		out = append(out, x+"+"+f+"+"+up)
	}
	return out
}

// a client whose own chain verifies, sending the foreign certificates `extras` along
func (g *c14hGen) carrier(extras []string) string {
	hasInter := strings.Contains("+"+g.pool+"+", "+inter+")
	names := append([]string{}, extras...)
	leaf := "good"
	switch g.r.Intn(3) {
	case 1:
		leaf = "goodb"
	case 2:
		leaf = "goodi"
		if !hasInter || g.r.Intn(2) == 0 {
			// the genuine intermediate goes along, anywhere among the extras
			k := g.r.Intn(len(names) + 1)
			names = append(names[:k], append([]string{"inter"}, names[k:]...)...)
		}
	}
	return strings.Join(append([]string{leaf}, names...), "+")
}

func (g *c14hGen) token() string {
	return strings.Join(append([]string{g.ks, g.pool}, g.steps...), " ")
}

func c14hNewGen(pki *c14hPKI, r *Rng, ks, pool string) *c14hGen {
	return &c14hGen{pki: pki, r: r, ks: ks, pool: pool, warm: map[string]bool{}}
}

func scnC14History(o *Out, r *Rng, thorough bool) {
	var ins []string
	var classes [][]string
	var kinds []string
	emit := func(g *c14hGen, kind string) {
		ins = append(ins, g.token())
		classes = append(classes, g.class)
		kinds = append(kinds, kind)
	}
	pools := []string{"ca", "ca+inter"}
	for _, ks := range c14Keysets(thorough) {
		pki := c14hGetPKI(ks)
		// ---- for every foreign CA certificate f: the holder of the leaf under f before
		// and after a valid client that sends f along, for every valid client (leaf
		// issued by the configured CA / by the genuine intermediate) and every place
		// f can take in what that client sends
		for _, pool := range pools {
			hasInter := strings.Contains("+"+pool+"+", "+inter+")
			for _, f := range pki.foreign {
				carriers := []string{"good+" + f, "goodi+" + f + "+inter", "goodi+inter+" + f}
				if up := pki.parent[f]; up != "" {
					carriers = append(carriers, "good+"+f+"+"+up, "goodi+"+f+"+"+up+"+inter")
				}
				if hasInter {
					carriers = append(carriers, "goodi+"+f)
				}
				for _, carrier := range carriers {
					g := c14hNewGen(pki, r, ks, pool)
					for _, c := range g.intruderChains(f) {
						g.add(c, g.modernVer())
					}
					g.add(carrier, g.modernVer())
					for _, c := range g.intruderChains(f) {
						g.add(c, g.modernVer())
					}
					g.add("good", g.modernVer())
					g.add(pki.leafOf[f], g.modernVer())
					emit(g, "around-"+f)
				}
			}
		}
		// ---- random histories over everything a peer may send
		n := 16
		if thorough {
			n = 150
		}
		for i := 0; i < n; i++ {
			g := c14hNewGen(pki, r, ks, pools[r.Intn(len(pools))])
			for k := 3 + r.Intn(6); k > 0; k-- {
				f := pki.foreign[r.Intn(len(pki.foreign))]
				switch r.Intn(10) {
				case 0, 1, 2:
					var extras []string
					for e := 1 + r.Intn(3); e > 0; e-- {
						extras = append(extras, pki.foreign[r.Intn(len(pki.foreign))])
					}
					g.add(g.carrier(extras), g.modernVer())
				case 3, 4, 5, 6:
					cs := g.intruderChains(f)
					g.add(cs[r.Intn(len(cs))], g.modernVer())
				case 7:
					g.add([]string{"good", "goodb", "goodi+inter", "goodi"}[r.Intn(4)], g.modernVer())
				case 8:
					g.add([]string{"expired", "self", "none", "expired+" + f, "self+" + f, "goodi+" + f}[r.Intn(6)], g.modernVer())
				default:
					// an old protocol version: refused whatever is sent, and nothing of it may stay
					g.add(g.carrier([]string{f}), []string{"10", "11"}[r.Intn(2)])
				}
			}
			emit(g, "random")
		}
	}
	for i, out := range o.RunMany("tlshist", ins) {
		o.Stat("tlshist:" + kinds[i] + ":steps=" + itoa(len(classes[i])))
		res := strings.Split(out, ",")
		for k, class := range classes[i] {
			got := "?"
			if k < len(res) {
				got = res[k]
			}
			o.Stat("tlshist:step:" + class + ":" + got)
		}
	}
}

func init() {
	register("C14", scnC14History)
	executors["tlshist"] = c14RunHist
}
