package main

// C10 on plain tcp servers at their connection limit - Stop / Start with
// client connections the server serves AND client connections it has turned
// away, in every state their peers can have put them in.
//
// The property: when Stop returns EVERY client connection has been closed, no
// request sent afterwards reaches a handler, no server goroutine outlives
// Stop, Start after Stop serves again on the same address, repeated Start /
// Stop are no-ops. A client connection is a connection the server has
// accepted: whether the admission step then put it on the active list or
// turned it away (list full; server stopped in the meantime) is invisible to
// the peer, which goes on as it pleases. The scenario runs lifecycle traces
// with peers that are
//
//   served / turned away   by the admission step            (N; T ... E)
//   and, on either kind,
//   silent                 connected, nothing sent
//   mid-request            first bytes of a request sent     (M)
//   asked                  a whole request sent              (R)
//   taken                  accepted by the accept goroutine, which is held
//                          between Accept and the admission step (T ... E)
//
// when Stop (P) runs, and probes every one of them afterwards. Nothing is
// demanded of a turned-away connection while the server runs (how and when it
// is turned away is not this property's business); from the moment Stop has
// returned it must be closed like any other, and nothing may arrive on it.
//
// scenario "turnaway": maxc op...
//   a real modbus.NewServer("tcp://<fixed loopback address>", MaxClients =
//   maxc, Timeout = 30 s) with a counting handler. One output token per
//   operation, then "calls=<handler invocations of the whole trace>".
//   <snap> = started/len(active list)/a<live accept goroutines>/h<live
//   session goroutines (handleTCPClient)>.
//
//   S          Start                       -> "ok:<snap>" | "err:<snap>"
//   P          Stop; after it returned every connection the harness holds
//              open (except a taken one) is read until the peer sees EOF /
//              reset, with a generous grace period; g = goroutines spawned by
//              server code (created by a (*ModbusServer) method) still alive
//              once things have settled; b = bytes the peers received while
//              they waited
//              -> "<snap>/g<n>:<id><c|o>,...:b<n>" (c closed, o still open; "-" none)
//                 prefixed by "err:" if Stop returned an error; "panic"
//   N<i>       peer i opens a TCP connection and says nothing
//              -> "refused" (dial failed) | "<snap>:s" (enrolled) | "<snap>:t" (turned away)
//   T<i>       as N, but the accept goroutine is held right after Accept
//              -> "taken" | "refused"
//   E          the held accept goroutine runs its admission step
//              -> "<snap>:s|t" as for N
//   M<i>:<k>   peer i sends the first k bytes of a request and stalls -> "part" | "-"
//   R<i>       peer i sends (the rest of) a request and reads
//              -> "resp+<handler calls during the op>" | "closed+<k>" | "noresp+<k>"
//                 while the server is stopped (Stop has returned, no Start
//                 since) the bytes the peer received are part of the token:
//                 "closed:b<n>+<k>"
//   D<i>       peer i disconnects              -> "<snap>"
//
// The expected tokens are computed by the extracted model of
// Model/TurnAway.v (ocaml/scn_turnaway.ml); theorems in Properties/C10e.v.

import (
	"bytes"
	"fmt"
	"net"
	"os"
	"runtime"
	"runtime/debug"
	"sort"
	"strings"
	"sync"
	"sync/atomic"
	"time"

	"github.com/simonvetter/modbus"
)

func init() {
	register("C10", scnTurnAway)
	executors["turnaway"] = runTurnAway
}

// grace periods: one-sided (the unchanged library needs a few milliseconds);
// they only turn "never" into a failing case
const (
	taGrace   = 3 * time.Second // a peer must see EOF / reset this long after Stop returned at the latest
	taSettle  = 3 * time.Second // goroutines and the active list must have settled by then
	taRequest = 5 * time.Second // watchdog of one request
)

// cases in which a grace period has expired (they have failed): after a few of
// them the later cases of the run do not wait as long
var taExpired int32

type taPeer struct {
	c       net.Conn
	served  bool // the admission step put it on the active list (and no Stop since)
	pending int  // bytes of a request already sent
}

// sawClose reads from the socket until it fails; closed: the server closed
// the connection (EOF / reset) within d; n: bytes that arrived meanwhile
func (p *taPeer) sawClose(d time.Duration) (closed bool, n int) {
	p.c.SetReadDeadline(time.Now().Add(d))
	defer p.c.SetReadDeadline(time.Time{})
	b := make([]byte, 4096)
	for {
		k, err := p.c.Read(b)
		n += k
		if err != nil {
			return !os.IsTimeout(err), n
		}
		if n > 1<<20 {
			return false, n
		}
	}
}

// request sends (the rest of) one request and reads until the response is
// complete or the connection fails; n: bytes received
func (p *taPeer) request() (res string, n int) {
	p.c.SetDeadline(time.Now().Add(taRequest))
	defer p.c.SetDeadline(time.Time{})
	rest := probeReq[p.pending:]
	p.pending = 0
	if _, err := p.c.Write(rest); err != nil {
		return "closed", 0
	}
	buf := make([]byte, 11)
	for n < len(buf) {
		k, err := p.c.Read(buf[n:])
		n += k
		if err != nil {
			if os.IsTimeout(err) {
				return "noresp", n
			}
			return "closed", n
		}
	}
	if !bytes.HasPrefix(buf, tsProbeResp) {
		return "badresp", n
	}
	return "resp", n
}

// taGoroutines counts the live accept and session goroutines of the library
// and all live goroutines that were spawned by server code
// (steered scenarios run one at a time: the buffer is reused, the collector is off during a trace)
func taGoroutines() (acc, sess, spawned int) {
	n := runtime.Stack(tlStackBuf, true)
	s := tlStackBuf[:n]
	return bytes.Count(s, []byte("(*ModbusServer).acceptTCPClients(")),
		bytes.Count(s, []byte("(*ModbusServer).handleTCPClient(")),
		bytes.Count(s, []byte("created by github.com/simonvetter/modbus.(*ModbusServer)."))
}

func runTurnAway(in []string) (out string) {
	steerMu.Lock()
	defer steerMu.Unlock()
	defer func() {
		if r := recover(); r != nil {
			out = fmt.Sprintf("panic:%v", r)
		}
	}()
	// see runSlots: keep finalizers from closing sockets behind the server's back
	defer debug.SetGCPercent(debug.SetGCPercent(-1))

	// steering: hold the accept goroutine after Accept on request, signal every admission step
	var ymu sync.Mutex
	holdTaken := false
	takenCh := make(chan struct{}, 8)
	releaseAcc := make(chan struct{}, 1)
	enrolled := make(chan struct{}, 256)
	modbus.VerifSetYield(func(point string) {
		switch point {
		case "accept:taken":
			ymu.Lock()
			hold := holdTaken
			holdTaken = false
			ymu.Unlock()
			if hold {
				takenCh <- struct{}{}
				<-releaseAcc
			}
		case "accept:enrolled":
			select {
			case enrolled <- struct{}{}:
			default:
			}
		}
	})
	defer modbus.VerifSetYield(nil)

	maxc := atoi(in[0])
	addr, err := fixedAddr()
	if err != nil {
		return "harness-error:" + err.Error()
	}
	h := &countHandler{}
	srv, err := modbus.NewServer(&modbus.ServerConfiguration{
		URL:        "tcp://" + addr,
		MaxClients: uint(maxc),
		Timeout:    30 * time.Second,
		Logger:     quiet,
	}, h)
	if err != nil {
		return "harness-error:newserver:" + err.Error()
	}
	stop := func() (res string) {
		defer func() {
			if r := recover(); r != nil {
				res = "panic"
			}
		}()
		if err := srv.Stop(); err != nil {
			return "err:"
		}
		return ""
	}

	peers := map[int]*taPeer{}
	heldAcc := -1
	heldZombie := false // the held accept goroutine belongs to a generation that was stopped
	running := false    // the last lifecycle call that took effect was a Start
	defer func() {
		if heldAcc >= 0 {
			releaseAcc <- struct{}{}
		}
		stop()
		for _, p := range peers {
			p.c.Close()
		}
	}()

	calls := func() int { h.mu.Lock(); defer h.mu.Unlock(); return h.calls }
	// once a watchdog has expired the case has failed: do not pay for the others
	settle, grace := taSettle, taGrace
	if atomic.LoadInt32(&taExpired) >= 3 {
		settle, grace = 500*time.Millisecond, 500*time.Millisecond
	}
	expired := false
	expire := func() {
		settle, grace = 100*time.Millisecond, 100*time.Millisecond
		if !expired {
			expired = true
			atomic.AddInt32(&taExpired, 1)
		}
	}
	// snapshot once the server has settled: one session goroutine per member of
	// the active list, the accept goroutines the lifecycle leaves (and the
	// wanted list length when the harness is waiting for a removal); with
	// all: and no other goroutine spawned by server code
	snapshot := func(wantN int, all bool) string {
		end := time.Now().Add(settle)
		for {
			st, n, _ := srv.VerifServerSnapshot()
			a, hs, g := taGoroutines()
			wantA := 0
			if st {
				wantA++
			}
			if heldZombie {
				wantA++
			}
			ok := hs == n && a == wantA && (wantN < 0 || n == wantN) && (!all || g == a+hs)
			if ok || !time.Now().Before(end) {
				if !ok {
					expire()
				}
				s := "0"
				if st {
					s = "1"
				}
				res := fmt.Sprintf("%s/%d/a%d/h%d", s, n, a, hs)
				if all {
					res += "/g" + itoa(g)
				}
				return res
			}
			time.Sleep(2 * time.Millisecond)
		}
	}
	count := func() int { _, n, _ := srv.VerifServerSnapshot(); return n }
	dial := func(i int) bool {
		c, err := net.DialTimeout("tcp", addr, 2*time.Second)
		if err != nil {
			return false
		}
		peers[i] = &taPeer{c: c}
		return true
	}
	// the admission step has run for peer i: enrolled, or turned away
	admitted := func(i int, before int, signalled bool) string {
		if count() > before {
			peers[i].served = true
			return snapshot(before+1, false) + ":s"
		}
		if !signalled {
			expire()
			return snapshot(before, false) + ":noadmission"
		}
		return snapshot(before, false) + ":t"
	}

	var outs []string
	for _, op := range in[1:] {
		f := strings.Split(op, ":")
		kind := f[0][0]
		i := 0
		if len(f[0]) > 1 {
			i = atoi(f[0][1:])
		}
		p := peers[i]
		calls0 := calls()
		switch kind {
		case 'S':
			res := "ok:"
			if err := srv.Start(); err != nil {
				res = "err:"
			} else {
				running = true
			}
			outs = append(outs, res+snapshot(-1, false))
		case 'P':
			wasStarted, _, _ := srv.VerifServerSnapshot()
			res := stop()
			if res == "panic" {
				outs = append(outs, res)
				break
			}
			running = false
			if wasStarted && heldAcc >= 0 {
				heldZombie = true
			}
			// every connection the harness still holds, served or turned away: closed?
			var ids []int
			for id := range peers {
				if id != heldAcc {
					ids = append(ids, id)
				}
			}
			sort.Ints(ids)
			flags := make([]string, len(ids))
			got := make([]int, len(ids))
			var wg sync.WaitGroup
			g0 := grace
			for k, id := range ids {
				wg.Add(1)
				go func(k int, q *taPeer) {
					defer wg.Done()
					closed, n := q.sawClose(g0)
					got[k] = n
					if closed {
						flags[k] = itoa(ids[k]) + "c"
					} else {
						flags[k] = itoa(ids[k]) + "o"
					}
				}(k, peers[id])
			}
			wg.Wait()
			late := 0
			for k, id := range ids {
				peers[id].served = false
				late += got[k]
				if strings.HasSuffix(flags[k], "o") {
					expire()
				}
			}
			fl := "-"
			if len(flags) > 0 {
				fl = strings.Join(flags, ",")
			}
			outs = append(outs, res+snapshot(0, true)+":"+fl+":b"+itoa(late))
		case 'N':
			before := count()
			if !dial(i) {
				outs = append(outs, "refused")
				break
			}
			sig := waitSig(enrolled, settle)
			outs = append(outs, admitted(i, before, sig))
		case 'T':
			ymu.Lock()
			holdTaken = true
			ymu.Unlock()
			if !dial(i) {
				ymu.Lock()
				holdTaken = false
				ymu.Unlock()
				outs = append(outs, "refused")
				break
			}
			if !waitSig(takenCh, 3*time.Second) {
				return "harness-error:no-taken-yield"
			}
			heldAcc = i
			outs = append(outs, "taken")
		case 'E':
			if heldAcc < 0 {
				outs = append(outs, snapshot(-1, false)+":-")
				break
			}
			before := count()
			j := heldAcc
			releaseAcc <- struct{}{}
			sig := waitSig(enrolled, settle)
			heldAcc, heldZombie = -1, false
			outs = append(outs, admitted(j, before, sig))
		case 'M':
			res := "-"
			if p != nil {
				k := atoi(f[1])
				if len(f) != 2 || k < 1 || k >= len(probeReq) {
					return "harness-error:bad-op:" + op
				}
				if p.pending == 0 {
					// the peer cannot know what the server did with its connection:
					// whether these bytes go anywhere is not its concern
					p.c.SetWriteDeadline(time.Now().Add(taRequest))
					p.c.Write(probeReq[:k])
					p.c.SetWriteDeadline(time.Time{})
					p.pending = k
				}
				res = "part"
			}
			outs = append(outs, res)
		case 'R':
			if i == heldAcc && p != nil {
				outs = append(outs, "held")
				break
			}
			res, n := "closed", 0
			if p != nil {
				res, n = p.request()
				if res == "noresp" {
					expire()
				}
			}
			if !running {
				res += ":b" + itoa(n)
			}
			outs = append(outs, res+"+"+itoa(calls()-calls0))
		case 'D':
			before := count()
			if p != nil && i != heldAcc {
				p.c.Close()
				want := -1
				if p.served {
					want = before - 1
				}
				delete(peers, i)
				outs = append(outs, snapshot(want, false))
				break
			}
			outs = append(outs, snapshot(-1, false))
		default:
			return "harness-error:bad-op:" + op
		}
	}
	outs = append(outs, "calls="+itoa(calls()))
	return strings.Join(outs, " ")
}

// ---------------------------------------------------------------- generator

type taGenPeer struct {
	id    int
	alive bool // on the active list of the running server (as far as the trace tells)
	away  bool // turned away by its admission step
	part  bool // first bytes of a request sent
	asked bool // has sent a whole request
}

func (p *taGenPeer) state() string {
	k := "silent"
	if p.part {
		k = "midrequest"
	} else if p.asked {
		k = "asked"
	}
	if p.away {
		return "away-" + k
	}
	return "served-" + k
}

// genTurnAwayTrace: a random lifecycle trace over Start, Stop, and peers that
// connect (also in bursts that take the server to its limit and beyond), send
// parts of requests, whole requests, disconnect. Every Stop is followed (at
// once or later) by probes of the connections it met; the trace ends with a
// Stop and a probe of every connection still held.
func genTurnAwayTrace(o *Out, r *Rng, maxc, n int) []string {
	var ops []string
	started := false
	next := 1
	var held *taGenPeer
	var open []*taGenPeer
	enrolled := func() (k int) {
		for _, p := range open {
			if p.alive {
				k++
			}
		}
		return
	}
	pick := func(ok func(p *taGenPeer) bool) *taGenPeer {
		var c []*taGenPeer
		for _, p := range open {
			if p != held && ok(p) {
				c = append(c, p)
			}
		}
		if len(c) == 0 {
			return nil
		}
		return c[r.Intn(len(c))]
	}
	rm := func(p *taGenPeer) {
		for k := range open {
			if open[k] == p {
				open = append(open[:k], open[k+1:]...)
				return
			}
		}
	}
	admit := func(p *taGenPeer) {
		p.alive = started && enrolled() < maxc
		p.away = !p.alive
	}
	arrive := func() {
		p := &taGenPeer{id: next}
		next++
		open = append(open, p)
		ops = append(ops, "N"+itoa(p.id))
		admit(p)
	}
	partial := func(p *taGenPeer) {
		ops = append(ops, "M"+itoa(p.id)+":"+itoa(1+r.Intn(len(probeReq)-1)))
		p.part = true
	}
	request := func(p *taGenPeer) {
		if p == held {
			return
		}
		ops = append(ops, "R"+itoa(p.id))
		p.part, p.asked = false, true
	}
	stopOp := func() {
		if started {
			met := 0
			for _, p := range open {
				if p == held {
					o.Stat("turnaway:stop-meets:taken")
					met++
				} else if p.alive || p.away {
					o.Stat("turnaway:stop-meets:" + p.state())
					met++
				}
			}
			if met == 0 {
				o.Stat("turnaway:stop-meets:nobody")
			}
			if enrolled() >= maxc {
				o.Stat("turnaway:stop-at-limit")
			}
		} else {
			o.Stat("turnaway:stop-while-stopped")
		}
		for _, p := range open {
			if p.alive {
				p.alive = false
			}
		}
		ops = append(ops, "P")
		started = false
	}
	for len(ops) < n {
		x := r.Intn(100)
		if started {
			switch {
			case x < 16 && held == nil:
				arrive()
			case x < 26 && held == nil:
				// a burst of arrivals that takes the server to its limit and beyond
				k := maxc - enrolled() + 1 + r.Intn(2)
				for ; k > 0; k-- {
					arrive()
				}
				o.Stat("turnaway:burst-beyond-limit")
			case x < 31 && held == nil:
				p := &taGenPeer{id: next}
				next++
				open = append(open, p)
				ops = append(ops, "T"+itoa(p.id))
				held = p
			case x < 38 && held != nil:
				ops = append(ops, "E")
				admit(held)
				held = nil
			case x < 52:
				// the first bytes of a request: on a served connection, on one
				// that was turned away, on the one the accept goroutine is holding
				p := pick(func(p *taGenPeer) bool { return !p.part })
				if held != nil && !held.part && (p == nil || r.Intn(4) == 0) {
					p = held
				}
				if p != nil {
					partial(p)
				}
			case x < 62:
				if p := pick(func(p *taGenPeer) bool { return true }); p != nil {
					request(p)
				}
			case x < 68:
				if p := pick(func(p *taGenPeer) bool { return true }); p != nil {
					ops = append(ops, "D"+itoa(p.id))
					rm(p)
				}
			case x < 95:
				stopOp()
				// probe some of the connections Stop met right away
				for _, p := range open {
					if r.Intn(3) > 0 {
						request(p)
					}
				}
			default:
				ops = append(ops, "S") // Start on a started server
				o.Stat("turnaway:start-while-started")
			}
			continue
		}
		switch {
		case x < 32:
			ops = append(ops, "S")
			started = true
			if r.Bool() && held == nil {
				// serves again on the same address
				arrive()
				request(open[len(open)-1])
				o.Stat("turnaway:served-after-start")
			}
		case x < 40:
			stopOp()
		case x < 48 && held == nil:
			ops = append(ops, "N"+itoa(next)) // a stopped server refuses
			next++
		case x < 62:
			if p := pick(func(p *taGenPeer) bool { return true }); p != nil {
				request(p)
			}
		case x < 70:
			if p := pick(func(p *taGenPeer) bool { return !p.part }); p != nil {
				partial(p) // bytes into a connection Stop has closed
			}
		case x < 78:
			if p := pick(func(p *taGenPeer) bool { return true }); p != nil {
				ops = append(ops, "D"+itoa(p.id))
				rm(p)
			}
		case x < 92 && held != nil:
			ops = append(ops, "E") // the connection that was being accepted while Stop ran
			admit(held)
			held = nil
		}
	}
	if held != nil {
		ops = append(ops, "E")
		admit(held)
		held = nil
	}
	stopOp()
	for _, p := range open {
		request(p)
	}
	return ops
}

func scnTurnAway(o *Out, r *Rng, thorough bool) {
	fixed := []string{
		// a full server, peers beyond the limit in every state when Stop runs; probes; restart on the same address
		"1 S N1 R1 N2 N3 M3:5 N4 R4 P R1 R2 R3 R4 S N5 R5 P R5",
		"2 S N1 N2 M2:7 N3 N4 M4:1 P R3 R4 R1 R2 N5 S N6 R6 P",
		// each state of a turned-away peer on its own
		"1 S N1 N2 P R2 R1",
		"1 S N1 N2 M2:11 P R2",
		"1 S N1 N2 R2 P R2",
		// served peers in every state
		"3 S N1 N2 M2:3 N3 R3 P R1 R2 R3",
		// a connection being accepted while Stop runs, next to peers beyond the limit
		"1 S N1 N2 T3 M3:4 P E R3 R2 R1 S N4 R4 P R4",
		"2 S T1 P S E N2 N3 N4 P R1 R2 R3 R4",
		// a slot freed and taken again while turned-away peers linger
		"1 S N1 N2 D1 N3 R3 N4 M4:9 P R2 R3 R4",
		// repeated Start / Stop around a full server
		"1 S S N1 N2 P P R2 R1 S S N3 N4 M4:2 P P R4 R3 P",
	}
	for _, f := range fixed {
		o.Run("turnaway", f)
	}
	n := 24
	if thorough {
		n = 400
	}
	for i := 0; i < n; i++ {
		maxc := 1 + r.Intn(3)
		ops := genTurnAwayTrace(o, r, maxc, 8+r.Intn(22))
		o.Run("turnaway", itoa(maxc)+" "+strings.Join(ops, " "))
		o.Stat("turnaway:maxc:" + itoa(maxc))
	}
}
