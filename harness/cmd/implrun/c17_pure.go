package main

import (
	"strings"

	"github.com/simonvetter/modbus"
)

// enc16s: uint16sToBytes, the list encoder. The encoder is a function of its
// argument: the output is the documented layout, the caller's slice reads the
// same afterwards, and encoding the same slice again gives the same bytes.
func init() {
	register("C17", scnEnc16s)

	executors["enc16s"] = func(in []string) string {
		e := modbus.Endianness(atoi(in[0]))
		var vs []uint16
		if in[1] != "-" {
			for _, t := range strings.Split(in[1], ",") {
				vs = append(vs, uint16(unhx(t)))
			}
		}
		// spare capacity with sentinels behind the slice
		backing := make([]uint16, len(vs)+2)
		copy(backing, vs)
		backing[len(vs)] = 0xa55a
		backing[len(vs)+1] = 0x5aa5
		arg := backing[:len(vs)]
		first := hx(modbus.VerifUint16sToBytes(e, arg))
		for i := range vs {
			if backing[i] != vs[i] {
				return first + " !input-modified"
			}
		}
		if backing[len(vs)] != 0xa55a || backing[len(vs)+1] != 0x5aa5 {
			return first + " !spare-capacity-modified"
		}
		if second := hx(modbus.VerifUint16sToBytes(e, arg)); second != first {
			return first + " !second-call:" + second
		}
		return first
	}
}

func scnEnc16s(o *Out, r *Rng, thorough bool) {
	n := 200
	if thorough {
		n = 5000
	}
	for e := 1; e <= 2; e++ {
		o.Run("enc16s", itoa(e)+" -")
		o.Run("enc16s", itoa(e)+" 1234,abcd,ff,8001")
		for i := 0; i < n; i++ {
			k := r.Pick(1, 1, 2, 3, 4, 7, 8, 123, 125)
			o.Run("enc16s", itoa(e)+" "+randNums(r, k, 16))
			o.Stat("enc16s:len")
		}
	}
}
