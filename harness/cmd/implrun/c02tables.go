package main

import (
	"fmt"
	"io"
	"os"
	"strings"

	"github.com/simonvetter/modbus"
)

// exhaustive comparison of the two finite tables the client's reply handling
// rests on: the RTU length inference (256 function codes x 256 third bytes) and
// the exception code -> error map (256 codes)
func init() {
	register("C02", scnTables)
	executors["explen"] = func(in []string) string {
		fc := atoi(in[0])
		var sb strings.Builder
		for b2 := 0; b2 < 256; b2++ {
			n, err := modbus.VerifExpectedResponseLength(uint8(fc), uint8(b2))
			if b2 > 0 {
				sb.WriteByte(',')
			}
			if err != nil {
				sb.WriteString("e")
			} else {
				sb.WriteString(itoa(n))
			}
		}
		return sb.String()
	}
	// errmap: the exception code the SERVER answers for each error a handler may
	// return: every exported error value of the library plus foreign errors
	executors["errmap"] = func(in []string) string {
		errs := []error{modbus.ErrConfigurationError, modbus.ErrRequestTimedOut, modbus.ErrIllegalFunction,
			modbus.ErrIllegalDataAddress, modbus.ErrIllegalDataValue, modbus.ErrServerDeviceFailure,
			modbus.ErrAcknowledge, modbus.ErrServerDeviceBusy, modbus.ErrMemoryParityError,
			modbus.ErrGWPathUnavailable, modbus.ErrGWTargetFailedToRespond, modbus.ErrBadCRC, modbus.ErrShortFrame,
			modbus.ErrProtocolError, modbus.ErrBadUnitId, modbus.ErrBadTransactionId, modbus.ErrUnknownProtocolId,
			modbus.ErrUnexpectedParameters, io.EOF, os.ErrDeadlineExceeded, fmt.Errorf("x"), modbus.Error("illegal function ")}
		var p []string
		for _, e := range errs {
			p = append(p, itoa(int(modbus.VerifMapErrorToExceptionCode(e))))
		}
		return strings.Join(p, ",")
	}
	executors["excmap"] = func(in []string) string {
		var p []string
		for c := 0; c < 256; c++ {
			p = append(p, errClass(modbus.VerifMapExceptionCodeToError(uint8(c))))
		}
		return strings.Join(p, ",")
	}
}

func scnTables(o *Out, r *Rng, thorough bool) {
	for fc := 0; fc < 256; fc++ {
		o.Run("explen", itoa(fc))
	}
	o.Run("excmap", "all")
}

func scnErrMap(o *Out, r *Rng, thorough bool) { o.Run("errmap", "all") }

func init() { register("C03", scnErrMap); register("C04", scnErrMap) }
