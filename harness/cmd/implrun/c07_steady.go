package main

// C07 - "a valid reply that arrives before the timeout is never turned into a
// timeout" (and every call returns within the bound) for EVERY call of a
// long-lived connection, not only for the first few of a fresh one.
//
//   steady  scheme speed timeout_ms ncalls maxbad events reply op...
//             -> "<runs> n=<calls> ids=<ids> bound=<ns> slow=<i>:<us>,..."
//
// REAL time. A polling application: ncalls public client calls (the same
// operation) run one after the other on ONE connection that is never
// re-opened. The peer is alive and well behaved: it reads every request and
// answers it at once with the valid reply "<fc>:<payload hex>"; on the MBAP
// transports the reply carries the transaction id the peer found in the
// request (the peer is a black box: it echoes what it read, it does not count).
// ncalls may exceed 65536: the per-connection state of the transport (the
// 16-bit transaction counter, rt.lastActivity) then goes through all of its
// values, wrap-around included. At a few request indices (0-based, counted by
// the peer: "the i-th request I have read") the peer misbehaves, as listed in
// `events` ("-" or "<i>:<what>,..."):
//     s          it reads the request and stays silent (the call must time out,
//                the following calls must be served again)
//     d<pct>     it sends the reply pct % of the timeout late (pct <= 50)
//     f<off>     MBAP only: it first sends a well-formed frame that carries the
//                transaction id of the request + off (mod 2^16, off in hex, not
//                0: a foreign id, e.g. ffff = the id of the previous request),
//                then the reply
// The session is abandoned after the maxbad-th call that did not return values
// (so that a broken build costs a few timeouts, not thousands).
//
//   scheme s:tcp, s:rtuovertcp   client attached (VerifNewClientOnConn) to the scripted
//                                connection in real-deadline mode
//          l:tcp                 modbus.NewClient + Open against a fake TCP device on loopback
//          l:udp                 ... against a fake UDP device (one datagram per frame)
//
// runs  = run-length encoding of the per-call "<result>/<verdict>" sequence:
//         "<result>/<verdict>*<count>;..."  (result as callOp; verdict = "intime" if the
//         call returned within bound + slack (400 ms), "late:<ms>" otherwise, "early:<ms>"
//         if a timeout was reported before the configured timeout had elapsed; a call
//         still running bound + 2 s after its start is released by closing the
//         connection, reported as "hang" and ends the session)
// n     = calls made
// ids   = MBAP: "<first id>+<count>" when the requests the peer read carried ids that
//         go up by one (mod 2^16) from the first one, "<first>+<k>!<id>" when the k-th
//         did not; "-" on RTU
// bound = the configuration-only bound of the model (Spec/TimedSpec.v), as in `timed`
// slow  = the calls that took longer than slack/2, with their duration ("-": none; at
//         most 64 are listed, then ",more"): the model side holds each of them against
//         the return instant it predicts for that call

import (
	"bufio"
	"encoding/binary"
	"fmt"
	"io"
	"net"
	"strconv"
	"strings"
	"sync"
	"sync/atomic"
	"time"

	"github.com/simonvetter/modbus"
	"verifharness/internal/sconn"
)

const c07SteadySlack = 400 * time.Millisecond

func init() {
	register("C07", scnSteady)
	executors["steady"] = execSteady
}

type c07Ev struct {
	kind byte
	arg  int
}

func c07ParseEvents(tok string) (map[int]c07Ev, bool) {
	evs := map[int]c07Ev{}
	if tok == "-" {
		return evs, true
	}
	for _, t := range strings.Split(tok, ",") {
		p := strings.SplitN(t, ":", 2)
		if len(p) != 2 || len(p[1]) == 0 {
			return nil, false
		}
		ev := c07Ev{kind: p[1][0]}
		switch ev.kind {
		case 's':
		case 'd':
			ev.arg = atoi(p[1][1:])
		case 'f':
			ev.arg = int(unhx(p[1][1:])) & 0xffff
			if ev.arg == 0 {
				return nil, false
			}
		default:
			return nil, false
		}
		evs[atoi(p[0])] = ev
	}
	return evs, true
}

// the well-behaved (except at the event indices) device
type c07Peer struct {
	rtu     bool
	fc      byte
	payload []byte
	events  map[int]c07Ev
	tmo     time.Duration
	send    func([]byte)
	stop    <-chan struct{}

	mu    sync.Mutex
	n     int // requests read so far
	first uint16
	last  uint16
	dev   string // first deviation from first, first+1, ...
}

func (p *c07Peer) frame(id uint16) []byte {
	if p.rtu {
		return rtuFrame(1, p.fc, p.payload)
	}
	return mbapFrame(id, 0, -1, 1, p.fc, p.payload)
}

// request: the peer has read a whole request (carrying transaction id `id`)
func (p *c07Peer) request(id uint16) {
	p.mu.Lock()
	i := p.n
	p.n++
	if !p.rtu {
		if i == 0 {
			p.first = id
		} else if id != p.last+1 && p.dev == "" {
			p.dev = "+" + itoa(i) + "!" + fmt.Sprintf("%04x", id)
		}
		p.last = id
	}
	ev, isEv := p.events[i]
	p.mu.Unlock()
	if !isEv {
		p.send(p.frame(id))
		return
	}
	switch ev.kind {
	case 's':
	case 'd':
		f := p.frame(id)
		time.AfterFunc(p.tmo*time.Duration(ev.arg)/100, func() {
			select {
			case <-p.stop:
			default:
				p.send(f)
			}
		})
	case 'f':
		if !p.rtu {
			p.send(p.frame(id + uint16(ev.arg)))
		}
		p.send(p.frame(id))
	}
}

func (p *c07Peer) ids() string {
	p.mu.Lock()
	defer p.mu.Unlock()
	if p.rtu {
		return "-"
	}
	if p.n == 0 {
		return "none"
	}
	if p.dev != "" {
		return fmt.Sprintf("%04x", p.first) + p.dev
	}
	return fmt.Sprintf("%04x", p.first) + "+" + itoa(p.n)
}

func execSteady(in []string) (out string) {
	defer func() {
		if r := recover(); r != nil {
			out = "panic"
		}
	}()
	if len(in) < 8 {
		return "harness-error:bad-input"
	}
	scheme, speed := in[0], atoi(in[1])
	tmo := time.Duration(atoi(in[2])) * time.Millisecond
	ncalls, maxbad := atoi(in[3]), atoi(in[4])
	events, ok := c07ParseEvents(in[5])
	p := strings.SplitN(in[6], ":", 2)
	op := in[7:]
	if !ok || tmo <= 0 || ncalls <= 0 || maxbad <= 0 || len(p) != 2 {
		return "harness-error:bad-input"
	}
	nreq := 0 // the bound depends on the length of the request on RTU only
	if c07IsRTU(scheme) {
		if nreq = c07ReqLen(scheme, op); nreq == 0 {
			return "harness-error:no-request"
		}
	}
	bound := c07Bound(scheme, speed, tmo, nreq)

	stop := make(chan struct{})
	var stopOnce sync.Once
	halt := func() { stopOnce.Do(func() { close(stop) }) }
	defer halt()
	peer := &c07Peer{rtu: c07IsRTU(scheme), fc: byte(unhx(p[0])), payload: unhex(p[1]),
		events: events, tmo: tmo, stop: stop}

	conf := &modbus.ClientConfiguration{Timeout: tmo, Speed: uint(speed), Logger: quiet}
	var mc *modbus.ModbusClient
	var err error
	var release func() // unblocks a hung call

	switch scheme {
	case "s:tcp", "s:rtuovertcp":
		c := sconn.New(false)
		peer.send = func(b []byte) { c.Feed(b) }
		c.OnWrite = func(_ *sconn.Conn, b []byte) {
			// one Write = one request (C08); the id is whatever its first two bytes say
			id := uint16(0)
			if len(b) >= 2 {
				id = binary.BigEndian.Uint16(b)
			}
			peer.request(id)
		}
		conf.URL = scheme[2:] + "://sconn"
		mc, err = modbus.VerifNewClientOnConn(conf, c)
		if err != nil {
			return "harness-error:client"
		}
		release = func() { c.Close() }

	case "l:tcp":
		ln, e := net.Listen("tcp", "127.0.0.1:0")
		if e != nil {
			return "harness-error:listen"
		}
		defer ln.Close()
		var devDone sync.WaitGroup
		devDone.Add(1)
		go func() {
			defer devDone.Done()
			ln.(*net.TCPListener).SetDeadline(time.Now().Add(3 * time.Second))
			conn, e := ln.Accept()
			if e != nil {
				return
			}
			defer conn.Close()
			go func() { <-stop; conn.Close() }()
			peer.send = func(b []byte) { conn.Write(b) }
			rd := bufio.NewReaderSize(conn, 4096)
			hdr := make([]byte, 7)
			body := make([]byte, 300)
			for {
				if _, e := io.ReadFull(rd, hdr); e != nil {
					return
				}
				l := int(binary.BigEndian.Uint16(hdr[4:6]))
				if l < 2 || l-1 > len(body) {
					return // not a request: the device gives up
				}
				if _, e := io.ReadFull(rd, body[:l-1]); e != nil {
					return
				}
				peer.request(binary.BigEndian.Uint16(hdr))
			}
		}()
		defer devDone.Wait()
		defer halt()
		conf.URL = "tcp://" + ln.Addr().String()
		mc, err = modbus.NewClient(conf)
		if err != nil {
			return "harness-error:client"
		}
		if err = mc.Open(); err != nil {
			return "harness-error:open"
		}
		defer mc.Close()
		release = func() { mc.Close() }

	case "l:udp":
		pc, e := net.ListenUDP("udp", &net.UDPAddr{IP: net.IPv4(127, 0, 0, 1)})
		if e != nil {
			return "harness-error:listen"
		}
		defer pc.Close()
		var devDone sync.WaitGroup
		devDone.Add(1)
		var addrMu sync.Mutex
		var from *net.UDPAddr // where the last request came from
		peer.send = func(b []byte) {
			addrMu.Lock()
			a := from
			addrMu.Unlock()
			pc.WriteToUDP(b, a)
		}
		go func() {
			defer devDone.Done()
			go func() { <-stop; pc.Close() }()
			buf := make([]byte, 600)
			for {
				n, addr, e := pc.ReadFromUDP(buf)
				if e != nil {
					return
				}
				if n < 8 {
					continue
				}
				addrMu.Lock()
				from = addr
				addrMu.Unlock()
				peer.request(binary.BigEndian.Uint16(buf))
			}
		}()
		defer devDone.Wait()
		defer halt()
		conf.URL = "udp://" + pc.LocalAddr().String()
		mc, err = modbus.NewClient(conf)
		if err != nil {
			return "harness-error:client"
		}
		if err = mc.Open(); err != nil {
			return "harness-error:open"
		}
		defer mc.Close()
		release = func() { mc.Close() }

	default:
		return "harness-error:bad-scheme"
	}
	mc.SetUnitId(1)

	// the session; a monitor turns a call that does not return into a "hang"
	var resMu sync.Mutex
	var runs []string
	var slow []string
	cur, curN, calls, nslow := "", 0, 0, 0
	flush := func() {
		if curN > 0 {
			runs = append(runs, cur+"*"+itoa(curN))
		}
		cur, curN = "", 0
	}
	note := func(s string) {
		if s != cur {
			flush()
			cur = s
		}
		curN++
		calls++
	}
	var startedAt int64 // UnixNano of the call in progress, 0: none
	var released int32
	finished := make(chan struct{})
	go func() {
		defer close(finished)
		bad := 0
		for i := 0; i < ncalls; i++ {
			t0 := time.Now()
			atomic.StoreInt64(&startedAt, t0.UnixNano())
			r := callOp(mc, op)
			dur := time.Since(t0)
			atomic.StoreInt64(&startedAt, 0)
			resMu.Lock()
			if atomic.LoadInt32(&released) != 0 {
				note("hang")
				resMu.Unlock()
				return
			}
			verdict := "intime"
			if dur > bound+c07SteadySlack {
				verdict = "late:" + itoa(int((dur-bound)/time.Millisecond))
			} else if r == "err:timeout" && dur < tmo {
				verdict = "early:" + itoa(int((tmo-dur)/time.Millisecond))
			}
			note(r + "/" + verdict)
			if dur > c07SteadySlack/2 {
				if nslow < 64 {
					slow = append(slow, itoa(i)+":"+strconv.FormatInt(int64(dur/time.Microsecond), 10))
				} else if nslow == 64 {
					slow = append(slow, "more")
				}
				nslow++
			}
			resMu.Unlock()
			if !strings.HasPrefix(r, "ok:") {
				bad++
				if bad >= maxbad {
					return
				}
			}
		}
	}()
	tick := time.NewTicker(50 * time.Millisecond)
	defer tick.Stop()
	abandoned := false
monitor:
	for {
		select {
		case <-finished:
			break monitor
		case <-tick.C:
			if s := atomic.LoadInt64(&startedAt); s != 0 && time.Since(time.Unix(0, s)) > bound+2*time.Second {
				atomic.StoreInt32(&released, 1)
				release()
				select {
				case <-finished:
				case <-time.After(3 * time.Second):
					abandoned = true // not even closing the connection brings the call back
				}
				break monitor
			}
		}
	}
	halt()
	resMu.Lock()
	defer resMu.Unlock()
	if abandoned {
		note("hang")
	}
	flush()
	if len(slow) == 0 {
		slow = []string{"-"}
	}
	return strings.Join(runs, ";") + " n=" + itoa(calls) + " ids=" + peer.ids() +
		" bound=" + strconv.FormatInt(int64(bound), 10) + " slow=" + strings.Join(slow, ",")
}

// ------------------------------------------------------------------ generator

// the operations of a polling application: small requests and replies
func c07SteadyOp(r *Rng) []string {
	a := hxi(r.Intn(0xff00))
	switch r.Intn(6) {
	case 0:
		return []string{"ReadCoils", a, hxi(1 + r.Intn(40))}
	case 1:
		return []string{"ReadRegister", a, itoa(r.Intn(2))}
	case 2:
		return []string{"ReadUint32s", a, hxi(1 + r.Intn(2)), itoa(r.Intn(2))}
	case 3:
		return []string{"WriteCoil", a, itoa(r.Intn(2))}
	case 4:
		return []string{"WriteRegister", a, hxi(r.Intn(65536))}
	}
	return []string{"ReadRegisters", a, hxi(1 + r.Intn(4)), itoa(r.Intn(2))}
}

func scnSteady(o *Out, r *Rng, thorough bool) {
	var ins []string
	add := func(scheme string, speed, tmo, ncalls int, evs map[int]string) {
		op := c07SteadyOp(r)
		fc, payload, ok := buildReply(r, op, 1)
		if !ok {
			return
		}
		var toks []string
		silent := 0
		for i := 0; i < ncalls; i++ { // in index order
			if e, ok := evs[i]; ok {
				toks = append(toks, itoa(i)+":"+e)
				o.Stat("steady:event:" + e[:1])
				if i >= 65535 {
					o.Stat("steady:event-after-wrap:" + e[:1])
				}
				if e == "s" {
					silent++
				}
			}
		}
		evTok := "-"
		if len(toks) > 0 {
			evTok = strings.Join(toks, ",")
		}
		ins = append(ins, strings.Join(append([]string{scheme, itoa(speed), itoa(tmo), itoa(ncalls),
			itoa(silent + 3), evTok, hxi(int(fc)) + ":" + hx(payload)}, op...), " "))
		o.Stat("steady:scheme:" + scheme)
		switch {
		case ncalls > 2*65536:
			o.Stat("steady:length:wraps-twice")
		case ncalls > 65536:
			o.Stat("steady:length:wraps-once")
		default:
			o.Stat("steady:length:no-wrap")
		}
	}
	// the misbehaviours of one session: anywhere, and (MBAP) some next to the
	// point where the 16-bit transaction counter starts again
	events := func(n int, mbap bool, count int) map[int]string {
		evs := map[int]string{}
		kinds := []string{"s", "d30", "d50"}
		if mbap {
			kinds = append(kinds, "fffff", "f1", "f"+hxi(2+r.Intn(0xfffd)), "f8000")
		}
		for k := 0; k < count; k++ {
			i := r.Intn(n)
			if mbap && n > 65536 && k%2 == 1 {
				i = 65530 + r.Intn(12)
			}
			evs[i] = kinds[r.Intn(len(kinds))]
		}
		// at most one silence per session: it costs a whole timeout
		ns := 0
		for i := 0; i < n; i++ {
			if evs[i] == "s" {
				ns++
				if ns > 1 {
					evs[i] = "d30"
				}
			}
		}
		return evs
	}
	long := func() int { return 65536 + 40 + r.Intn(400) }

	// MBAP transports, well past the wrap of the transaction counter: the scripted
	// connection and one real socket (thorough: all of them, several times)
	for _, scheme := range []string{"s:tcp", []string{"l:tcp", "l:udp"}[r.Intn(2)]} {
		n := long()
		add(scheme, 0, 1000, n, events(n, true, 4))
	}
	// RTU keeps rt.lastActivity from call to call (t35 between frames): a shorter session
	add("s:rtuovertcp", 115200, 1000, 150+r.Intn(100), events(150, false, 2))
	if thorough {
		for rep := 0; rep < 3; rep++ {
			for _, scheme := range []string{"s:tcp", "l:tcp", "l:udp"} {
				n := long()
				if rep == 2 {
					n += 65536 // twice round
				}
				add(scheme, 0, []int{500, 1000, 1500}[rep], n, events(n, true, 8))
			}
			add("s:rtuovertcp", []int{19200, 38400, 115200}[rep], 1000, 200+r.Intn(200), events(200, false, 3))
		}
		// short sessions too (what a fresh connection does is the special case n small)
		for _, scheme := range []string{"s:tcp", "l:tcp", "l:udp", "s:rtuovertcp"} {
			n := 1 + r.Intn(50)
			add(scheme, 115200, 800, n, events(n, scheme != "s:rtuovertcp", 2))
		}
	}
	for _, out := range o.RunMany("steady", ins) {
		f := strings.Fields(out)
		if len(f) != 5 {
			o.Stat("steady:out:" + out)
			continue
		}
		for _, run := range strings.Split(f[0], ";") {
			c := strings.SplitN(run, "*", 2)[0]
			pr := strings.Split(c, "/")
			if strings.HasPrefix(pr[0], "ok:") {
				pr[0] = "ok"
			}
			if len(pr) == 2 {
				o.Stat("steady:run:" + pr[0] + "/" + strings.SplitN(pr[1], ":", 2)[0])
			} else {
				o.Stat("steady:run:" + c)
			}
		}
		if f[4] == "slow=-" {
			o.Stat("steady:slow-calls:none")
		} else {
			o.Stat("steady:slow-calls:some")
		}
	}
}
