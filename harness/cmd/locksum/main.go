// locksum extracts the lock skeleton of the mutex-protected objects of the
// library (ModbusClient in client.go, ModbusServer in server.go) as Coq terms
// (coq/theories/Gen/ClientLocks.v, ServerLocks.v) over the action language of
// coq/theories/Model/Conc.v. Standard library only (go/parser, go/ast).
//
// For every method of the receiver type the body is walked in source order:
//
//	mc.lock.Lock() / mc.lock.Unlock()    ALock / AUnlock
//	defer mc.lock.Unlock()               cm_deferred := true (top level of the body only)
//	mc.f   (f a shared field)            ARd f, or AWr f when it is (the base of) an
//	                                     assignment / IncDec / range target
//	mc.transport.ExecuteRequest(..)      ARd transport; AXchg (= ATx; ARx in the model)
//	mc.transport.Close()                 ARd transport; ACloseT
//	mc.m(..)  (m a method)               ACall m
//	go mc.m(..)                          arguments only; m becomes a thread entry point
//	return / break / continue            ARet / ABrk / ACont
//	if, switch, select                   SIf [branches] (an extra empty branch without else/default);
//	                                     SSwitch [branches] for a switch / select containing its own break
//	for, range                           SLoop body
//
// Shared fields are all fields of the struct except the mutex and a fixed list
// of fields that are only written by the constructor (a write to one of those
// inside a method is reported). Anything else that involves the mutex or lets
// the receiver escape (mutex used as a value, TryLock, closures over the
// receiver, method values, address of a shared field, labelled jumps, ...) is
// emitted as AIrregular "why", which makes the Coq check fail.
package main

import (
	"flag"
	"fmt"
	"go/ast"
	"go/parser"
	"go/token"
	"os"
	"path/filepath"
	"sort"
	"strings"
)

// ---------------------------------------------------------------- sprog

type sp struct {
	kind string // "act", "seq", "if", "loop"
	act  string // Coq term of the action
	kids []*sp
}

func act(a string) *sp       { return &sp{kind: "act", act: a} }
func seq(k ...*sp) *sp       { return &sp{kind: "seq", kids: k} }
func irregular(w string) *sp { return act("AIrregular " + coqStr(w)) }

func coqStr(s string) string { return "\"" + strings.ReplaceAll(s, "\"", "\"\"") + "\"" }

// simplify flattens nested sequences and drops constructs without actions
func simplify(s *sp) *sp {
	switch s.kind {
	case "act":
		return s
	case "seq":
		var out []*sp
		for _, k := range s.kids {
			k = simplify(k)
			if k.kind == "seq" {
				out = append(out, k.kids...)
			} else {
				out = append(out, k)
			}
		}
		return &sp{kind: "seq", kids: out}
	case "if", "switch":
		var out []*sp
		all := true
		for _, k := range s.kids {
			k = simplify(k)
			if !(k.kind == "seq" && len(k.kids) == 0) {
				all = false
			}
			out = append(out, k)
		}
		if all {
			return seq()
		}
		return &sp{kind: s.kind, kids: out}
	case "loop":
		b := simplify(s.kids[0])
		if b.kind == "seq" && len(b.kids) == 0 {
			return seq()
		}
		return &sp{kind: "loop", kids: []*sp{b}}
	}
	return s
}

func (s *sp) empty() bool {
	t := simplify(s)
	return t.kind == "seq" && len(t.kids) == 0
}

func emit(sb *strings.Builder, s *sp, ind string) {
	switch s.kind {
	case "act":
		if strings.Contains(s.act, " ") {
			sb.WriteString(ind + "SAct (" + s.act + ")")
		} else {
			sb.WriteString(ind + "SAct " + s.act)
		}
	case "seq", "if", "switch":
		name := "SSeq"
		if s.kind == "if" {
			name = "SIf"
		}
		if s.kind == "switch" {
			name = "SSwitch"
		}
		if len(s.kids) == 0 {
			sb.WriteString(ind + name + " []")
			return
		}
		sb.WriteString(ind + name + " [\n")
		for i, k := range s.kids {
			emit(sb, k, ind+"  ")
			if i+1 < len(s.kids) {
				sb.WriteString(";")
			}
			sb.WriteString("\n")
		}
		sb.WriteString(ind + "]")
	case "loop":
		sb.WriteString(ind + "SLoop (\n")
		emit(sb, s.kids[0], ind+"  ")
		sb.WriteString("\n" + ind + ")")
	}
}

// ---------------------------------------------------------------- walker

type target struct {
	file      string   // source file inside the repo
	typeName  string   // receiver type
	module    string   // Coq file name (without .v)
	prefix    string   // prefix of the Coq definitions
	immutable []string // fields written by the constructor only
	waits     bool     // emit AWait for operations that can wait for a peer or another goroutine
}

type frame struct {
	kind    string // "loop" or "switch"
	hasCont bool
	hasBrk  bool
}

type walker struct {
	recv      *ast.Object
	recvName  string
	lockField string
	tracked   map[string]bool
	immutable map[string]bool
	methods   map[string]bool
	spawned   map[string]bool
	deferred  bool
	frames    []*frame
	// refFields: shared fields of slice or map type; alias: local variables that
	// were assigned such a field (or a reslicing of it) without copying: they
	// name the same backing storage, so every later use of the local is an
	// access to the field
	refFields map[string]bool
	alias     map[*ast.Object]string
	waits     bool
}

// calls that can wait for a peer (or for time to pass): by method / function name
var waitingCalls = map[string]bool{
	"Accept": true, "Read": true, "ReadFull": true, "ReadAtLeast": true, "ReadFrom": true, "Write": true, "WriteTo": true,
	"ReadRequest": true, "WriteResponse": true, "ExecuteRequest": true,
	"Handshake": true, "HandshakeContext": true, "Sleep": true, "Wait": true,
	"Dial": true, "DialTimeout": true, "DialContext": true, "DialWithDialer": true,
}

// waitName: the call x can wait for a peer / another goroutine / the user's handler
func (w *walker) waitName(x *ast.CallExpr) (string, bool) {
	if !w.waits {
		return "", false
	}
	if sel, ok := x.Fun.(*ast.SelectorExpr); ok {
		if f, ok := w.recvField(sel.X); ok && f == "handler" {
			return "handler." + sel.Sel.Name, true
		}
		if waitingCalls[sel.Sel.Name] && !(w.isRecv(sel.X) && w.methods[sel.Sel.Name]) {
			return sel.Sel.Name, true
		}
	}
	return "", false
}

// aliasOf: e evaluates to (a reslicing of) a shared slice / map field, or to a
// local that already aliases one
func (w *walker) aliasOf(e ast.Expr) (string, bool) {
	for {
		switch x := e.(type) {
		case *ast.ParenExpr:
			e = x.X
			continue
		case *ast.SliceExpr:
			e = x.X
			continue
		}
		break
	}
	if f, ok := w.recvField(e); ok && w.refFields[f] {
		return f, true
	}
	if id, ok := e.(*ast.Ident); ok && id.Obj != nil {
		if f, ok := w.alias[id.Obj]; ok {
			return f, true
		}
	}
	return "", false
}

// noteAliases records lhs[i] as an alias when rhs[i] is one
func (w *walker) noteAliases(lhs []ast.Expr, rhs []ast.Expr) {
	if len(lhs) != len(rhs) {
		return
	}
	for i := range lhs {
		id, ok := lhs[i].(*ast.Ident)
		if !ok || id.Obj == nil || id.Name == "_" {
			continue
		}
		if f, ok := w.aliasOf(rhs[i]); ok {
			w.alias[id.Obj] = f
		}
	}
}

// baseIdent peels indexing / slicing / dereferences down to a local identifier
func baseIdent(e ast.Expr) *ast.Ident {
	for {
		switch x := e.(type) {
		case *ast.ParenExpr:
			e = x.X
		case *ast.IndexExpr:
			e = x.X
		case *ast.SliceExpr:
			e = x.X
		case *ast.StarExpr:
			e = x.X
		case *ast.Ident:
			return x
		default:
			return nil
		}
	}
}

func (w *walker) isRecv(e ast.Expr) bool {
	for {
		p, ok := e.(*ast.ParenExpr)
		if !ok {
			break
		}
		e = p.X
	}
	id, ok := e.(*ast.Ident)
	return ok && w.recv != nil && id.Obj == w.recv
}

// recvField returns f when e is the selector recv.f
func (w *walker) recvField(e ast.Expr) (string, bool) {
	for {
		p, ok := e.(*ast.ParenExpr)
		if !ok {
			break
		}
		e = p.X
	}
	sel, ok := e.(*ast.SelectorExpr)
	if ok && w.isRecv(sel.X) {
		return sel.Sel.Name, true
	}
	return "", false
}

func (w *walker) mentionsRecv(n ast.Node) bool {
	found := false
	ast.Inspect(n, func(x ast.Node) bool {
		if id, ok := x.(*ast.Ident); ok && w.recv != nil && id.Obj == w.recv {
			found = true
		}
		return !found
	})
	return found
}

func (w *walker) mentionsLock(n ast.Node) bool {
	found := false
	ast.Inspect(n, func(x ast.Node) bool {
		if e, ok := x.(ast.Expr); ok {
			if f, ok := w.recvField(e); ok && f == w.lockField {
				found = true
			}
		}
		return !found
	})
	return found
}

func (w *walker) exprs(es []ast.Expr) []*sp {
	var out []*sp
	for _, e := range es {
		out = append(out, w.expr(e)...)
	}
	return out
}

// expr returns the actions performed by evaluating e (as a value)
func (w *walker) expr(e ast.Expr) []*sp {
	switch x := e.(type) {
	case nil:
		return nil
	case *ast.BadExpr:
		return []*sp{irregular("unparsable expression")}
	case *ast.Ident:
		if w.isRecv(x) {
			return []*sp{irregular("receiver used as a value")}
		}
		if x.Obj != nil {
			if f, ok := w.alias[x.Obj]; ok {
				return []*sp{act("ARd " + coqStr(f))}
			}
		}
		return nil
	case *ast.BasicLit:
		return nil
	case *ast.ParenExpr:
		return w.expr(x.X)
	case *ast.SelectorExpr:
		if w.isRecv(x.X) {
			f := x.Sel.Name
			switch {
			case f == w.lockField:
				return []*sp{irregular("mutex used other than by Lock() / Unlock()")}
			case w.tracked[f]:
				return []*sp{act("ARd " + coqStr(f))}
			case w.immutable[f]:
				return nil
			case w.methods[f]:
				return []*sp{irregular("method value " + f)}
			default:
				return []*sp{irregular("unknown member " + f)}
			}
		}
		return w.expr(x.X)
	case *ast.CallExpr:
		return w.call(x)
	case *ast.UnaryExpr:
		if x.Op == token.ARROW && w.waits {
			return append(w.expr(x.X), act("AWait "+coqStr("channel receive")))
		}
		if x.Op == token.AND {
			if f, ok := w.baseField(x.X); ok && (w.tracked[f] || f == w.lockField) {
				return []*sp{irregular("address of " + f + " taken")}
			}
		}
		return w.expr(x.X)
	case *ast.BinaryExpr:
		return append(w.expr(x.X), w.expr(x.Y)...)
	case *ast.StarExpr:
		return w.expr(x.X)
	case *ast.IndexExpr:
		return append(w.expr(x.X), w.expr(x.Index)...)
	case *ast.SliceExpr:
		out := w.expr(x.X)
		out = append(out, w.expr(x.Low)...)
		out = append(out, w.expr(x.High)...)
		return append(out, w.expr(x.Max)...)
	case *ast.TypeAssertExpr:
		return w.expr(x.X)
	case *ast.KeyValueExpr:
		var out []*sp
		if _, isId := x.Key.(*ast.Ident); !isId {
			out = w.expr(x.Key)
		} else if w.isRecv(x.Key) {
			out = w.expr(x.Key)
		}
		return append(out, w.expr(x.Value)...)
	case *ast.CompositeLit:
		return w.exprs(x.Elts)
	case *ast.FuncLit:
		if w.mentionsRecv(x) {
			return []*sp{irregular("closure over the receiver")}
		}
		return nil
	case *ast.Ellipsis:
		return w.expr(x.Elt)
	case *ast.ArrayType, *ast.StructType, *ast.FuncType, *ast.InterfaceType, *ast.MapType, *ast.ChanType:
		return nil
	default:
		if w.mentionsRecv(e) {
			return []*sp{irregular(fmt.Sprintf("unhandled expression %T", e))}
		}
		return nil
	}
}

func (w *walker) call(x *ast.CallExpr) []*sp {
	if sel, ok := x.Fun.(*ast.SelectorExpr); ok {
		// mc.lock.M()
		if f, ok := w.recvField(sel.X); ok && f == w.lockField {
			if len(x.Args) == 0 && sel.Sel.Name == "Lock" {
				return []*sp{act("ALock")}
			}
			if len(x.Args) == 0 && sel.Sel.Name == "Unlock" {
				return []*sp{act("AUnlock")}
			}
			return []*sp{irregular("mutex method " + sel.Sel.Name)}
		}
		// mc.transport.M(..)
		if f, ok := w.recvField(sel.X); ok && f == "transport" && w.tracked[f] {
			out := []*sp{act("ARd " + coqStr(f))}
			out = append(out, w.exprs(x.Args)...)
			switch sel.Sel.Name {
			case "ExecuteRequest":
				out = append(out, act("AXchg"))
			case "Close":
				out = append(out, act("ACloseT"))
			}
			return out
		}
		// mc.m(..)
		if w.isRecv(sel.X) && w.methods[sel.Sel.Name] {
			out := w.exprs(x.Args)
			return append(out, act("ACall "+coqStr(sel.Sel.Name)))
		}
	}
	out := w.expr(x.Fun)
	out = append(out, w.exprs(x.Args)...)
	if n, ok := w.waitName(x); ok {
		out = append(out, act("AWait "+coqStr(n)))
	}
	return out
}

// baseField peels selectors / indexing / dereferences down to recv.f
func (w *walker) baseField(e ast.Expr) (string, bool) {
	for {
		if f, ok := w.recvField(e); ok {
			return f, true
		}
		switch x := e.(type) {
		case *ast.ParenExpr:
			e = x.X
		case *ast.SelectorExpr:
			e = x.X
		case *ast.IndexExpr:
			e = x.X
		case *ast.SliceExpr:
			e = x.X
		case *ast.StarExpr:
			e = x.X
		default:
			return "", false
		}
	}
}

// subReads: the operand evaluations inside an assignment target (indices)
func (w *walker) subReads(e ast.Expr) []*sp {
	switch x := e.(type) {
	case *ast.ParenExpr:
		return w.subReads(x.X)
	case *ast.SelectorExpr:
		if w.isRecv(x.X) {
			return nil
		}
		return w.subReads(x.X)
	case *ast.IndexExpr:
		return append(w.subReads(x.X), w.expr(x.Index)...)
	case *ast.StarExpr:
		return w.subReads(x.X)
	}
	return nil
}

// target returns (operand reads, writes) of an assignment target
func (w *walker) target(e ast.Expr) (pre []*sp, wr []*sp) {
	if e == nil {
		return nil, nil
	}
	if id, ok := e.(*ast.Ident); ok {
		if w.isRecv(id) {
			return nil, []*sp{irregular("receiver reassigned")}
		}
		return nil, nil
	}
	if id := baseIdent(e); id != nil && id.Obj != nil {
		if f, ok := w.alias[id.Obj]; ok {
			// an element of the shared backing storage is written through the local name
			return w.subReads(e), []*sp{act("AWr " + coqStr(f))}
		}
	}
	if f, ok := w.baseField(e); ok {
		switch {
		case f == w.lockField:
			return nil, []*sp{irregular("mutex assigned")}
		case w.tracked[f]:
			return w.subReads(e), []*sp{act("AWr " + coqStr(f))}
		case w.immutable[f]:
			return nil, []*sp{irregular("write to " + f + ", assumed to be written by the constructor only")}
		default:
			return nil, []*sp{irregular("write to unknown member " + f)}
		}
	}
	return w.expr(e), nil
}

func (w *walker) innermost() *frame {
	if len(w.frames) == 0 {
		return nil
	}
	return w.frames[len(w.frames)-1]
}

func (w *walker) block(l []ast.Stmt, top bool) *sp {
	var out []*sp
	for _, s := range l {
		out = append(out, w.stmt(s, top))
	}
	return seq(out...)
}

func (w *walker) stmt(s ast.Stmt, top bool) *sp {
	switch x := s.(type) {
	case nil:
		return seq()
	case *ast.BlockStmt:
		return w.block(x.List, false)
	case *ast.EmptyStmt:
		return seq()
	case *ast.ExprStmt:
		return seq(w.expr(x.X)...)
	case *ast.DeclStmt:
		var out []*sp
		if gd, ok := x.Decl.(*ast.GenDecl); ok {
			for _, spec := range gd.Specs {
				if vs, ok := spec.(*ast.ValueSpec); ok {
					out = append(out, w.exprs(vs.Values)...)
					var lhs []ast.Expr
					for _, n := range vs.Names {
						lhs = append(lhs, n)
					}
					w.noteAliases(lhs, vs.Values)
				}
			}
		}
		return seq(out...)
	case *ast.AssignStmt:
		var pre, wr []*sp
		for _, l := range x.Lhs {
			p, q := w.target(l)
			pre = append(pre, p...)
			wr = append(wr, q...)
		}
		out := pre
		if x.Tok != token.ASSIGN && x.Tok != token.DEFINE {
			// op= also reads the target; the write dominates
		}
		out = append(out, w.exprs(x.Rhs)...)
		if x.Tok == token.ASSIGN || x.Tok == token.DEFINE {
			w.noteAliases(x.Lhs, x.Rhs)
		}
		return seq(append(out, wr...)...)
	case *ast.IncDecStmt:
		p, q := w.target(x.X)
		return seq(append(p, q...)...)
	case *ast.SendStmt:
		out := append(w.expr(x.Chan), w.expr(x.Value)...)
		if w.waits {
			out = append(out, act("AWait "+coqStr("channel send")))
		}
		return seq(out...)
	case *ast.ReturnStmt:
		out := w.exprs(x.Results)
		return seq(append(out, act("ARet"))...)
	case *ast.LabeledStmt:
		return seq(irregular("labelled statement "+x.Label.Name), w.stmt(x.Stmt, false))
	case *ast.BranchStmt:
		if x.Label != nil {
			return irregular(x.Tok.String() + " with a label")
		}
		fr := w.innermost()
		switch x.Tok {
		case token.BREAK:
			if fr == nil {
				return irregular("break outside of a loop / switch")
			}
			fr.hasBrk = true
			return act("ABrk")
		case token.CONTINUE:
			// continue goes through enclosing switches to the innermost loop
			var lf *frame
			for i := len(w.frames) - 1; i >= 0 && lf == nil; i-- {
				if w.frames[i].kind == "loop" {
					lf = w.frames[i]
				}
			}
			if lf == nil {
				return irregular("continue outside of a loop")
			}
			lf.hasCont = true
			return act("ACont")
		default:
			return irregular(x.Tok.String() + " statement")
		}
	case *ast.DeferStmt:
		if sel, ok := x.Call.Fun.(*ast.SelectorExpr); ok {
			if f, ok := w.recvField(sel.X); ok && f == w.lockField && sel.Sel.Name == "Unlock" && len(x.Call.Args) == 0 {
				if !top {
					return irregular("defer of Unlock inside a nested block")
				}
				if w.deferred {
					return irregular("second defer of Unlock")
				}
				w.deferred = true
				return seq()
			}
		}
		if w.mentionsRecv(x.Call) {
			return irregular("deferred call involving the receiver")
		}
		return seq()
	case *ast.GoStmt:
		if sel, ok := x.Call.Fun.(*ast.SelectorExpr); ok && w.isRecv(sel.X) && w.methods[sel.Sel.Name] {
			// the arguments are evaluated by the spawning goroutine; the method
			// body runs as a thread of its own (entry point of the table)
			w.spawned[sel.Sel.Name] = true
			return seq(w.exprs(x.Call.Args)...)
		}
		if w.mentionsLock(x.Call) {
			return irregular("goroutine involving the mutex")
		}
		out := w.expr(x.Call.Fun)
		return seq(append(out, w.exprs(x.Call.Args)...)...)
	case *ast.IfStmt:
		out := []*sp{w.stmt(x.Init, false)}
		out = append(out, w.expr(x.Cond)...)
		br := []*sp{w.stmt(x.Body, false)}
		if x.Else != nil {
			br = append(br, w.stmt(x.Else, false))
		} else {
			br = append(br, seq())
		}
		return seq(append(out, &sp{kind: "if", kids: br})...)
	case *ast.SwitchStmt:
		out := []*sp{w.stmt(x.Init, false)}
		out = append(out, w.expr(x.Tag)...)
		return seq(append(out, w.clauses(x.Body)...)...)
	case *ast.TypeSwitchStmt:
		out := []*sp{w.stmt(x.Init, false), w.stmt(x.Assign, false)}
		return seq(append(out, w.clauses(x.Body)...)...)
	case *ast.SelectStmt:
		if w.waits {
			return seq(append([]*sp{act("AWait " + coqStr("select"))}, w.clauses(x.Body)...)...)
		}
		return seq(w.clauses(x.Body)...)
	case *ast.ForStmt:
		init := w.stmt(x.Init, false)
		cond := seq(w.expr(x.Cond)...)
		w.frames = append(w.frames, &frame{kind: "loop"})
		body := w.stmt(x.Body, false)
		fr := w.innermost()
		w.frames = w.frames[:len(w.frames)-1]
		post := w.stmt(x.Post, false)
		if fr.hasCont && !post.empty() {
			post = seq(irregular("continue in a loop whose post statement has tracked actions"), post)
		}
		return seq(init, &sp{kind: "loop", kids: []*sp{seq(cond, body, post)}}, cond)
	case *ast.RangeStmt:
		out := w.expr(x.X)
		p1, q1 := w.target(x.Key)
		p2, q2 := w.target(x.Value)
		if x.Tok == token.DEFINE {
			p1, q1, p2, q2 = nil, nil, nil, nil
		}
		head := append(append(append(p1, p2...), q1...), q2...)
		if f, ok := w.aliasOf(x.X); ok {
			// the elements of the shared storage are read at every iteration
			head = append([]*sp{act("ARd " + coqStr(f))}, head...)
		}
		w.frames = append(w.frames, &frame{kind: "loop"})
		body := w.stmt(x.Body, false)
		w.frames = w.frames[:len(w.frames)-1]
		return seq(append(out, &sp{kind: "loop", kids: []*sp{seq(seq(head...), body)}})...)
	default:
		if w.mentionsRecv(s) {
			return irregular(fmt.Sprintf("unhandled statement %T", s))
		}
		return seq()
	}
}

// clauses: the case / comm clauses of a switch or select: all case
// expressions are evaluated (over-approximation), then one body is chosen
func (w *walker) clauses(body *ast.BlockStmt) []*sp {
	var heads []*sp
	var br []*sp
	hasDefault := false
	w.frames = append(w.frames, &frame{kind: "switch"})
	for _, c := range body.List {
		switch cc := c.(type) {
		case *ast.CaseClause:
			if cc.List == nil {
				hasDefault = true
			}
			heads = append(heads, w.exprs(cc.List)...)
			br = append(br, w.block(cc.Body, false))
		case *ast.CommClause:
			if cc.Comm == nil {
				hasDefault = true
			}
			br = append(br, seq(w.stmt(cc.Comm, false), w.block(cc.Body, false)))
		}
	}
	fr := w.innermost()
	w.frames = w.frames[:len(w.frames)-1]
	if !hasDefault {
		br = append(br, seq())
	}
	kind := "if"
	if fr.hasBrk {
		kind = "switch"
	}
	return append(heads, &sp{kind: kind, kids: br})
}

// ---------------------------------------------------------------- per type

type method struct {
	name     string
	deferred bool
	body     *sp
}

func isMutexType(e ast.Expr) bool {
	sel, ok := e.(*ast.SelectorExpr)
	if !ok {
		return false
	}
	id, ok := sel.X.(*ast.Ident)
	return ok && id.Name == "sync" && (sel.Sel.Name == "Mutex" || sel.Sel.Name == "RWMutex")
}

func recvTypeName(fd *ast.FuncDecl) string {
	if fd.Recv == nil || len(fd.Recv.List) != 1 {
		return ""
	}
	t := fd.Recv.List[0].Type
	if st, ok := t.(*ast.StarExpr); ok {
		t = st.X
	}
	if id, ok := t.(*ast.Ident); ok {
		return id.Name
	}
	return ""
}

func extract(repo string, tg target) (string, error) {
	fset := token.NewFileSet()
	f, err := parser.ParseFile(fset, filepath.Join(repo, tg.file), nil, 0)
	if err != nil {
		return "", err
	}
	var problems []string
	// the struct
	var fields []string
	refFields := map[string]bool{}
	lockField := ""
	found := false
	ast.Inspect(f, func(n ast.Node) bool {
		ts, ok := n.(*ast.TypeSpec)
		if !ok || ts.Name.Name != tg.typeName {
			return true
		}
		st, ok := ts.Type.(*ast.StructType)
		if !ok {
			return true
		}
		found = true
		for _, fl := range st.Fields.List {
			if len(fl.Names) == 0 {
				problems = append(problems, "embedded field in "+tg.typeName)
			}
			for _, nm := range fl.Names {
				if isMutexType(fl.Type) {
					if lockField != "" {
						problems = append(problems, "more than one mutex in "+tg.typeName)
					}
					if sel := fl.Type.(*ast.SelectorExpr); sel.Sel.Name != "Mutex" {
						problems = append(problems, "mutex of type sync."+sel.Sel.Name)
					}
					lockField = nm.Name
				} else {
					fields = append(fields, nm.Name)
					switch t := fl.Type.(type) {
					case *ast.ArrayType:
						if t.Len == nil {
							refFields[nm.Name] = true
						}
					case *ast.MapType:
						refFields[nm.Name] = true
					}
				}
			}
		}
		return false
	})
	if !found {
		problems = append(problems, "type "+tg.typeName+" not found")
	}
	if lockField == "" {
		problems = append(problems, "no sync.Mutex field in "+tg.typeName)
		lockField = "lock"
	}
	immutable := map[string]bool{}
	for _, n := range tg.immutable {
		immutable[n] = true
	}
	tracked := map[string]bool{}
	var trackedList []string
	for _, n := range fields {
		if !immutable[n] {
			tracked[n] = true
			trackedList = append(trackedList, n)
		}
	}
	// the methods
	var decls []*ast.FuncDecl
	methods := map[string]bool{}
	for _, d := range f.Decls {
		if fd, ok := d.(*ast.FuncDecl); ok && recvTypeName(fd) == tg.typeName {
			decls = append(decls, fd)
			methods[fd.Name.Name] = true
		}
	}
	spawned := map[string]bool{}
	var ms []method
	for _, fd := range decls {
		w := &walker{lockField: lockField, tracked: tracked, immutable: immutable, methods: methods, spawned: spawned,
			refFields: refFields, alias: map[*ast.Object]string{}, waits: tg.waits}
		if names := fd.Recv.List[0].Names; len(names) == 1 {
			w.recv = names[0].Obj
			w.recvName = names[0].Name
		}
		var body *sp
		switch {
		case fd.Body == nil:
			body = irregular("method without a body")
		case w.recv == nil:
			body = irregular("anonymous receiver")
		default:
			body = w.block(fd.Body.List, true)
		}
		if _, isPtr := fd.Recv.List[0].Type.(*ast.StarExpr); !isPtr {
			body = seq(irregular("value receiver: the mutex is copied"), body)
		}
		ms = append(ms, method{name: fd.Name.Name, deferred: w.deferred, body: simplify(body)})
	}
	// functions of the file that are not methods must not touch the mutex of
	// a value of this type through another name: report any `.lock.` use there
	for _, d := range f.Decls {
		fd, ok := d.(*ast.FuncDecl)
		if !ok || recvTypeName(fd) == tg.typeName || fd.Body == nil {
			continue
		}
		ast.Inspect(fd.Body, func(n ast.Node) bool {
			if sel, ok := n.(*ast.SelectorExpr); ok && sel.Sel.Name == lockField {
				if inner, ok := sel.X.(*ast.Ident); ok && inner.Obj != nil {
					if fld, ok := inner.Obj.Decl.(*ast.Field); ok {
						t := fld.Type
						if st, ok := t.(*ast.StarExpr); ok {
							t = st.X
						}
						if id, ok := t.(*ast.Ident); ok && id.Name == tg.typeName {
							problems = append(problems, "mutex used in function "+fd.Name.Name)
						}
					}
				}
			}
			return true
		})
	}
	var entries []string
	for _, m := range ms {
		if ast.IsExported(m.name) || spawned[m.name] {
			entries = append(entries, m.name)
		}
	}
	sort.Strings(problems)

	var sb strings.Builder
	fmt.Fprintf(&sb, "(* GENERATED by harness/cmd/locksum from %s (type %s): do not edit.\n", tg.file, tg.typeName)
	fmt.Fprintf(&sb, "   Lock skeleton of every method: see Model/Conc.v for the action language.\n")
	fmt.Fprintf(&sb, "   mutex field: %s; shared fields: %s; constructor-only fields: %s *)\n",
		lockField, strings.Join(trackedList, ", "), strings.Join(tg.immutable, ", "))
	sb.WriteString("From Coq Require Import List String.\nImport ListNotations.\nFrom Modbus Require Import Model.Conc.\nLocal Open Scope string_scope.\n\n")
	fmt.Fprintf(&sb, "Definition %s_fields : list string := [%s].\n\n", tg.prefix, joinStrs(trackedList))
	fmt.Fprintf(&sb, "Definition %s_programs : ctable := [\n", tg.prefix)
	all := ms
	if len(problems) > 0 {
		var ps []*sp
		for _, p := range problems {
			ps = append(ps, irregular(p))
		}
		all = append([]method{{name: "(extractor)", body: seq(ps...)}}, all...)
	}
	for i, m := range all {
		fmt.Fprintf(&sb, "  mk_cmethod %s %v (\n", coqStr(m.name), m.deferred)
		emit(&sb, m.body, "    ")
		sb.WriteString(")")
		if i+1 < len(all) {
			sb.WriteString(";")
		}
		sb.WriteString("\n")
	}
	sb.WriteString("].\n\n")
	fmt.Fprintf(&sb, "(* thread entry points: exported methods and methods started with `go` *)\n")
	fmt.Fprintf(&sb, "Definition %s_entries : list string := [%s].\n", tg.prefix, joinStrs(entries))
	return sb.String(), nil
}

func joinStrs(l []string) string {
	q := make([]string, len(l))
	for i, s := range l {
		q[i] = coqStr(s)
	}
	return strings.Join(q, "; ")
}

func main() {
	var repo, out string
	flag.StringVar(&repo, "repo", "/repo", "path of the library source tree")
	flag.StringVar(&out, "out", "", "output directory (coq/theories/Gen)")
	flag.Parse()
	if out == "" {
		fmt.Fprintln(os.Stderr, "usage: locksum -repo DIR -out DIR")
		os.Exit(2)
	}
	targets := []target{
		{file: "client.go", typeName: "ModbusClient", module: "ClientLocks", prefix: "client",
			immutable: []string{"conf", "logger", "transportType"}},
		{file: "server.go", typeName: "ModbusServer", module: "ServerLocks", prefix: "server",
			immutable: []string{"conf", "logger", "transportType", "handler"}, waits: true},
	}
	if err := os.MkdirAll(out, 0755); err != nil {
		fmt.Fprintln(os.Stderr, err)
		os.Exit(1)
	}
	for _, tg := range targets {
		txt, err := extract(repo, tg)
		if err != nil {
			fmt.Fprintln(os.Stderr, "locksum:", err)
			os.Exit(1)
		}
		path := filepath.Join(out, tg.module+".v")
		old, err := os.ReadFile(path)
		if err == nil && string(old) == txt {
			continue
		}
		if err := os.WriteFile(path, []byte(txt), 0644); err != nil {
			fmt.Fprintln(os.Stderr, err)
			os.Exit(1)
		}
		fmt.Fprintln(os.Stderr, "locksum: wrote", path)
	}
}
