// raceprobe: two goroutines use one client: SetEncoding || ReadRegisters /
// WriteUint32 / ReadBytes / WriteBytes. Run under -race.
package main

import (
	"fmt"
	"io"
	"log"
	"sync"
	"time"

	"github.com/simonvetter/modbus"
	"verifharness/internal/sconn"
)

func main() {
	c := sconn.New(true)
	// the fake device answers every request: ReadRegisters(0,1) -> one register, writes -> echo
	c.OnWrite = func(c *sconn.Conn, b []byte) {
		if len(b) < 8 {
			return
		}
		switch b[7] {
		case 3:
			c.Feed([]byte{b[0], b[1], 0, 0, 0, 5, b[6], 3, 2, 0x12, 0x34})
		case 16:
			c.Feed([]byte{b[0], b[1], 0, 0, 0, 6, b[6], 16, b[8], b[9], b[10], b[11]})
		}
	}
	mc, err := modbus.VerifNewClientOnConn(&modbus.ClientConfiguration{URL: "tcp://x", Timeout: time.Second,
		Logger: log.New(io.Discard, "", 0)}, c)
	if err != nil {
		panic(err)
	}
	var wg sync.WaitGroup
	wg.Add(2)
	go func() {
		defer wg.Done()
		for i := 0; i < 300; i++ {
			mc.SetEncoding(modbus.Endianness(1+i%2), modbus.WordOrder(1+(i/2)%2))
		}
	}()
	go func() {
		defer wg.Done()
		for i := 0; i < 100; i++ {
			mc.ReadRegisters(0, 1, modbus.HOLDING_REGISTER)
			mc.WriteUint32(0, 0x11223344)
			mc.ReadBytes(0, 2, modbus.HOLDING_REGISTER)
			mc.WriteBytes(0, []byte{1, 2})
		}
	}()
	wg.Wait()
	fmt.Println("done")
}
