// racepairs runs every unordered pair of public ModbusClient methods (the 30
// request methods, SetUnitId, SetEncoding, Close) concurrently on one client
// attached to a scripted connection. Meant to be built with
//
//	go build -race -tags verif ./cmd/racepairs
//
// and run with GORACE=halt_on_error=1: the race detector then stops the
// process at the first report; the last "PAIR a b" line names the pair.
package main

import (
	"flag"
	"fmt"
	"os"
	"strings"

	"verifharness/internal/concdrv"
)

func main() {
	var iters int
	var pair string
	var seed uint64
	flag.IntVar(&iters, "iters", 30, "iterations per pair")
	flag.StringVar(&pair, "pair", "", "run only this pair: A,B")
	flag.Uint64Var(&seed, "seed", 1, "jitter seed")
	flag.Parse()

	calls := append(concdrv.Calls(), "Close")
	var pairs [][2]string
	if pair != "" {
		ab := strings.Split(pair, ",")
		if len(ab) != 2 {
			fmt.Fprintln(os.Stderr, "bad -pair")
			os.Exit(2)
		}
		pairs = append(pairs, [2]string{ab[0], ab[1]})
	} else {
		for i := range calls {
			for j := i; j < len(calls); j++ {
				pairs = append(pairs, [2]string{calls[i], calls[j]})
			}
		}
	}
	bad := 0
	for n, p := range pairs {
		fmt.Printf("PAIR %s %s\n", p[0], p[1])
		r := concdrv.Run([][]string{{p[0]}, {p[1]}}, iters, seed+uint64(n)*7919)
		if r != "ok" {
			fmt.Printf("ANOMALY %s %s %s\n", p[0], p[1], r)
			bad++
		}
	}
	fmt.Printf("DONE pairs=%d anomalies=%d\n", len(pairs), bad)
	if bad > 0 {
		os.Exit(3)
	}
}
