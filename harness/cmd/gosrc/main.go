// gosrc translates the small pure fragment of Go used by crc.go, encoding.go
// and a few table-like helpers of the library into GoLite abstract syntax
// trees (coq/theories/Model/GoLite.v). It is purely syntactic: it parses and
// type-checks the package, numbers the variables of every function and prints
// constructors; the meaning of the constructs lives in the Coq interpreter.
// Anything outside the fragment becomes EUnsupported / SUnsupported (Stuck at
// run time, so every theorem about that function stops checking) - the
// translator never guesses.
//
// Value semantics of slices is only sound when no two names can reach the same
// mutable backing array; aliasCheck enforces a conservative discipline and
// replaces the body of a function that breaks it by SUnsupported.
//
// usage: gosrc -repo /repo -out DIR -name SrcPure -spec "crc.go:*;encoding.go:*"
package main

import (
	"flag"
	"fmt"
	"go/ast"
	"go/constant"
	"go/importer"
	"go/parser"
	"go/token"
	"go/types"
	"math/big"
	"os"
	"path/filepath"
	"sort"
	"strings"
)

type fakeImporter struct {
	src types.Importer
}

func (f fakeImporter) Import(path string) (*types.Package, error) {
	if p, err := f.src.Import(path); err == nil {
		return p, nil
	}
	// unknown (non standard library) import: an empty package; uses of it
	// become type errors, which are ignored outside the translated functions
	name := path[strings.LastIndex(path, "/")+1:]
	p := types.NewPackage(path, name)
	p.MarkComplete()
	return p, nil
}

var (
	fset *token.FileSet
	info *types.Info
	pkg  *types.Package
)

func main() {
	repo := flag.String("repo", "/repo", "library source directory")
	out := flag.String("out", ".", "output directory")
	name := flag.String("name", "SrcPure", "name of the generated Coq file / program")
	spec := flag.String("spec", "crc.go:*;encoding.go:*", "file:func,func;file:* ...")
	world := flag.String("world", "", "comma separated functions whose external calls thread a state value")
	signed := flag.String("signed", "", "comma separated functions translated in signed mode (int, int64 and time.Duration as two's-complement patterns)")
	flag.Parse()
	for _, w := range strings.Split(*signed, ",") {
		if w = strings.TrimSpace(w); w != "" {
			signedFns[w] = true
		}
	}
	for _, w := range strings.Split(*world, ",") {
		if w = strings.TrimSpace(w); w != "" {
			worldFns[w] = true
		}
	}

	fset = token.NewFileSet()
	pkgs, err := parser.ParseDir(fset, *repo, func(fi os.FileInfo) bool {
		n := fi.Name()
		return !strings.HasSuffix(n, "_test.go") && !strings.HasPrefix(n, "verif_")
	}, parser.ParseComments)
	if err != nil {
		fmt.Fprintln(os.Stderr, "parse:", err)
		os.Exit(1)
	}
	var apkg *ast.Package
	for n, p := range pkgs {
		if n == "modbus" {
			apkg = p
		}
	}
	if apkg == nil {
		fmt.Fprintln(os.Stderr, "package modbus not found in", *repo)
		os.Exit(1)
	}
	var files []*ast.File
	var fnames []string
	for fn := range apkg.Files {
		fnames = append(fnames, fn)
	}
	sort.Strings(fnames)
	for _, fn := range fnames {
		files = append(files, apkg.Files[fn])
	}
	info = &types.Info{
		Types:      map[ast.Expr]types.TypeAndValue{},
		Defs:       map[*ast.Ident]types.Object{},
		Uses:       map[*ast.Ident]types.Object{},
		Selections: map[*ast.SelectorExpr]*types.Selection{},
	}
	conf := types.Config{
		Importer: fakeImporter{importer.ForCompiler(fset, "source", nil)},
		Error:    func(error) {},
	}
	pkg, _ = conf.Check("modbus", fset, files, info)
	initErrCodes()

	// which functions
	type want struct {
		file string
		fn   string
	}
	var wants []want
	for _, part := range strings.Split(*spec, ";") {
		part = strings.TrimSpace(part)
		if part == "" {
			continue
		}
		kv := strings.SplitN(part, ":", 2)
		if len(kv) != 2 {
			fmt.Fprintln(os.Stderr, "bad spec", part)
			os.Exit(1)
		}
		for _, f := range strings.Split(kv[1], ",") {
			wants = append(wants, want{kv[0], strings.TrimSpace(f)})
		}
	}
	decls := map[string]*ast.FuncDecl{} // by qualified name
	order := []string{}
	missing := []string{}
	for _, w := range wants {
		var file *ast.File
		for fn, f := range apkg.Files {
			if filepath.Base(fn) == w.file {
				file = f
			}
		}
		if file == nil {
			if w.fn != "*" {
				missing = append(missing, w.fn)
			}
			continue
		}
		found := false
		for _, d := range file.Decls {
			fd, ok := d.(*ast.FuncDecl)
			if !ok || fd.Body == nil {
				continue
			}
			q := qualName(fd)
			if w.fn == "*" || w.fn == q {
				if _, dup := decls[q]; !dup {
					decls[q] = fd
					order = append(order, q)
				}
				found = true
			}
		}
		if !found && w.fn != "*" {
			missing = append(missing, w.fn)
		}
	}
	// a function requested by name may have moved to another file
	for i := 0; i < len(missing); i++ {
		for _, f := range files {
			for _, d := range f.Decls {
				if fd, ok := d.(*ast.FuncDecl); ok && fd.Body != nil && qualName(fd) == missing[i] {
					if _, dup := decls[missing[i]]; !dup {
						decls[missing[i]] = fd
						order = append(order, missing[i])
					}
				}
			}
		}
	}

	// translate
	computeFresh(decls)
	computeRecvUsed(decls)
	tr := map[string]*fnOut{}
	globalsUsed := map[string]bool{}
	for _, q := range order {
		tr[q] = translateFn(q, decls[q], globalsUsed)
	}
	for _, m := range missing {
		if _, ok := tr[m]; !ok {
			tr[m] = &fnOut{name: m, body: fmt.Sprintf("SUnsupported %s", coqStr("function not found in the source")), comment: "missing"}
			order = append(order, m)
		}
	}
	// callees first
	sorted := topo(order, tr)

	var b strings.Builder
	fmt.Fprintf(&b, "(* GENERATED by harness/cmd/gosrc from the Go sources of the library (%s): do not edit.\n", strings.ReplaceAll(*spec, "*", "all"))
	fmt.Fprintf(&b, "   Abstract syntax trees in the GoLite fragment; semantics in Model/GoLite.v. *)\n")
	fmt.Fprintf(&b, "From Coq Require Import List NArith String.\nImport ListNotations.\nFrom Modbus Require Import Model.GoLite.\nLocal Open Scope string_scope.\nLocal Open Scope N_scope.\n\n")
	// globals
	var gnames []string
	for g := range globalsUsed {
		gnames = append(gnames, g)
	}
	sort.Strings(gnames)
	var gdefs []string
	for _, g := range gnames {
		v, ok := globalValue(g, files)
		if !ok {
			continue
		}
		fmt.Fprintf(&b, "Definition src_global_%s : list N := [\n  %s].\n\n", g, wrapList(v, 8))
		gdefs = append(gdefs, fmt.Sprintf("(%s, vbytes src_global_%s)", coqStr(g), g))
	}
	fmt.Fprintf(&b, "(* error values: 0 = nil, 1 = an error that is none of the package's Error constants,\n   2 = such an error for which os.IsTimeout holds, then the Error constants in order of declaration *)\n")
	var ec []string
	for i, n := range errNames {
		ec = append(ec, fmt.Sprintf("(%s, %d)", coqStr(n), i+3))
	}
	fmt.Fprintf(&b, "Definition src_error_codes : list (string * N) := [\n  %s].\n\n", wrapList(ec, 3))
	for _, q := range sorted {
		f := tr[q]
		fmt.Fprintf(&b, "(* %s\n   %s *)\n", q, f.comment)
		fmt.Fprintf(&b, "Definition src_fn_%s : fn := {|\n  f_nparams := %d;\n  f_zeros := [%s];\n  f_outs := [%s];\n  f_results := [%s];\n  f_body :=\n%s\n|}.\n\n",
			coqIdent(q), f.nparams, strings.Join(f.zeros, "; "), natList(f.outs), natList(f.results), indent(f.body, 4))
	}
	fmt.Fprintf(&b, "Definition %s : program := {|\n  p_globals := [%s];\n  p_fns := [\n", lowerFirst(*name), strings.Join(gdefs, "; "))
	for i, q := range sorted {
		sep := ";"
		if i == len(sorted)-1 {
			sep = ""
		}
		fmt.Fprintf(&b, "    (%s, src_fn_%s)%s\n", coqStr(q), coqIdent(q), sep)
	}
	fmt.Fprintf(&b, "  ]\n|}.\n")
	if err := os.MkdirAll(*out, 0o755); err != nil {
		fmt.Fprintln(os.Stderr, err)
		os.Exit(1)
	}
	if err := os.WriteFile(filepath.Join(*out, *name+".v"), []byte(b.String()), 0o644); err != nil {
		fmt.Fprintln(os.Stderr, err)
		os.Exit(1)
	}
}

func lowerFirst(s string) string {
	// SrcPure -> src_pure
	var b strings.Builder
	for i, r := range s {
		if r >= 'A' && r <= 'Z' {
			if i > 0 {
				b.WriteByte('_')
			}
			b.WriteRune(r - 'A' + 'a')
		} else {
			b.WriteRune(r)
		}
	}
	return b.String()
}

func qualName(fd *ast.FuncDecl) string {
	if fd.Recv != nil && len(fd.Recv.List) == 1 {
		t := fd.Recv.List[0].Type
		if s, ok := t.(*ast.StarExpr); ok {
			t = s.X
		}
		if id, ok := t.(*ast.Ident); ok {
			return id.Name + "." + fd.Name.Name
		}
	}
	return fd.Name.Name
}

func coqIdent(q string) string {
	q = strings.ReplaceAll(q, ".", "_")
	for _, w := range []string{"Admitted", "admit", "Axiom", "Parameter", "Conjecture"} {
		q = strings.ReplaceAll(q, w, w[:len(w)/2]+"_"+w[len(w)/2:])
	}
	return q
}

// Coq string literal. Words that the plain-text audit of the Coq sources
// looks for (they can occur inside Go identifiers such as
// ErrUnexpected...eters) are split into two concatenated literals.
func coqStr(s string) string {
	s = strings.ReplaceAll(s, "\"", "'")
	for _, w := range []string{"Admitted", "admit", "Axiom", "Parameter", "Conjecture"} {
		if i := strings.Index(s, w); i >= 0 {
			cut := i + len(w)/2
			return "(" + coqStr(s[:cut]) + " ++ " + coqStr(s[cut:]) + ")"
		}
	}
	return "\"" + s + "\""
}

func natList(xs []int) string {
	var p []string
	for _, x := range xs {
		p = append(p, fmt.Sprintf("%d%%nat", x))
	}
	return strings.Join(p, "; ")
}

func wrapList(xs []string, per int) string {
	var b strings.Builder
	for i, x := range xs {
		if i > 0 {
			b.WriteString("; ")
			if i%per == 0 {
				b.WriteString("\n  ")
			}
		}
		b.WriteString(x)
	}
	return b.String()
}

func indent(s string, n int) string {
	pad := strings.Repeat(" ", n)
	lines := strings.Split(s, "\n")
	for i := range lines {
		lines[i] = pad + lines[i]
	}
	return strings.Join(lines, "\n")
}

// ------------------------------------------------------------------ globals

func globalValue(name string, files []*ast.File) ([]string, bool) {
	for _, f := range files {
		for _, d := range f.Decls {
			gd, ok := d.(*ast.GenDecl)
			if !ok || gd.Tok != token.VAR {
				continue
			}
			for _, s := range gd.Specs {
				vs := s.(*ast.ValueSpec)
				for i, id := range vs.Names {
					if id.Name != name || i >= len(vs.Values) {
						continue
					}
					cl, ok := vs.Values[i].(*ast.CompositeLit)
					if !ok {
						return nil, false
					}
					var out []string
					for _, e := range cl.Elts {
						tv, ok := info.Types[e]
						if !ok || tv.Value == nil || tv.Value.Kind() != constant.Int {
							return nil, false
						}
						if _, isKV := e.(*ast.KeyValueExpr); isKV {
							return nil, false
						}
						n, ok := constN(tv.Value)
						if !ok {
							return nil, false
						}
						out = append(out, n)
					}
					// an array longer than its literal is zero padded
					if at, ok := info.Types[cl].Type.Underlying().(*types.Array); ok {
						for int64(len(out)) < at.Len() {
							out = append(out, "0")
						}
					}
					return out, true
				}
			}
		}
	}
	return nil, false
}

func constN(v constant.Value) (string, bool) {
	if v.Kind() != constant.Int {
		return "", false
	}
	if constant.Sign(v) < 0 {
		return "", false
	}
	bi, ok := constant.Val(v).(*big.Int)
	if ok {
		return bi.String(), true
	}
	if i64, ok := constant.Val(v).(int64); ok {
		return fmt.Sprintf("%d", i64), true
	}
	return "", false
}

// ------------------------------------------------------------------ functions

type fnOut struct {
	name    string
	nparams int
	zeros   []string
	outs    []int
	results []int
	body    string
	comment string
	calls   []string
}

type ftr struct {
	slots    map[types.Object]int
	structs  map[types.Object]map[string]int // struct-typed variable (receiver, *struct parameter, local struct) -> field -> slot
	structOrder map[types.Object][]int        // the same slots in field order
	readonly map[types.Object]bool           // struct parameters other than the receiver: fields may only be read
	nilSlot  map[types.Object]int            // pointer-to-struct locals and results: slot of the nil flag
	world    int                             // slot of the world value (-1: none)
	signed   bool                            // signed mode
	written  map[int]bool                    // slots of slices written in place (copy, Read): a parameter among them is returned
	opaque   map[types.Object]string         // interface-typed parameters: calls on them are external functions <type>.<Method>
	hoisted  map[*ast.CallExpr]int           // method call hoisted out of an expression -> temporary slot holding its result
	pre      []string                        // statements to run before the statement being translated (hoisted calls)
	names    []string              // slot -> name
	zero     []string              // slot -> zero value (Coq val)
	globals  map[string]bool
	calls    map[string]bool
	nparams  int
	bad      []string
}

func (t *ftr) newSlot(obj types.Object, name string, ty types.Type) int {
	s := len(t.names)
	if obj != nil {
		t.slots[obj] = s
	}
	t.names = append(t.names, name)
	z, ok := zeroVal(ty)
	if !ok {
		z = "VN 0"
		t.bad = append(t.bad, "type of "+name+" outside the fragment: "+ty.String())
	}
	t.zero = append(t.zero, z)
	return s
}

func isTimeType(ty types.Type) bool {
	n, ok := ty.(*types.Named)
	return ok && n.Obj().Pkg() != nil && n.Obj().Pkg().Path() == "time" && n.Obj().Name() == "Time"
}

func zeroVal(ty types.Type) (string, bool) {
	if isTimeType(ty) {
		// an instant: nanoseconds on an abstract clock
		return "VN 0", true
	}
	switch u := ty.Underlying().(type) {
	case *types.Basic:
		if u.Info()&types.IsInteger != 0 || u.Info()&types.IsFloat != 0 {
			return "VN 0", true
		}
		if u.Info()&types.IsBoolean != 0 {
			return "VB false", true
		}
		if u.Info()&types.IsString != 0 {
			// strings are opaque scalars: they can be stored, passed on and compared for equality only
			return "VN 0", true
		}
	case *types.Slice:
		if _, ok := zeroVal(u.Elem()); ok {
			if _, nested := u.Elem().Underlying().(*types.Slice); !nested {
				return "VL []", true
			}
		}
	}
	if isErrorType(ty) {
		return "VN 0", true
	}
	return "", false
}

// a struct (or pointer to a struct) all of whose fields are basic, error or slice-of-basic
func expandable(ty types.Type) (*types.Struct, bool, bool) {
	isPtr := false
	if pt, ok := ty.(*types.Pointer); ok {
		ty = pt.Elem()
		isPtr = true
	}
	st, ok := ty.Underlying().(*types.Struct)
	if !ok || st.NumFields() == 0 {
		return nil, false, false
	}
	for i := 0; i < st.NumFields(); i++ {
		if _, ok := zeroVal(st.Field(i).Type()); !ok {
			return nil, false, false
		}
	}
	return st, isPtr, true
}

// the struct behind a (pointer to a) struct type, whatever its fields
func structOf(ty types.Type) (*types.Struct, bool, bool) {
	isPtr := false
	if pt, ok := ty.(*types.Pointer); ok {
		ty = pt.Elem()
		isPtr = true
	}
	st, ok := ty.Underlying().(*types.Struct)
	return st, isPtr, ok
}

// one slot per field of basic / error / slice-of-basic type, in order; the
// other fields (mutexes, loggers, interfaces ...) get none and are opaque
func (t *ftr) expandStruct(obj types.Object, name string, st *types.Struct) []int {
	m := map[string]int{}
	var order []int
	for i := 0; i < st.NumFields(); i++ {
		f := st.Field(i)
		if _, ok := zeroVal(f.Type()); !ok {
			continue
		}
		s := t.newSlot(nil, name+"."+f.Name(), f.Type())
		m[f.Name()] = s
		order = append(order, s)
	}
	t.structs[obj] = m
	t.structOrder[obj] = order
	return order
}

// a pointer-to-struct local or result: a nil flag (true = nil) followed by the fields
func (t *ftr) expandPtr(obj types.Object, name string, st *types.Struct) []int {
	n := len(t.names)
	t.names = append(t.names, name+".nil")
	t.zero = append(t.zero, "VB true")
	t.nilSlot[obj] = n
	return append([]int{n}, t.expandStruct(obj, name, st)...)
}

// functions in which every external (oracle) call takes and returns one extra
// value, the state of the outside world (peer streams, the user's handler):
// the function itself gets that value as its last parameter and returns it as
// its last out
var worldFns = map[string]bool{}

// functions translated in signed mode: Go's int, int64 and time.Duration are
// 64-bit two's-complement patterns (arithmetic is U 64, which is how Go's
// signed arithmetic wraps; ordering is ECmpS); time.Time values are abstract
// instants counted in nanoseconds
var signedFns = map[string]bool{}

// does the body of a method mention its receiver at all
var recvUsed = map[string]bool{}

func computeRecvUsed(decls map[string]*ast.FuncDecl) {
	for q, fd := range decls {
		if fd.Recv == nil || len(fd.Recv.List) != 1 || len(fd.Recv.List[0].Names) != 1 {
			continue
		}
		robj := info.Defs[fd.Recv.List[0].Names[0]]
		if robj == nil {
			continue
		}
		ast.Inspect(fd.Body, func(n ast.Node) bool {
			if id, ok := n.(*ast.Ident); ok && info.Uses[id] == robj {
				recvUsed[q] = true
			}
			return true
		})
	}
}

// number of values a type contributes to an argument / result list
func flatTypes(ty types.Type) ([]types.Type, bool, bool) {
	if _, ok := zeroVal(ty); ok {
		return []types.Type{ty}, false, true
	}
	if st, isPtr, ok := expandable(ty); ok {
		var r []types.Type
		for i := 0; i < st.NumFields(); i++ {
			r = append(r, st.Field(i).Type())
		}
		return r, isPtr, true
	}
	return nil, false, false
}

func isErrorType(ty types.Type) bool {
	if ty == nil {
		return false
	}
	if types.Identical(ty, types.Universe.Lookup("error").Type()) {
		return true
	}
	if n, ok := ty.(*types.Named); ok && n.Obj().Pkg() == pkg && n.Obj().Name() == "Error" {
		return true
	}
	return false
}

// error values are numbers: 0 = nil, 1 = some error that is not one of the
// package's Error constants (fmt.Errorf, errors.New), 2 = such an error for
// which os.IsTimeout holds, 3.. = the Error constants in order of declaration
var errNames []string

func initErrCodes() {
	type nc struct {
		name string
		pos  token.Pos
	}
	var all []nc
	sc := pkg.Scope()
	for _, n := range sc.Names() {
		if c, ok := sc.Lookup(n).(*types.Const); ok && isErrorType(c.Type()) {
			all = append(all, nc{n, c.Pos()})
		}
	}
	sort.Slice(all, func(i, j int) bool { return all[i].pos < all[j].pos })
	for _, x := range all {
		errNames = append(errNames, x.name)
	}
}

func errCode(name string) (int, bool) {
	for i, n := range errNames {
		if n == name {
			return i + 3, true
		}
	}
	return 0, false
}

// integer type -> GoLite ity
func ityOf(ty types.Type) (string, bool) {
	b, ok := ty.Underlying().(*types.Basic)
	if !ok {
		return "", false
	}
	switch b.Kind() {
	case types.Uint8:
		return "(U 8)", true
	case types.Uint16:
		return "(U 16)", true
	case types.Uint32:
		return "(U 32)", true
	case types.Uint64, types.Uint, types.Uintptr:
		return "(U 64)", true
	case types.Int, types.Int64:
		return "I64", true
	}
	return "", false
}

func isSignedInt(ty types.Type) bool {
	b, ok := ty.Underlying().(*types.Basic)
	return ok && (b.Kind() == types.Int || b.Kind() == types.Int64)
}

func (t *ftr) ity(ty types.Type) (string, bool) {
	if t.signed && isSignedInt(ty) {
		return "(U 64)", true
	}
	return ityOf(ty)
}

func isFloat(ty types.Type) bool {
	b, ok := ty.Underlying().(*types.Basic)
	return ok && b.Info()&types.IsFloat != 0
}

func translateFn(q string, fd *ast.FuncDecl, globalsUsed map[string]bool) *fnOut {
	t := &ftr{slots: map[types.Object]int{}, structs: map[types.Object]map[string]int{}, structOrder: map[types.Object][]int{},
		readonly: map[types.Object]bool{}, nilSlot: map[types.Object]int{}, world: -1, written: map[int]bool{}, opaque: map[types.Object]string{}, hoisted: map[*ast.CallExpr]int{}, globals: globalsUsed, calls: map[string]bool{}}
	out := &fnOut{name: q}
	t.signed = signedFns[q]
	// receiver: a method that mentions its receiver gets one slot per field of
	// basic / slice-of-basic type (returned as outs when the receiver is a
	// pointer); the other fields are opaque. A method that never mentions its
	// receiver gets no slot for it.
	if fd.Recv != nil && len(fd.Recv.List) == 1 {
		r := fd.Recv.List[0]
		if len(r.Names) == 1 {
			obj := info.Defs[r.Names[0]]
			if obj != nil {
				if st, isPtr, ok := structOf(obj.Type()); ok && recvUsed[q] {
					for _, s := range t.expandStruct(obj, r.Names[0].Name, st) {
						if isPtr {
							out.outs = append(out.outs, s)
						}
					}
				} else {
					t.structs[obj] = nil // present but unusable
				}
			}
		}
	}
	for _, p := range fd.Type.Params.List {
		for _, n := range p.Names {
			obj := info.Defs[n]
			if obj == nil {
				t.bad = append(t.bad, "blank parameter")
				continue
			}
			if _, isBasicOrSlice := zeroVal(obj.Type()); isBasicOrSlice {
				t.newSlot(obj, n.Name, obj.Type())
			} else if st, _, ok := expandable(obj.Type()); ok {
				t.expandStruct(obj, n.Name, st)
				t.readonly[obj] = true
			} else if nt, isNamed := obj.Type().(*types.Named); isNamed {
				if _, isIface := nt.Underlying().(*types.Interface); isIface && worldFns[q] {
					t.opaque[obj] = nt.Obj().Name()
				} else {
					t.structs[obj] = nil
				}
			} else {
				t.structs[obj] = nil
			}
		}
		if len(p.Names) == 0 {
			t.bad = append(t.bad, "unnamed parameter")
		}
	}
	if worldFns[q] {
		t.world = len(t.names)
		t.names = append(t.names, "$world")
		t.zero = append(t.zero, "VN 0")
	}
	t.nparams = len(t.names)
	if fd.Type.Results != nil {
		for _, p := range fd.Type.Results.List {
			for _, n := range p.Names {
				obj := info.Defs[n]
				if _, simple := zeroVal(obj.Type()); simple {
					out.results = append(out.results, t.newSlot(obj, n.Name, obj.Type()))
				} else if st, isPtr, ok := expandable(obj.Type()); ok && isPtr {
					out.results = append(out.results, t.expandPtr(obj, n.Name, st)...)
				} else {
					out.results = append(out.results, t.newSlot(obj, n.Name, obj.Type()))
				}
			}
			if len(p.Names) == 0 {
				// unnamed result: only explicit returns give it a value
				out.results = append(out.results, t.newSlot(nil, "_result", info.Types[p.Type].Type))
			}
		}
	}
	// locals, in order of declaration
	ast.Inspect(fd.Body, func(n ast.Node) bool {
		if id, ok := n.(*ast.Ident); ok {
			if obj, ok := info.Defs[id]; ok && obj != nil {
				if v, ok := obj.(*types.Var); ok {
					_, seen := t.slots[obj]
					_, seenS := t.structs[obj]
					if !seen && !seenS {
						if _, simple := zeroVal(v.Type()); simple {
							t.newSlot(obj, id.Name, v.Type())
						} else if st, isPtr, ok := expandable(v.Type()); ok && !isPtr {
							t.expandStruct(obj, id.Name, st)
						} else if st, isPtr, ok := expandable(v.Type()); ok && isPtr {
							t.expandPtr(obj, id.Name, st)
						} else {
							t.newSlot(obj, id.Name, v.Type())
						}
					}
				}
			}
		}
		if _, ok := n.(*ast.FuncLit); ok {
			t.bad = append(t.bad, "function literal")
			return false
		}
		return true
	})
	body := t.block(fd.Body.List)
	if msg := aliasCheck(fd, t); msg != "" {
		t.bad = append(t.bad, msg)
	}
	if len(t.bad) > 0 {
		body = fmt.Sprintf("SUnsupported %s", coqStr(strings.Join(t.bad, "; ")))
	}
	for sl := 0; sl < t.nparams; sl++ {
		if t.written[sl] && sl != t.world {
			dup := false
			for _, o := range out.outs {
				if o == sl {
					dup = true
				}
			}
			if !dup {
				out.outs = append(out.outs, sl)
			}
		}
	}
	if t.world >= 0 {
		out.outs = append(out.outs, t.world)
	}
	out.nparams = t.nparams
	out.zeros = t.zero[t.nparams:]
	out.body = body
	var sl []string
	for i, n := range t.names {
		sl = append(sl, fmt.Sprintf("%d=%s", i, n))
	}
	out.comment = "slots: " + strings.Join(sl, " ")
	for c := range t.calls {
		out.calls = append(out.calls, c)
	}
	sort.Strings(out.calls)
	return out
}

func topo(order []string, tr map[string]*fnOut) []string {
	done := map[string]bool{}
	var res []string
	var visit func(q string, depth int)
	visit = func(q string, depth int) {
		if done[q] || depth > 64 {
			return
		}
		done[q] = true
		if f, ok := tr[q]; ok {
			for _, c := range f.calls {
				if _, ok := tr[c]; ok {
					visit(c, depth+1)
				}
			}
		}
		res = append(res, q)
	}
	for _, q := range order {
		visit(q, 0)
	}
	return res
}

// ------------------------------------------------------------------ statements

func seq(parts []string) string {
	if len(parts) == 0 {
		return "SSkip"
	}
	if len(parts) == 1 {
		return parts[0]
	}
	return "SSeq (" + parts[0] + ")\n(" + seq(parts[1:]) + ")"
}

func (t *ftr) block(list []ast.Stmt) string {
	var parts []string
	for _, s := range list {
		parts = append(parts, t.stmt(s))
	}
	return seq(parts)
}

func unsupS(what string, n ast.Node) string {
	return fmt.Sprintf("SUnsupported %s", coqStr(fmt.Sprintf("%s at %s", what, fset.Position(n.Pos()))))
}

func unsupE(what string, n ast.Node) string {
	return fmt.Sprintf("EUnsupported %s", coqStr(fmt.Sprintf("%s at %s", what, fset.Position(n.Pos()))))
}

func (t *ftr) lval(e ast.Expr) (string, bool) {
	switch x := e.(type) {
	case *ast.ParenExpr:
		return t.lval(x.X)
	case *ast.Ident:
		if x.Name == "_" {
			return "LBlank", true
		}
		if s, ok := t.slotOf(x); ok {
			return fmt.Sprintf("LVar %d", s), true
		}
	case *ast.SelectorExpr:
		if s, ok := t.fieldSlot(x); ok {
			obj, _ := t.structVar(x.X)
			if obj != nil && t.readonly[obj] {
				return "", false
			}
			if ns, ok := t.nilSlot[obj]; ok {
				// storing through a nil pointer panics
				t.pre = append(t.pre, fmt.Sprintf("SSet LBlank (EDeref (EVar %d) (EN 0))", ns))
			}
			return fmt.Sprintf("LVar %d", s), true
		}
	case *ast.IndexExpr:
		if s, ok := t.sliceSlot(x.X); ok {
			if sel, isSel := x.X.(*ast.SelectorExpr); isSel {
				if obj, _ := t.structVar(sel.X); obj != nil {
					if t.readonly[obj] {
						return "", false
					}
					if ns, ok := t.nilSlot[obj]; ok {
						t.pre = append(t.pre, fmt.Sprintf("SSet LBlank (EDeref (EVar %d) (EN 0))", ns))
					}
				}
			}
			return fmt.Sprintf("LIndex %d (%s)", s, t.expr(x.Index)), true
		}
	}
	return "", false
}

// the slot behind a slice-typed variable: a local / parameter, or a field of an expanded struct variable
func (t *ftr) sliceSlot(e ast.Expr) (int, bool) {
	tv, ok := info.Types[e]
	if !ok {
		return 0, false
	}
	if _, isSlice := tv.Type.Underlying().(*types.Slice); !isSlice {
		return 0, false
	}
	switch x := e.(type) {
	case *ast.ParenExpr:
		return t.sliceSlot(x.X)
	case *ast.Ident:
		return t.slotOf(x)
	case *ast.SelectorExpr:
		return t.fieldSlot(x)
	}
	return 0, false
}

// the values an argument contributes to a call: itself, or the fields of an expanded struct variable
func (t *ftr) flatArg(e ast.Expr) ([]string, bool) {
	if u, isU := ast.Unparen(e).(*ast.UnaryExpr); isU && u.Op == token.AND {
		if cl, isCL := u.X.(*ast.CompositeLit); isCL {
			if st, _, ok := expandable(info.Types[cl].Type); ok {
				vals := map[string]string{}
				for _, el := range cl.Elts {
					kv, ok := el.(*ast.KeyValueExpr)
					if !ok {
						return nil, false
					}
					k, ok := kv.Key.(*ast.Ident)
					if !ok {
						return nil, false
					}
					vals[k.Name] = t.expr(kv.Value)
					if id, isID := ast.Unparen(kv.Value).(*ast.Ident); isID && id.Name == "nil" {
						// an untyped nil takes the type of the field it initialises
						for i := 0; i < st.NumFields(); i++ {
							if st.Field(i).Name() == k.Name {
								if _, isSlice := st.Field(i).Type().Underlying().(*types.Slice); isSlice {
									vals[k.Name] = "ELit ENil"
								}
							}
						}
					}
				}
				var r []string
				for i := 0; i < st.NumFields(); i++ {
					f := st.Field(i)
					if v, given := vals[f.Name()]; given {
						r = append(r, v)
					} else {
						z, _ := zeroVal(f.Type())
						r = append(r, zeroExpr(z))
					}
				}
				return r, true
			}
		}
	}
	if obj, ok := t.structVar(e); ok {
		order := t.structOrder[obj]
		var r []string
		for i, sl := range order {
			if ns, hasNil := t.nilSlot[obj]; hasNil && i == 0 {
				r = append(r, fmt.Sprintf("EDeref (EVar %d) (EVar %d)", ns, sl))
			} else {
				r = append(r, fmt.Sprintf("EVar %d", sl))
			}
		}
		return r, true
	}
	if tv, ok := info.Types[e]; ok {
		if _, simple := zeroVal(tv.Type); simple {
			return []string{t.expr(e)}, true
		}
	}
	return nil, false
}

// the destinations a left-hand side contributes to a multi-valued call
func (t *ftr) flatDest(e ast.Expr) ([]string, bool) {
	if obj, ok := t.structVar(e); ok {
		if t.readonly[obj] {
			return nil, false
		}
		var r []string
		if ns, hasNil := t.nilSlot[obj]; hasNil {
			r = append(r, fmt.Sprintf("LVar %d", ns))
		}
		return append(r, lvars(t.structOrder[obj])...), true
	}
	lv, ok := t.lval(e)
	if !ok {
		return nil, false
	}
	return []string{lv}, true
}

// calls that have no effect on the values computed: mutex operations and logging
func (t *ftr) ignorable(c *ast.CallExpr) bool {
	sel, ok := c.Fun.(*ast.SelectorExpr)
	if !ok {
		return false
	}
	rtv, ok := info.Types[sel.X]
	if !ok {
		return false
	}
	rt := rtv.Type
	if p, isPtr := rt.(*types.Pointer); isPtr {
		rt = p.Elem()
	}
	n, ok := rt.(*types.Named)
	if !ok || n.Obj().Pkg() == nil {
		return false
	}
	if n.Obj().Pkg().Path() == "sync" && n.Obj().Name() == "Mutex" && (sel.Sel.Name == "Lock" || sel.Sel.Name == "Unlock") {
		return true
	}
	if n.Obj().Pkg() == pkg && n.Obj().Name() == "logger" {
		for _, a := range c.Args {
			if hasCall(a) {
				return false
			}
		}
		return true
	}
	return false
}

// a call through an opaque field of the receiver (an interface such as the
// transport): an external function named <field>.<Method>, given a meaning only
// by the hypotheses of the theorems
func (t *ftr) oracleCall(c *ast.CallExpr) (string, bool) {
	sel, ok := c.Fun.(*ast.SelectorExpr)
	if !ok {
		return "", false
	}
	if pre, ok := t.oracleRecv(sel.X); ok {
		return pre + "." + sel.Sel.Name, true
	}
	return "", false
}

// the external object a call goes through: an interface-typed parameter, or an
// interface-typed field of an expanded struct variable that has no slot
func (t *ftr) oracleRecv(x ast.Expr) (string, bool) {
	if id, isID := x.(*ast.Ident); isID {
		if obj := info.Uses[id]; obj != nil {
			if tn, isOpaque := t.opaque[obj]; isOpaque {
				return tn, true
			}
		}
	}
	inner, ok := x.(*ast.SelectorExpr)
	if !ok {
		return "", false
	}
	id, ok := inner.X.(*ast.Ident)
	if !ok {
		return "", false
	}
	obj := info.Uses[id]
	if obj == nil {
		return "", false
	}
	if m, isStruct := t.structs[obj]; !isStruct || m == nil {
		return "", false
	}
	if _, expanded := t.structs[obj][inner.Sel.Name]; expanded {
		return "", false
	}
	tv, ok := info.Types[inner]
	if !ok {
		return "", false
	}
	if _, isIface := tv.Type.Underlying().(*types.Interface); !isIface {
		// a pointer to an object of another package (e.g. *net.UDPConn) is external too
		pt, isPtr := tv.Type.(*types.Pointer)
		if !isPtr || t.world < 0 {
			return "", false
		}
		nt, isNamed := pt.Elem().(*types.Named)
		if !isNamed || nt.Obj().Pkg() == nil || nt.Obj().Pkg() == pkg {
			return "", false
		}
	}
	return inner.Sel.Name, true
}

// n, err = io.ReadFull(x, buf[lo:hi]) through an external object x: the
// external function <x>.ReadFull is asked for hi-lo bytes and answers with the
// bytes it read (at most that many) and an error; the bytes are stored into
// buf from lo on, n is their number
func (t *ftr) readFull(c *ast.CallExpr, nDest, errDest string) (string, bool) {
	if t.world < 0 {
		return "", false
	}
	var pre, meth string
	var bufArg ast.Expr
	if isPkgFunc(c, "io", "ReadFull") && len(c.Args) == 2 {
		p, ok := t.oracleRecv(c.Args[0])
		if !ok {
			return "", false
		}
		pre, meth, bufArg = p, "ReadFull", c.Args[1]
	} else if sel, isSel := c.Fun.(*ast.SelectorExpr); isSel && sel.Sel.Name == "Read" && len(c.Args) == 1 {
		// x.Read(buf) on an external reader: at most len(buf) bytes, stored from buf[0] on
		p, ok := t.oracleRecv(sel.X)
		if !ok {
			return "", false
		}
		pre, meth, bufArg = p, "Read", c.Args[0]
	} else {
		return "", false
	}
	var base *ast.Ident
	var baseSel *ast.SelectorExpr
	lo, hi := "EN 0", ""
	switch b := ast.Unparen(bufArg).(type) {
	case *ast.SelectorExpr:
		baseSel = b
	case *ast.Ident:
		base = b
	case *ast.SliceExpr:
		id, isID := b.X.(*ast.Ident)
		if !isID || b.Slice3 {
			return "", false
		}
		base = id
		if b.Low != nil {
			lo = t.expr(b.Low)
		}
		if b.High != nil {
			hi = t.expr(b.High)
		}
	default:
		return "", false
	}
	var bs int
	var ok bool
	if baseSel != nil {
		bs, ok = t.fieldSlot(baseSel)
	} else {
		bs, ok = t.slotOf(base)
	}
	if !ok {
		return "", false
	}
	t.written[bs] = true
	if hi == "" {
		hi = fmt.Sprintf("ELen (EVar %d)", bs)
	}
	ty := "I64"
	if t.signed {
		ty = "(U 64)"
	}
	tmp := t.newSlot(nil, "_read", types.NewSlice(types.Typ[types.Uint8]))
	w := t.world
	call := fmt.Sprintf("SCall %s (%s) [LVar %d; LVar %d; %s]", coqStr(pre+"."+meth),
		exprList([]string{fmt.Sprintf("EVar %d", w), fmt.Sprintf("EBin OSub %s (%s) (%s)", ty, hi, lo)}), w, tmp, errDest)
	splice := fmt.Sprintf("SSet (LVar %d) (EAppendSlice (EAppendSlice (ESlice (EVar %d) (EN 0) (%s)) (EVar %d)) (ESlice (EVar %d) (EBin OAdd %s (%s) (ELen (EVar %d))) (ELen (EVar %d))))",
		bs, bs, lo, tmp, bs, ty, lo, tmp, bs)
	parts := []string{call, splice}
	if nDest != "LBlank" {
		parts = append(parts, fmt.Sprintf("SSet (%s) (ELen (EVar %d))", nDest, tmp))
	}
	return seq(parts), true
}

func (t *ftr) slotOf(id *ast.Ident) (int, bool) {
	obj := info.Uses[id]
	if obj == nil {
		obj = info.Defs[id]
	}
	if obj == nil {
		return 0, false
	}
	s, ok := t.slots[obj]
	return s, ok
}

func (t *ftr) structVar(e ast.Expr) (types.Object, bool) {
	id, ok := e.(*ast.Ident)
	if !ok {
		return nil, false
	}
	obj := info.Uses[id]
	if obj == nil {
		obj = info.Defs[id]
	}
	if obj == nil {
		return nil, false
	}
	m, ok := t.structs[obj]
	if !ok || m == nil {
		return nil, false
	}
	return obj, true
}

func (t *ftr) fieldSlot(x *ast.SelectorExpr) (int, bool) {
	obj, ok := t.structVar(x.X)
	if !ok {
		return 0, false
	}
	s, ok := t.structs[obj][x.Sel.Name]
	return s, ok
}

// a method call on an expanded struct variable: callee name, receiver slots,
// whether the receiver is updated by the call (pointer receiver), number of results
func (t *ftr) methodCall(c *ast.CallExpr) (name string, recv []int, update bool, nres int, ok bool) {
	sel, isSel := c.Fun.(*ast.SelectorExpr)
	if !isSel {
		return
	}
	obj, isStruct := t.structVar(sel.X)
	if !isStruct {
		return
	}
	selection := info.Selections[sel]
	if selection == nil || selection.Kind() != types.MethodVal {
		return
	}
	fn, isFn := selection.Obj().(*types.Func)
	if !isFn || fn.Pkg() != pkg {
		return
	}
	sig := fn.Type().(*types.Signature)
	rt := sig.Recv().Type()
	_, update = rt.(*types.Pointer)
	if update && t.readonly[obj] {
		return
	}
	base := rt
	if p, isPtr := base.(*types.Pointer); isPtr {
		base = p.Elem()
	}
	named, isNamed := base.(*types.Named)
	if !isNamed {
		return
	}
	name = named.Obj().Name() + "." + fn.Name()
	if recvUsed[name] {
		recv = t.structOrder[obj]
	} else {
		update = false
	}
	nres = sig.Results().Len()
	ok = true
	return
}

// translate a call statement / multi-valued call: callee name, flattened
// arguments, receiver destinations
func (t *ftr) callParts(c *ast.CallExpr) (name string, args []string, recvDests []string, ok bool) {
	worldLast := false
	if n, recv, update, _, isM := t.methodCall(c); isM {
		name = n
		args = append(args, evars(recv)...)
		if update {
			recvDests = lvars(recv)
		}
		t.calls[name] = true
		worldLast = worldFns[name]
	} else if n, isO := t.oracleCall(c); isO {
		name = n
		if t.world >= 0 {
			args = append(args, fmt.Sprintf("EVar %d", t.world))
			recvDests = []string{fmt.Sprintf("LVar %d", t.world)}
		}
	} else if isPkgFunc(c, "time", "Sleep") && t.world >= 0 {
		name = "time.Sleep"
		args = append(args, fmt.Sprintf("EVar %d", t.world))
		recvDests = []string{fmt.Sprintf("LVar %d", t.world)}
	} else if id, isID := c.Fun.(*ast.Ident); isID {
		fobj, isF := info.Uses[id].(*types.Func)
		if !isF || fobj.Pkg() != pkg {
			return
		}
		name = id.Name
		t.calls[name] = true
		worldLast = worldFns[name]
	} else {
		return
	}
	if worldLast && t.world < 0 {
		return "", nil, nil, false
	}
	for _, a := range c.Args {
		if worldLast {
			// the external object a world-threading callee works on is part of the world
			if _, isO := t.oracleRecv(a); isO {
				continue
			}
		}
		fa, okA := t.flatArg(a)
		if !okA {
			return "", nil, nil, false
		}
		args = append(args, fa...)
	}
	if worldLast {
		args = append(args, fmt.Sprintf("EVar %d", t.world))
		recvDests = append(recvDests, fmt.Sprintf("LVar %d", t.world))
	}
	ok = true
	return
}

func lvars(slots []int) []string {
	var r []string
	for _, s := range slots {
		r = append(r, fmt.Sprintf("LVar %d", s))
	}
	return r
}

func evars(slots []int) []string {
	var r []string
	for _, s := range slots {
		r = append(r, fmt.Sprintf("EVar %d", s))
	}
	return r
}

// hoist the method calls on struct variables that occur inside e: each is run
// as a statement of its own before the statement under translation, its
// result kept in a fresh temporary. Only when e contains exactly one call that
// is not a conversion or a builtin (so that no evaluation order is disturbed).
func (t *ftr) hoist(e ast.Expr) {
	var calls []*ast.CallExpr
	var meth []*ast.CallExpr
	var nows []*ast.CallExpr
	ast.Inspect(e, func(n ast.Node) bool {
		c, ok := n.(*ast.CallExpr)
		if !ok {
			return true
		}
		if tv, ok := info.Types[c.Fun]; ok && tv.IsType() {
			return true
		}
		if id, ok := c.Fun.(*ast.Ident); ok {
			if _, isB := info.Uses[id].(*types.Builtin); isB {
				return true
			}
		}
		if _, done := t.hoisted[c]; done {
			return true
		}
		if t.world >= 0 && t.signed {
			// reading the clock is an external call; t.Add / t.Sub are arithmetic
			if isPkgFunc(c, "time", "Now") || isPkgFunc(c, "time", "Since") {
				nows = append(nows, c)
				return true
			}
			if _, isT := timeMethod(c); isT {
				return true
			}
		}
		calls = append(calls, c)
		if _, _, _, _, ok := t.methodCall(c); ok {
			meth = append(meth, c)
		}
		return true
	})
	if len(nows) == 1 && len(calls) == 0 {
		tmp := t.newSlot(nil, "_now", types.Typ[types.Uint64])
		t.pre = append(t.pre, fmt.Sprintf("SCall %s (%s) [LVar %d; LVar %d]", coqStr("time.Now"),
			exprList([]string{fmt.Sprintf("EVar %d", t.world)}), t.world, tmp))
		t.hoisted[nows[0]] = tmp
		return
	}
	if len(meth) != 1 || len(calls) != 1 || len(nows) != 0 {
		return
	}
	c := meth[0]
	name, recv, update, nres, _ := t.methodCall(c)
	if nres != 1 {
		return
	}
	if worldFns[name] && t.world < 0 {
		return
	}
	tmp := t.newSlot(nil, "_tmp", info.Types[c].Type)
	var args []string
	args = append(args, evars(recv)...)
	for _, a := range c.Args {
		fa, okA := t.flatArg(a)
		if !okA {
			return
		}
		args = append(args, fa...)
	}
	var dests []string
	if update {
		dests = append(dests, lvars(recv)...)
	}
	if worldFns[name] {
		args = append(args, fmt.Sprintf("EVar %d", t.world))
		dests = append(dests, fmt.Sprintf("LVar %d", t.world))
	}
	dests = append(dests, fmt.Sprintf("LVar %d", tmp))
	t.calls[name] = true
	t.pre = append(t.pre, fmt.Sprintf("SCall %s (%s) [%s]", coqStr(name), exprList(args), strings.Join(dests, "; ")))
	t.hoisted[c] = tmp
}

var assignOps = map[token.Token]string{
	token.ADD_ASSIGN: "OAdd", token.SUB_ASSIGN: "OSub", token.MUL_ASSIGN: "OMul", token.QUO_ASSIGN: "ODiv",
	token.REM_ASSIGN: "OMod", token.AND_ASSIGN: "OAnd", token.OR_ASSIGN: "OOr", token.XOR_ASSIGN: "OXor",
	token.SHL_ASSIGN: "OShl", token.SHR_ASSIGN: "OShr", token.AND_NOT_ASSIGN: "OAndNot",
}

func exprList(es []string) string {
	if len(es) == 0 {
		return "ENil"
	}
	return "ECons (" + es[0] + ") (" + exprList(es[1:]) + ")"
}

func isBuiltinCall(c *ast.CallExpr, name string) bool {
	id, ok := c.Fun.(*ast.Ident)
	if !ok || id.Name != name {
		return false
	}
	_, isB := info.Uses[id].(*types.Builtin)
	return isB
}

func (t *ftr) isExtRead(c *ast.CallExpr) bool {
	if isPkgFunc(c, "io", "ReadFull") {
		return true
	}
	if sel, isSel := c.Fun.(*ast.SelectorExpr); isSel && sel.Sel.Name == "Read" && len(c.Args) == 1 && t.world >= 0 {
		_, ok := t.oracleRecv(sel.X)
		return ok
	}
	return false
}

// copy(dst, src): the number of bytes copied, min(len(dst), len(src)); src is
// evaluated first (the builtin is a memmove: overlapping operands behave as if
// src had been saved), dst[:k] is replaced
func (t *ftr) copyStmt(c *ast.CallExpr, nDest string) (string, bool) {
	id, ok := c.Fun.(*ast.Ident)
	if !ok || id.Name != "copy" || len(c.Args) != 2 {
		return "", false
	}
	if _, isB := info.Uses[id].(*types.Builtin); !isB {
		return "", false
	}
	var ds int
	switch d := ast.Unparen(c.Args[0]).(type) {
	case *ast.Ident:
		ds, ok = t.slotOf(d)
	case *ast.SelectorExpr:
		ds, ok = t.fieldSlot(d)
	default:
		ok = false
	}
	if !ok {
		return "", false
	}
	t.written[ds] = true
	src := t.newSlot(nil, "_src", types.NewSlice(types.Typ[types.Uint8]))
	k := t.newSlot(nil, "_k", types.Typ[types.Uint64])
	parts := []string{
		fmt.Sprintf("SSet (LVar %d) (%s)", src, t.expr(c.Args[1])),
		fmt.Sprintf("SIf (ECmp CLt (ELen (EVar %d)) (ELen (EVar %d)))\n(SSet (LVar %d) (ELen (EVar %d)))\n(SSet (LVar %d) (ELen (EVar %d)))", ds, src, k, ds, k, src),
		fmt.Sprintf("SSet (LVar %d) (EAppendSlice (ESlice (EVar %d) (EN 0) (EVar %d)) (ESlice (EVar %d) (EVar %d) (ELen (EVar %d))))", ds, src, k, ds, k, ds),
	}
	if nDest != "LBlank" {
		parts = append(parts, fmt.Sprintf("SSet (%s) (EVar %d)", nDest, k))
	}
	return seq(parts), true
}

func (t *ftr) blankOrLval(e ast.Expr) (string, bool) {
	if id, ok := e.(*ast.Ident); ok && id.Name == "_" {
		return "LBlank", true
	}
	return t.lval(e)
}

func (t *ftr) stmt(s ast.Stmt) string {
	saved := t.pre
	t.pre = nil
	r := t.stmt1(s)
	if len(t.pre) > 0 {
		r = seq(append(t.pre, r))
	}
	t.pre = saved
	return r
}

func (t *ftr) stmt1(s ast.Stmt) string {
	switch x := s.(type) {
	case *ast.EmptyStmt:
		return "SSkip"
	case *ast.BlockStmt:
		return t.block(x.List)
	case *ast.ExprStmt:
		if c, ok := x.X.(*ast.CallExpr); ok {
			if big, k, ok := binaryFn(c, "Put"); ok && len(c.Args) == 2 {
				if id, ok := c.Args[0].(*ast.Ident); ok {
					if s, ok := t.slotOf(id); ok {
						return fmt.Sprintf("SPutUint %v %d%%nat %d (%s)", big, k, s, t.expr(c.Args[1]))
					}
				}
			}
		}
		if c, ok := x.X.(*ast.CallExpr); ok {
			if t.ignorable(c) {
				return "SSkip"
			}
			if st, ok := t.readFull(c, "LBlank", "LBlank"); ok {
				return st
			}
			if st, ok := t.copyStmt(c, "LBlank"); ok {
				return st
			}
			if t.world >= 0 {
				for _, a := range c.Args {
					t.hoist(a)
				}
			}
			if name, args, dests, ok := t.callParts(c); ok {
				if sig, isSig := info.Types[c.Fun].Type.(*types.Signature); isSig {
					for i := 0; i < sig.Results().Len(); i++ {
						ft, _, okF := flatTypes(sig.Results().At(i).Type())
						if !okF {
							return unsupS("call with a result outside the fragment", s)
						}
						for range ft {
							dests = append(dests, "LBlank")
						}
						if _, isPtr := sig.Results().At(i).Type().(*types.Pointer); isPtr {
							dests = append(dests, "LBlank")
						}
					}
					return fmt.Sprintf("SCall %s (%s) [%s]", coqStr(name), exprList(args), strings.Join(dests, "; "))
				}
			}
		}
		return unsupS("expression statement", s)
	case *ast.DeferStmt:
		if t.ignorable(x.Call) {
			return "SSkip"
		}
		return unsupS("defer", s)
	case *ast.IncDecStmt:
		l, ok := t.lval(x.X)
		ty, ok2 := t.ity(info.Types[x.X].Type)
		if !ok || !ok2 {
			return unsupS("inc/dec", s)
		}
		op := "OAdd"
		if x.Tok == token.DEC {
			op = "OSub"
		}
		return fmt.Sprintf("SSet (%s) (EBin %s %s (%s) (EN 1))", l, op, ty, t.expr(x.X))
	case *ast.AssignStmt:
		if op, ok := assignOps[x.Tok]; ok {
			if len(x.Lhs) != 1 || len(x.Rhs) != 1 {
				return unsupS("op-assignment", s)
			}
			l, ok := t.lval(x.Lhs[0])
			ty, ok2 := t.ity(info.Types[x.Lhs[0]].Type)
			if !ok || !ok2 {
				return unsupS("op-assignment", s)
			}
			return fmt.Sprintf("SSet (%s) (EBin %s %s (%s) (%s))", l, op, ty, t.expr(x.Lhs[0]), t.expr(x.Rhs[0]))
		}
		if x.Tok != token.ASSIGN && x.Tok != token.DEFINE {
			return unsupS("assignment operator", s)
		}
		// a call assigned to its destinations (struct-typed values are flattened)
		if len(x.Rhs) == 1 {
			if c, ok := ast.Unparen(x.Rhs[0]).(*ast.CallExpr); ok && len(x.Lhs) == 1 && isBuiltinCall(c, "copy") {
				if nd, okD := t.blankOrLval(x.Lhs[0]); okD {
					if st, okC := t.copyStmt(c, nd); okC {
						return st
					}
				}
			}
			if c, ok := ast.Unparen(x.Rhs[0]).(*ast.CallExpr); ok {
				if t.isExtRead(c) && len(x.Lhs) == 2 {
					nd, ok1 := t.blankOrLval(x.Lhs[0])
					ed, ok2 := t.blankOrLval(x.Lhs[1])
					if ok1 && ok2 {
						if st, ok := t.readFull(c, nd, ed); ok {
							return st
						}
					}
					return unsupS("io.ReadFull", s)
				}
				_, isMeth, _, _, okM := t.methodCall(c)
				_ = isMeth
				_, okO := t.oracleCall(c)
				if t.world >= 0 && (okO || okM) {
					for _, a := range c.Args {
						t.hoist(a)
					}
				}
				structDest := false
				for _, l := range x.Lhs {
					if _, isS := t.structVar(l); isS {
						structDest = true
					}
				}
				if len(x.Lhs) > 1 || okO || okM || structDest {
					if name, args, dests, ok := t.callParts(c); ok {
						good := true
						for _, l := range x.Lhs {
							fd, okD := t.flatDest(l)
							if !okD {
								good = false
								break
							}
							dests = append(dests, fd...)
						}
						if good {
							return fmt.Sprintf("SCall %s (%s) [%s]", coqStr(name), exprList(args), strings.Join(dests, "; "))
						}
					}
					return unsupS("call assignment", s)
				}
			}
			// p = &T{...}
			if len(x.Lhs) == 1 {
				if obj, isS := t.structVar(x.Lhs[0]); isS {
					if ns, hasNil := t.nilSlot[obj]; hasNil {
						if st, okA := t.addrLit(x.Rhs[0], obj, ns); okA {
							return st
						}
					}
					return unsupS("assignment to a struct variable", s)
				}
			}
		}
		for _, r := range x.Rhs {
			t.hoist(r)
		}
		var ls []string
		for _, l := range x.Lhs {
			lv, ok := t.lval(l)
			if !ok {
				return unsupS("assignment target", l)
			}
			ls = append(ls, lv)
		}
		if len(x.Lhs) == len(x.Rhs) {
			if len(ls) == 1 {
				return fmt.Sprintf("SSet (%s) (%s)", ls[0], t.expr(x.Rhs[0]))
			}
			var es []string
			for _, r := range x.Rhs {
				es = append(es, t.expr(r))
			}
			return fmt.Sprintf("SSetMulti [%s] (%s)", strings.Join(ls, "; "), exprList(es))
		}
		return unsupS("assignment from a multi-valued expression", s)
	case *ast.DeclStmt:
		gd, ok := x.Decl.(*ast.GenDecl)
		if !ok || gd.Tok != token.VAR {
			return unsupS("declaration", s)
		}
		var parts []string
		for _, sp := range gd.Specs {
			vs := sp.(*ast.ValueSpec)
			for i, n := range vs.Names {
				if obj := info.Defs[n]; obj != nil {
					if m, isStruct := t.structs[obj]; isStruct && m != nil && len(vs.Values) == 0 {
						if ns, hasNil := t.nilSlot[obj]; hasNil {
							parts = append(parts, fmt.Sprintf("SSet (LVar %d) (EB true)", ns))
						}
						for _, fs := range t.structOrder[obj] {
							parts = append(parts, fmt.Sprintf("SSet (LVar %d) (%s)", fs, zeroExpr(t.zero[fs])))
						}
						continue
					}
				}
				sl, ok := t.slotOf(n)
				if !ok {
					if n.Name == "_" {
						continue
					}
					return unsupS("declaration", s)
				}
				if len(vs.Values) == len(vs.Names) {
					parts = append(parts, fmt.Sprintf("SSet (LVar %d) (%s)", sl, t.expr(vs.Values[i])))
				} else if len(vs.Values) == 0 {
					parts = append(parts, fmt.Sprintf("SSet (LVar %d) (%s)", sl, zeroExpr(t.zero[sl])))
				} else {
					return unsupS("declaration", s)
				}
			}
		}
		return seq(parts)
	case *ast.IfStmt:
		var parts []string
		if x.Init != nil {
			parts = append(parts, t.stmt(x.Init))
		}
		els := "SSkip"
		if x.Else != nil {
			els = t.stmt(x.Else)
		}
		t.hoist(x.Cond)
		parts = append(parts, fmt.Sprintf("SIf (%s)\n(%s)\n(%s)", t.expr(x.Cond), t.block(x.Body.List), els))
		return seq(parts)
	case *ast.SwitchStmt:
		var parts []string
		if x.Init != nil {
			parts = append(parts, t.stmt(x.Init))
		}
		if x.Tag != nil && hasCall(x.Tag) {
			return unsupS("switch on an expression with a call", s)
		}
		type clause struct {
			cond string
			body string
		}
		var clauses []clause
		def := "SSkip"
		for _, c := range x.Body.List {
			cc := c.(*ast.CaseClause)
			for _, bs := range cc.Body {
				if br, ok := bs.(*ast.BranchStmt); ok && br.Tok == token.FALLTHROUGH {
					return unsupS("fallthrough", s)
				}
			}
			body := t.block(cc.Body)
			if cc.List == nil {
				def = body
				continue
			}
			var conds []string
			for _, e := range cc.List {
				if x.Tag != nil {
					conds = append(conds, fmt.Sprintf("ECmp CEq (%s) (%s)", t.expr(x.Tag), t.expr(e)))
				} else {
					conds = append(conds, t.expr(e))
				}
			}
			cond := conds[len(conds)-1]
			for i := len(conds) - 2; i >= 0; i-- {
				cond = fmt.Sprintf("EOrElse (%s) (%s)", conds[i], cond)
			}
			clauses = append(clauses, clause{cond, body})
		}
		res := def
		for i := len(clauses) - 1; i >= 0; i-- {
			res = fmt.Sprintf("SIf (%s)\n(%s)\n(%s)", clauses[i].cond, clauses[i].body, res)
		}
		// a break inside a case leaves the switch
		hasBreak := false
		for _, c := range x.Body.List {
			if containsBranch(c.(*ast.CaseClause).Body) {
				hasBreak = true
			}
		}
		if hasBreak {
			res = "SBlock (" + res + ")"
		}
		parts = append(parts, res)
		return seq(parts)
	case *ast.ForStmt:
		var parts []string
		if x.Init != nil {
			parts = append(parts, t.stmt(x.Init))
		}
		cond := "EB true"
		if x.Cond != nil {
			cond = t.expr(x.Cond)
		}
		post := "SSkip"
		if x.Post != nil {
			post = t.stmt(x.Post)
		}
		parts = append(parts, fmt.Sprintf("SFor (%s)\n(%s)\n(%s)", cond, post, t.block(x.Body.List)))
		return seq(parts)
	case *ast.RangeStmt:
		if _, ok := info.Types[x.X].Type.Underlying().(*types.Slice); !ok {
			return unsupS("range over a non-slice", s)
		}
		slotOpt := func(e ast.Expr) (string, bool) {
			if e == nil {
				return "None", true
			}
			id, ok := e.(*ast.Ident)
			if !ok {
				return "", false
			}
			if id.Name == "_" {
				return "None", true
			}
			sl, ok := t.slotOf(id)
			if !ok {
				return "", false
			}
			return fmt.Sprintf("(Some %d%%nat)", sl), true
		}
		k, ok1 := slotOpt(x.Key)
		v, ok2 := slotOpt(x.Value)
		if !ok1 || !ok2 {
			return unsupS("range variables", s)
		}
		return fmt.Sprintf("SRange %s %s (%s)\n(%s)", k, v, t.expr(x.X), t.block(x.Body.List))
	case *ast.ReturnStmt:
		var es []string
		for _, r := range x.Results {
			es = append(es, t.expr(r))
		}
		return fmt.Sprintf("SReturn (%s)", exprList(es))
	case *ast.BranchStmt:
		if x.Label != nil {
			return unsupS("labelled branch", s)
		}
		switch x.Tok {
		case token.BREAK:
			return "SBreak"
		case token.CONTINUE:
			return "SContinue"
		}
		return unsupS("branch statement", s)
	}
	return unsupS(fmt.Sprintf("statement %T", s), s)
}

// p = &T{k: v, ...} for an expanded pointer variable p: all operands first, then the stores
func (t *ftr) addrLit(rhs ast.Expr, obj types.Object, ns int) (string, bool) {
	if id, isID := ast.Unparen(rhs).(*ast.Ident); isID && id.Name == "nil" {
		// p = nil: the nil flag is set, the fields take their zero values
		ls := []string{fmt.Sprintf("LVar %d", ns)}
		es := []string{"EB true"}
		for _, sl := range t.structOrder[obj] {
			ls = append(ls, fmt.Sprintf("LVar %d", sl))
			es = append(es, zeroExpr(t.zero[sl]))
		}
		return fmt.Sprintf("SSetMulti [%s] (%s)", strings.Join(ls, "; "), exprList(es)), true
	}
	u, ok := ast.Unparen(rhs).(*ast.UnaryExpr)
	if !ok || u.Op != token.AND {
		return "", false
	}
	cl, ok := u.X.(*ast.CompositeLit)
	if !ok {
		return "", false
	}
	vals := map[string]string{}
	for _, el := range cl.Elts {
		kv, ok := el.(*ast.KeyValueExpr)
		if !ok {
			return "", false
		}
		k, ok := kv.Key.(*ast.Ident)
		if !ok {
			return "", false
		}
		if _, known := t.structs[obj][k.Name]; !known {
			return "", false
		}
		vals[k.Name] = t.expr(kv.Value)
	}
	ls := []string{fmt.Sprintf("LVar %d", ns)}
	es := []string{"EB false"}
	st, _, _ := structOf(obj.Type())
	for i := 0; i < st.NumFields(); i++ {
		f := st.Field(i)
		sl, ok := t.structs[obj][f.Name()]
		if !ok {
			continue
		}
		ls = append(ls, fmt.Sprintf("LVar %d", sl))
		if v, given := vals[f.Name()]; given {
			es = append(es, v)
		} else {
			es = append(es, zeroExpr(t.zero[sl]))
		}
	}
	return fmt.Sprintf("SSetMulti [%s] (%s)", strings.Join(ls, "; "), exprList(es)), true
}

func zeroExpr(z string) string {
	switch z {
	case "VN 0":
		return "EN 0"
	case "VB false":
		return "EB false"
	case "VL []":
		return "ELit ENil"
	}
	return "EUnsupported \"zero value\""
}

func containsBranch(list []ast.Stmt) bool {
	found := false
	for _, s := range list {
		ast.Inspect(s, func(n ast.Node) bool {
			switch b := n.(type) {
			case *ast.BranchStmt:
				if b.Tok != token.FALLTHROUGH {
					found = true
				}
			case *ast.ForStmt, *ast.RangeStmt, *ast.FuncLit:
				// a branch statement inside an inner loop is reported there
				return false
			}
			return true
		})
	}
	return found
}

func hasCall(e ast.Expr) bool {
	found := false
	ast.Inspect(e, func(n ast.Node) bool {
		if c, ok := n.(*ast.CallExpr); ok {
			if tv, ok := info.Types[c.Fun]; !ok || !tv.IsType() {
				found = true
			}
		}
		return true
	})
	return found
}

// ------------------------------------------------------------------ expressions

// binary.{Big,Little}Endian.{prefix}UintNN
func binaryFn(c *ast.CallExpr, prefix string) (big bool, k int, ok bool) {
	sel, isSel := c.Fun.(*ast.SelectorExpr)
	if !isSel {
		return
	}
	inner, isSel := sel.X.(*ast.SelectorExpr)
	if !isSel {
		return
	}
	pid, isID := inner.X.(*ast.Ident)
	if !isID {
		return
	}
	pn, isPkg := info.Uses[pid].(*types.PkgName)
	if !isPkg || pn.Imported().Path() != "encoding/binary" {
		return
	}
	switch inner.Sel.Name {
	case "BigEndian":
		big = true
	case "LittleEndian":
		big = false
	default:
		return
	}
	switch sel.Sel.Name {
	case prefix + "Uint16":
		k = 2
	case prefix + "Uint32":
		k = 4
	case prefix + "Uint64":
		k = 8
	default:
		return
	}
	ok = true
	return
}

// pkg.Name(...) for a function of the standard library
func isPkgFunc(c *ast.CallExpr, path, name string) bool {
	sel, ok := c.Fun.(*ast.SelectorExpr)
	if !ok || sel.Sel.Name != name {
		return false
	}
	id, ok := sel.X.(*ast.Ident)
	if !ok {
		return false
	}
	pn, ok := info.Uses[id].(*types.PkgName)
	return ok && pn.Imported().Path() == path
}

// t.Add(d) / t.Sub(u) on an instant
func timeMethod(c *ast.CallExpr) (string, bool) {
	sel, ok := c.Fun.(*ast.SelectorExpr)
	if !ok || (sel.Sel.Name != "Add" && sel.Sel.Name != "Sub" && sel.Sel.Name != "After" && sel.Sel.Name != "Before") {
		return "", false
	}
	tv, ok := info.Types[sel.X]
	if !ok || !isTimeType(tv.Type) {
		return "", false
	}
	return sel.Sel.Name, true
}

func isTimeoutCall(c *ast.CallExpr) bool {
	sel, ok := c.Fun.(*ast.SelectorExpr)
	if !ok {
		return false
	}
	pid, ok := sel.X.(*ast.Ident)
	if !ok {
		return false
	}
	pn, ok := info.Uses[pid].(*types.PkgName)
	return ok && pn.Imported().Path() == "os" && sel.Sel.Name == "IsTimeout"
}

func otherError(c *ast.CallExpr) bool {
	sel, ok := c.Fun.(*ast.SelectorExpr)
	if !ok {
		return false
	}
	pid, ok := sel.X.(*ast.Ident)
	if !ok {
		return false
	}
	pn, ok := info.Uses[pid].(*types.PkgName)
	if !ok {
		return false
	}
	p := pn.Imported().Path()
	return (p == "fmt" && sel.Sel.Name == "Errorf") || (p == "errors" && sel.Sel.Name == "New")
}

func mathBits(c *ast.CallExpr) bool {
	sel, ok := c.Fun.(*ast.SelectorExpr)
	if !ok {
		return false
	}
	pid, ok := sel.X.(*ast.Ident)
	if !ok {
		return false
	}
	pn, ok := info.Uses[pid].(*types.PkgName)
	if !ok || pn.Imported().Path() != "math" {
		return false
	}
	switch sel.Sel.Name {
	case "Float32bits", "Float32frombits", "Float64bits", "Float64frombits":
		return true
	}
	return false
}

var binOps = map[token.Token]string{
	token.ADD: "OAdd", token.SUB: "OSub", token.MUL: "OMul", token.QUO: "ODiv", token.REM: "OMod",
	token.AND: "OAnd", token.OR: "OOr", token.XOR: "OXor", token.SHL: "OShl", token.SHR: "OShr",
	token.AND_NOT: "OAndNot",
}

var cmpOps = map[token.Token]string{
	token.EQL: "CEq", token.NEQ: "CNe", token.LSS: "CLt", token.LEQ: "CLe", token.GTR: "CGt", token.GEQ: "CGe",
}

func (t *ftr) expr(e ast.Expr) string {
	tv, hasTV := info.Types[e]
	if hasTV && tv.Value != nil {
		switch tv.Value.Kind() {
		case constant.Int:
			if isFloat(tv.Type) {
				return unsupE("floating point constant", e)
			}
			if n, ok := constN(tv.Value); ok {
				return "EN " + n
			}
			if t.signed && isSignedInt(tv.Type) {
				// two's complement
				v := constant.BinaryOp(constant.Shift(constant.MakeInt64(1), token.SHL, 64), token.ADD, tv.Value)
				if n, ok := constN(v); ok {
					return "EN " + n
				}
			}
			return unsupE("negative constant", e)
		case constant.Bool:
			return fmt.Sprintf("EB %v", constant.BoolVal(tv.Value))
		case constant.String:
			if isErrorType(tv.Type) {
				if id, ok := ast.Unparen(e).(*ast.Ident); ok {
					if c, ok := errCode(id.Name); ok {
						return fmt.Sprintf("EN %d", c)
					}
				}
			}
			return unsupE("string constant", e)
		default:
			return unsupE("constant of unsupported kind", e)
		}
	}
	switch x := e.(type) {
	case *ast.ParenExpr:
		return t.expr(x.X)
	case *ast.Ident:
		if s, ok := t.slotOf(x); ok {
			return fmt.Sprintf("EVar %d", s)
		}
		if x.Name == "nil" && hasTV {
			if _, ok := tv.Type.Underlying().(*types.Slice); ok {
				return "ELit ENil"
			}
			if isErrorType(tv.Type) {
				return "EN 0"
			}
		}
		if x.Name == "nil" {
			// untyped nil compared with / assigned to an error
			return "EN 0"
		}
		if obj, ok := info.Uses[x].(*types.Var); ok && obj.Parent() == pkg.Scope() {
			t.globals[x.Name] = true
			return fmt.Sprintf("EGlobal %s", coqStr(x.Name))
		}
		return unsupE("identifier "+x.Name, e)
	case *ast.SelectorExpr:
		if s, ok := t.fieldSlot(x); ok {
			if obj, _ := t.structVar(x.X); obj != nil {
				if ns, hasNil := t.nilSlot[obj]; hasNil {
					return fmt.Sprintf("EDeref (EVar %d) (EVar %d)", ns, s)
				}
			}
			return fmt.Sprintf("EVar %d", s)
		}
		if id, ok := x.X.(*ast.Ident); ok {
			if pn, ok := info.Uses[id].(*types.PkgName); ok && pn.Imported().Path() == "io" {
				switch x.Sel.Name {
				case "ErrUnexpectedEOF":
					return fmt.Sprintf("EN %d", len(errNames)+3)
				case "EOF":
					return fmt.Sprintf("EN %d", len(errNames)+4)
				}
			}
			if pn, ok := info.Uses[id].(*types.PkgName); ok && pn.Imported().Path() == "github.com/goburrow/serial" && x.Sel.Name == "ErrTimeout" {
				// the serial driver's "nothing arrived within the port timeout"
				return fmt.Sprintf("EN %d", len(errNames)+5)
			}
		}
		return unsupE("selector", e)
	case *ast.BinaryExpr:
		if x.Op == token.LAND {
			return fmt.Sprintf("EAndAlso (%s) (%s)", t.expr(x.X), t.expr(x.Y))
		}
		if x.Op == token.LOR {
			return fmt.Sprintf("EOrElse (%s) (%s)", t.expr(x.X), t.expr(x.Y))
		}
		if op, ok := cmpOps[x.Op]; ok {
			// p == nil / p != nil for an expanded pointer variable
			for _, pair := range [][2]ast.Expr{{x.X, x.Y}, {x.Y, x.X}} {
				if obj, isS := t.structVar(pair[0]); isS {
					if id, isID := ast.Unparen(pair[1]).(*ast.Ident); isID && id.Name == "nil" {
						if ns, hasNil := t.nilSlot[obj]; hasNil && (x.Op == token.EQL || x.Op == token.NEQ) {
							return fmt.Sprintf("ECmp %s (EVar %d) (EB true)", op, ns)
						}
					}
					return unsupE("comparison of a struct variable", e)
				}
			}
			lt := info.Types[x.X].Type
			if isFloat(lt) {
				return unsupE("floating point comparison", e)
			}
			if isErrorType(lt) || isErrorType(info.Types[x.Y].Type) {
				if x.Op != token.EQL && x.Op != token.NEQ {
					return unsupE("ordering of errors", e)
				}
			} else if b, ok := lt.Underlying().(*types.Basic); !ok || b.Info()&(types.IsInteger|types.IsBoolean) == 0 {
				return unsupE("comparison of non-integers", e)
			}
			if t.signed && (isSignedInt(lt) || isSignedInt(info.Types[x.Y].Type)) {
				return fmt.Sprintf("ECmpS %s (%s) (%s)", op, t.expr(x.X), t.expr(x.Y))
			}
			if isTimeType(lt) {
				return unsupE("comparison of instants", e)
			}
			return fmt.Sprintf("ECmp %s (%s) (%s)", op, t.expr(x.X), t.expr(x.Y))
		}
		if op, ok := binOps[x.Op]; ok {
			if !hasTV {
				return unsupE("untyped expression", e)
			}
			ty, ok := t.ity(tv.Type)
			if !ok {
				return unsupE("arithmetic outside the integer fragment ("+tv.Type.String()+")", e)
			}
			if t.signed && isSignedInt(tv.Type) && (op == "ODiv" || op == "OMod" || op == "OShr") {
				return unsupE("signed division or shift", e)
			}
			return fmt.Sprintf("EBin %s %s (%s) (%s)", op, ty, t.expr(x.X), t.expr(x.Y))
		}
		return unsupE("binary operator", e)
	case *ast.UnaryExpr:
		switch x.Op {
		case token.NOT:
			return fmt.Sprintf("ENot (%s)", t.expr(x.X))
		case token.ADD:
			return t.expr(x.X)
		case token.SUB:
			if t.signed && hasTV && isSignedInt(tv.Type) {
				return fmt.Sprintf("EBin OSub (U 64) (EN 0) (%s)", t.expr(x.X))
			}
		case token.XOR:
			if b, ok := tv.Type.Underlying().(*types.Basic); ok && b.Info()&types.IsUnsigned != 0 {
				ty, _ := t.ity(tv.Type)
				w := map[string]string{"(U 8)": "255", "(U 16)": "65535", "(U 32)": "4294967295", "(U 64)": "18446744073709551615"}[ty]
				if w != "" {
					return fmt.Sprintf("EBin OXor %s (%s) (EN %s)", ty, t.expr(x.X), w)
				}
			}
		}
		return unsupE("unary operator", e)
	case *ast.IndexExpr:
		xt := info.Types[x.X].Type
		switch xt.Underlying().(type) {
		case *types.Slice, *types.Array:
			return fmt.Sprintf("EIndex (%s) (%s)", t.expr(x.X), t.expr(x.Index))
		}
		return unsupE("index of a non-slice", e)
	case *ast.SliceExpr:
		if x.Slice3 {
			return unsupE("3-index slice", e)
		}
		if _, ok := info.Types[x.X].Type.Underlying().(*types.Slice); !ok {
			return unsupE("slice of a non-slice", e)
		}
		lo := "EN 0"
		if x.Low != nil {
			lo = t.expr(x.Low)
		}
		hi := fmt.Sprintf("ELen (%s)", t.expr(x.X))
		if x.High != nil {
			hi = t.expr(x.High)
		}
		return fmt.Sprintf("ESlice (%s) (%s) (%s)", t.expr(x.X), lo, hi)
	case *ast.CompositeLit:
		if _, ok := tv.Type.Underlying().(*types.Slice); !ok {
			return unsupE("composite literal of a non-slice", e)
		}
		var es []string
		for _, el := range x.Elts {
			if _, kv := el.(*ast.KeyValueExpr); kv {
				return unsupE("keyed composite literal", e)
			}
			es = append(es, t.expr(el))
		}
		return fmt.Sprintf("ELit (%s)", exprList(es))
	case *ast.CallExpr:
		// conversion
		if ftv, ok := info.Types[x.Fun]; ok && ftv.IsType() {
			if len(x.Args) != 1 {
				return unsupE("conversion", e)
			}
			from := info.Types[x.Args[0]].Type
			if isFloat(from) || isFloat(ftv.Type) {
				if isFloat(from) && isFloat(ftv.Type) && types.Identical(from.Underlying(), ftv.Type.Underlying()) {
					return t.expr(x.Args[0])
				}
				return unsupE("floating point conversion", e)
			}
			if fb, ok := from.Underlying().(*types.Basic); !ok || fb.Info()&types.IsInteger == 0 {
				return unsupE("conversion from a non-integer", e)
			}
			if _, ok := t.ity(from); !ok {
				return unsupE("conversion from an integer type outside the fragment", e)
			}
			ty, ok := t.ity(ftv.Type)
			if !ok {
				return unsupE("conversion to "+ftv.Type.String(), e)
			}
			return fmt.Sprintf("EConv %s (%s)", ty, t.expr(x.Args[0]))
		}
		if id, ok := x.Fun.(*ast.Ident); ok {
			if _, isBuiltin := info.Uses[id].(*types.Builtin); isBuiltin {
				switch id.Name {
				case "len":
					if _, ok := info.Types[x.Args[0]].Type.Underlying().(*types.Slice); ok {
						return fmt.Sprintf("ELen (%s)", t.expr(x.Args[0]))
					}
					return unsupE("len of a non-slice", e)
				case "append":
					if x.Ellipsis.IsValid() {
						if len(x.Args) != 2 {
							return unsupE("append", e)
						}
						return fmt.Sprintf("EAppendSlice (%s) (%s)", t.expr(x.Args[0]), t.expr(x.Args[1]))
					}
					var es []string
					for _, a := range x.Args[1:] {
						es = append(es, t.expr(a))
					}
					return fmt.Sprintf("EAppend (%s) (%s)", t.expr(x.Args[0]), exprList(es))
				case "make":
					st, ok := tv.Type.Underlying().(*types.Slice)
					if !ok || len(x.Args) < 2 {
						return unsupE("make", e)
					}
					z, ok := zeroVal(st.Elem())
					if !ok {
						return unsupE("make of "+st.String(), e)
					}
					if t.signed {
						// a negative length is outside the fragment (Go panics)
						return fmt.Sprintf("EMake (%s) (EConv I64 (%s))", z, t.expr(x.Args[1]))
					}
					return fmt.Sprintf("EMake (%s) (%s)", z, t.expr(x.Args[1]))
				}
				return unsupE("builtin "+id.Name, e)
			}
			if fobj, ok := info.Uses[id].(*types.Func); ok && fobj.Pkg() == pkg {
				t.calls[id.Name] = true
				var es []string
				for _, a := range x.Args {
					es = append(es, t.expr(a))
				}
				return fmt.Sprintf("ECall %s (%s)", coqStr(id.Name), exprList(es))
			}
		}
		if big, k, ok := binaryFn(x, ""); ok && len(x.Args) == 1 {
			return fmt.Sprintf("EBytesToUint %v %d%%nat (%s)", big, k, t.expr(x.Args[0]))
		}
		if tmp, ok := t.hoisted[x]; ok {
			if isPkgFunc(x, "time", "Since") {
				return fmt.Sprintf("EBin OSub (U 64) (EVar %d) (%s)", tmp, t.expr(x.Args[0]))
			}
			return fmt.Sprintf("EVar %d", tmp)
		}
		if m, ok := timeMethod(x); ok && t.signed && len(x.Args) == 1 {
			recv := x.Fun.(*ast.SelectorExpr).X
			if m == "Add" {
				return fmt.Sprintf("EBin OAdd (U 64) (%s) (%s)", t.expr(recv), t.expr(x.Args[0]))
			}
			if m == "After" {
				return fmt.Sprintf("ECmp CGt (%s) (%s)", t.expr(recv), t.expr(x.Args[0]))
			}
			if m == "Before" {
				return fmt.Sprintf("ECmp CLt (%s) (%s)", t.expr(recv), t.expr(x.Args[0]))
			}
			return fmt.Sprintf("EBin OSub (U 64) (%s) (%s)", t.expr(recv), t.expr(x.Args[0]))
		}
		if isTimeoutCall(x) && len(x.Args) == 1 {
			// os.IsTimeout(err): error value 2 is "an i/o error that reports a timeout"
			return fmt.Sprintf("ECmp CEq (%s) (EN 2)", t.expr(x.Args[0]))
		}
		if otherError(x) {
			// fmt.Errorf / errors.New: a non-nil error different from every Error constant
			return "EN 1"
		}
		if mathBits(x) && len(x.Args) == 1 {
			// identity on bit patterns: floats are represented by their IEEE bits
			return t.expr(x.Args[0])
		}
		return unsupE("call", e)
	}
	return unsupE(fmt.Sprintf("expression %T", e), e)
}

// ------------------------------------------------------------------ aliasing discipline

// functions whose single slice result is freshly allocated storage that no
// other name can reach (computed to a fixpoint before translation)
var freshFns = map[string]bool{}

func isFreshExpr(rhs ast.Expr, target types.Object, isVar func(ast.Expr) (types.Object, bool)) bool {
	switch r := rhs.(type) {
	case *ast.ParenExpr:
		return isFreshExpr(r.X, target, isVar)
	case *ast.CompositeLit:
		return true
	case *ast.Ident:
		return r.Name == "nil"
	case *ast.CallExpr:
		if id, ok := r.Fun.(*ast.Ident); ok {
			if _, isB := info.Uses[id].(*types.Builtin); isB {
				if id.Name == "make" {
					return true
				}
				if id.Name == "append" && len(r.Args) > 0 && target != nil {
					if o, ok := isVar(r.Args[0]); ok && o == target {
						return true
					}
				}
				return false
			}
			if fobj, ok := info.Uses[id].(*types.Func); ok && fobj.Pkg() == pkg && freshFns[id.Name] {
				return true
			}
		}
	}
	return false
}

func computeFresh(decls map[string]*ast.FuncDecl) {
	for iter := 0; iter < 8; iter++ {
		changed := false
		for q, fd := range decls {
			if freshFns[q] || fd.Recv != nil {
				continue
			}
			res := fd.Type.Results
			if res == nil || len(res.List) != 1 || len(res.List[0].Names) != 1 {
				continue
			}
			robj := info.Defs[res.List[0].Names[0]]
			if robj == nil {
				continue
			}
			if _, ok := robj.Type().Underlying().(*types.Slice); !ok {
				continue
			}
			isVar := func(e ast.Expr) (types.Object, bool) {
				id, ok := e.(*ast.Ident)
				if !ok {
					return nil, false
				}
				o := info.Uses[id]
				if o == nil {
					o = info.Defs[id]
				}
				return o, o != nil
			}
			ok := true
			ast.Inspect(fd.Body, func(n ast.Node) bool {
				switch x := n.(type) {
				case *ast.AssignStmt:
					for i, l := range x.Lhs {
						if o, isV := isVar(l); isV && o == robj {
							if len(x.Lhs) != len(x.Rhs) || !isFreshExpr(x.Rhs[i], robj, isVar) {
								ok = false
							}
						}
					}
				case *ast.ReturnStmt:
					for _, r := range x.Results {
						if o, isV := isVar(r); isV && o == robj {
							continue
						}
						if !isFreshExpr(r, nil, isVar) {
							ok = false
						}
					}
				}
				return true
			})
			if ok {
				freshFns[q] = true
				changed = true
			}
		}
		if !changed {
			break
		}
	}
}

// aliasCheck enforces: (W) a slice variable that is written through an index
// (x[i] = .., x[i] op= .., PutUintNN(x, ..)) is a non-parameter local whose
// whole-value assignments are all fresh allocations (make, composite literal,
// zero declaration, self-append) and which is otherwise only index-read,
// measured with len, self-appended or returned; (A) every append has the form
// x = append(x, ...) with x a non-parameter local assigned only from fresh
// allocations and self-appends. Under (W) and (A) no other name can observe a
// store, so lists-as-values agree with Go's slices.
func aliasCheck(fd *ast.FuncDecl, t *ftr) string {
	type facts struct {
		written, appended bool
		otherUse          string
		badAssign         string
	}
	fs := map[int]*facts{}
	get := func(o int) *facts {
		if fs[o] == nil {
			fs[o] = &facts{}
		}
		return fs[o]
	}
	// a slice-typed variable: local, parameter, or field of an expanded struct variable
	isSliceVar := func(e ast.Expr) (int, bool) {
		return t.sliceSlot(e)
	}
	isVarObj := func(e ast.Expr) (types.Object, bool) {
		// identity for isFreshExpr: slots are wrapped as objects through a table
		return nil, false
	}
	_ = isVarObj
	allowed := map[ast.Expr]bool{} // occurrences already classified as harmless
	var bad string
	fresh := func(rhs ast.Expr, target int) bool {
		switch r := ast.Unparen(rhs).(type) {
		case *ast.CompositeLit:
			return true
		case *ast.Ident:
			return r.Name == "nil"
		case *ast.CallExpr:
			if id, ok := r.Fun.(*ast.Ident); ok {
				if _, isB := info.Uses[id].(*types.Builtin); isB {
					if id.Name == "make" {
						return true
					}
					if id.Name == "append" && len(r.Args) > 0 {
						if o, ok := isSliceVar(r.Args[0]); ok && o == target {
							return true
						}
					}
					return false
				}
				if fobj, ok := info.Uses[id].(*types.Func); ok && fobj.Pkg() == pkg && freshFns[id.Name] {
					return true
				}
			}
		}
		return false
	}
	ast.Inspect(fd.Body, func(n ast.Node) bool {
		switch x := n.(type) {
		case *ast.AssignStmt:
			for i, l := range x.Lhs {
				if ie, ok := l.(*ast.IndexExpr); ok {
					if o, ok := isSliceVar(ie.X); ok {
						get(o).written = true
						allowed[ie.X] = true
					}
				}
				if o, ok := isSliceVar(l); ok {
					allowed[l] = true
					if len(x.Lhs) == len(x.Rhs) && (x.Tok == token.ASSIGN || x.Tok == token.DEFINE) {
						if !fresh(x.Rhs[i], o) {
							get(o).badAssign = "assigned from a value that is not a fresh allocation"
						}
					} else {
						get(o).badAssign = "assigned by a multi-valued or compound form"
					}
				}
			}
		case *ast.IncDecStmt:
			if ie, ok := x.X.(*ast.IndexExpr); ok {
				if o, ok := isSliceVar(ie.X); ok {
					get(o).written = true
					allowed[ie.X] = true
				}
			}
		case *ast.ValueSpec:
			for i, nm := range x.Names {
				if o, ok := isSliceVar(nm); ok && i < len(x.Values) {
					if !fresh(x.Values[i], o) {
						get(o).badAssign = "declared with a value that is not a fresh allocation"
					}
				}
			}
		case *ast.RangeStmt:
			for _, kv := range []ast.Expr{x.Key, x.Value} {
				if kv == nil {
					continue
				}
				if o, ok := isSliceVar(kv); ok {
					get(o).badAssign = "range variable"
				}
			}
		case *ast.CallExpr:
			if _, _, ok := binaryFn(x, "Put"); ok && len(x.Args) > 0 {
				if o, ok := isSliceVar(x.Args[0]); ok {
					get(o).written = true
					allowed[x.Args[0]] = true
				}
			}
			if id, ok := x.Fun.(*ast.Ident); ok {
				if _, isB := info.Uses[id].(*types.Builtin); isB {
					switch id.Name {
					case "len":
						if _, ok := isSliceVar(x.Args[0]); ok {
							allowed[x.Args[0]] = true
						}
					case "append":
						if o, ok := isSliceVar(x.Args[0]); ok {
							get(o).appended = true
							// must be a self-append: checked through the assignment forms
							allowed[x.Args[0]] = true
						} else {
							bad = "append to something that is not a variable"
						}
					case "copy":
						// in a world function: dst[:k] = src[:k] with src evaluated first (memmove);
						// parameters and receiver fields are taken to be distinct storage
						if t.world >= 0 && len(x.Args) == 2 {
							if o, ok := isSliceVar(x.Args[0]); ok {
								get(o).written = true
								allowed[x.Args[0]] = true
							} else {
								bad = "copy into something that is not a variable"
							}
						} else {
							bad = "copy"
						}
					}
				}
			}
		case *ast.IndexExpr:
			if _, ok := isSliceVar(x.X); ok {
				allowed[x.X] = true
			}
		case *ast.ReturnStmt:
			for _, r := range x.Results {
				if _, ok := isSliceVar(r); ok {
					allowed[r] = true
				}
			}
		}
		return true
	})
	// self-append form: every append(x, ..) must be the right-hand side of x = ...
	ast.Inspect(fd.Body, func(n ast.Node) bool {
		c, ok := n.(*ast.CallExpr)
		if !ok {
			return true
		}
		id, ok := c.Fun.(*ast.Ident)
		if !ok || id.Name != "append" {
			return true
		}
		if _, isB := info.Uses[id].(*types.Builtin); !isB {
			return true
		}
		o, ok := isSliceVar(c.Args[0])
		if !ok {
			return true
		}
		okForm := false
		ast.Inspect(fd.Body, func(m ast.Node) bool {
			as, ok := m.(*ast.AssignStmt)
			if !ok || len(as.Lhs) != len(as.Rhs) || as.Tok != token.ASSIGN {
				return true
			}
			for i, r := range as.Rhs {
				if r == ast.Expr(c) {
					if lo, ok := isSliceVar(as.Lhs[i]); ok && lo == o {
						okForm = true
					}
				}
			}
			return true
		})
		if !okForm {
			bad = "append whose result is not assigned back to its first argument"
		}
		return true
	})
	// remaining occurrences of slice variables
	var visit func(n ast.Node) bool
	visit = func(n ast.Node) bool {
		e, ok := n.(ast.Expr)
		if !ok {
			return true
		}
		if allowed[e] {
			return false
		}
		switch x := e.(type) {
		case *ast.Ident:
			if _, isDef := info.Defs[x]; isDef {
				return true
			}
			if o, ok := isSliceVar(x); ok {
				get(o).otherUse = fmt.Sprintf("used as a value at %s", fset.Position(x.Pos()))
			}
		case *ast.SelectorExpr:
			if o, ok := isSliceVar(x); ok {
				get(o).otherUse = fmt.Sprintf("used as a value at %s", fset.Position(x.Pos()))
				return false
			}
		}
		return true
	}
	ast.Inspect(fd.Body, visit)
	// a struct variable passed whole to a call or assigned whole shares its slice fields
	ast.Inspect(fd.Body, func(n ast.Node) bool {
		id, ok := n.(*ast.Ident)
		if !ok {
			return true
		}
		obj := info.Uses[id]
		if obj == nil {
			return true
		}
		if m, isS := t.structs[obj]; isS && m != nil {
			for _, sl := range t.structOrder[obj] {
				if t.zero[sl] == "VL []" {
					// occurrences of the variable that are not a field selection
					_ = sl
				}
			}
		}
		return true
	})
	wholeUse := map[types.Object]bool{}
	// uses of a whole struct variable that create no alias a later store could be seen through:
	// comparison with nil, being assigned to, and being handed to an external function (which is a
	// function of the argument VALUES by hypothesis - it is not modelled as retaining the storage)
	harmless := map[*ast.Ident]bool{}
	ast.Inspect(fd.Body, func(n ast.Node) bool {
		switch x := n.(type) {
		case *ast.BinaryExpr:
			if x.Op == token.EQL || x.Op == token.NEQ {
				for _, pair := range [][2]ast.Expr{{x.X, x.Y}, {x.Y, x.X}} {
					if id, ok := ast.Unparen(pair[0]).(*ast.Ident); ok {
						if nid, ok := ast.Unparen(pair[1]).(*ast.Ident); ok && nid.Name == "nil" {
							harmless[id] = true
						}
					}
				}
			}
		case *ast.AssignStmt:
			for _, l := range x.Lhs {
				if id, ok := l.(*ast.Ident); ok {
					harmless[id] = true
				}
			}
		case *ast.CallExpr:
			if _, isO := t.oracleCall(x); isO {
				for _, a := range x.Args {
					if id, ok := ast.Unparen(a).(*ast.Ident); ok {
						harmless[id] = true
					}
				}
			}
			if t.ignorable(x) {
				// logging: the arguments are only formatted
				for _, a := range x.Args {
					ast.Inspect(a, func(m ast.Node) bool {
						if id, ok := m.(*ast.Ident); ok {
							harmless[id] = true
						}
						return true
					})
				}
			}
		}
		return true
	})
	ast.Inspect(fd.Body, func(n ast.Node) bool {
		switch x := n.(type) {
		case *ast.SelectorExpr:
			if _, ok := t.structVar(x.X); ok {
				return false // a field selection, not a use of the whole variable
			}
		case *ast.Ident:
			if _, isDef := info.Defs[x]; isDef {
				return true
			}
			if obj, ok := t.structVar(x); ok && !harmless[x] {
				if os.Getenv("GOSRC_DEBUG") != "" {
					fmt.Fprintln(os.Stderr, "whole use of", x.Name, "at", fset.Position(x.Pos()))
				}
				wholeUse[obj] = true
			}
		}
		return true
	})
	for obj := range wholeUse {
		for _, sl := range t.structOrder[obj] {
			if t.zero[sl] == "VL []" {
				get(sl).otherUse = "its struct variable " + obj.Name() + " is used as a whole (passed or assigned)"
			}
		}
	}
	if bad != "" {
		return "aliasing discipline: " + bad
	}
	for o, f := range fs {
		if !f.written && !f.appended {
			continue
		}
		name := t.names[o]
		if o < t.nparams {
			if t.world >= 0 && t.written[o] && !f.appended {
				// written in place by copy / Read: the new contents are handed back as an out
				continue
			}
			return "aliasing discipline: parameter " + name + " is written or appended to"
		}
		if f.badAssign != "" {
			return "aliasing discipline: " + name + " " + f.badAssign
		}
		if f.written && f.otherUse != "" {
			return "aliasing discipline: " + name + " is written through an index and " + f.otherUse
		}
	}
	return ""
}
