package main

import (
	"crypto/x509"
	"crypto/x509/pkix"
	"encoding/asn1"
	"fmt"
	"log"
	"io"
	"time"

	"github.com/simonvetter/modbus"
	"verifharness/internal/sconn"
)

func client(url string) (*modbus.ModbusClient, *sconn.Conn) {
	c := sconn.New(true)
	mc, err := modbus.VerifNewClientOnConn(&modbus.ClientConfiguration{URL: url, Timeout: 50 * time.Millisecond, Speed: 10000000,
		Logger: log.New(io.Discard, "", 0)}, c)
	if err != nil {
		panic(err)
	}
	return mc, c
}

type h struct{ err error }

func (x *h) HandleCoils(r *modbus.CoilsRequest) ([]bool, error)                      { return make([]bool, r.Quantity), x.err }
func (x *h) HandleDiscreteInputs(r *modbus.DiscreteInputsRequest) ([]bool, error)    { return make([]bool, r.Quantity), x.err }
func (x *h) HandleHoldingRegisters(r *modbus.HoldingRegistersRequest) ([]uint16, error) { return make([]uint16, r.Quantity), x.err }
func (x *h) HandleInputRegisters(r *modbus.InputRegistersRequest) ([]uint16, error)  { return make([]uint16, r.Quantity), x.err }

func main() {
	// F1
	mc, c := client("tcp://x")
	c.Feed([]byte{0, 1, 0, 0, 0, 6, 1, 5, 0, 7, 0xff, 0})
	fmt.Println("F1 WriteCoil(7,false) with echo ff00: err =", mc.WriteCoil(7, false))
	// F2
	mc, c = client("tcp://x")
	c.Feed([]byte{0, 1, 0, 0, 0, 7, 1, 3, 4, 0xaa, 0xbb, 0xcc, 0xdd})
	vs, err := mc.ReadUint32s(0, 32769, modbus.HOLDING_REGISTER)
	fmt.Printf("F2 ReadUint32s(0,32769): vals=%d err=%v sent=%x\n", len(vs), err, c.WriteLog())
	// F3
	mc, c = client("tcp://x")
	err = mc.WriteCoils(5, make([]bool, 65537))
	w := c.WriteLog()
	n := 0
	if len(w) > 0 {
		n = len(w[0])
	}
	fmt.Printf("F3 WriteCoils(5, 65537 bools): err=%v frames=%d first len=%d\n", err, len(w), n)
	mc, c = client("tcp://x")
	err = mc.WriteRegisters(5, make([]uint16, 32769))
	w = c.WriteLog()
	n = 0
	if len(w) > 0 {
		n = len(w[0])
	}
	fmt.Printf("F3 WriteRegisters(5, 32769 regs): err=%v frames=%d first len=%d\n", err, len(w), n)
	// F4
	mc, c = client("tcp://x")
	mc.SetEncoding(modbus.LITTLE_ENDIAN, modbus.HIGH_WORD_FIRST)
	buf := []byte{1, 2, 3, 4}
	mc.WriteBytes(0, buf)
	fmt.Printf("F4 WriteBytes LE: caller slice now %v\n", buf)
	mc, c = client("tcp://x")
	back := []byte{1, 2, 3, 0x99}
	mc.WriteBytes(0, back[:3])
	fmt.Printf("F4 WriteBytes odd w/ spare cap: backing array now %v\n", back)
	// F5
	srv, _ := modbus.NewServer(&modbus.ServerConfiguration{URL: "tcp://127.0.0.1:0", Logger: log.New(io.Discard, "", 0)}, &h{err: modbus.ErrProtocolError})
	sc := sconn.New(true)
	sc.Feed([]byte{0, 1, 0, 0, 0, 6, 1, 3, 0, 0, 0, 1})
	sc.PeerClose()
	srv.VerifServeConn(sc)
	fmt.Printf("F5 handler returns ErrProtocolError: responses=%x closed=%v\n", sc.WriteLog(), sc.IsClosed())
	// F9
	oid := asn1.ObjectIdentifier{1, 3, 6, 1, 4, 1, 50316, 802, 1}
	cert := &x509.Certificate{Extensions: []pkix.Extension{{Id: oid, Value: []byte{0x0c, 1, 0x41, 0}}}}
	fmt.Printf("F9 role for 0c 01 41 00: %q\n", modbus.VerifExtractRole(cert))
}
