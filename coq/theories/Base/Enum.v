(* Complete finite enumerators, used to lift vm_compute sweeps to forall. *)
From Modbus Require Import Base.Bytes.
From Coq Require Import ZifyBool ZifyNat ZifyN.
Ltac Zify.zify_post_hook ::= Z.div_mod_to_equations.

(* all naturals below 2^k, built in O(2^k) *)
Fixpoint bitsN (k : nat) : list N :=
  match k with
  | O => [0]
  | S k' => flat_map (fun x => [2 * x; 2 * x + 1]) (bitsN k')
  end.

Lemma bitsN_complete k x : x < 2 ^ N.of_nat k -> In x (bitsN k).
Proof.
  revert x; induction k as [|k IH]; intros x Hx.
  - cbn in *. left. lia.
  - cbn [bitsN]. apply in_flat_map. exists (x / 2). split.
    + apply IH. rewrite Nat2N.inj_succ, N.pow_succ_r' in Hx.
      remember (2 ^ N.of_nat k) as p eqn:Hp. clear - Hx. lia.
    + cbn [In]. destruct (N.eq_dec (x mod 2) 0); [left|right; left]; lia.
Qed.

Lemma forall_below_pow2 (P : N -> bool) k :
  forallb P (bitsN k) = true -> forall x, x < 2 ^ N.of_nat k -> P x = true.
Proof.
  intros H x Hx. rewrite forallb_forall in H. apply H, bitsN_complete, Hx.
Qed.

Definition bytes_all : list N := bitsN 8.
Definition words_all : list N := bitsN 16.

Lemma forall_bytes (P : N -> bool) :
  forallb P bytes_all = true -> forall x, x < 256 -> P x = true.
Proof. intros H x Hx. apply (forall_below_pow2 P 8 H). exact Hx. Qed.

Lemma forall_words (P : N -> bool) :
  forallb P words_all = true -> forall x, x < 65536 -> P x = true.
Proof. intros H x Hx. apply (forall_below_pow2 P 16 H). exact Hx. Qed.
