(* Total maps over addresses ("cells") with block store / block load, and the
   four tables of the Modbus data model. Shared vocabulary of the register
   file specification (Spec/RegFile.v) and the memory-backed handler of the
   end-to-end model (Model/E2E.v). *)
From Modbus Require Import Base.Bytes.

(* l is stored at a, a+1, ...; every other cell keeps its content *)
Definition cells_store {A} (m : N -> A) (a : N) (l : list A) : N -> A :=
  let n := lenN l in
  fun k => if (a <=? k) && (k <? a + n) then nth (N.to_nat (k - a)) l (m k) else m k.

(* the addresses a, a+1, ..., a+n-1 *)
Definition cells_addrs (a n : N) : list N :=
  map (fun i => a + N.of_nat i) (seq 0 (N.to_nat n)).

(* the content of the n cells starting at a *)
Definition cells_load {A} (m : N -> A) (a n : N) : list A := map m (cells_addrs a n).

(* coils, discrete inputs, holding registers, input registers *)
Record rfmem := mkrfmem {
  rf_coils : N -> bool;
  rf_discrete : N -> bool;
  rf_holding : N -> N;
  rf_input : N -> N
}.
