(* Bytes, words and small list utilities shared by the whole model. *)
From Coq Require Export List NArith ZArith Lia Bool.
From Coq Require Import ZifyBool ZifyNat ZifyN.
Export ListNotations.
Open Scope N_scope.

Ltac Zify.zify_post_hook ::= Z.div_mod_to_equations.

Definition is_byte (b : N) : bool := b <? 256.
Definition is_word (w : N) : bool := w <? 65536.
Definition bytesb (l : list N) : bool := forallb is_byte l.

(* Go's uint16(x), byte(x) narrowing conversions *)
Definition u16 (x : N) : N := x mod 65536.
Definition u8 (x : N) : N := x mod 256.

(* big-endian digits of a 16-bit word *)
Definition be16 (v : N) : list N := [(v / 256) mod 256; v mod 256].
Definition le16 (v : N) : list N := [v mod 256; (v / 256) mod 256].

(* Go slice expression l[lo:hi] on a slice whose capacity equals its length:
   None models the run-time panic. *)
Definition slice {A} (l : list A) (lo hi : nat) : option (list A) :=
  if andb (Nat.leb lo hi) (Nat.leb hi (length l))
  then Some (firstn (hi - lo) (skipn lo l)) else None.

Definition lenN {A} (l : list A) : N := N.of_nat (length l).

Fixpoint list_eqb (a b : list N) : bool :=
  match a, b with
  | [], [] => true
  | x :: a', y :: b' => andb (x =? y) (list_eqb a' b')
  | _, _ => false
  end.

Lemma list_eqb_eq a b : list_eqb a b = true <-> a = b.
Proof.
  revert b; induction a as [|x a IH]; intros [|y b]; cbn; split; intros H;
    try congruence; try discriminate.
  - apply andb_true_iff in H as [H1 H2]. apply N.eqb_eq in H1. apply IH in H2. congruence.
  - inversion H; subst. rewrite N.eqb_refl. cbn. apply IH. reflexivity.
Qed.

Lemma bytesb_app a b : bytesb (a ++ b) = andb (bytesb a) (bytesb b).
Proof. unfold bytesb. apply forallb_app. Qed.

Lemma bytesb_Forall l : bytesb l = true <-> Forall (fun b => b < 256) l.
Proof.
  unfold bytesb. rewrite forallb_forall, Forall_forall. unfold is_byte.
  split; intros H x Hx; specialize (H x Hx); lia.
Qed.

Lemma be16_bytes v : bytesb (be16 v) = true.
Proof. unfold be16, bytesb, is_byte; cbn [forallb]. lia. Qed.

Lemma le16_bytes v : bytesb (le16 v) = true.
Proof. unfold le16, bytesb, is_byte; cbn [forallb]. lia. Qed.

(* induction two elements at a time *)
Lemma list_ind2 {A} (P : list A -> Prop) :
  P [] -> (forall a, P [a]) -> (forall a b t, P t -> P (a :: b :: t)) -> forall l, P l.
Proof.
  intros H0 H1 H2. fix IH 1. intros [|a [|b t]]; [exact H0|apply H1|apply H2, IH].
Qed.
