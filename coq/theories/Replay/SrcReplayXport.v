(* In-Coq replay of the TRANSLATED TRANSPORT LAYER against the real code
   (bin/srcreplay.py, scenarios whose input is a byte stream served to a real
   client on a scripted connection): the GoLite interpreter runs
   tcpTransport.ExecuteRequest / rtuTransport.ExecuteRequest of Gen/SrcPure.v
   with the socket modelled as a world made of the stream still to be read and
   the bytes written so far (io.ReadFull as Model/Wire.read_full), and must
   write the frame the real client wrote, consume as many bytes of the stream as
   the real client consumed, and fail in the class in which the real call
   failed. This checks the translator, the GoLite semantics AND the modelling of
   the external calls against the Go runtime. *)
From Coq Require Import List NArith String Bool.
Import ListNotations.
From Modbus Require Import Base.Bytes Model.GoLite Gen.SrcPure Model.Wire Model.Transport Replay.SrcReplayLib.
From Modbus Require Import Proofs.GoLiteLinkP Proofs.SrcMiscP Proofs.SrcTransportP.
Open Scope string_scope.
Open Scope N_scope.

Definition lw_stream (w : val) : list N := match w with VL [VL s; _] => unbytes s | _ => [] end.
Definition lw_written (w : val) : list N := match w with VL [_; VL o] => unbytes o | _ => [] end.
Definition mklw (s o : list N) : val := VL [vbytes s; vbytes o].

Definition log_world (e : send) : tworld := {|
  t_now := fun w => (w, 0);
  t_sleep := fun w _ => w;
  t_setdl := fun w _ => (w, 0);
  t_write := fun w bs => (mklw (lw_stream w) (lw_written w ++ bs), lenN bs, 0);
  t_readfull := fun w n =>
    match read_full (N.to_nat n) (lw_stream w) with
    | RFull got rest => (mklw rest (lw_written w), got, 0)
    | RShort got =>
        (mklw [] (lw_written w), got,
         match e, got with
         | Stall, _ => 2
         | Reset, _ => 1
         | Closed, [] => src_eof
         | Closed, _ => c_ueof src_codes
         end)
    end;
  t_close := fun w => (w, 0)
|}.

(* class of the error the real call returned: 0 = none of the classes below
   (a result, or an error raised above the transport), 1 = timeout, 2 = other
   i/o error, 3 = protocol error, 4 = bad CRC, 5 = short frame *)
Definition class_ok (cls err : N) : bool :=
  let io := orb (err =? 1) (orb (err =? src_eof) (err =? c_ueof src_codes)) in
  if cls =? 1 then orb (err =? 2) (err =? c_timedout src_codes)
  else if cls =? 2 then io
  else if cls =? 3 then orb (err =? 0) (err =? c_proto src_codes)
  else if cls =? 4 then err =? c_badcrc src_codes
  else if cls =? 5 then err =? c_short src_codes
  else err =? 0.

Definition list_N_eqb (a b : list N) : bool := list_eqb a b.

Definition xport_check (fn : string) (fields : list val) (e : send) (stream : list N) (unit fc : N) (payload : list N)
           (written : list N) (consumed cls : N) : bool :=
  match call_with src_pure (world_base (log_world e)) replay_fuel fn
          (fields ++ [VN unit; VN fc; vbytes payload; mklw stream []])%list with
  | GoLite.Ok outs =>
      match rev outs with
      | VN err :: _ :: _ :: _ :: _ :: w' :: _ =>
          andb (list_N_eqb (lw_written w') written)
               (andb (lenN stream - lenN (lw_stream w') =? consumed) (class_ok cls err))
      | _ => false
      end
  | _ => false
  end.

Definition xport_tcp (e : send) (stream : list N) (last unit fc : N) (payload written : list N) (consumed cls : N) : bool :=
  xport_check "tcpTransport.ExecuteRequest" [VN 1000000000; VN last] e stream unit fc payload written consumed cls.

(* rtu over a stream: 10 Mbit/s, t1 = 1100 ns, t3.5 = 1750000 ns (above 19200 bps the spec's fixed value) *)
Definition xport_rtu (e : send) (stream : list N) (unit fc : N) (payload written : list N) (consumed cls : N) : bool :=
  xport_check "rtuTransport.ExecuteRequest" [VN 1000000000; VN 0; VN 1750000; VN 1100] e stream unit fc payload written consumed cls.
