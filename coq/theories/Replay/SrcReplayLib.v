(* Comparison helpers for the in-Coq replay of the TRANSLATED SOURCE
   (bin/srcreplay.py): the GoLite interpreter runs the functions of
   Gen/SrcPure.v, inside the kernel's VM, on inputs the harness gave to the
   real Go code, and must produce what the real code produced. This checks
   the translator and the GoLite semantics against the Go runtime. *)
From Coq Require Import List NArith String Bool.
Import ListNotations.
From Modbus Require Import Model.GoLite Gen.SrcPure.
Open Scope N_scope.

Fixpoint val_eqb (a b : val) : bool :=
  match a, b with
  | VN x, VN y => x =? y
  | VB x, VB y => Bool.eqb x y
  | VL l, VL m =>
      (fix go (l m : list val) : bool :=
         match l, m with
         | [], [] => true
         | x :: l', y :: m' => andb (val_eqb x y) (go l' m')
         | _, _ => false
         end) l m
  | _, _ => false
  end.

Fixpoint vals_eqb (a b : list val) : bool :=
  match a, b with
  | [], [] => true
  | x :: a', y :: b' => andb (val_eqb x y) (vals_eqb a' b')
  | _, _ => false
  end.

Definition res_eqb (a b : res (list val)) : bool :=
  match a, b with
  | Ok x, Ok y => vals_eqb x y
  | Panic, Panic | Stuck, Stuck | OutOfFuel, OutOfFuel => true
  | _, _ => false
  end.

Definition replay_fuel : nat := N.to_nat 70000.

(* the whole result *)
Definition src_check (f : string) (args : list val) (expected : res (list val)) : bool :=
  res_eqb (call src_pure replay_fuel f args) expected.

(* only the last returned value (methods return their receiver fields first) *)
Definition src_check_last (f : string) (args : list val) (expected : val) : bool :=
  match call src_pure replay_fuel f args with
  | Ok vs => match rev vs with v :: _ => val_eqb v expected | [] => false end
  | _ => false
  end.

Fixpoint failing (i : nat) (l : list bool) : list nat :=
  match l with
  | [] => []
  | b :: t => if b then failing (S i) t else i :: failing (S i) t
  end.
