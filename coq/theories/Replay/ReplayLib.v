(* Boolean comparisons used by the in-Coq replay of a sample of the
   correspondence cases (bin/coqreplay.py): the model is evaluated by the
   kernel's VM on the same inputs the extracted OCaml evaluated, and the two
   evaluators must agree. *)
From Modbus Require Import Base.Bytes Model.Encoding Model.Wire Model.Client.

Definition err_eqb (a b : err) : bool :=
  match a, b with
  | ETimeout, ETimeout | EParams, EParams | EProtocol, EProtocol | EBadCRC, EBadCRC
  | EShortFrame, EShortFrame | EBadUnit, EBadUnit | EUnknownProto, EUnknownProto | EIO, EIO => true
  | EExc x, EExc y | EExcUnknown x, EExcUnknown y => x =? y
  | _, _ => false
  end.

Fixpoint bools_eqb (a b : list bool) : bool :=
  match a, b with
  | [], [] => true
  | x :: a', y :: b' => andb (Bool.eqb x y) (bools_eqb a' b')
  | _, _ => false
  end.

Definition values_eqb (a b : values) : bool :=
  match a, b with
  | VUnit, VUnit => true
  | VBools x, VBools y => bools_eqb x y
  | VNums x, VNums y | VBytes x, VBytes y => list_eqb x y
  | _, _ => false
  end.

Definition result_eqb (a b : result values) : bool :=
  match a, b with
  | Ok x, Ok y => values_eqb x y
  | Err x, Err y => err_eqb x y
  | Panic, Panic | OutOfFuel, OutOfFuel => true
  | _, _ => false
  end.

Fixpoint lists_eqb (a b : list (list N)) : bool :=
  match a, b with
  | [], [] => true
  | x :: a', y :: b' => andb (list_eqb x y) (lists_eqb a' b')
  | _, _ => false
  end.

(* one client-call case: the model's result, write log and number of peer bytes consumed *)
Definition cc_check (fr : framing) (cfg : ccfg) (o : op) (e : send) (s : list N)
  (exp_res : result values) (exp_writes : list (list N)) (exp_consumed : nat) : bool :=
  let r := client_call fr cfg 0 o e s in
  andb (result_eqb (cr_res r) exp_res)
    (andb (lists_eqb (cr_writes r) exp_writes)
          (Nat.eqb (length s - length (cr_rest r)) exp_consumed)).

(* indices of the cases that do not check *)
Fixpoint failing (i : nat) (l : list bool) : list nat :=
  match l with
  | [] => []
  | b :: t => if b then failing (S i) t else i :: failing (S i) t
  end.

(* ---- server sessions with the scripted handler *)
From Modbus Require Import Model.Server Model.ScriptHandler.

Definition hkind_eqb (a b : hkind) : bool :=
  match a, b with
  | HCoils, HCoils | HDiscrete, HDiscrete | HHolding, HHolding | HInput, HInput => true
  | _, _ => false
  end.

Definition hreq_eqb (a b : hreq) : bool :=
  hkind_eqb (h_kind a) (h_kind b) && (h_unit a =? h_unit b) && (h_addr a =? h_addr b)
  && (h_qty a =? h_qty b) && Bool.eqb (h_write a) (h_write b)
  && bools_eqb (h_bools a) (h_bools b) && list_eqb (h_regs a) (h_regs b).

Definition event_eqb (a b : event) : bool :=
  match a, b with
  | EvCall x, EvCall y => hreq_eqb x y
  | EvResp x, EvResp y => list_eqb x y
  | EvClosed, EvClosed => true
  | _, _ => false
  end.

Fixpoint events_eqb (a b : list event) : bool :=
  match a, b with
  | [], [] => true
  | x :: a', y :: b' => andb (event_eqb x y) (events_eqb a' b')
  | _, _ => false
  end.

Definition srv_check (script : list sh_beh) (e : send) (s : list N) (expected : list event) : bool :=
  events_eqb (sh_run script e s) expected.
