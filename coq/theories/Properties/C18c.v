(* C18c - "slices returned by read calls are not altered by later calls on the
   same client", for the later calls that are NOT requests: Close() and Open().
   Statements only; proofs in Proofs/HeapLifeP.v. Model: Model/HeapLife.v (the
   histories of Model/Heap.v extended by HlClose / HlOpen: the handle's
   transport slot with its transaction counter, unread bytes, the peer's end
   of the connection, and the closed flag); vocabulary: Spec/AliasSpec.v.

   hl_step gr fr c ev  runs one event on the client c: a caller allocation,
   a request call (on an open or on a closed handle), Close(), Open(). *)
From Coq Require Import List.
From Modbus Require Import Base.Bytes Model.Crc Model.Encoding Model.Wire Model.Client Model.Heap
  Model.HeapLife Spec.AliasSpec Proofs.HeapLifeP.

(* L1. Whatever the event - a request call in any state of the handle,
   Close(), Open() - and whatever the state of the client: every array that
   existed before is bit for bit the same afterwards. *)
Theorem c18c_event_memory_untouched : forall gr fr c ev,
  memory_untouched (hl_heap c) (hl_heap (fst (hl_step gr fr c ev))).
Proof. exact c18c_memory. Qed.

Theorem c18c_history_memory_untouched : forall gr fr c evs,
  memory_untouched (hl_heap c) (hl_heap (hl_run gr fr c evs)).
Proof. exact c18c_memory_run. Qed.

(* Close() and Open() store nothing at all and allocate nothing the caller
   could reach *)
Theorem c18c_close_stores_nothing : forall gr fr c,
  hl_heap (fst (hl_step gr fr c HlClose)) = hl_heap c.
Proof. exact c18c_close_heap. Qed.

Theorem c18c_open_stores_nothing : forall gr fr c,
  hl_heap (fst (hl_step gr fr c HlOpen)) = hl_heap c.
Proof. exact c18c_open_heap. Qed.

(* every slice the caller holds - contents and spare capacity - reads the same
   after any history of request calls, Close() and Open() *)
Theorem c18c_caller_slice_untouched : forall gr fr c evs t,
  caller_slice (hl_heap c) t ->
  slice_untouched (hl_heap c) (hl_heap (hl_run gr fr c evs)) t.
Proof. exact c18c_caller_slice. Qed.

(* L2. For every history of request calls (any operations, settings, replies,
   peers that end the connection), caller allocations, Close() and Open() on
   one client: every slice returned so far reads the same - contents and
   spare capacity - after any number of later events of any of these kinds. *)
Theorem c18c_results_stable_across_close_open : forall gr fr h0 evs1 evs2 r,
  let c1 := hl_run gr fr (hl_init h0) evs1 in
  let c2 := hl_run gr fr c1 evs2 in
  In r (hl_results c1) ->
  slice_untouched (hl_heap c1) (hl_heap c2) r.
Proof. exact c18c_stable. Qed.

(* L3. A request call on a closed handle is not a success, transmits nothing,
   returns no slice and leaves the transaction counter alone. *)
Theorem c18c_call_on_closed_handle : forall gr fr c cfg o e chunk,
  hl_closed c = true ->
  exists r, snd (hl_step gr fr c (HlCall cfg o e chunk)) = Some r /\
    (forall v, hr_res r <> Ok v) /\ hr_writes r = [] /\
    hl_results (fst (hl_step gr fr c (HlCall cfg o e chunk))) = hl_results c /\
    hl_txn (fst (hl_step gr fr c (HlCall cfg o e chunk))) = hl_txn c.
Proof. exact c18c_closed_call. Qed.

(* L4 (link to C18). A request call on an open handle whose peer keeps the
   connection IS the call of Model/Heap.v (C18, C18b speak about it), and a
   history without Close / Open is a history of Model/Heap.v. *)
Theorem c18c_call_on_open_handle : forall gr fr c cfg o e chunk,
  hl_closed c = false -> hl_end c = Stall ->
  let r := hp_call gr fr cfg (hl_txn c) o e (hl_left c ++ chunk) (hl_heap c) in
  snd (hl_step gr fr c (HlCall cfg o e chunk)) = Some (fst r) /\
  hl_heap (fst (hl_step gr fr c (HlCall cfg o e chunk))) = snd r /\
  hl_results (fst (hl_step gr fr c (HlCall cfg o e chunk))) = hv_slices (hr_res (fst r)) ++ hl_results c.
Proof. exact c18c_open_call. Qed.

Theorem c18c_without_close_open : forall gr fr c ev,
  hl_closed c = false -> hl_end c = Stall ->
  let c' := fst (hl_step gr fr c (hl_of_event ev)) in
  let d' := hp_step gr fr (mkhc (hl_heap c) (hl_txn c) (hl_left c) (hl_results c)) ev in
  hl_heap c' = hc_heap d' /\ hl_txn c' = hc_txn d' /\ hl_left c' = hc_left d' /\
  hl_results c' = hc_results d' /\ hl_closed c' = false.
Proof. exact c18c_no_life_step. Qed.

(* non-vacuity. ReadBytes (little endian, odd quantity) returns a slice; the
   caller closes the client: the slice still reads the same; a call on the
   closed handle fails and sends nothing; after Open() the transaction counter
   starts again and WriteBytes of the kept slice sends its bytes (swapped on
   the wire, padded), and the slice still reads the same *)
Example c18c_ex_close_open :
  let cfg := mkcfg 1 LittleE HighFirst in
  let reply1 := [0; 1; 0; 0; 0; 7; 1; 3; 4; 0x0a; 0x0b; 0x0c; 0x0d] in
  let c1 := hl_run hp_gr_double FMbap (hl_init [])
              [HlCall cfg (HpOther (OpReadBytes false 0 3 Holding)) Stall reply1] in
  match hl_results c1 with
  | [r] =>
      h_read r (hl_heap c1) = [0x0b; 0x0a; 0x0d] /\
      let c2 := hl_run hp_gr_double FMbap c1 [HlClose] in
      h_read r (hl_heap c2) = [0x0b; 0x0a; 0x0d] /\ hl_closed c2 = true /\
      let '(c3, o3) := hl_step hp_gr_double FMbap c2 (HlCall cfg (HpWriteBytes false 7 r) Stall []) in
      option_map hr_res o3 = Some (Err EIO) /\ option_map hr_writes o3 = Some [] /\
      let c4 := hl_run hp_gr_double FMbap c3 [HlOpen] in
      hl_txn c4 = 0 /\ hl_closed c4 = false /\
      let '(c5, o5) := hl_step hp_gr_double FMbap c4
                         (HlCall cfg (HpWriteBytes false 7 r) Stall [0; 1; 0; 0; 0; 6; 1; 16; 0; 7; 0; 2]) in
      option_map hr_writes o5 = Some [[0; 1; 0; 0; 0; 11; 1; 16; 0; 7; 0; 2; 4; 0x0a; 0x0b; 0; 0x0d]] /\
      option_map hr_res o5 = Some (Ok HvUnit) /\
      h_read r (hl_heap c5) = [0x0b; 0x0a; 0x0d] /\ length (hl_results c5) = 1%nat
  | _ => False
  end.
Proof. vm_compute. repeat split; reflexivity. Qed.

Print Assumptions c18c_event_memory_untouched.
Print Assumptions c18c_history_memory_untouched.
Print Assumptions c18c_close_stores_nothing.
Print Assumptions c18c_open_stores_nothing.
Print Assumptions c18c_caller_slice_untouched.
Print Assumptions c18c_results_stable_across_close_open.
Print Assumptions c18c_call_on_closed_handle.
Print Assumptions c18c_call_on_open_handle.
Print Assumptions c18c_without_close_open.
