(* C12 / C07 / C18, source level: the socket wrappers of udp.go and tls_utils.go AS
   TRANSLATED FROM THE GO SOURCE ON THIS RUN (copy as a memmove on values, the
   wrapped socket as external functions over the world, a written slice
   parameter handed back). For EVERY wrapped socket: udpSockWrapper.Read
   serves what is left of the last datagram first, otherwise reads one
   datagram into its own buffer, hands out what fits and keeps the rest at the
   front of that buffer; on a queue of datagrams this is usw_read of
   Model/Udp.v, the function the UDP theorems of C12.v are about.
   tlsSockWrapper.Read writes only buf[0:rlen]; tlsSockWrapper.Write closes
   the socket exactly when the write failed with a timeout. Only statements,
   closed by [exact]. *)
From Coq Require Import List NArith String.
Import ListNotations.
From Modbus Require Import Base.Bytes.
From Modbus Require Import Model.GoLite.
From Modbus Require Import Gen.SrcPure.
From Modbus Require Import Model.Wire.
From Modbus Require Import Model.Chunks.
From Modbus Require Import Model.Udp.
From Modbus Require Import Model.Transport.
From Modbus Require Import Proofs.GoLiteLinkP.
From Modbus Require Import Proofs.SrcCrcP.
From Modbus Require Import Proofs.SrcMiscP.
From Modbus Require Import Proofs.SrcClientP.
From Modbus Require Import Proofs.SrcTransportP.
From Modbus Require Import Proofs.SrcWrapP.
From Modbus Require Import Proofs.SrcWrapRunP.
From Modbus Require Import Proofs.UdpRefineP.
Open Scope string_scope.
Open Scope N_scope.

Theorem c12t_udp_Read :
  forall (base : fenv) (fuel : nat) (T : tworld) (lft : N) (rxbuf buf : list N) (w : val),
       sock_hyp base T ->
       tread_wf T ->
       bytesb rxbuf = true ->
       bytesb buf = true ->
       lft <= lenN rxbuf ->
       lenN rxbuf < 2 ^ 32 ->
       lenN buf < 2 ^ 32 ->
       call_with src_pure base fuel "udpSockWrapper.Read" [VN lft; vbytes rxbuf; vbytes buf; w] =
       out_udp_read T lft rxbuf buf w.
Proof. exact src_udp_Read_ok. Qed.
Print Assumptions c12t_udp_Read.

Theorem c12t_udp_Write :
  forall (base : fenv) (fuel : nat) (T : tworld) (lft : N) (rxbuf buf : list N) (w : val),
       sock_hyp base T ->
       call_with src_pure base fuel "udpSockWrapper.Write" [VN lft; vbytes rxbuf; vbytes buf; w] =
       out_udp_write T lft rxbuf buf w.
Proof. exact src_udp_Write_ok. Qed.
Print Assumptions c12t_udp_Write.

Theorem c12t_udp_Close :
  forall (base : fenv) (fuel : nat) (T : tworld) (lft : N) (rxbuf : list N) (w : val),
       sock_hyp base T ->
       call_with src_pure base fuel "udpSockWrapper.Close" [VN lft; vbytes rxbuf; w] =
       out_udp_close T lft rxbuf w.
Proof. exact src_udp_Close_ok. Qed.
Print Assumptions c12t_udp_Close.

Theorem c12t_udp_SetDeadline :
  forall (base : fenv) (fuel : nat) (T : tworld) (lft : N) (rxbuf : list N) (d : N) (w : val),
       sock_hyp base T ->
       call_with src_pure base fuel "udpSockWrapper.SetDeadline" [VN lft; vbytes rxbuf; VN d; w] =
       out_udp_setdl T lft rxbuf d w.
Proof. exact src_udp_SetDeadline_ok. Qed.
Print Assumptions c12t_udp_SetDeadline.

Theorem c12t_datagram_world_satisfies_the_hypothesis :
  tread_wf dq_world.
Proof. exact dq_world_wf. Qed.
Print Assumptions c12t_datagram_world_satisfies_the_hypothesis.

Theorem c12t_udp_read_refines :
  forall (u : usw) (rxbuf buf : list N),
       dgrams_bytes (usw_net u) ->
       Datatypes.length rxbuf = usw_rxbuf_len ->
       firstn (Datatypes.length (usw_left u)) rxbuf = usw_left u ->
       (Datatypes.length (usw_left u) <= usw_rxbuf_len)%nat ->
       let
       '(lft', rxbuf', buf', w', rlen, e) :=
        t_udp_read dq_world (lenN (usw_left u)) rxbuf buf (enc_dq (usw_net u)) in
        match usw_read (Datatypes.length buf) u with
        | Rd1 got u' =>
            e = 0 /\
            rlen = lenN got /\
            firstn (Datatypes.length got) buf' = got /\
            skipn (Datatypes.length got) buf' = skipn (Datatypes.length got) buf /\
            lft' = lenN (usw_left u') /\
            firstn (Datatypes.length (usw_left u')) rxbuf' = usw_left u' /\
            Datatypes.length rxbuf' = usw_rxbuf_len /\ w' = enc_dq (usw_net u')
        | Rd1None => e <> 0 /\ buf' = buf /\ lft' = 0
        end.
Proof. exact udp_read_refines. Qed.
Print Assumptions c12t_udp_read_refines.

Theorem c12t_tls_Read :
  forall (base : fenv) (fuel : nat) (T : tworld) (buf : list N) (w : val),
       sock_hyp base T ->
       tread_wf T ->
       lenN buf < 2 ^ 32 ->
       call_with src_pure base fuel "tlsSockWrapper.Read" [vbytes buf; w] = out_tls_read T buf w.
Proof. exact src_tls_Read_ok. Qed.
Print Assumptions c12t_tls_Read.

Theorem c12t_tls_Write :
  forall (base : fenv) (fuel : nat) (T : tworld) (buf : list N) (w : val),
       sock_hyp base T ->
       call_with src_pure base fuel "tlsSockWrapper.Write" [vbytes buf; w] = out_tls_write T buf w.
Proof. exact src_tls_Write_ok. Qed.
Print Assumptions c12t_tls_Write.

Theorem c12t_tls_Close :
  forall (base : fenv) (fuel : nat) (T : tworld) (w : val),
       sock_hyp base T -> call_with src_pure base fuel "tlsSockWrapper.Close" [w] = out_tls_close T w.
Proof. exact src_tls_Close_ok. Qed.
Print Assumptions c12t_tls_Close.

Theorem c12t_tls_SetDeadline :
  forall (base : fenv) (fuel : nat) (T : tworld) (d : N) (w : val),
       sock_hyp base T ->
       call_with src_pure base fuel "tlsSockWrapper.SetDeadline" [VN d; w] = out_tls_setdl T d w.
Proof. exact src_tls_SetDeadline_ok. Qed.
Print Assumptions c12t_tls_SetDeadline.

