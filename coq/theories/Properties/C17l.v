(* C17, lists: converting a LIST of 16-, 32- or 64-bit values (floats are their
   bit patterns) to register bytes and back, for both byte orders, both word
   orders, every list length and all values. Only statements here; proofs live
   in Proofs/EncListsP.v. *)
From Modbus Require Import Base.Bytes Model.Encoding Spec.ModbusSpec Model.EncLists Proofs.EncListsP.

(* the register bytes of a list are the documented layout of every value, in order *)
Theorem c17l_layout : forall k e w vs, Forall (fun v => v < vbound k) vs ->
  enc_list k e w vs = spec_list k e w vs.
Proof. exact enc_list_layout. Qed.

(* reading the registers back gives the values written *)
Theorem c17l_roundtrip : forall k e w vs, Forall (fun v => v < vbound k) vs ->
  dec_list k e w (enc_list k e w vs) = Some vs.
Proof. exact enc_list_roundtrip. Qed.

(* value number i occupies bytes [i*width, (i+1)*width) and these bytes are the
   layout of that value alone, whatever comes before and after it *)
Theorem c17l_position : forall k e w a v b, Forall (fun x => x < vbound k) (a ++ v :: b) ->
  slice (enc_list k e w (a ++ v :: b)) (2 * vregs k * length a) (2 * vregs k * S (length a)) =
  Some (spec_list k e w [v]).
Proof. exact enc_list_at. Qed.

Theorem c17l_length : forall k e w vs, length (enc_list k e w vs) = (2 * vregs k * length vs)%nat.
Proof. exact enc_list_length. Qed.

(* non-vacuity: concrete instances with a word swap on every element *)
Example c17l_ex_u32s : enc_list W32 BigE LowFirst [0x11223344; 0x55667788; 0x99aabbcc] =
  [0x33; 0x44; 0x11; 0x22; 0x77; 0x88; 0x55; 0x66; 0xbb; 0xcc; 0x99; 0xaa].
Proof. reflexivity. Qed.
Example c17l_ex_u64s : dec_list W64 LittleE HighFirst (enc_list W64 LittleE HighFirst [0xfff8000012345678; 1]) =
  Some [0xfff8000012345678; 1].
Proof. reflexivity. Qed.

Print Assumptions c17l_layout.
Print Assumptions c17l_roundtrip.
Print Assumptions c17l_position.
Print Assumptions c17l_length.
