(* C13 - A cut-off exchange never counts as success and never reaches a handler.
   Statements only; proofs in Proofs/CutP.v and Proofs/CutSlotsP.v. Stream
   ends are send = Stall | Closed | Reset (Model/Wire.v): once the peer's
   bytes are used up it stalls until the deadline, closes, or resets. The
   vocabulary (cut_calls, cut_failed, cut_err_class) is in Spec/CutSpec.v, the
   client handle (hd_open, hd_close, hd_call) in Model/Handle.v. *)
From Modbus Require Import Base.Bytes Model.Crc Model.Encoding Model.Wire Model.Client
  Model.Server Model.Handle
  Spec.ModbusSpec Spec.ClientSpec Spec.ServerSpec Spec.ServerSessionSpec Spec.CutSpec
  Proofs.CutP.
From Modbus Require Model.Slots Proofs.SlotsP Proofs.CutSlotsP.

Section C13.
  Context {St : Type} (h : handler St).

  (* T1a: for every well-formed request frame (every function code, every
     content), every cut offset inside it and every stream end: no handler
     call, the session is closed *)
  Theorem c13_server_cut : forall st e t p k,
    pdu_wf p -> (k < length (spec_mbap t p))%nat ->
    server_run h st e (firstn k (spec_mbap t p)) = [EvClosed].
  Proof. exact (server_cut h). Qed.

  Theorem c13_server_cut_no_call : forall st e t p k,
    pdu_wf p -> (k < length (spec_mbap t p))%nat ->
    cut_calls (server_run h st e (firstn k (spec_mbap t p))) = 0%nat.
  Proof. exact (server_cut_calls h). Qed.

  (* the prefix fact behind it *)
  Theorem c13_strict_prefix_not_frame : forall t p k t' p' rest,
    pdu_wf p -> (k < length (spec_mbap t p))%nat -> t' < 65536 -> pdu_wf p' ->
    firstn k (spec_mbap t p) <> spec_mbap t' p' ++ rest.
  Proof. exact strict_prefix_not_frame. Qed.

  (* T1b: the request was fully received and then the peer is gone: exactly
     the events of processing it once (the response write is attempted and its
     failure tolerated), then the close *)
  Theorem c13_server_full : forall st e t p, t < 65536 -> pdu_wf p ->
    server_run h st e (spec_mbap t p) =
    let '(st', calls, act) := server_process h st p in
    map EvCall calls ++
    match act with
    | Respond r => [EvResp (spec_mbap t r); EvClosed]
    | CloseLink => [EvClosed]
    end.
  Proof. exact (server_full h). Qed.

  (* ... for a dispatchable request: the handler runs exactly once *)
  Theorem c13_server_full_once : forall st e t p r, t < 65536 -> pdu_wf p -> handler_wf h ->
    spec_decode p = Some r -> in_range r = true ->
    server_run h st e (spec_mbap t p) =
      [EvCall r; EvResp (spec_mbap t (spec_response p r (snd (h st r)))); EvClosed].
  Proof. exact (server_full_once h). Qed.

  Theorem c13_server_full_calls : forall st e t p, t < 65536 -> pdu_wf p -> handler_wf h ->
    cut_calls (server_run h st e (spec_mbap t p)) =
    match spec_decode p with
    | Some r => if in_range r then 1%nat else 0%nat
    | None => 0%nat
    end.
  Proof. exact (server_full_calls h). Qed.
End C13.

(* T2: for every valid operation, every valid reply, every cut offset inside
   the reply stream (MBAP: also behind, or inside, frames that had to be
   skipped) and every stream end: an error of the stated class, never success *)
Theorem c13_client_cut_rtu : forall cfg txn o e res vs k,
  op_wf o -> cfg_wf cfg -> valid_op o = true ->
  bytesb (p_payload res) = true -> answers cfg o res vs ->
  (k < length (spec_frame FRtu 0 res))%nat ->
  let r := client_call FRtu cfg txn o e (firstn k (spec_frame FRtu 0 res)) in
  cr_res r = Err (cut_err_class FRtu e k) /\ cr_rest r = [].
Proof. exact client_cut_rtu. Qed.

Theorem c13_client_cut_mbap : forall cfg txn o e res vs frames k,
  op_wf o -> cfg_wf cfg -> txn < 65536 -> valid_op o = true ->
  bytesb (p_payload res) = true -> answers cfg o res vs ->
  Forall (skippable (u16 (txn + 1))) frames ->
  (k < length (concat frames ++ spec_frame FMbap (u16 (txn + 1)) res))%nat ->
  let r := client_call FMbap cfg txn o e
             (firstn k (concat frames ++ spec_frame FMbap (u16 (txn + 1)) res)) in
  cr_res r = Err (short_err e) /\ cr_rest r = [].
Proof. exact client_cut_mbap. Qed.

Theorem c13_client_cut_never_ok : forall fr cfg txn o e res vs frames k,
  op_wf o -> cfg_wf cfg -> valid_op o = true ->
  bytesb (p_payload res) = true -> answers cfg o res vs ->
  match fr with
  | FMbap => txn < 65536 /\ Forall (skippable (u16 (txn + 1))) frames
  | FRtu => frames = []
  end ->
  (k < length (concat frames ++ spec_frame fr (u16 (txn + 1)) res))%nat ->
  let r := cr_res (client_call fr cfg txn o e
             (firstn k (concat frames ++ spec_frame fr (u16 (txn + 1)) res))) in
  cut_failed r /\ forall vs', r <> Ok vs'.
Proof. exact client_cut_never_ok. Qed.

(* a cut exception reply is the cut, not the exception *)
Theorem c13_client_cut_exception : forall fr cfg txn o e res code frames k,
  op_wf o -> cfg_wf cfg -> valid_op o = true -> code < 256 ->
  exception_reply cfg o res code ->
  match fr with
  | FMbap => txn < 65536 /\ Forall (skippable (u16 (txn + 1))) frames
  | FRtu => frames = []
  end ->
  (k < length (concat frames ++ spec_frame fr (u16 (txn + 1)) res))%nat ->
  cr_res (client_call fr cfg txn o e
            (firstn k (concat frames ++ spec_frame fr (u16 (txn + 1)) res))) =
    Err (cut_err_class fr e k).
Proof. exact client_cut_exception. Qed.

(* the error classes: timeout for a stalled peer, an i/o error or a short
   frame for a closed or reset one *)
Theorem c13_cut_err_class : forall fr e k,
  cut_err_class fr e k =
  match fr, e with
  | FMbap, Stall => ETimeout
  | FMbap, _ => EIO
  | FRtu, Stall => if Nat.eqb k 0 then ETimeout else if Nat.ltb k 3 then EShortFrame else ETimeout
  | FRtu, Reset => if Nat.eqb k 0 then EIO else if Nat.ltb k 3 then EShortFrame else EIO
  | FRtu, Closed => if Nat.eqb k 0 then EIO else if Nat.ltb k 3 then EShortFrame
                    else if Nat.eqb k 3 then EIO else EShortFrame
  end.
Proof. exact cut_err_class_cases. Qed.

(* T3: whatever happened on the handle (any earlier call, in particular a
   cut-off one), after Close; Open the next call on a valid reply completes
   normally: the transport state is fresh (transaction id 1 again, nothing
   left over from the old connection) *)
Theorem c13_close_open_recovers : forall fr cfg h o1 e1 s1 o e res vs post,
  op_wf o -> cfg_wf cfg -> valid_op o = true ->
  bytesb (p_payload res) = true -> answers cfg o res vs ->
  let h1 := snd (hd_call fr cfg h o1 e1 s1) in
  let h2 := hd_open (hd_close h1) in
  let r := fst (hd_call fr cfg h2 o e (spec_frame fr 1 res ++ post)) in
  cr_res r = Ok vs /\ cr_rest r = post /\
  cr_writes r = [spec_frame fr 1 (spec_pdu cfg o)].
Proof. exact handle_reopen_ok. Qed.

(* between Close and Open every call fails locally: nothing is written *)
Theorem c13_closed_handle_fails : forall fr cfg h o e s, op_wf o ->
  let r := fst (hd_call fr cfg (hd_close h) o e s) in
  cut_failed (cr_res r) /\ cr_writes r = [] /\
  snd (hd_call fr cfg (hd_close h) o e s) = hd_close h.
Proof. exact handle_closed_fails. Qed.

(* T4 (slot side, from the C09 development): in every reachable server state
   a session that ends - the peer disconnected, a protocol error, or the idle
   deadline expired inside a request - is removed from the active list and
   closed, the server stays up, and the freed slot serves a later connection *)
Theorem c13_slot_reclaimed : forall s c w d,
  SlotsP.Inv s -> Slots.started s = true -> Slots.enabled s (Slots.End c w) = true ->
  Slots.stat s d = Slots.Taken -> d <> c ->
  let s1 := Slots.step s (Slots.End c w) in
  let s2 := Slots.step s1 (Slots.Remove c) in
  let s3 := Slots.step s2 (Slots.Enrol d) in
  Slots.stat s2 c = Slots.Removed /\ Slots.closed s2 c = true /\ ~ In c (Slots.clients s2) /\
  S (length (Slots.clients s2)) = length (Slots.clients s) /\ Slots.started s2 = true /\
  Slots.stat s3 d = Slots.Serving /\ In d (Slots.clients s3).
Proof. exact CutSlotsP.session_end_reclaims. Qed.

Theorem c13_cut_end_enabled : forall s c w, Slots.stat s c = Slots.Serving ->
  w = Slots.Disconnect \/ w = Slots.ProtocolError \/ w = Slots.IdleExpiry ->
  Slots.enabled s (Slots.End c w) = true.
Proof. exact CutSlotsP.cut_end_enabled. Qed.

(* ------------------------------------------------------------ non-vacuity *)

Definition c13_example_handler : handler N :=
  fun st r => (st + 1, mkhres (repeat true (N.to_nat (h_qty r))) (repeat 7 (N.to_nat (h_qty r))) HNone).

Example c13_handler_wf_sat : handler_wf c13_example_handler.
Proof.
  intros st r. cbn [c13_example_handler snd r_regs r_err]. split.
  - apply Forall_forall. intros v Hv. apply repeat_spec in Hv. subst v. reflexivity.
  - intros c Hc. discriminate Hc.
Qed.

Example c13_pdu_wf_sat : pdu_wf (mkpdu 1 3 [0; 16; 0; 2]).
Proof. unfold pdu_wf. cbn. repeat split; try reflexivity; discriminate. Qed.

(* every cut offset 0..11 of a 12-byte request x 3 stream ends: closed, no
   call; the complete request: one call, one response, closed *)
Example c13_server_example :
  let f := spec_mbap 7 (mkpdu 1 3 [0; 16; 0; 2]) in
  length f = 12%nat /\
  forallb (fun k =>
    forallb (fun e =>
      match server_run c13_example_handler 0 e (firstn k f) with [EvClosed] => true | _ => false end)
      [Stall; Closed; Reset]) (seq 0 12) = true /\
  server_run c13_example_handler 0 Reset f =
    [EvCall (mkhreq HHolding 1 16 2 false [] []);
     EvResp (spec_mbap 7 (mkpdu 1 3 [4; 0; 7; 0; 7])); EvClosed].
Proof. vm_compute. repeat split; reflexivity. Qed.

(* a valid operation with a valid reply: cut after 9 of 13 bytes, then the
   handle is closed and reopened and the call repeated on the full reply *)
Example c13_client_example :
  let cfg := mkcfg 17 BigE HighFirst in
  let o := OpReadRegs 2 0xfffc 1 Holding in
  let res := mkpdu 17 3 [4; 0x0a; 0x0b; 0x0c; 0x0d] in
  op_wf o /\ cfg_wf cfg /\ valid_op o = true /\ answers cfg o res (VNums [0x0a0b0c0d]) /\
  let v := spec_frame FMbap 1 res in
  let '(r1, h1) := hd_call FMbap cfg (hd_open (mkhd 5 [9] true)) o Closed (firstn 9 v) in
  let '(r2, h2) := hd_call FMbap cfg (hd_close h1) o Stall v in
  let '(r3, h3) := hd_call FMbap cfg (hd_open h2) o Stall v in
  cr_res r1 = Err EIO /\ hd_txn h1 = 1 /\
  cr_res r2 = Err EIO /\ cr_writes r2 = [] /\
  cr_res r3 = Ok (VNums [0x0a0b0c0d]) /\ hd_txn h3 = 1 /\
  cr_res (client_call FRtu cfg 0 o Stall (firstn 8 (spec_frame FRtu 0 res))) = Err ETimeout /\
  cr_res (client_call FRtu cfg 0 o Closed (firstn 2 (spec_frame FRtu 0 res))) = Err EShortFrame.
Proof.
  cbv zeta. split; [|split; [|split; [|split]]].
  - cbn [op_wf]. split; [right; left; reflexivity|split; reflexivity].
  - reflexivity.
  - vm_compute. reflexivity.
  - unfold answers. cbn [p_unit c_unit p_fc spec_fc p_payload]. repeat split.
    exists [0x0a0b0c0d]. repeat split.
    constructor; [vm_compute; reflexivity|constructor].
  - vm_compute. repeat split; reflexivity.
Qed.

(* the slot example: the only slot is freed by a session that ends on a
   protocol error (cut request) and serves the next connection *)
Example c13_slot_example :
  (let tr := [Slots.Start; Slots.Arrive 1; Slots.Take 1; Slots.Enrol 1;
             Slots.End 1 Slots.IdleExpiry; Slots.Remove 1;
             Slots.Arrive 2; Slots.Take 2; Slots.Enrol 2] in
  let s := Slots.run (Slots.init 1) tr in
  Slots.stat s 1 = Slots.Removed /\ Slots.stat s 2 = Slots.Serving /\ Slots.clients s = [2] /\
  Slots.started s = true)%nat.
Proof. vm_compute. repeat split; reflexivity. Qed.

Print Assumptions c13_server_cut.
Print Assumptions c13_server_cut_no_call.
Print Assumptions c13_strict_prefix_not_frame.
Print Assumptions c13_server_full.
Print Assumptions c13_server_full_once.
Print Assumptions c13_server_full_calls.
Print Assumptions c13_client_cut_rtu.
Print Assumptions c13_client_cut_mbap.
Print Assumptions c13_client_cut_never_ok.
Print Assumptions c13_client_cut_exception.
Print Assumptions c13_cut_err_class.
Print Assumptions c13_close_open_recovers.
Print Assumptions c13_closed_handle_fails.
Print Assumptions c13_slot_reclaimed.
Print Assumptions c13_cut_end_enabled.
