(* C06 - RTU frames carry a correct CRC-16 and corruption is never accepted.
   Checksum part (statements only; proofs in Proofs/CrcP.v). The client-level
   statements are in C06b.v. *)
From Modbus Require Import Base.Bytes Model.Crc Spec.ModbusSpec Proofs.CrcP.

(* T1: the table-driven checksum is the bit-serial CRC-16/MODBUS
   (reflected polynomial 0xA001, initial value 0xFFFF) for every byte string *)
Theorem c06_table_is_bitserial : forall l, bytesb l = true -> crc16 l = crc_ref l.
Proof. exact crc16_is_ref. Qed.

(* T2: however the bytes are fed *)
Theorem c06_chunking : forall s a b, crc_from s (a ++ b) = crc_from (crc_from s a) b.
Proof. exact crc_from_app. Qed.
Theorem c06_chunks : forall s chunks, crc_from s (concat chunks) = fold_left crc_from chunks s.
Proof. exact crc_from_concat. Qed.

(* T4: GF(2) linearity *)
Theorem c06_linear : forall s m e, length m = length e -> bytesb m = true -> bytesb e = true ->
  crc_from s (xor_bytes m e) = N.lxor (crc_from s m) (crc_from 0 e).
Proof. exact crc_from_xor. Qed.

(* acceptance test = zero residue = trailer equals the low-byte-first CRC *)
Theorem c06_accept_iff : forall s lo hi, s < 65536 -> lo < 256 -> hi < 256 ->
  crc_is_equal s lo hi = true <-> [lo; hi] = crc_value s.
Proof. exact crc_is_equal_iff. Qed.
Theorem c06_residue_iff : forall s lo hi, s < 65536 -> lo < 256 -> hi < 256 ->
  crc_from s [lo; hi] = 0 <-> [lo; hi] = crc_value s.
Proof. exact residue_zero_iff. Qed.

(* T5: every single-bit error, every burst of at most 16 bits (any frame
   length) and every double-bit error in a frame of at most 256 bytes has a
   non-zero syndrome *)
Theorem c06_detect : forall e, low_weight e -> crc_from 0 e <> 0.
Proof. exact detect_low_weight. Qed.

(* hence a valid frame hit by such an error never carries a matching trailer *)
Theorem c06_corrupted_rejected : forall body e body' lo hi,
  bytesb body = true -> bytesb e = true -> low_weight e ->
  length e = length (body ++ crc_bytes body) ->
  xor_bytes (body ++ crc_bytes body) e = body' ++ [lo; hi] ->
  crc_is_equal (crc16 body') lo hi = false.
Proof. exact corrupted_frame_rejected. Qed.

(* non-vacuity *)
Example c06_ex_crc : crc_bytes [0x01; 0x03; 0x00; 0x00; 0x00; 0x0a] = [0xc5; 0xcd].
Proof. reflexivity. Qed.
Example c06_ex_low_weight : low_weight (zeros 2 ++ [0x80; 0xff; 0x7f] ++ zeros 3).
Proof.
  apply lw_burst. split; [reflexivity|]. split; [cbn; lia|].
  exists 7, 0xffff. cbn. lia.
Qed.

Print Assumptions c06_table_is_bitserial.
Print Assumptions c06_chunking.
Print Assumptions c06_chunks.
Print Assumptions c06_linear.
Print Assumptions c06_accept_iff.
Print Assumptions c06_residue_iff.
Print Assumptions c06_detect.
Print Assumptions c06_corrupted_rejected.
