(* C19 - RTU timing follows the serial-line specification.
   Only statements here; proofs live in Proofs/TimingP.v. Times are integer
   nanoseconds (Go's time.Duration), rates are bits per second. *)
From Modbus Require Import Base.Bytes Model.Timing Spec.TimingSpec Proofs.TimingP.
Local Open Scope Z_scope.

(* T1: for every rate the character time is eleven bit times, to the
   nanosecond: char_time r = floor (11 * 10^9 / r) *)
Theorem c19_char_time : forall r, 1 <= r -> r <= 10000000 ->
  char_time r = (11 * 1000000000) / r /\
  11 * 1000000000 - r < char_time r * r /\ char_time r * r <= 11 * 1000000000.
Proof. exact char_time_range. Qed.

(* the same, against the declarative rule of Spec/TimingSpec.v *)
Theorem c19_char_time_spec : forall r, 1 <= r -> r <= 10000000 -> char_time_ok r (char_time r).
Proof. exact char_time_spec_range. Qed.

(* T2: below 19200 bps the inter-frame delay is 3.5 character times rounded
   down to the nanosecond ... *)
Theorem c19_t35_low : forall r, 1 <= r -> r < 19200 ->
  t35 r = (char_time r * 35) / 10 /\
  10 * t35 r <= 35 * char_time r /\ 35 * char_time r < 10 * t35 r + 10.
Proof. exact t35_low. Qed.

(* ... which is never above and less than 4.5 ns below the exact value
   38.5 * 10^9 / r (inequalities multiplied by 2 r):
   77 * 10^9 - 9 r < 2 * t35 r * r <= 77 * 10^9 *)
Theorem c19_t35_low_exact : forall r, 1 <= r -> r < 19200 ->
  2 * t35 r * r <= 77 * 1000000000 /\ 77 * 1000000000 - 9 * r < 2 * t35 r * r.
Proof. exact t35_exact. Qed.

(* from 19200 bps upward it is 1750 microseconds *)
Theorem c19_t35_high : forall r, 19200 <= r -> r <= 10000000 -> t35 r = 1750 * 1000.
Proof. exact t35_high_range. Qed.

(* both rules as the declarative predicate, and its boolean form used by the
   correspondence check *)
Theorem c19_t35_spec : forall r, 1 <= r -> r <= 10000000 -> t35_ok r (char_time r) (t35 r).
Proof. exact t35_spec_range. Qed.

Theorem c19_spec_decides : forall r c d,
  timing_okb r c d = true <-> char_time_ok r c /\ t35_ok r c d.
Proof. exact timing_okb_sound. Qed.

(* the rules leave no freedom: numbers that satisfy them are the model's *)
Theorem c19_spec_unique : forall r c d, 1 <= r -> char_time_ok r c -> t35_ok r c d ->
  c = char_time r /\ d = t35 r.
Proof. exact timing_unique. Qed.

(* Go computes in int64: no intermediate value overflows for these rates, so
   the model's unbounded integers are the machine's values *)
Theorem c19_no_overflow : forall r, 1 <= r -> r <= 10000000 ->
  11 * second_ns <= int64_max /\ r <= int64_max /\
  0 <= char_time r <= int64_max /\
  0 <= char_time r * 35 <= int64_max /\
  0 <= t35 r <= int64_max /\
  (forall n, 0 <= n <= 256 -> 0 <= n * char_time r <= int64_max).
Proof. exact timing_no_overflow. Qed.

(* T3: for every history of exchanges, every initial state and every
   admissible clock behaviour (non-negative delays, Sleep d takes at least d):
   a request never starts being transmitted earlier than t35 after the end of
   any earlier frame: the arrival of the last byte of a reply that was heard
   (frame_end = rx_end, not later than the instant the code stamps), or the
   estimated end ts + n * t1 of a transmission that got no reply. *)
Theorem c19_silence : forall t1 t35 xs s, 0 <= t1 -> 0 <= t35 -> Forall admissible xs ->
  ForallOrdPairs
    (fun e1 e2 => forall f, frame_end e1 = Some f -> f + t35 <= ev_tx_start e2)
    (run t1 t35 s xs).
Proof. exact run_silence_all. Qed.

(* the same by position, at the delays computed for a rate of the property;
   in particular for consecutive exchanges j = i + 1 *)
Theorem c19_silence_rate : forall r xs s i j e1 e2 f,
  1 <= r -> r <= 10000000 -> Forall admissible xs -> (i < j)%nat ->
  nth_error (run (char_time r) (t35 r) s xs) i = Some e1 ->
  nth_error (run (char_time r) (t35 r) s xs) j = Some e2 ->
  frame_end e1 = Some f -> f + t35 r <= ev_tx_start e2.
Proof. exact run_silence_rate. Qed.

(* one step of the invariant: what the induction carries *)
Theorem c19_exchange_invariant : forall t1 t35 s x s' e,
  0 <= t1 -> 0 <= t35 -> admissible x -> exchange t1 t35 s x = (s', e) ->
  last_activity s + t35 <= ev_tx_start e /\
  last_activity s <= last_activity s' /\
  (forall f, frame_end e = Some f -> f <= last_activity s') /\
  clock s <= clock s'.
Proof. exact exchange_facts. Qed.

(* a heard reply: the instant the theorem calls the end of the received frame
   is not later than the instant the code stamps *)
Theorem c19_heard : forall t1 t35 s x s' e,
  0 <= t1 -> 0 <= t35 -> admissible x -> x_out x = Heard -> exchange t1 t35 s x = (s', e) ->
  frame_end e = Some (ev_rx_end e) /\ ev_rx_end e <= last_activity s' /\
  last_activity s' = clock s' /\ ev_tx_end e + t35 <= clock s'.
Proof. exact exchange_heard. Qed.

(* the history has one event per exchange with the prescribed outcome *)
Theorem c19_run_outcomes : forall t1 t35 xs s, map ev_out (run t1 t35 s xs) = map x_out xs.
Proof. exact run_outcomes_all. Qed.

(* non-vacuity: concrete values, and a history that satisfies the hypotheses *)
Example c19_ex_9600 : char_time 9600 = 1145833 /\ t35 9600 = 4010415.
Proof. split; reflexivity. Qed.
Example c19_ex_19199 : char_time 19199 = 572946 /\ t35 19199 = 2005311.
Proof. split; reflexivity. Qed.
Example c19_ex_19200 : char_time 19200 = 572916 /\ t35 19200 = 1750000.
Proof. split; reflexivity. Qed.
Example c19_ex_spec : timing_okb 9600 1145833 4010415 = true /\ timing_okb 9600 1145833 4010416 = false.
Proof. split; reflexivity. Qed.

(* a reply heard early, a reply heard late, a timeout, a failed write, a reply *)
Definition c19_ex_history : list xchg :=
  [ mk_xchg 8 Heard 0 10 20 30 40 500 100 7;
    mk_xchg 8 Heard 5 0 0 0 0 9000000 0 0;
    mk_xchg 8 Silent 0 3 3 3 3 300000000 0 0;
    mk_xchg 8 WriteFail 1 1 1 1 0 0 0 0;
    mk_xchg 13 Heard 0 0 0 0 0 0 0 0 ].
Example c19_ex_admissible : Forall admissible c19_ex_history.
Proof. repeat constructor; cbn; lia. Qed.
Example c19_ex_run :
  map (fun e => (ev_tx_start e, frame_end e))
      (run (char_time 9600) (t35 9600) (mk_tstate 0 (-1000000000000)) c19_ex_history)
  = [ (30, Some 13177529); (17188051, Some 39365130); (43375551, Some 52542212);
      (356552633, None); (356552634, Some 375458878) ].
Proof. vm_compute. reflexivity. Qed.

Print Assumptions c19_char_time.
Print Assumptions c19_char_time_spec.
Print Assumptions c19_t35_low.
Print Assumptions c19_t35_low_exact.
Print Assumptions c19_t35_high.
Print Assumptions c19_t35_spec.
Print Assumptions c19_spec_decides.
Print Assumptions c19_spec_unique.
Print Assumptions c19_no_overflow.
Print Assumptions c19_silence.
Print Assumptions c19_silence_rate.
Print Assumptions c19_exchange_invariant.
Print Assumptions c19_heard.
Print Assumptions c19_run_outcomes.
