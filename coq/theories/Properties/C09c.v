(* C09 (slots belong to connections, not to addresses) - "at every instant at
   most MaxClients connections are being served ... a slot is released whenever
   a served client disconnects ... so that a later connection is served again -
   for every order of connects, disconnects and idle expiries".
   Nothing in the property makes the connections that are alive at the server
   at one instant come from different source addresses: a client bound to a
   fixed local port that loses its connection and dials again at once is a NEW
   connection from the address of a session the server has not ended yet (it
   notices a disconnect only at its next read or write). In the Slots system a
   connection is an identity; what it shares with others is a label
   f : conn -> alabel that need not be injective (Model/SlotsAddr.v). The
   theorems hold for every such f. Statements only; proofs in
   Proofs/SlotsAddrP.v. *)
From Coq Require Import List Arith Bool Permutation.
Import ListNotations.
From Modbus Require Import Model.Slots Proofs.SlotsP Model.SlotsVisit Model.SlotsAddr Proofs.SlotsAddrP.

(* shared_label decides whether two different members of the active list carry
   the same label (used below to show that such states are reachable) *)
Theorem c09c_shared_label_spec : forall f s, NoDup (clients s) ->
  (shared_label f s = true <->
   exists c d, c <> d /\ In c (clients s) /\ In d (clients s) /\ f c = f d).
Proof. exact shared_label_spec. Qed.

(* admission next to a member of the list with the same label: one more slot
   is taken, the member stays what it was *)
Theorem c09c_enrol_same_label : forall (f : conn -> alabel) s c d, Inv s -> In c (clients s) ->
  stat s d = Taken -> started s = true -> length (clients s) < maxc s -> f d = f c ->
  let s1 := step s (Enrol d) in
  stat s1 d = Serving /\ In d (clients s1) /\ In c (clients s1) /\ stat s1 c = stat s c /\
  length (clients s1) = S (length (clients s)) /\
  length (at_label f (f c) s1) = S (length (at_label f (f c) s)).
Proof. exact label_enrol. Qed.

(* the removal of c gives back the slot of c and of nobody else: every other
   member keeps slot, status and socket whatever it shares with c; by label,
   the label of c loses exactly one member, the other labels none *)
Theorem c09c_remove_only_self : forall (f : conn -> alabel) s c, Inv s -> stat s c = Ended ->
  let s1 := step s (Remove c) in
  (forall d, d <> c -> In d (clients s) ->
     In d (clients s1) /\ stat s1 d = stat s d /\ closed s1 d = closed s d) /\
  ~ In c (clients s1) /\
  S (length (clients s1)) = length (clients s) /\
  S (length (at_label f (f c) s1)) = length (at_label f (f c) s) /\
  (forall a, a <> f c -> length (at_label f a s1) = length (at_label f a s)).
Proof. exact label_remove. Qed.

(* the come-back, in every reachable state with a free slot: the new
   connection d is enrolled while the server still holds the session of c
   (same label), then c is wound down for whatever reason; d is served and
   accounted for, c is not, and the list is exactly as long as before *)
Theorem c09c_comeback : forall (f : conn -> alabel) s c d w, Inv s -> started s = true -> 0 < acceptors s ->
  stat s c = Serving -> stat s d = Fresh -> w <> ClosedByStop ->
  length (clients s) < maxc s -> f d = f c ->
  let s1 := run s (comeback c d w) in
  Inv s1 /\ stat s1 d = Serving /\ In d (clients s1) /\ stat s1 c = Removed /\ ~ In c (clients s1) /\
  length (clients s1) = length (clients s) /\
  length (at_label f (f c) s1) = length (at_label f (f c) s) /\
  (forall x, x <> c -> x <> d -> stat s1 x = stat s x).
Proof. exact label_comeback. Qed.

(* non-vacuity: MaxClients = 2, every connection from the one address 7.
   1 is being served when 2 arrives from the same address: both hold a slot
   (shared_label). 1 is wound down: 2 keeps its slot. 3 fills the server and 4
   is refused: the limit counts 2. *)
Example c09c_ex :
  let f : conn -> alabel := fun _ => 7 in
  let s0 := run (init 2) (Start :: arrival 1) in
  Inv s0 /\ started s0 = true /\ 0 < acceptors s0 /\ stat s0 1 = Serving /\ stat s0 2 = Fresh /\
  length (clients s0) < maxc s0 /\
  let sa := run s0 (arrival 2) in
  shared_label f sa = true /\ at_label f 7 sa = [1; 2] /\
  let s1 := run s0 (comeback 1 2 Disconnect) in
  clients s1 = [2] /\ shared_label f s1 = false /\
  let s2 := run s1 (arrival 3 ++ arrival 4) in
  stat s2 2 = Serving /\ stat s2 3 = Serving /\ stat s2 4 = Rejected /\ at_label f 7 s2 = [2; 3].
Proof.
  cbn zeta. split; [apply reachable_inv|]. vm_compute. repeat split; repeat constructor.
Qed.

Print Assumptions c09c_shared_label_spec.
Print Assumptions c09c_enrol_same_label.
Print Assumptions c09c_remove_only_self.
Print Assumptions c09c_comeback.
