(* C10 - Stop and Start are clean, repeatable and race-free: the case in which
   the listen step of Start FAILS because the address is occupied by a foreign
   listener while the server is stopped (Model/Lifeblock.v). A Start that
   cannot bind must fail cleanly - error returned, server left stopped - so
   that Stop stays a harmless no-op and a later Start serves again.
   Statements only; proofs in Proofs/LifeblockP.v. *)
From Coq Require Import List Arith Bool.
Import ListNotations.
From Modbus Require Import Model.Slots Model.Lifeblock Proofs.SlotsP Proofs.LifeblockP.

(* Start returns an error exactly when it reaches the listen step (the server
   is stopped) and the address is occupied *)
Theorem c10c_start_fails_iff : forall b,
  lb_start_fails b = true <-> started (lb_srv b) = false /\ lb_blocked b = true.
Proof. exact start_fails_spec. Qed.

(* the failing listen step changes nothing, however often it is repeated *)
Theorem c10c_failed_start_unchanged : forall b, lb_start_fails b = true ->
  lb_step b (LSrv Start) = b.
Proof. exact failed_start_unchanged. Qed.
Theorem c10c_failed_starts_unchanged : forall b n, lb_start_fails b = true ->
  lb_run b (repeat (LSrv Start) n) = b.
Proof. exact failed_starts_unchanged. Qed.

(* ... in particular it preserves the invariant of C09 / C10 and leaves the
   server stopped: not started, no listener, no accept goroutine *)
Theorem c10c_failed_start_preserves_inv : forall b, lb_start_fails b = true -> Inv (lb_srv b) ->
  Inv (lb_srv (lb_step b (LSrv Start))) /\ started (lb_srv (lb_step b (LSrv Start))) = false /\
  listening (lb_srv (lb_step b (LSrv Start))) = false /\ acceptors (lb_srv (lb_step b (LSrv Start))) = 0.
Proof. exact failed_start_preserves_inv. Qed.

(* every step of the extended system preserves the extended invariant: the one
   of Slots.v, and the address has at most one owner *)
Theorem c10c_step_preserves_inv : forall b l, LInv b -> LInv (lb_step b l).
Proof. exact linv_step. Qed.
Theorem c10c_reachable_inv : forall m tr, LInv (lb_run (lb_init m) tr).
Proof. exact lb_reachable_inv. Qed.

(* Stop after a failed Start is a no-op on the whole state *)
Theorem c10c_stop_after_failed_start : forall b, lb_start_fails b = true ->
  lb_step (lb_step b (LSrv Start)) (LSrv Stop) = b.
Proof. exact stop_after_failed_start. Qed.

(* Start after (any number of) failed Starts, once the address is free again,
   behaves as Start from the stopped state: the server serves *)
Theorem c10c_start_after_failed_start : forall b n, LInv b -> lb_start_fails b = true ->
  let b1 := lb_step (lb_run b (repeat (LSrv Start) n)) LUnblock in
  let b2 := lb_step b1 (LSrv Start) in
  lb_start_fails b1 = false /\
  lb_srv b2 = step (lb_srv b) Start /\
  started (lb_srv b2) = true /\ listening (lb_srv b2) = true /\ acceptors (lb_srv b2) = 1 /\
  clients (lb_srv b2) = clients (lb_srv b) /\ lb_blocked b2 = false.
Proof. exact start_after_failed_start. Qed.

(* Start is never refused without cause: with the address free it is the Start
   of Slots.v, and on a started server it is the no-op of C10 (no error) *)
Theorem c10c_free_start_is_start : forall b, lb_blocked b = false ->
  lb_start_fails b = false /\ lb_step b (LSrv Start) = mk_lb (step (lb_srv b) Start) false.
Proof. exact free_start_is_start. Qed.
Theorem c10c_started_start_noop : forall b, started (lb_srv b) = true ->
  lb_start_fails b = false /\ lb_step b (LSrv Start) = b.
Proof. exact started_start_noop. Qed.

(* the server component of every reachable state is reachable in Slots.v, so the
   theorems of C10.v carry over; e.g. a stopped server serves nothing *)
Theorem c10c_reach_proj : forall m tr, exists tr', lb_srv (lb_run (lb_init m) tr) = run (init m) tr'.
Proof. exact lb_reach_proj. Qed.
Theorem c10c_stopped_serves_nothing : forall m tr c,
  let s := lb_srv (lb_run (lb_init m) tr) in
  started s = false -> listening s = false /\ acceptors s = 0 /\ enabled s (Req c) = false.
Proof. exact lb_stopped_serves_nothing. Qed.

(* while a foreign listener holds the address the server is stopped *)
Theorem c10c_blocked_not_started : forall m tr,
  let b := lb_run (lb_init m) tr in
  lb_blocked b = true -> started (lb_srv b) = false /\ lb_block_ok b = false.
Proof. exact lb_blocked_not_started. Qed.

(* the hypotheses are satisfiable: a failed first Start, a failed restart, and
   service after the address was freed *)
Example c10c_ex :
  let tr := [LBlock; LSrv Start; LSrv Stop; LUnblock; LSrv Start; LSrv (Arrive 1); LSrv (Take 1);
             LSrv (Enrol 1); LSrv Stop; LBlock; LSrv Start; LSrv Start] in
  let b := lb_run (lb_init 2) tr in
  lb_start_fails (lb_run (lb_init 2) [LBlock]) = true /\
  lb_start_fails b = true /\ started (lb_srv b) = false /\ closed (lb_srv b) 1 = true /\
  let b' := lb_run b [LUnblock; LSrv Start; LSrv (Arrive 2); LSrv (Take 2); LSrv (Enrol 2)] in
  started (lb_srv b') = true /\ enabled (lb_srv b') (Req 2) = true.
Proof. vm_compute. repeat split; reflexivity. Qed.

Print Assumptions c10c_start_fails_iff.
Print Assumptions c10c_failed_start_unchanged.
Print Assumptions c10c_failed_starts_unchanged.
Print Assumptions c10c_failed_start_preserves_inv.
Print Assumptions c10c_step_preserves_inv.
Print Assumptions c10c_reachable_inv.
Print Assumptions c10c_stop_after_failed_start.
Print Assumptions c10c_start_after_failed_start.
Print Assumptions c10c_free_start_is_start.
Print Assumptions c10c_started_start_noop.
Print Assumptions c10c_reach_proj.
Print Assumptions c10c_stopped_serves_nothing.
Print Assumptions c10c_blocked_not_started.
