(* C07x - "a valid reply that arrives before the timeout is never turned into
   a timeout", for the OTHER kind of valid reply: the exception response.
   Statements only; proofs in Proofs/TimedExcP.v.

   A device answers a request either with the normal response (C07.v, T3) or
   with an exception response: the function code of the request with the
   error bit set, one exception code byte, sent by the addressed unit or by
   the gateway unit 255 (ClientSpec.exception_reply). The theorems below hold
   for every operation (reads and writes, every function code the client
   emits), every one of the 256 code bytes, every timed peer stream that
   carries such a reply completely by the deadline - whatever follows it,
   whenever, with or without close. *)
From Modbus Require Import Base.Bytes Model.Crc Model.Encoding Model.Wire Model.Client
  Model.Timed Spec.ModbusSpec Spec.ClientSpec Spec.TimedSpec Proofs.TimedExcP.

(* MBAP transports: the error of the exception code (documented table, else
   the unknown-exception-code error), within the timeout *)
Theorem c07x_timely_exception_mbap : forall k la cfg txn o t0 c pre post res code frames,
  op_wf o -> cfg_wf cfg -> txn < 65536 -> valid_op o = true -> (0 <= tm_timeout k)%Z ->
  code < 256 -> exception_reply cfg o res code ->
  Forall (skippable (u16 (txn + 1))) frames ->
  map snd pre = concat frames ++ spec_frame FMbap (u16 (txn + 1)) res ->
  Forall (fun p => (fst p <= t0 + tm_timeout k)%Z) pre ->
  let r := tm_client_call FMbap k la cfg txn o t0 c (pre ++ post) in
  tmc_res r = Err (if documented_exception code then EExc code else EExcUnknown code) /\
  (t0 <= tmc_finish r <= t0 + tm_timeout k)%Z.
Proof. exact tm_timely_exception_mbap. Qed.

(* RTU transports (net.Conn): the reply is at the start of the stream and the
   post-write sleep ends before the deadline *)
Theorem c07x_timely_exception_rtu : forall k la cfg txn o t0 c pre post res code,
  op_wf o -> cfg_wf cfg -> valid_op o = true -> tm_conf_wf k -> tm_gran k = 0%Z ->
  (tm_rtu_read_start k la t0 (tm_req_len cfg o) <= t0 + tm_timeout k)%Z ->
  code < 256 -> exception_reply cfg o res code ->
  map snd pre = spec_frame FRtu 0 res ->
  Forall (fun p => (fst p <= t0 + tm_timeout k)%Z) pre ->
  tmc_res (tm_client_call FRtu k la cfg txn o t0 c (pre ++ post)) =
    Err (if documented_exception code then EExc code else EExcUnknown code).
Proof. exact tm_timely_exception_rtu. Qed.

(* the clause as worded: never the request-timed-out error *)
Theorem c07x_exception_never_timeout_mbap : forall k la cfg txn o t0 c pre post res code frames,
  op_wf o -> cfg_wf cfg -> txn < 65536 -> valid_op o = true -> (0 <= tm_timeout k)%Z ->
  code < 256 -> exception_reply cfg o res code ->
  Forall (skippable (u16 (txn + 1))) frames ->
  map snd pre = concat frames ++ spec_frame FMbap (u16 (txn + 1)) res ->
  Forall (fun p => (fst p <= t0 + tm_timeout k)%Z) pre ->
  tmc_res (tm_client_call FMbap k la cfg txn o t0 c (pre ++ post)) <> Err ETimeout.
Proof. exact tm_timely_exception_mbap_no_timeout. Qed.

Theorem c07x_exception_never_timeout_rtu : forall k la cfg txn o t0 c pre post res code,
  op_wf o -> cfg_wf cfg -> valid_op o = true -> tm_conf_wf k -> tm_gran k = 0%Z ->
  (tm_rtu_read_start k la t0 (tm_req_len cfg o) <= t0 + tm_timeout k)%Z ->
  code < 256 -> exception_reply cfg o res code ->
  map snd pre = spec_frame FRtu 0 res ->
  Forall (fun p => (fst p <= t0 + tm_timeout k)%Z) pre ->
  tmc_res (tm_client_call FRtu k la cfg txn o t0 c (pre ++ post)) <> Err ETimeout.
Proof. exact tm_timely_exception_rtu_no_timeout. Qed.

Print Assumptions c07x_timely_exception_mbap.
Print Assumptions c07x_timely_exception_rtu.
Print Assumptions c07x_exception_never_timeout_mbap.
Print Assumptions c07x_exception_never_timeout_rtu.

(* ------------------------------------------------------------ non-vacuity *)

(* 600 ms, 19200 bps; one call per function code the client emits; every
   documented code and one that is not; the reply arrives 30 ms after the
   call was entered (at 1 us): the call returns the error of the code AT THAT
   INSTANT, on either framing - not at the deadline *)
Definition exx_k : tm_conf := mk_tm_conf 600000000 572916 1750000 0.
Definition exx_cfg : ccfg := mkcfg 17 BigE HighFirst.
Definition exx_ops : list op :=
  [OpReadBools false 0x10 3; OpReadBools true 0x10 9; OpReadRegs 1 0x10 2 Holding;
   OpReadRegs 2 0x10 1 InputReg; OpWriteCoil 0x10 true; OpWriteReg 0x10 0x1234;
   OpWriteCoils 0x10 [true; false; true]; OpWriteRegs 1 0x10 [1; 2]; OpWriteBytes false 0x10 [1; 2; 3]].
Definition exx_codes : list N := [1; 2; 3; 4; 5; 6; 8; 10; 11].
Definition exx_at (t : Z) (l : list N) : list (Z * N) := map (fun b => (t, b)) l.
Definition exx_reply (fr : framing) (unit : N) (o : op) (code : N) : list N :=
  spec_frame fr 1 (mkpdu unit (spec_fc o + 128) [code]).
Definition exx_run fr unit o code :=
  let r := tm_client_call fr exx_k 0%Z exx_cfg 0 o 1000%Z None (exx_at 30001000 (exx_reply fr unit o code)) in
  (tmc_res r, tmc_finish r).

Example c07x_ex_hyps : tm_conf_wf exx_k /\ cfg_wf exx_cfg /\
  Forall (fun o => op_wf o /\ valid_op o = true /\ exception_reply exx_cfg o (mkpdu 17 (spec_fc o + 128) [2]) 2 /\
    (tm_rtu_read_start exx_k 0 1000 (tm_req_len exx_cfg o) <= 1000 + tm_timeout exx_k)%Z) exx_ops.
Proof.
  split; [unfold tm_conf_wf, exx_k; cbn [tm_timeout tm_t1 tm_t35 tm_gran]; lia|].
  split; [unfold cfg_wf, exx_cfg; cbn [c_unit]; lia|].
  unfold exx_ops, exception_reply.
  repeat (apply Forall_cons; [|]); try apply Forall_nil;
    cbn [op_wf p_unit p_fc p_payload c_unit exx_cfg];
    repeat match goal with
           | |- _ /\ _ => split
           | |- Forall _ (_ :: _) => apply Forall_cons
           | |- Forall _ [] => apply Forall_nil
           | |- _ \/ _ => lia
           end;
    vm_compute; (reflexivity || discriminate).
Qed.

Example c07x_ex_documented : forallb (fun fr => forallb (fun unit => forallb (fun o => forallb (fun code =>
    match exx_run fr unit o code with
    | (Err (EExc c), t) => (c =? code) && (t =? 30001000)%Z
    | _ => false
    end) exx_codes) exx_ops) [17; 255]) [FMbap; FRtu] = true.
Proof. vm_compute. reflexivity. Qed.

Example c07x_ex_undocumented : forallb (fun fr => forallb (fun o =>
    match exx_run fr 17 o 7 with
    | (Err (EExcUnknown 7), t) => (t =? 30001000)%Z
    | _ => false
    end) exx_ops) [FMbap; FRtu] = true.
Proof. vm_compute. reflexivity. Qed.
