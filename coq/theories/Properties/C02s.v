(* C02, source level: the RTU length inference table and the exception-code
   map AS TRANSLATED FROM THE GO SOURCE ON THIS RUN (Gen/SrcPure.v) are the
   model's (complete sweeps of their finite domains, evaluated through the
   GoLite semantics). Error values are numbers: 0 = nil, 1 = an error that is
   none of the package's Error constants, then the constants in order of
   declaration (src_error_codes). Only statements, closed by [exact].
   [call_with src_pure no_fns] runs a function of the translated program with no
   external functions under it. *)
From Coq Require Import List NArith String.
Import ListNotations.
From Modbus Require Import Base.Bytes Model.GoLite Gen.SrcPure Model.Wire Model.Client.
From Modbus Require Import Proofs.GoLiteLinkP Proofs.SrcMiscP.
Open Scope string_scope.
Open Scope N_scope.

(* expectedResponseLenth(function code, third byte): all 2^16 inputs *)
Theorem c02s_expected_len : forall fuel fc b2, fc < 256 -> b2 < 256 ->
  call_with src_pure no_fns fuel "expectedResponseLenth" [VN fc; VN b2] =
  match expected_len fc b2 with
  | Some m => GoLite.Ok [VN m; VN 0]
  | None => GoLite.Ok [VN 0; VN (code_of "ErrProtocolError")]
  end.
Proof. exact (src_expectedResponseLenth_ok no_fns). Qed.
Print Assumptions c02s_expected_len.

(* mapExceptionCodeToError: all 256 codes *)
Theorem c02s_exception_map : forall fuel c, c < 256 ->
  call_with src_pure no_fns fuel "mapExceptionCodeToError" [VN c] = GoLite.Ok [VN (err_value (exc_err c))].
Proof. exact (src_mapExceptionCodeToError_ok no_fns). Qed.
Print Assumptions c02s_exception_map.

(* a known code gives its documented, named error; the names are distinct, non-nil values *)
Theorem c02s_exception_named : forall c, known_exception c = true ->
  err_value (exc_err c) = code_of (exc_name c) /\ 2 <= code_of (exc_name c).
Proof. exact exc_err_value_known. Qed.
Print Assumptions c02s_exception_named.

Theorem c02s_error_codes_distinct :
  NoDup (map snd src_error_codes) /\ forallb (fun nc => 2 <=? snd nc) src_error_codes = true.
Proof. exact error_codes_distinct. Qed.
Print Assumptions c02s_error_codes_distinct.
