(* C20 - The CLI performs exactly the operation its arguments describe.
   Statements only; proofs in Proofs/StrconvP.v and Proofs/CliP.v. The model
   (Model/Cli.v, Model/Strconv.v) follows cmd/modbus-cli.go and
   strconv.ParseUint/ParseInt; the documented meaning (Spec/CliSpec.v,
   Spec/StrconvSpec.v) is written from the help text and the Go literal
   grammar. strconv.ParseFloat enters as an oracle (pf32 / pf64). *)
From Modbus Require Import Base.Bytes Model.Encoding Model.Wire Model.Client Model.Strconv Model.Cli
  Spec.ModbusSpec Spec.ClientSpec Spec.StrconvSpec Spec.CliSpec Proofs.StrconvP Proofs.CliP Proofs.CliDevP.
From Coq Require String.
Import String.StringSyntax.
Local Delimit Scope string_scope with string.

(* ---- T1: parsing is total (cli_parse_cmd is a function) and all-or-nothing.
   A refused argument anywhere in the list ends the program with a non-zero
   status before any connection: no frame is written, nothing is read back. *)
Theorem c20_all_or_nothing : forall pf32 pf64 e w u args dev a,
  In a args -> cli_parse_cmd pf32 pf64 a = CliRefused ->
  let r := cli_main pf32 pf64 e w u args dev in
  (exists code, r = CliExit code /\ code <> 0) /\ cli_tx_log r = [] /\ cli_printed r = [].
Proof.
  intros pf32 pf64 e w u args dev a Hin Hr.
  destruct (main_all_or_nothing pf32 pf64 e w u args dev a Hin Hr) as (code & E & Hc).
  cbn zeta. rewrite E. repeat split. exists code. split; [reflexivity|exact Hc].
Qed.

Theorem c20_parse_all : forall pf32 pf64 args,
  (forall ops, cli_parse_all pf32 pf64 args = CliOk ops <->
               Forall2 (fun a o => cli_parse_cmd pf32 pf64 a = CliOk o) args ops) /\
  (cli_parse_all pf32 pf64 args = CliRefused <->
   exists a, In a args /\ cli_parse_cmd pf32 pf64 a = CliRefused).
Proof.
  intros. split; [intros ops; apply parse_all_ok|apply parse_all_refused].
Qed.

(* ---- T2: for every accepted command line and every device: the frames
   written are exactly the documented requests, one per command within
   protocol limits: MBAP header, the selected unit id, then the Modbus request
   of the documented operation (Spec/ClientSpec.v: spec_pdu) with count =
   additional quantity + 1 values of the type. *)
Theorem c20_requests_exact : forall pf32 pf64,
  (forall s v, pf32 s = Some v -> v < 2 ^ 32) -> (forall s v, pf64 s = Some v -> v < 2 ^ 64) ->
  forall e w u args dev st,
  Forall (fun a => bytesb a = true) args -> bytesb u = true ->
  cli_main pf32 pf64 e w u args dev = CliDone st ->
  exists unit en wo ops,
    sc_parse_uint 64 u = ScOk unit /\ unit < 256 /\
    cli_endian_of e = Some en /\ cli_word_of w = Some wo /\
    Forall2 (fun a o => cli_parse_cmd pf32 pf64 a = CliOk o) args ops /\
    cs_tx st = cli_doc_frames (mkcfg unit en wo) 0 ops.
Proof. exact main_frames. Qed.

(* the same for any state of a run: independent of the device's contents *)
Theorem c20_run_frames : forall cs st,
  Forall cli_op_wf cs -> cfg_wf (cs_cfg st) -> cs_txn st < 65536 ->
  cs_tx (cli_run st cs) = cs_tx st ++ cli_doc_frames (cs_cfg st) (cs_txn st) cs.
Proof. exact run_frames. Qed.

(* one command within limits: ONE frame, the documented request *)
Theorem c20_one_request : forall st c o,
  cli_op_wf c -> cfg_wf (cs_cfg st) -> cs_txn st < 65536 ->
  cli_doc_op c = Some o -> valid_op o = true ->
  cs_tx (cli_exec st c) =
    cs_tx st ++ [spec_frame FMbap (u16 (cs_txn st + 1)) (spec_pdu (cs_cfg st) o)].
Proof. intros. apply (exec_valid st c o); assumption. Qed.

(* the code's 16-bit "quantity + 1" and the documented count agree wherever a
   request is issued *)
Theorem c20_op_agree : forall c o, cli_op_wf c -> cli_doc_op c = Some o ->
  exists o', cli_to_op c = Some o' /\ op_wf o' /\ valid_op o' = valid_op o /\
             (valid_op o = true -> o' = o).
Proof. exact op_agree. Qed.

(* sid:n switches the unit id of the subsequent requests, nothing else *)
Theorem c20_set_unit : forall st u,
  cli_exec st (CoSetUnit u) =
    mkclist (mkcfg u (c_endian (cs_cfg st)) (c_word (cs_cfg st))) (cs_txn st) (cs_dev st) (cs_tx st) (cs_out st).
Proof. exact exec_set_unit. Qed.

(* printed addresses: a + i * w(T) modulo 65536, values in order *)
Theorem c20_printed_nums : forall h t a q l i, t <> CtBytes -> (i < length l)%nat ->
  length (cli_print (CoReadRegs h t a q) (Ok (VNums l))) = length l /\
  nth i (cli_print (CoReadRegs h t a q) (Ok (VNums l))) ClFail =
    ClNum (cli_width t) ((a + N.of_nat i * cli_width t) mod 65536) (nth i l 0).
Proof. exact printed_nums. Qed.

Theorem c20_printed_bools : forall coil a q l i, (i < length l)%nat ->
  length (cli_print (CoReadBools coil a q) (Ok (VBools l))) = length l /\
  nth i (cli_print (CoReadBools coil a q) (Ok (VBools l))) ClFail =
    ClBool ((a + N.of_nat i) mod 65536) (nth i l false).
Proof. exact printed_bools. Qed.

(* every command of the documented grammar (Spec/CliSpec.v: cli_doc_cmd - Go
   integer literals for addresses, counts and values, signed values as their
   two's-complement image, hex strings, all aliases) parses to its documented
   operation *)
Theorem c20_grammar_accepted : forall pf32 pf64 s c,
  cli_doc_cmd pf32 pf64 s c -> cli_parse_cmd pf32 pf64 s = CliOk c.
Proof. exact doc_cmd_accepted. Qed.

(* ... and nothing else does: accepted arguments are exactly the commands of
   the documented grammar; an argument outside it is refused (and then, by
   c20_all_or_nothing, nothing is sent) *)
Theorem c20_grammar_exact : forall pf32 pf64 s c, bytesb s = true ->
  (cli_parse_cmd pf32 pf64 s = CliOk c <-> cli_doc_cmd pf32 pf64 s c).
Proof.
  intros pf32 pf64 s c Hb. split; [apply parse_cmd_documented; exact Hb|apply doc_cmd_accepted].
Qed.

Theorem c20_undocumented_refused : forall pf32 pf64 s, bytesb s = true ->
  (forall c, ~ cli_doc_cmd pf32 pf64 s c) -> cli_parse_cmd pf32 pf64 s = CliRefused.
Proof. exact undocumented_refused. Qed.

(* ---- T2, against the reference device: what a read prints is the device's
   contents at the addressed locations in the requested type and encoding;
   what a write sends lands in the addressed cells in the requested layout. *)
Theorem c20_read_regs_values : forall st h t a q,
  t <> CtBytes -> a < 65536 -> q < 65536 -> cfg_wf (cs_cfg st) -> cs_txn st < 65536 ->
  (q + 1) * cli_width t <= 125 -> a + (q + 1) * cli_width t <= 65536 ->
  let c := CoReadRegs h t a q in
  let w := cli_width t in
  exists o xs,
    cli_doc_op c = Some o /\
    cli_exec st c =
      mkclist (cs_cfg st) (u16 (cs_txn st + 1)) (cs_dev st)
        (cs_tx st ++ [spec_frame FMbap (u16 (cs_txn st + 1)) (spec_pdu (cs_cfg st) o)])
        (cs_out st ++ cli_print c (Ok (VNums xs))) /\
    lenN xs = q + 1 /\ Forall (fun v => v < 2 ^ (16 * w)) xs /\
    flat_map (spec_bytes (N.to_nat w) (c_endian (cs_cfg st)) (c_word (cs_cfg st))) xs =
      flat_map be16 (cli_range (cli_regs_of (cs_dev st) h) a ((q + 1) * w)).
Proof. exact exec_read_regs. Qed.

Theorem c20_read_bools_values : forall st coil a q,
  a < 65536 -> q < 65536 -> cfg_wf (cs_cfg st) -> cs_txn st < 65536 ->
  q + 1 <= 2000 -> a + q + 1 <= 65536 ->
  let c := CoReadBools coil a q in
  let bits := cli_range (if coil then dv_coil (cs_dev st) else dv_disc (cs_dev st)) a (q + 1) in
  exists o,
    cli_doc_op c = Some o /\
    cli_exec st c =
      mkclist (cs_cfg st) (u16 (cs_txn st + 1)) (cs_dev st)
        (cs_tx st ++ [spec_frame FMbap (u16 (cs_txn st + 1)) (spec_pdu (cs_cfg st) o)])
        (cs_out st ++ cli_print c (Ok (VBools bits))).
Proof. exact exec_read_bools. Qed.

Theorem c20_read_bytes_values : forall st h a q,
  a < 65536 -> q < 65536 -> cfg_wf (cs_cfg st) -> cs_txn st < 65536 ->
  (q + 2) / 2 <= 125 -> a + (q + 2) / 2 <= 65536 ->
  let c := CoReadRegs h CtBytes a q in
  let data := flat_map be16 (cli_range (cli_regs_of (cs_dev st) h) a ((q + 2) / 2)) in
  let bytes := firstn (N.to_nat (q + 1))
                 (match c_endian (cs_cfg st) with LittleE => pair_swap data | BigE => data end) in
  exists o,
    cli_doc_op c = Some o /\
    cli_exec st c =
      mkclist (cs_cfg st) (u16 (cs_txn st + 1)) (cs_dev st)
        (cs_tx st ++ [spec_frame FMbap (u16 (cs_txn st + 1)) (spec_pdu (cs_cfg st) o)])
        (cs_out st ++ cli_print c (Ok (VBytes bytes))).
Proof. exact exec_read_bytes. Qed.

Theorem c20_write_num_lands : forall st t a v,
  t <> CtBytes -> a < 65536 -> v < 2 ^ (16 * cli_width t) -> a + cli_width t <= 65536 ->
  cfg_wf (cs_cfg st) -> cs_txn st < 65536 ->
  let c := CoWriteNum t a v in
  exists o d',
    cli_doc_op c = Some o /\
    cli_exec st c =
      mkclist (cs_cfg st) (u16 (cs_txn st + 1)) d'
        (cs_tx st ++ [spec_frame FMbap (u16 (cs_txn st + 1)) (spec_pdu (cs_cfg st) o)])
        (cs_out st ++ [ClWrote]) /\
    cli_landed (cs_dev st) d' a
      (spec_bytes (N.to_nat (cli_width t)) (c_endian (cs_cfg st)) (c_word (cs_cfg st)) v).
Proof. exact exec_write_num. Qed.

Theorem c20_write_bytes_lands : forall st a bs,
  a < 65536 -> bytesb bs = true -> 1 <= (lenN bs + 1) / 2 <= 123 -> a + (lenN bs + 1) / 2 <= 65536 ->
  cfg_wf (cs_cfg st) -> cs_txn st < 65536 ->
  let c := CoWriteBytes a bs in
  exists o d',
    cli_doc_op c = Some o /\
    cli_exec st c =
      mkclist (cs_cfg st) (u16 (cs_txn st + 1)) d'
        (cs_tx st ++ [spec_frame FMbap (u16 (cs_txn st + 1)) (spec_pdu (cs_cfg st) o)])
        (cs_out st ++ [ClWrote]) /\
    cli_landed (cs_dev st) d' a (spec_byte_image (cs_cfg st) false bs).
Proof. exact exec_write_bytes. Qed.

Theorem c20_write_coil_lands : forall st a v,
  a < 65536 -> cfg_wf (cs_cfg st) -> cs_txn st < 65536 ->
  let c := CoWriteCoil a v in
  exists o d',
    cli_doc_op c = Some o /\
    cli_exec st c =
      mkclist (cs_cfg st) (u16 (cs_txn st + 1)) d'
        (cs_tx st ++ [spec_frame FMbap (u16 (cs_txn st + 1)) (spec_pdu (cs_cfg st) o)])
        (cs_out st ++ [ClWrote]) /\
    dv_coil d' a = v /\ (forall x, x <> a -> dv_coil d' x = dv_coil (cs_dev st) x) /\
    dv_disc d' = dv_disc (cs_dev st) /\ dv_hold d' = dv_hold (cs_dev st) /\ dv_inp d' = dv_inp (cs_dev st).
Proof. exact exec_write_coil. Qed.

(* ---- T3: a command whose operation exceeds the protocol limits (or runs
   past address 0xFFFF) puts nothing on the wire, prints a failure, leaves
   the device alone, and the run goes on. *)
Theorem c20_over_limit : forall st c o,
  cli_op_wf c -> cli_doc_op c = Some o -> valid_op o = false ->
  cli_exec st c = mkclist (cs_cfg st) (cs_txn st) (cs_dev st) (cs_tx st) (cs_out st ++ [ClFail]).
Proof. exact exec_invalid. Qed.

Theorem c20_limits : forall h t a q o coil,
  (t <> CtBytes -> cli_doc_op (CoReadRegs h t a q) = Some o ->
   valid_op o = ((q + 1) * cli_width t <=? 125) && (a + (q + 1) * cli_width t <=? 65536)) /\
  (cli_doc_op (CoReadRegs h CtBytes a q) = Some o ->
   valid_op o = ((q + 2) / 2 <=? 125) && (a + (q + 2) / 2 <=? 65536)) /\
  (cli_doc_op (CoReadBools coil a q) = Some o ->
   valid_op o = (q + 1 <=? 2000) && (a + q + 1 <=? 65536)).
Proof.
  intros. split; [|split]; [apply read_regs_valid|apply read_bytes_valid|apply read_bools_valid].
Qed.

(* ---- T4: the integer parsers accept exactly Go's integer literals and
   return the denoted value; range refusal exactly beyond the bounds. *)
Theorem c20_parse_uint_exact : forall bits s v,
  1 <= bits <= 64 -> bytesb s = true ->
  (sc_parse_uint bits s = ScOk v <-> sl_int_lit s = true /\ sl_value s = v /\ v < 2 ^ bits).
Proof. exact parse_uint_exact. Qed.

Theorem c20_parse_uint_literal : forall bits s,
  1 <= bits <= 64 -> bytesb s = true -> sl_int_lit s = true ->
  sc_parse_uint bits s = if sl_value s <? 2 ^ bits then ScOk (sl_value s) else ScRange.
Proof. exact parse_uint_literal. Qed.

Theorem c20_parse_uint_sign : forall bits t,
  sc_parse_uint bits (43 :: t) = ScSyntax /\ sc_parse_uint bits (45 :: t) = ScSyntax /\
  sc_parse_uint bits [] = ScSyntax.
Proof. exact parse_uint_sign. Qed.

Theorem c20_parse_int_exact : forall bits s z,
  2 <= bits <= 64 -> bytesb s = true ->
  (sc_parse_int bits s = ScIOk z <->
   sl_signed_lit s = true /\ sl_signed_value s = z /\
   (- Z.of_N (2 ^ (bits - 1)) <= z < Z.of_N (2 ^ (bits - 1)))%Z).
Proof. exact parse_int_exact. Qed.

Theorem c20_parse_int_literal : forall bits s,
  2 <= bits <= 64 -> bytesb s = true -> sl_signed_lit s = true ->
  sc_parse_int bits s =
    if ((- Z.of_N (2 ^ (bits - 1)) <=? sl_signed_value s) && (sl_signed_value s <? Z.of_N (2 ^ (bits - 1))))%Z
    then ScIOk (sl_signed_value s) else ScIRange.
Proof. exact parse_int_literal. Qed.

(* canonical decimal, 0x, 0o and 0b renderings of any n come back as n when it
   fits the bit size, as a range error otherwise *)
Theorem c20_roundtrip : forall bits n, 1 <= bits <= 64 ->
  let r := if n <? 2 ^ bits then ScOk n else ScRange in
  sc_parse_uint bits (sl_decimal n) = r /\ sc_parse_uint bits (sl_hex n) = r /\
  sc_parse_uint bits (sl_octal n) = r /\ sc_parse_uint bits (sl_binary n) = r.
Proof. exact roundtrip. Qed.

Theorem c20_hex_bytes : forall s bs,
  (sc_hex_decode s = Some bs -> length s = (2 * length bs)%nat /\ bytesb bs = true) /\
  (bytesb bs = true -> sc_hex_decode (sc_hex_render bs) = Some bs).
Proof. intros. split; [apply hex_decode_ok|apply hex_decode_roundtrip]. Qed.

(* ---- non-vacuity: the help text's own examples *)
Definition c20_nof : list N -> option N := fun _ => None.

Example c20_ex_parse :
  cli_parse_cmd c20_nof c20_nof (sc_str "rh:uint32:0x100+5"%string) = CliOk (CoReadRegs true CtU32 256 5) /\
  cli_parse_cmd c20_nof c20_nof (sc_str "wr:int16:0xf100:-10"%string) = CliOk (CoWriteNum CtI16 0xf100 0xfff6) /\
  cli_parse_cmd c20_nof c20_nof (sc_str "rc:0x100+199"%string) = CliOk (CoReadBools true 256 199) /\
  cli_parse_cmd c20_nof c20_nof (sc_str "wr:bytes:5:fafbfcfd"%string) = CliOk (CoWriteBytes 5 [0xfa; 0xfb; 0xfc; 0xfd]) /\
  cli_parse_cmd c20_nof c20_nof (sc_str "sid:10"%string) = CliOk (CoSetUnit 10) /\
  cli_parse_cmd c20_nof c20_nof (sc_str "rh:uint32:0x100+5+1"%string) = CliRefused /\
  cli_parse_cmd c20_nof c20_nof (sc_str "rh:uint8:1"%string) = CliRefused /\
  cli_parse_cmd c20_nof c20_nof (sc_str "wr:int16:1:32768"%string) = CliRefused /\
  cli_parse_cmd c20_nof c20_nof (sc_str "rc:1_"%string) = CliRefused.
Proof. vm_compute. repeat split; reflexivity. Qed.

(* "rh:uint32:0x100+5 rc:0+10 wc:3:true" from the help text, unit id 1 *)
Example c20_ex_run :
  cli_tx_log (cli_main c20_nof c20_nof (sc_str "big"%string) (sc_str "highfirst"%string) (sc_str "1"%string)
    [sc_str "rh:uint32:0x100+5"%string; sc_str "rc:0+10"%string; sc_str "wc:3:true"%string] cli_dev_init) =
  [[0; 1; 0; 0; 0; 6; 1; 3; 1; 0; 0; 12];
   [0; 2; 0; 0; 0; 6; 1; 1; 0; 0; 0; 11];
   [0; 3; 0; 0; 0; 6; 1; 5; 0; 3; 255; 0]].
Proof. vm_compute. reflexivity. Qed.

(* the aliases of the help text are among the accepted names *)
Example c20_ex_aliases :
  forallb (fun n => cli_in (sc_str n) cli_n_rc) ["rc"; "readCoils"]%string = true /\
  forallb (fun n => cli_in (sc_str n) cli_n_rdi) ["rdi"; "readDiscreteInputs"]%string = true /\
  forallb (fun n => cli_in (sc_str n) cli_n_rh) ["rh"; "readHoldingRegisters"]%string = true /\
  forallb (fun n => cli_in (sc_str n) cli_n_ri) ["ri"; "readInputRegisters"]%string = true /\
  forallb (fun n => cli_in (sc_str n) cli_n_wc) ["wc"; "writeCoil"]%string = true /\
  forallb (fun n => cli_in (sc_str n) cli_n_wr) ["wr"; "writeRegister"]%string = true /\
  forallb (fun n => cli_in (sc_str n) cli_n_sid) ["setUnitId"; "suid"; "sid"]%string = true.
Proof. vm_compute. repeat split; reflexivity. Qed.

(* the documented grammar is inhabited: "rh:uint32:0x100+5" and "wr:int16:0xf100:-10" *)
Example c20_ex_grammar :
  cli_doc_cmd c20_nof c20_nof (sc_str "rh:uint32:0x100+5"%string) (CoReadRegs true CtU32 256 5) /\
  cli_doc_cmd c20_nof c20_nof (sc_str "wr:int16:0xf100:-10"%string) (CoWriteNum CtI16 0xf100 0xfff6).
Proof.
  split.
  - apply (DocReadHolding c20_nof c20_nof (sc_str "rh"%string) (sc_str "uint32"%string) CtU32
             (sc_str "0x100+5"%string) 256 5).
    + left. reflexivity.
    + right; right; left. reflexivity.
    + right. exists (sc_str "0x100"%string), (sc_str "5"%string). unfold cli_lit. vm_compute. repeat split; reflexivity.
  - apply (DocWriteNum c20_nof c20_nof (sc_str "wr"%string) (sc_str "int16"%string) CtI16
             (sc_str "0xf100"%string) 0xf100 (sc_str "-10"%string) 0xfff6).
    + left. reflexivity.
    + right; left. reflexivity.
    + unfold cli_lit. vm_compute. repeat split; reflexivity.
    + cbn [cli_doc_value]. unfold cli_slit. vm_compute. repeat split; try reflexivity; discriminate.
Qed.

(* over the limit: no frame, a failure line, the next command still runs *)
Example c20_ex_limit :
  let r := cli_main c20_nof c20_nof (sc_str "big"%string) (sc_str "hf"%string) (sc_str "1"%string)
    [sc_str "rh:uint32:0+62"%string; sc_str "rc:0+65535"%string; sc_str "wc:3:false"%string] cli_dev_init in
  cli_tx_log r = [[0; 1; 0; 0; 0; 6; 1; 5; 0; 3; 0; 0]] /\ cli_printed r = [ClFail; ClFail; ClWrote].
Proof. vm_compute. split; reflexivity. Qed.

Example c20_ex_literals :
  sc_parse_uint 16 (sc_str "0x_1_0"%string) = ScOk 16 /\ sc_parse_uint 16 (sc_str "0b1010"%string) = ScOk 10 /\
  sc_parse_uint 16 (sc_str "017"%string) = ScOk 15 /\ sc_parse_uint 16 (sc_str "0o17"%string) = ScOk 15 /\
  sc_parse_uint 16 (sc_str "65535"%string) = ScOk 65535 /\ sc_parse_uint 16 (sc_str "65536"%string) = ScRange /\
  sc_parse_uint 16 (sc_str "0x"%string) = ScSyntax /\ sc_parse_uint 16 (sc_str "1__0"%string) = ScSyntax /\
  sc_parse_int 16 (sc_str "-32768"%string) = ScIOk (-32768) /\ sc_parse_int 16 (sc_str "-32769"%string) = ScIRange /\
  sc_parse_int 16 (sc_str "+0x7fff"%string) = ScIOk 32767 /\ sc_parse_int 16 (sc_str "0x8000"%string) = ScIRange /\
  sl_decimal 65535 = sc_str "65535"%string /\ sl_hex 65535 = sc_str "0xffff"%string.
Proof. vm_compute. repeat split; reflexivity. Qed.

Print Assumptions c20_all_or_nothing.
Print Assumptions c20_parse_all.
Print Assumptions c20_requests_exact.
Print Assumptions c20_run_frames.
Print Assumptions c20_one_request.
Print Assumptions c20_op_agree.
Print Assumptions c20_set_unit.
Print Assumptions c20_printed_nums.
Print Assumptions c20_printed_bools.
Print Assumptions c20_grammar_accepted.
Print Assumptions c20_grammar_exact.
Print Assumptions c20_undocumented_refused.
Print Assumptions c20_read_regs_values.
Print Assumptions c20_read_bools_values.
Print Assumptions c20_read_bytes_values.
Print Assumptions c20_write_num_lands.
Print Assumptions c20_write_bytes_lands.
Print Assumptions c20_write_coil_lands.
Print Assumptions c20_over_limit.
Print Assumptions c20_limits.
Print Assumptions c20_parse_uint_exact.
Print Assumptions c20_parse_uint_literal.
Print Assumptions c20_parse_uint_sign.
Print Assumptions c20_parse_int_exact.
Print Assumptions c20_parse_int_literal.
Print Assumptions c20_roundtrip.
Print Assumptions c20_hex_bytes.
