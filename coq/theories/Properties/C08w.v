(* C08, scenario "concslow": goroutines share one client while the device
   answers slowly (callers queue for the client about as long as, or longer
   than, the request timeout) or too late. The harness records, on the real
   client, the wire events the device sees (request k written in one Write
   call / the reply read of request k over); the model side runs cw_atomic
   (Model/ConcWire.v) on them. Statements only; proofs in Proofs/ConcWireP.v. *)
From Coq Require Import List Bool Arith.
Import ListNotations.
From Modbus Require Import Model.Conc Model.ConcWire Proofs.ConcP Proofs.ConcWireP Gen.ClientLocks.

(* every interleaving of any number of goroutines making any public calls of
   the lock skeleton generated from client.go shows an atomic wire: the check
   never rejects what the model can do, however slow the peer is (the model
   has no clock: a thread may stay between its Tx and its Rx for any time) *)
Theorem c08w_client_wire_atomic : forall prog ps evs c,
  cc_runs_table client_programs client_entries prog ps ->
  cc_exec (cc_init ps) evs c -> cw_atomic (cw_proj evs) = true.
Proof. exact cw_client_atomic. Qed.
Print Assumptions c08w_client_wire_atomic.

(* generic form: well-bracketed threads *)
Theorem c08w_good_wire_atomic : forall ps evs c,
  cc_good ps -> cc_exec (cc_init ps) evs c -> cw_atomic (cw_proj evs) = true.
Proof. exact cw_good_atomic. Qed.
Print Assumptions c08w_good_wire_atomic.

(* what an accepted wire means: the event after a request is the end of its
   own exchange (no second request, no end of another one) ... *)
Theorem c08w_atomic_next : forall l1 k e l2,
  cw_atomic (l1 ++ WReq k :: e :: l2) = true -> e = WEnd k.
Proof. exact cw_atomic_next. Qed.
Print Assumptions c08w_atomic_next.

(* ... and an exchange only ends directly after its request *)
Theorem c08w_atomic_prev : forall l1 k l2,
  cw_atomic (l1 ++ WEnd k :: l2) = true -> exists l0, l1 = l0 ++ [WReq k].
Proof. exact cw_atomic_prev. Qed.
Print Assumptions c08w_atomic_prev.

(* non-vacuity: a serial wire is accepted, also with a last request whose
   reply read is not over; two requests outstanding are rejected; so is a
   reply read that ends another caller's exchange *)
Example c08w_ex_serial : cw_atomic [WReq 2; WEnd 2; WReq 0; WEnd 0; WReq 1] = true.
Proof. reflexivity. Qed.
Example c08w_ex_two_outstanding : cw_atomic [WReq 2; WEnd 2; WReq 0; WReq 1; WEnd 0] = false.
Proof. reflexivity. Qed.
Example c08w_ex_foreign_end : cw_atomic [WReq 0; WEnd 1] = false.
Proof. reflexivity. Qed.

(* an execution with an exchange exists and projects to its wire events *)
Example c08w_ex_exec :
  let ps := [[ALock; ATx; ARx; AUnlock]; [ALock; ATx; ARx; AUnlock]] in
  let evs := [(1, ALock); (1, ATx); (1, ARx); (1, AUnlock); (0, ALock); (0, ATx)] in
  cc_good ps /\ (exists c, cc_exec (cc_init ps) evs c) /\
  cw_proj evs = [WReq 1; WEnd 1; WReq 0].
Proof.
  split; [|split; [eexists; reflexivity|reflexivity]].
  repeat constructor.
Qed.
