(* C06 - first clause over SESSIONS: every frame sent in a sequence of requests
   on one client / one RTU transport ends with the CRC-16/MODBUS (bit-serial
   reference, low byte first) of its own preceding bytes - whatever was sent
   before it on that transport -, so a well-behaved device, which drops every
   frame whose trailer does not match, answers every request of the session.
   Statements only; proofs in Proofs/RtuSeqP.v. *)
From Modbus Require Import Base.Bytes Model.Encoding Model.Wire Model.Client Model.RtuSeq
  Spec.ModbusSpec Spec.ClientSpec Spec.RtuSeqSpec Proofs.RtuSeqP.

(* the executable trailer test (the device's, and the check's predicate on the
   frames the real client emitted) is the declarative one *)
Theorem c06_trailer_test : forall f, ends_with_crcb f = true <-> ends_with_crc f.
Proof. exact ends_with_crcb_iff. Qed.

(* every frame of every session, for every history of calls, reconfigurations,
   replies and leftover bytes *)
Theorem c06_session_frames : forall steps cfg left,
  cfg_wf cfg -> Forall rs_step_wf steps ->
  Forall (fun r => Forall ends_with_crc (cr_writes r)) (rtuseq_run cfg left steps).
Proof. exact rtuseq_frames_crc. Qed.

(* a device that checks the trailer of what it receives answers every request
   of the session: all the calls succeed *)
Theorem c06_session_succeeds : forall steps cfg vss,
  cfg_wf cfg -> rs_answered cfg steps vss ->
  map cr_res (rtuseq_run cfg [] steps) = map (fun vs => Ok vs) vss.
Proof. exact rtuseq_all_succeed. Qed.

(* non-vacuity: two writes to the same registers with different data, the
   second frame has its own trailer and both are answered *)
Example c06_ex_session :
  map (fun r => (cr_res r, cr_writes r)) (rtuseq_run (mkcfg 1 BigE HighFirst) []
    [RsCall (OpWriteRegs 1 0x10 [0x1111; 0x2222]) [1; 16; 0; 16; 0; 2; 0x40; 0x0d];
     RsCall (OpWriteRegs 1 0x10 [0x3333; 0x4444]) [1; 16; 0; 16; 0; 2; 0x40; 0x0d]]) =
  [(Ok VUnit, [[1; 16; 0; 16; 0; 2; 4; 0x11; 0x11; 0x22; 0x22; 0x3f; 0x23]]);
   (Ok VUnit, [[1; 16; 0; 16; 0; 2; 4; 0x33; 0x33; 0x44; 0x44; 0x3e; 0xdb]])].
Proof. vm_compute. reflexivity. Qed.

(* the hypothesis of c06_session_succeeds is satisfiable: the same write twice
   with different data, a change of unit id in between *)
Example c06_ex_answered :
  rs_answered (mkcfg 1 BigE HighFirst)
    [RsCall (OpWriteRegs 1 0x10 [0x1111; 0x2222]) (spec_frame FRtu 0 (mkpdu 1 16 [0; 16; 0; 2]));
     RsCfg (mkcfg 9 BigE HighFirst);
     RsCall (OpWriteRegs 1 0x10 [0x3333; 0x4444]) (spec_frame FRtu 0 (mkpdu 9 16 [0; 16; 0; 2]))]
    [VUnit; VUnit].
Proof.
  assert (W : forall a b, op_wf (OpWriteRegs 1 0x10 [a; b]) <-> a < 65536 /\ b < 65536).
  { intros a b. cbn [op_wf]. change (2 ^ (16 * 1)) with 65536. split.
    - intros (_ & _ & F). inversion F as [|? ? Ha F']; subst. inversion F' as [|? ? Hb _]; subst. tauto.
    - intros [Ha Hb]. split; [left; reflexivity|]. split; [reflexivity|].
      constructor; [exact Ha|]. constructor; [exact Hb|]. constructor. }
  cbn [rs_answered]. unfold cfg_wf. cbn [c_unit].
  split; [apply W; lia|]. split; [reflexivity|]. split.
  { exists (mkpdu 1 16 [0; 16; 0; 2]). repeat split; reflexivity. }
  split; [lia|].
  split; [apply W; lia|]. split; [reflexivity|]. split.
  { exists (mkpdu 9 16 [0; 16; 0; 2]). repeat split; reflexivity. }
  reflexivity.
Qed.

Print Assumptions c06_trailer_test.
Print Assumptions c06_session_frames.
Print Assumptions c06_session_succeeds.
