(* C10 - Stop and Start are clean, repeatable and race-free: tcp+tls servers,
   with connections in EVERY phase of becoming a session when Stop runs - TCP
   connected and silent (handshake not started), ClientHello sent and stalled,
   handshake complete and idle, handshake complete and in the middle of a
   request (Model/TlsLife.v). A connection in its handshake is an enrolled
   connection that has not served a request: Stop closes it like any other,
   its session goroutine winds down, and neither its handshake nor a request
   can proceed until the next Start.
   Statements only; proofs in Proofs/TlsLifeP.v. *)
From Coq Require Import List Arith Bool.
Import ListNotations.
From Modbus Require Import Model.Slots Model.TlsLife Proofs.SlotsP Proofs.TlsLifeP.

(* when Stop returns the listener is closed and every connection of the active
   list has been closed - there is no hypothesis on its phase - and nothing
   can proceed on it; the peers' phases and the handler counter are untouched *)
Theorem c10d_stop_closes_every_phase : forall b, started (tl_srv b) = true ->
  let b' := tl_step b (TSrv Stop) in
  started (tl_srv b') = false /\ listening (tl_srv b') = false /\ acceptors (tl_srv b') = 0 /\
  tl_phase b' = tl_phase b /\ tl_calls b' = tl_calls b /\
  (forall c, In c (clients (tl_srv b)) ->
     tl_peer_closed b' c = true /\ tl_live b' c = false /\ tl_shake_ok b' c = false /\ tl_req_ok b' c = false).
Proof. exact tl_stop_closes_every_phase. Qed.

(* in every reachable stopped state - for every interleaving of server and
   peer steps that led there - no handshake completes, no request reaches a
   handler, and every connection still held by a session goroutine is closed *)
Theorem c10d_stopped_nothing_proceeds : forall m tr c,
  let b := tl_run (tl_init m) tr in
  started (tl_srv b) = false ->
  tl_shake_ok b c = false /\ tl_req_ok b c = false /\
  (stat (tl_srv b) c = Serving -> tl_peer_closed b c = true).
Proof. exact tl_stopped_nothing_proceeds. Qed.

(* a handler runs only in the Req step of a live connection whose handshake
   has completed *)
Theorem c10d_call_needs_session : forall b l,
  tl_calls (tl_step b l) = tl_calls b \/
  (exists c, l = TSrv (Req c) /\ tl_live b c = true /\ phase_estab (tl_phase b c) = true /\
             tl_calls (tl_step b l) = S (tl_calls b)).
Proof. exact tl_call_needs_session. Qed.

(* no request sent after Stop reaches a handler: until the next Start the
   handler counter is frozen, whatever the peers and the goroutines do *)
Theorem c10d_calls_frozen_while_stopped : forall m tr tr',
  let b := tl_run (tl_init m) tr in
  started (tl_srv b) = false -> (forall l, In l tr' -> l <> TSrv Start) ->
  tl_calls (tl_run b tr') = tl_calls b /\ started (tl_srv (tl_run b tr')) = false.
Proof. exact tl_calls_frozen_while_stopped. Qed.

(* ... including a connection that was being accepted while Stop ran *)
Theorem c10d_taken_during_stop : forall b c, Inv (tl_srv b) -> stat (tl_srv b) c = Taken ->
  started (tl_srv b) = true ->
  let b' := tl_step (tl_step b (TSrv Stop)) (TSrv (Enrol c)) in
  stat (tl_srv b') c = Rejected /\ tl_peer_closed b' c = true /\
  tl_shake_ok b' c = false /\ tl_req_ok b' c = false.
Proof. exact tl_taken_during_stop. Qed.

(* no session goroutine outlives Stop: whatever phase its connection was in,
   it ends and removes the connection in two steps *)
Theorem c10d_session_winds_down : forall b c, Inv (tl_srv b) -> started (tl_srv b) = false ->
  stat (tl_srv b) c = Serving ->
  let b1 := tl_step b (TSrv (End c ClosedByStop)) in
  let b2 := tl_step b1 (TSrv (Remove c)) in
  enabled (tl_srv b) (End c ClosedByStop) = true /\ enabled (tl_srv b1) (Remove c) = true /\
  stat (tl_srv b2) c = Removed /\ tl_session_goroutine b2 c = false /\ ~ In c (clients (tl_srv b2)).
Proof. exact tl_session_winds_down. Qed.

(* the live session goroutines are exactly the members of the active list (so
   an empty list means that no session goroutine is left) *)
Theorem c10d_sessions_are_clients : forall m tr,
  let b := tl_run (tl_init m) tr in
  tl_sessions b = length (clients (tl_srv b)) /\ NoDup (clients (tl_srv b)) /\
  (forall c, tl_session_goroutine b c = true <-> In c (clients (tl_srv b))).
Proof. exact tl_sessions_are_clients. Qed.

(* Start after Stop serves again; repeated Start / Stop are no-ops on the
   whole state (phases and counter included) *)
Theorem c10d_stop_start : forall b, started (tl_srv b) = true ->
  let b' := tl_step (tl_step b (TSrv Stop)) (TSrv Start) in
  started (tl_srv b') = true /\ listening (tl_srv b') = true /\ acceptors (tl_srv b') = 1.
Proof. exact tl_stop_start. Qed.
Theorem c10d_stop_idempotent : forall b,
  tl_step (tl_step b (TSrv Stop)) (TSrv Stop) = tl_step b (TSrv Stop).
Proof. exact tl_stop_idempotent. Qed.
Theorem c10d_start_idempotent : forall b,
  tl_step (tl_step b (TSrv Start)) (TSrv Start) = tl_step b (TSrv Start).
Proof. exact tl_start_idempotent. Qed.

(* the server component of every reachable state is reachable in Slots.v: the
   theorems of C10.v / C09.v about reachable states carry over *)
Theorem c10d_reach_proj : forall m tr, exists tr', tl_srv (tl_run (tl_init m) tr) = run (init m) tr'.
Proof. exact tl_reach_proj. Qed.
Theorem c10d_reachable_inv : forall m tr, Inv (tl_srv (tl_run (tl_init m) tr)).
Proof. exact tl_reachable_inv. Qed.

(* the hypotheses are satisfiable: four connections, one in each phase, when
   Stop runs; all four are closed, nothing proceeds afterwards, the goroutines
   wind down, and after Start a new connection is served *)
Definition c10d_arrive (c : conn) : list tl_label := [TSrv (Arrive c); TSrv (Take c); TSrv (Enrol c)].
Example c10d_ex :
  let tr := [TSrv Start] ++ c10d_arrive 1 ++ c10d_arrive 2 ++ c10d_arrive 3 ++ c10d_arrive 4 ++
            [THello 2; TShake 3; TSrv (Req 3); THello 4; TShake 4; TPart 4] in
  let b := tl_run (tl_init 4) tr in
  (tl_phase b 1, tl_phase b 2, tl_phase b 3, tl_phase b 4) = (PSilent, PHello, PEstab, PMid) /\
  tl_calls b = 1 /\ tl_sessions b = 4 /\ tl_shake_ok b 1 = true /\ tl_req_ok b 4 = true /\
  let b' := tl_step b (TSrv Stop) in
  forallb (tl_peer_closed b') [1; 2; 3; 4] = true /\
  let b2 := tl_run b' [TShake 1; TShake 2; TSrv (Req 3); TSrv (Req 4);
                       TSrv (End 1 ClosedByStop); TSrv (Remove 1); TSrv (End 2 ClosedByStop); TSrv (Remove 2);
                       TSrv (End 3 ClosedByStop); TSrv (Remove 3); TSrv (End 4 ClosedByStop); TSrv (Remove 4);
                       TSrv AcceptExit] in
  tl_calls b2 = 1 /\ tl_sessions b2 = 0 /\ tl_acceptors b2 = 0 /\ clients (tl_srv b2) = [] /\
  let b3 := tl_run b2 ([TSrv Start] ++ c10d_arrive 5 ++ [TShake 5; TSrv (Req 5)]) in
  tl_calls b3 = 2 /\ tl_sessions b3 = 1 /\ tl_acceptors b3 = 1.
Proof. vm_compute. repeat split; reflexivity. Qed.

Print Assumptions c10d_stop_closes_every_phase.
Print Assumptions c10d_stopped_nothing_proceeds.
Print Assumptions c10d_call_needs_session.
Print Assumptions c10d_calls_frozen_while_stopped.
Print Assumptions c10d_taken_during_stop.
Print Assumptions c10d_session_winds_down.
Print Assumptions c10d_sessions_are_clients.
Print Assumptions c10d_stop_start.
Print Assumptions c10d_stop_idempotent.
Print Assumptions c10d_start_idempotent.
Print Assumptions c10d_reach_proj.
Print Assumptions c10d_reachable_inv.
