(* C20b - C20 tied to C04: the CLI against the library's own server model.
   Statements only; proofs in Proofs/CliE2EP.v.

   Properties/C20.v proves "what a read prints is the device's contents, what
   a write sends lands" against a LOCAL reference device (Model/Cli.v:
   cli_dev_serve, four address -> value tables; it is the model of the device
   emulator the real binary is run against). Here that device is shown to be
   the library's server model (Model/Server.v) driving the memory-backed
   handler of the end-to-end composition of C04 (Model/E2E.v), and the CLI's
   execution loop is composed with C04's refinement theorem:

     CLI command  --cli_doc_op (help text)-->  typed client call
                  --C04: client model -> MBAP -> server model -> handler-->
                  register-file semantics (Spec/RegFile.v: rf_step / rf_run).

   Correspondence of memories (cli_dev_sim): coils, discrete inputs, holding
   and input registers of the device equal those of the register file cell
   by cell. *)
From Modbus Require Import Base.Bytes Base.Cells Model.Encoding Model.Wire Model.Client Model.Server
  Model.Strconv Model.Cli Model.E2E
  Spec.ModbusSpec Spec.ClientSpec Spec.ServerSpec Spec.ServerSessionSpec Spec.RegFile
  Spec.StrconvSpec Spec.CliSpec
  Proofs.CliP Proofs.CliDevP Proofs.E2EP Proofs.CliE2EP.
From Coq Require String.
Import String.StringSyntax.
Local Delimit Scope string_scope with string.

(* ---- (1) the reference device IS the server model over the register file.
   For every request PDU the server dispatches (Spec/ServerSpec.v: spec_decode
   names the handler invocation r, in_range: not past 0xFFFF) - whatever
   client produced it - the device's reply is the response the server builds
   from what the memory handler returns, and the device's new contents
   correspond to the handler's new memory. *)
Theorem c20b_device_is_server : forall d m p r, cli_dev_sim d m -> rfmem_wf m ->
  spec_decode p = Some r -> in_range r = true ->
  let hr := e2e_mem_handler rf_nofail m r in
  fst (cli_dev_serve d p) = spec_response p r (snd hr) /\
  cli_dev_sim (snd (cli_dev_serve d p)) (fst hr).
Proof. exact dev_agrees_server. Qed.

(* on the wire: one turn of the server's session loop (e2e_serve, the server
   side of the C04 composition) on the MBAP frame of p sends back exactly the
   frame of the device's reply, after ONE handler invocation r *)
Theorem c20b_device_frame : forall d m t p r, t < 65536 -> pdu_wf p -> cli_dev_sim d m -> rfmem_wf m ->
  spec_decode p = Some r -> in_range r = true ->
  exists m',
    e2e_serve rf_nofail m (spec_frame FMbap t p) =
      (m', [r], assemble_mbap t (fst (cli_dev_serve d p)), Stall) /\
    cli_dev_sim (snd (cli_dev_serve d p)) m'.
Proof. exact dev_serve_is_server. Qed.

(* for the request of every typed client call within protocol limits: the
   handler sees the invocation the register file names (rf_request) and both
   memories end in the register file's documented store (rf_commit) *)
Theorem c20b_device_serves_call : forall cfg o d m t,
  op_wf o -> valid_op o = true -> cfg_wf cfg -> t < 65536 -> cli_dev_sim d m -> rfmem_wf m ->
  let req := spec_pdu cfg o in
  client_request cfg o = Ok req /\
  e2e_serve rf_nofail m (spec_frame FMbap t req) =
    (rf_commit cfg m o, [rf_request cfg o], assemble_mbap t (fst (cli_dev_serve d req)), Stall) /\
  cli_dev_sim (snd (cli_dev_serve d req)) (rf_commit cfg m o).
Proof. exact dev_serves_op. Qed.

(* in particular for every CLI command within limits (o: the help text's
   operation of the command) *)
Theorem c20b_command_served : forall c o cfg d m t,
  cli_op_wf c -> cli_doc_op c = Some o -> valid_op o = true -> cfg_wf cfg -> t < 65536 ->
  cli_dev_sim d m -> rfmem_wf m ->
  let req := spec_pdu cfg o in
  cli_to_op c = Some o /\ client_request cfg o = Ok req /\
  e2e_serve rf_nofail m (spec_frame FMbap t req) =
    (rf_commit cfg m o, [rf_request cfg o], assemble_mbap t (fst (cli_dev_serve d req)), Stall) /\
  cli_dev_sim (snd (cli_dev_serve d req)) (rf_commit cfg m o).
Proof. exact cli_cmd_served. Qed.

(* ---- (2) the history of a command list. sid:n is SetUnitId n; every other
   command is ONE typed call: the documented one (cli_rf_op, from the help
   text) resp. the code's (cli_rf_op_code, 16-bit quantity + 1); the two
   differ only where both are rejected locally. *)
Theorem c20b_history_ops : forall c, cli_op_wf c ->
  (exists u, c = CoSetUnit u /\ cli_rf_op c = RfSetUnit u /\ cli_rf_op_code c = RfSetUnit u) \/
  (exists o o', cli_doc_op c = Some o /\ cli_to_op c = Some o' /\ op_wf o' /\
                valid_op o' = valid_op o /\ (valid_op o = true -> o' = o) /\
                cli_rf_op c = RfCall o /\ cli_rf_op_code c = RfCall o').
Proof. exact rf_op_by_cases. Qed.

Theorem c20b_code_count_irrelevant : forall cs, Forall cli_op_wf cs -> forall s,
  rf_run s (cli_history_code cs) = rf_run s (cli_history cs).
Proof. exact rf_run_code. Qed.

(* (2a) with the library's server model in the loop: one iteration of the
   CLI's execution loop is one step of the C04 composition (client model ->
   MBAP -> server model -> memory handler) - same unit id / encoding, same
   transaction counter, corresponding memories, and the lines printed are the
   rendering of what the composition returned to the caller *)
Theorem c20b_exec_is_composition : forall st s c, cli_op_wf c -> cli_e2e_sim st s ->
  let r := e2e_step rf_nofail s (cli_rf_op_code c) in
  cli_e2e_sim (cli_exec st c) (fst r) /\
  cs_out (cli_exec st c) = cs_out st ++ cli_print c (fst (snd r)).
Proof. exact cli_exec_e2e. Qed.

Theorem c20b_run_is_composition : forall cs st s, Forall cli_op_wf cs -> cli_e2e_sim st s ->
  let r := e2e_run s (cli_history_code cs) in
  cli_e2e_sim (cli_run st cs) (fst r) /\
  cs_out (cli_run st cs) = cs_out st ++ cli_printed_of cs (snd r).
Proof. exact cli_run_e2e. Qed.

(* every CLI state with a 16-bit device stands for a state of the composition *)
Theorem c20b_state_of : forall st, cfg_wf (cs_cfg st) -> cs_txn st < 65536 -> cli_dev_wf (cs_dev st) ->
  cli_e2e_sim st (cli_e2e_of st).
Proof. exact e2e_of_sim. Qed.

(* (2b) composed with C04 (c04_step / c04_history): CLI command -> documented
   operation -> register-file semantics. The final unit id / encoding, the
   final device contents and everything printed are those of the abstract
   register file run on the documented operations of the commands. *)
Theorem c20b_exec_refines_regfile : forall st m c,
  cli_op_wf c -> cfg_wf (cs_cfg st) -> cs_txn st < 65536 -> cli_dev_sim (cs_dev st) m -> rfmem_wf m ->
  let r := rf_step rf_nofail (cs_cfg st, m) (cli_rf_op c) in
  cs_cfg (cli_exec st c) = fst (fst r) /\
  cli_dev_sim (cs_dev (cli_exec st c)) (snd (fst r)) /\ rfmem_wf (snd (fst r)) /\
  cs_txn (cli_exec st c) < 65536 /\
  cs_out (cli_exec st c) = cs_out st ++ cli_print c (fst (snd r)).
Proof. exact cli_exec_refines_rf. Qed.

Theorem c20b_run_refines_regfile : forall cs st m,
  Forall cli_op_wf cs -> cfg_wf (cs_cfg st) -> cs_txn st < 65536 -> cli_dev_sim (cs_dev st) m -> rfmem_wf m ->
  let r := rf_run (cs_cfg st, m) (cli_history cs) in
  cs_cfg (cli_run st cs) = fst (fst r) /\
  cli_dev_sim (cs_dev (cli_run st cs)) (snd (fst r)) /\ rfmem_wf (snd (fst r)) /\
  cs_out (cli_run st cs) = cs_out st ++ cli_printed_of cs (snd r).
Proof. exact cli_run_refines_rf. Qed.

(* from main: an accepted command line (every argument parsed, i.e. by
   c20_grammar_exact a command of the documented grammar) *)
Theorem c20b_main_refines_regfile : forall pf32 pf64,
  (forall s v, pf32 s = Some v -> v < 2 ^ 32) -> (forall s v, pf64 s = Some v -> v < 2 ^ 64) ->
  forall e w u args dev st,
  Forall (fun a => bytesb a = true) args -> bytesb u = true -> cli_dev_wf dev ->
  cli_main pf32 pf64 e w u args dev = CliDone st ->
  exists unit en wo ops,
    sc_parse_uint 64 u = ScOk unit /\ unit < 256 /\
    cli_endian_of e = Some en /\ cli_word_of w = Some wo /\
    Forall2 (fun a o => cli_parse_cmd pf32 pf64 a = CliOk o) args ops /\
    let r := rf_run (mkcfg unit en wo, cli_dev_mem dev) (cli_history ops) in
    cs_cfg st = fst (fst r) /\ cli_dev_sim (cs_dev st) (snd (fst r)) /\
    cs_out st = cli_printed_of ops (snd r).
Proof. exact cli_main_refines_rf. Qed.

(* ---- the commands spelled out in the vocabulary of the register file *)

(* rh/ri:T:a+q: value i is decoded (rf_regs_value: most significant word first
   unless low-word-first, each register byte-swapped for little-endian) from
   the registers a + i*w(T) .. a + i*w(T) + w(T) - 1 of the holding (rh) or input
   (ri) table; c20_printed_nums gives the printed address a + i*w(T) *)
Theorem c20b_read_regs : forall st m h t a q,
  t <> CtBytes -> a < 65536 -> q < 65536 -> cfg_wf (cs_cfg st) -> cs_txn st < 65536 ->
  cli_dev_sim (cs_dev st) m -> rfmem_wf m ->
  (q + 1) * cli_width t <= 125 -> a + (q + 1) * cli_width t <= 65536 ->
  let c := CoReadRegs h t a q in
  let w := cli_width t in
  let tbl := if h then rf_holding m else rf_input m in
  cli_rf_op c = RfCall (OpReadRegs w a (q + 1) (if h then Holding else InputReg)) /\
  cs_out (cli_exec st c) = cs_out st ++
    cli_print c (Ok (VNums (map (fun i => rf_regs_value (cs_cfg st) (cells_load tbl (a + N.of_nat i * w) w))
                                (seq 0 (N.to_nat (q + 1)))))) /\
  cli_dev_sim (cs_dev (cli_exec st c)) m.
Proof. exact exec_read_regs_rf. Qed.

(* wr:T:a:v: the documented store (rf_value_regs, c04_layout32/64) at a *)
Theorem c20b_write_num : forall st m t a v,
  t <> CtBytes -> a < 65536 -> v < 2 ^ (16 * cli_width t) -> a + cli_width t <= 65536 ->
  cfg_wf (cs_cfg st) -> cs_txn st < 65536 -> cli_dev_sim (cs_dev st) m -> rfmem_wf m ->
  let c := CoWriteNum t a v in
  cs_out (cli_exec st c) = cs_out st ++ [ClWrote] /\
  cli_dev_sim (cs_dev (cli_exec st c))
    (mkrfmem (rf_coils m) (rf_discrete m)
       (cells_store (rf_holding m) a (rf_value_regs (cs_cfg st) (cli_width t) v)) (rf_input m)).
Proof. exact exec_write_num_rf. Qed.

Theorem c20b_read_bools : forall st m coil a q,
  a < 65536 -> q < 65536 -> cfg_wf (cs_cfg st) -> cs_txn st < 65536 ->
  cli_dev_sim (cs_dev st) m -> rfmem_wf m -> q + 1 <= 2000 -> a + q + 1 <= 65536 ->
  let c := CoReadBools coil a q in
  cs_out (cli_exec st c) = cs_out st ++
    cli_print c (Ok (VBools (cells_load (if coil then rf_coils m else rf_discrete m) a (q + 1)))) /\
  cli_dev_sim (cs_dev (cli_exec st c)) m.
Proof. exact exec_read_bools_rf. Qed.

Theorem c20b_write_coil : forall st m a v,
  a < 65536 -> cfg_wf (cs_cfg st) -> cs_txn st < 65536 -> cli_dev_sim (cs_dev st) m -> rfmem_wf m ->
  let c := CoWriteCoil a v in
  cs_out (cli_exec st c) = cs_out st ++ [ClWrote] /\
  cli_dev_sim (cs_dev (cli_exec st c))
    (mkrfmem (cells_store (rf_coils m) a [v]) (rf_discrete m) (rf_holding m) (rf_input m)).
Proof. exact exec_write_coil_rf. Qed.

Theorem c20b_read_bytes : forall st m h a q,
  a < 65536 -> q < 65536 -> cfg_wf (cs_cfg st) -> cs_txn st < 65536 ->
  cli_dev_sim (cs_dev st) m -> rfmem_wf m -> (q + 2) / 2 <= 125 -> a + (q + 2) / 2 <= 65536 ->
  let c := CoReadRegs h CtBytes a q in
  let tbl := if h then rf_holding m else rf_input m in
  cs_out (cli_exec st c) = cs_out st ++
    cli_print c (Ok (VBytes (firstn (N.to_nat (q + 1))
      (flat_map (rf_reg_bytes (rf_swapped (cs_cfg st) false)) (cells_load tbl a ((q + 2) / 2)))))) /\
  cli_dev_sim (cs_dev (cli_exec st c)) m.
Proof. exact exec_read_bytes_rf. Qed.

Theorem c20b_write_bytes : forall st m a bs,
  a < 65536 -> bytesb bs = true -> 1 <= (lenN bs + 1) / 2 <= 123 -> a + (lenN bs + 1) / 2 <= 65536 ->
  cfg_wf (cs_cfg st) -> cs_txn st < 65536 -> cli_dev_sim (cs_dev st) m -> rfmem_wf m ->
  let c := CoWriteBytes a bs in
  cs_out (cli_exec st c) = cs_out st ++ [ClWrote] /\
  cli_dev_sim (cs_dev (cli_exec st c))
    (mkrfmem (rf_coils m) (rf_discrete m)
       (cells_store (rf_holding m) a (rf_bytes_regs (rf_swapped (cs_cfg st) false) bs)) (rf_input m)).
Proof. exact exec_write_bytes_rf. Qed.

(* ---- non-vacuity *)

(* the emulator's initial contents are a 16-bit device and stand for a
   register file *)
Example c20b_ex_init :
  cli_dev_wf cli_dev_init /\ cli_dev_sim cli_dev_init (cli_dev_mem cli_dev_init) /\
  rfmem_wf (cli_dev_mem cli_dev_init) /\
  cli_e2e_sim (mkclist (mkcfg 1 BigE HighFirst) 0 cli_dev_init [] [])
              (cli_e2e_of (mkclist (mkcfg 1 BigE HighFirst) 0 cli_dev_init [] [])).
Proof.
  split; [exact dev_init_wf|]. split; [apply dev_mem_sim|]. split; [exact (dev_mem_wf _ dev_init_wf)|].
  apply e2e_of_sim; [reflexivity|reflexivity|exact dev_init_wf].
Qed.

(* a request the server dispatches: read holding registers 5..6 of unit 1.
   The server model over the emulator's initial contents invokes the handler
   once and sends back the frame of the device's reply *)
Example c20b_ex_frame :
  let p := mkpdu 1 3 [0; 5; 0; 2] in
  let r := mkhreq HHolding 1 5 2 false [] [] in
  pdu_wf p /\ spec_decode p = Some r /\ in_range r = true /\
  (let '(_, calls, reply, e) := e2e_serve rf_nofail (cli_dev_mem cli_dev_init) (spec_frame FMbap 7 p) in
   (calls, reply, e)) =
  ([r], assemble_mbap 7 (fst (cli_dev_serve cli_dev_init p)), Stall) /\
  assemble_mbap 7 (fst (cli_dev_serve cli_dev_init p)) =
    [0; 7; 0; 0; 0; 7; 1; 3; 4; 0x29; 0x47; 0xc7; 0x7e].
Proof.
  cbv zeta. split; [unfold pdu_wf; cbn; repeat split; try lia; reflexivity|].
  vm_compute. repeat split; reflexivity.
Qed.

Definition c20b_nof : list N -> option N := fun _ => None.

(* "wr:uint32:0x10:0x11223344 rh:uint32:0x10 rh:uint16:0x10+1 sid:9 wc:3:true
   rc:2+2 rh:uint64:0+31" with --endianness little --word-order lowfirst:
   accepted, well formed; the last command is over the limit *)
Definition c20b_ex_args : list (list N) :=
  [sc_str "wr:uint32:0x10:0x11223344"%string; sc_str "rh:uint32:0x10"%string;
   sc_str "rh:uint16:0x10+1"%string; sc_str "sid:9"%string; sc_str "wc:3:true"%string;
   sc_str "rc:2+2"%string; sc_str "rh:uint64:0+31"%string].

Definition c20b_ex_ops : list cli_operation :=
  [CoWriteNum CtU32 16 0x11223344; CoReadRegs true CtU32 16 0; CoReadRegs true CtU16 16 1;
   CoSetUnit 9; CoWriteCoil 3 true; CoReadBools true 2 2; CoReadRegs true CtU64 0 31].

Example c20b_ex_parse :
  cli_parse_all c20b_nof c20b_nof c20b_ex_args = CliOk c20b_ex_ops /\ Forall cli_op_wf c20b_ex_ops.
Proof.
  split; [vm_compute; reflexivity|].
  unfold c20b_ex_ops. repeat (apply Forall_cons; [cbn; repeat split; try lia; try discriminate|]); try apply Forall_nil;
    vm_compute; reflexivity.
Qed.

(* the documented history of the command line *)
Example c20b_ex_history :
  map snd (cli_history c20b_ex_ops) =
  [RfCall (OpWriteRegs 2 16 [0x11223344]); RfCall (OpReadRegs 2 16 1 Holding);
   RfCall (OpReadRegs 1 16 2 Holding); RfSetUnit 9; RfCall (OpWriteCoil 3 true);
   RfCall (OpReadBools false 2 3); RfCall (OpReadRegs 4 0 32 Holding)].
Proof. vm_compute. reflexivity. Qed.

(* the CLI run against the emulator prints what the register file returns:
   the value written comes back, the two registers hold the low word first,
   each byte-swapped; the over-limit read fails locally *)
Example c20b_ex_run :
  let out := cli_main c20b_nof c20b_nof (sc_str "little"%string) (sc_str "lowfirst"%string) (sc_str "1"%string)
               c20b_ex_args cli_dev_init in
  let r := rf_run (mkcfg 1 LittleE LowFirst, cli_dev_mem cli_dev_init) (cli_history c20b_ex_ops) in
  cli_printed out = cli_printed_of c20b_ex_ops (snd r) /\
  cli_printed out =
    [ClWrote; ClNum 2 16 0x11223344; ClNum 1 16 0x3344; ClNum 1 17 0x1122; ClWrote;
     ClBool 2 false; ClBool 3 true; ClBool 4 true; ClFail] /\
  map snd (snd r) =
    [[mkhreq HHolding 1 16 2 true [] [0x4433; 0x2211]]; [mkhreq HHolding 1 16 2 false [] []];
     [mkhreq HHolding 1 16 2 false [] []]; []; [mkhreq HCoils 9 3 1 true [true] []];
     [mkhreq HCoils 9 2 3 false [] []]; []] /\
  cells_load (rf_holding (snd (fst r))) 15 4 = [cli_pat_hold 15; 0x4433; 0x2211; cli_pat_hold 18].
Proof. vm_compute. repeat split; reflexivity. Qed.

Print Assumptions c20b_device_is_server.
Print Assumptions c20b_device_frame.
Print Assumptions c20b_device_serves_call.
Print Assumptions c20b_command_served.
Print Assumptions c20b_history_ops.
Print Assumptions c20b_code_count_irrelevant.
Print Assumptions c20b_exec_is_composition.
Print Assumptions c20b_run_is_composition.
Print Assumptions c20b_state_of.
Print Assumptions c20b_exec_refines_regfile.
Print Assumptions c20b_run_refines_regfile.
Print Assumptions c20b_main_refines_regfile.
Print Assumptions c20b_read_regs.
Print Assumptions c20b_write_num.
Print Assumptions c20b_read_bools.
Print Assumptions c20b_write_coil.
Print Assumptions c20b_read_bytes.
Print Assumptions c20b_write_bytes.
