(* C08 - A client shared between goroutines keeps exchanges atomic and race-free.
   Statements only; proofs in Proofs/ConcP.v (generic, over all interleavings
   of any number of threads) and Proofs/GenLocksP.v (the check over the lock
   skeleton GENERATED from client.go by harness/cmd/locksum on every run).

   Reading guide. client_programs / client_entries (Gen/ClientLocks.v): the
   structured lock skeleton of every method of ModbusClient and the list of
   its exported methods. cc_runs_table .. prog ps: goroutine k makes the public
   calls prog[k] one after the other and executes the flat action sequence
   ps[k] (one of the paths of those calls: every branch, any number of loop
   iterations, calls between methods inlined, the deferred Unlock at every
   exit). cc_exec (cc_init ps) evs c: evs is an interleaving of the threads
   (an event = thread index, action; Lock is enabled only while no thread
   holds the mutex) leading to configuration c. *)
From Coq Require Import List Bool String Arith.
Import ListNotations.
From Modbus Require Import Model.Conc Proofs.ConcP Proofs.GenLocksP Gen.ClientLocks.
Local Open Scope string_scope.
Local Open Scope list_scope.

(* (T5) the generated table passes the structured discipline check: every
   exported method, with the methods it calls inlined, takes the mutex before
   any access to endianness / wordOrder / unitId / transport, performs the
   exchange while holding it, never locks twice, releases it on every exit;
   no method contains a construct the extractor refused to interpret *)
Theorem c08_table_wb : cc_table_wb client_programs cc_fuel client_entries = true.
Proof. exact client_programs_wb. Qed.

(* (S) structured-to-flat, for every table and every fuel: the check implies
   that every flat path of a list of public calls starts and ends without the
   mutex, respects it in between, and has every Tx immediately followed by Rx *)
Theorem c08_structured_to_flat : forall tb fuel entries ms p,
  forallb (cc_wb_entry tb fuel) entries = true ->
  (forall m, In m ms -> In m entries) ->
  cc_thread_path tb ms p -> cc_flat_wb p /\ cc_txrx_ok p = true.
Proof. exact cc_thread_flat_wb. Qed.

(* (G) generic: sequentially well-bracketed threads => mutual exclusion in
   every reachable configuration ... *)
Theorem c08_generic_mutex : forall ps evs c,
  cc_good ps -> cc_exec (cc_init ps) evs c -> cc_mutex c.
Proof. exact cc_reach_mutex. Qed.

(* ... and every action other than Lock and a wait for a peer (every access,
   every Unlock) is performed by the one thread that holds the mutex *)
Theorem c08_generic_holder : forall ps e1 i a e2 c,
  cc_good ps -> cc_exec (cc_init ps) (e1 ++ (i, a) :: e2) c -> a <> ALock -> (forall w, a <> AWait w) ->
  exists c1, cc_exec (cc_init ps) e1 c1 /\ cc_holds c1 i = true /\
             forall j, cc_holds c1 j = true -> j = i.
Proof. exact cc_access_by_holder. Qed.

(* the client: any number of goroutines, any lists of public calls, any interleaving *)

Theorem c08_mutual_exclusion : forall prog ps evs c,
  cc_runs_table client_programs client_entries prog ps ->
  cc_exec (cc_init ps) evs c -> cc_mutex c.
Proof. exact (tb_mutex _ _ client_programs_wb). Qed.

Theorem c08_access_under_lock : forall prog ps e1 i a e2 c,
  cc_runs_table client_programs client_entries prog ps ->
  cc_exec (cc_init ps) (e1 ++ (i, a) :: e2) c -> cc_is_access a = true ->
  exists c1, cc_exec (cc_init ps) e1 c1 /\ cc_holds c1 i = true /\
             forall j, cc_holds c1 j = true -> j = i.
Proof. exact (tb_access_by_holder _ _ client_programs_wb). Qed.

(* (T1) at most one request is outstanding: the senders of the requests are
   the readers of the replies plus at most one thread, which holds the mutex *)
Theorem c08_one_outstanding : forall prog ps evs c,
  cc_runs_table client_programs client_entries prog ps ->
  cc_exec (cc_init ps) evs c ->
  exists o, cc_txs evs = cc_rxs evs ++ cc_olist o /\
            (forall k, o = Some k -> cc_holds c k = true).
Proof. exact (tb_one_outstanding _ _ client_programs_wb). Qed.

(* (T2) contiguity: a request frame (one Tx = one Write call) is followed
   directly by the reply read of the same thread: no event of any other thread
   (and no other event of this thread) comes in between *)
Theorem c08_contiguous : forall prog ps e1 i e e2 c,
  cc_runs_table client_programs client_entries prog ps ->
  cc_exec (cc_init ps) (e1 ++ (i, ATx) :: e :: e2) c -> e = (i, ARx).
Proof. exact client_tx_then_rx. Qed.

(* (T3) own reply: replies are consumed in order (the k-th Rx takes the reply
   to the k-th Tx); the k-th Rx is made by the thread that made the k-th Tx *)
Theorem c08_own_reply : forall prog ps evs c k i,
  cc_runs_table client_programs client_entries prog ps ->
  cc_exec (cc_init ps) evs c ->
  nth_error (cc_rxs evs) k = Some i -> nth_error (cc_txs evs) k = Some i.
Proof. exact (tb_own_reply _ _ client_programs_wb). Qed.

(* (T4) happens-before: two accesses (field reads / writes, Tx, Rx, transport
   close) by different threads are separated by an Unlock of the first thread
   and a later Lock of the second one (a release / acquire edge of the mutex) *)
Theorem c08_release_acquire : forall prog ps e1 i a1 mid j a2 e2 c,
  cc_runs_table client_programs client_entries prog ps ->
  cc_exec (cc_init ps) (e1 ++ (i, a1) :: mid ++ (j, a2) :: e2) c ->
  i <> j -> cc_is_access a1 = true -> cc_is_access a2 = true ->
  exists m1 m2 m3, mid = m1 ++ (i, AUnlock) :: m2 ++ (j, ALock) :: m3.
Proof. exact (tb_release_acquire _ _ client_programs_wb). Qed.

(* hence no data race: conflicting accesses (same field, at least one write)
   of different threads are ordered by happens-before *)
Theorem c08_no_data_race : forall prog ps e1 i a1 mid j a2 e2 c,
  cc_runs_table client_programs client_entries prog ps ->
  cc_exec (cc_init ps) (e1 ++ (i, a1) :: mid ++ (j, a2) :: e2) c ->
  i <> j -> cc_conflict a1 a2 = true ->
  exists m1 m2 m3, mid = m1 ++ (i, AUnlock) :: m2 ++ (j, ALock) :: m3.
Proof. exact (tb_no_race _ _ client_programs_wb). Qed.

(* ------------------------------------------------------------ non-vacuity *)

(* the generated table has entry points, all of them resolve, and the tracked
   fields are the settings and the transport *)
Example c08_ex_entries :
  client_entries <> [] /\
  forallb (fun m => match cc_find client_programs m with Some _ => true | None => false end)
          client_entries = true.
Proof. split; [discriminate|vm_compute; reflexivity]. Qed.

(* a path of the generated table that contains an exchange *)
Example c08_ex_path :
  exists p, cc_thread_path client_programs ["SetEncoding"; "ReadRegisters"] p /\ In ATx p.
Proof.
  destruct (cc_fp_thread client_programs cc_fuel ["SetEncoding"; "ReadRegisters"]) as [p|] eqn:E;
    [|vm_compute in E; discriminate].
  exists p. split; [apply (cc_fp_thread_path _ cc_fuel), E|].
  vm_compute in E. inversion E. cbn. tauto.
Qed.

(* a hand-written table: "set" is well bracketed, "peek" reads x without the mutex *)
Definition c08_ex_tb : ctable := [
  mk_cmethod "set" true (SSeq [SAct ALock; SAct (AWr "x"); SAct ARet]);
  mk_cmethod "xchg" true (SSeq [SAct ALock; SAct (ARd "x"); SAct AXchg;
                                SIf [SSeq [SAct ARet]; SSeq []]; SAct ARet]);
  mk_cmethod "peek" false (SSeq [SAct (ARd "x"); SAct ARet])
].

Example c08_ex_good_table : cc_table_wb c08_ex_tb 4 ["set"; "xchg"] = true.
Proof. vm_compute. reflexivity. Qed.

(* the premise fails for the unprotected read: the check is not trivially true *)
Example c08_ex_bad_table : cc_table_wb c08_ex_tb 4 ["set"; "peek"] = false.
Proof. vm_compute. reflexivity. Qed.

(* a complete two-thread execution of good threads: thread 1 can only lock
   after thread 0 has unlocked *)
Example c08_ex_two_threads :
  let ps := [[ALock; AWr "x"; AUnlock]; [ALock; ARd "x"; ATx; ARx; AUnlock]] in
  cc_good ps /\
  cc_exec (cc_init ps)
    [(0, ALock); (0, AWr "x"); (0, AUnlock); (1, ALock); (1, ARd "x"); (1, ATx); (1, ARx); (1, AUnlock)]
    [mk_cthread [] false; mk_cthread [] false] /\
  cc_run (cc_init ps) [(0, ALock); (1, ALock)] = None.
Proof.
  split; [repeat constructor|]. split; vm_compute; reflexivity.
Qed.

(* the semantics does not serialise by itself: with the unprotected "peek",
   the read of x lands inside the other thread's critical section, next to
   its write, with no Unlock / Lock between them; the conclusion of
   c08_no_data_race fails there, so its premise (the table check) matters *)
Example c08_ex_race_without_discipline :
  let ps := [[ALock; AWr "x"; AUnlock]; [ARd "x"]] in
  exists c, cc_exec (cc_init ps) [(0, ALock); (1, ARd "x"); (0, AWr "x"); (0, AUnlock)] c /\
            cc_conflict (ARd "x") (AWr "x") = true.
Proof. eexists. split; vm_compute; reflexivity. Qed.

Print Assumptions c08_table_wb.
Print Assumptions c08_structured_to_flat.
Print Assumptions c08_generic_mutex.
Print Assumptions c08_generic_holder.
Print Assumptions c08_mutual_exclusion.
Print Assumptions c08_access_under_lock.
Print Assumptions c08_one_outstanding.
Print Assumptions c08_contiguous.
Print Assumptions c08_own_reply.
Print Assumptions c08_release_acquire.
Print Assumptions c08_no_data_race.
