(* C03, source level: mapErrorToExceptionCode AS TRANSLATED FROM THE GO SOURCE
   ON THIS RUN (Gen/SrcPure.v) is the documented table on every error value
   (nil, an error that is none of the package's constants, each constant), and
   on the handler error classes of the server model it is [herr_code].
   Only statements, closed by [exact].
   [call_with src_pure no_fns] runs a function of the translated program with no
   external functions under it. *)
From Coq Require Import List NArith String.
Import ListNotations.
From Modbus Require Import Base.Bytes Model.GoLite Gen.SrcPure Model.Wire Model.Client Model.Server.
From Modbus Require Import Proofs.GoLiteLinkP Proofs.SrcMiscP.
Open Scope string_scope.
Open Scope N_scope.

Theorem c03s_error_map : forall fuel v, In v all_error_values ->
  call_with src_pure no_fns fuel "mapErrorToExceptionCode" [VN v] = GoLite.Ok [VN (err_to_exc v)].
Proof. exact (src_mapErrorToExceptionCode_ok no_fns). Qed.
Print Assumptions c03s_error_map.

Theorem c03s_error_map_model : forall e,
  (match e with HModbus c => known_exception c = true | _ => True end) ->
  e <> HNone ->
  In (herr_value e) all_error_values /\
  err_to_exc (herr_value e) = herr_code (match e with HProtocol => HModbus 4 | x => x end).
Proof. intros e Hk Hn. split; [exact (herr_value_in e Hk)|exact (err_to_exc_herr e Hk Hn)]. Qed.
Print Assumptions c03s_error_map_model.
