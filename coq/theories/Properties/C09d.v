(* C09 (a client dropped for a protocol error that keeps its own end open) -
   "a slot is released whenever a served client disconnects, is dropped for a
   protocol error, or stays idle ... so that a later connection is served
   again". Being dropped is something the SERVER does: the request loop
   refuses a frame - a well-framed request with a bad quantity, value, byte
   count or payload length, or a bad MBAP header -, closes the link and
   returns. What the dropped peer does with its socket afterwards (keep it
   open, keep sending, never read, half-close, close) is not a step of the
   release: the labels of the connection (Model/SlotsDrop.v) are Req steps, then
   End (c, ProtocolError) and Remove c, and the theorems below hold in every
   reachable state, for every handler and every byte stream.
   Statements only; proofs in Proofs/SlotsDropP.v. *)
From Coq Require Import List Arith Bool NArith Permutation.
Import ListNotations.
From Modbus Require Import Base.Bytes Model.Wire Model.Server Model.Slots Proofs.SlotsP
  Model.SlotsVisit Model.SlotsDrop Proofs.SlotsDropP.
Local Open Scope nat_scope.

(* the run of Model/SlotsDrop.v is the request loop of Model/Server.v on a
   peer that stays connected and silent after its bytes: same handler calls,
   same frames, same closing; only the final idle expiry is left out *)
Theorem c09d_run_is_server_run : forall St (h : handler St) st s,
  server_run h st Stall s =
  flat_map drop_event_events (drop_run h st s) ++
  (if drop_dropped (drop_run h st s) then [] else [EvClosed]).
Proof. intros St h. exact (drop_run_events h). Qed.

(* a well-framed request refused by the request validation closes the link at
   once; nothing behind it in the stream is processed *)
Theorem c09d_refused_request_drops : forall St (h : handler St) st s req txn rest st' calls,
  read_mbap Stall s = (FOk req txn, rest) ->
  server_process h st req = (st', calls, CloseLink) ->
  drop_run h st s = [DRefused calls].
Proof. intros St h. exact (refused_request_drops h). Qed.

(* the dropped connection gives back exactly its slot, by its own labels *)
Theorem c09d_dropped_frees : forall s c evs, Inv s -> stat s c = Serving -> drop_dropped evs = true ->
  let s1 := run s (drop_labels c evs) in
  Permutation (clients s) (c :: clients s1) /\ stat s1 c = Removed /\ closed s1 c = true /\
  started s1 = started s /\ listening s1 = listening s /\ acceptors s1 = acceptors s /\ maxc s1 = maxc s /\
  (forall x, x <> c -> stat s1 x = stat s x).
Proof. exact dropped_frees. Qed.

(* ... and the connection that arrives next is served, the server full or not *)
Theorem c09d_dropped_then_served : forall s c d evs, Inv s -> started s = true -> (0 < acceptors s)%nat ->
  stat s c = Serving -> drop_dropped evs = true -> stat s d = Fresh ->
  let s1 := run s (drop_labels c evs ++ arrival d) in
  stat s1 d = Serving /\ In d (clients s1) /\ ~ In c (clients s1) /\
  length (clients s1) = length (clients s).
Proof. exact dropped_then_served. Qed.

(* while nothing has been refused the connection keeps its slot *)
Theorem c09d_not_dropped_keeps : forall s c evs, drop_dropped evs = false ->
  run s (drop_labels c evs) = s.
Proof. exact not_dropped_keeps. Qed.

(* non-vacuity: MaxClients = 1; the served client sends a valid read, then a
   read of 0 coils (well framed, refused), then another valid read; one handler
   call, one response, the link is closed, the third request is never looked
   at; the slot is free and the next connection is served *)
Definition c09d_handler : handler nat := fun st r =>
  (S st, mkhres (repeat false (N.to_nat (h_qty r))) (repeat 0%N (N.to_nat (h_qty r))) HNone).

Definition c09d_stream : list N :=
  ([0;1;0;0;0;6;1;3;0;0;0;1] ++ [0;2;0;0;0;6;1;1;0;0;0;0] ++ [0;3;0;0;0;6;1;3;0;0;0;1])%N.

Example c09d_ex :
  let evs := drop_run c09d_handler 0 c09d_stream in
  drop_dropped evs = true /\ drop_calls evs = 1 /\
  drop_written evs = [0;1;0;0;0;5;1;3;2;0;0]%N /\
  let s0 := run (init 1) (Start :: arrival 1 ++ arrival 2) in
  Inv s0 /\ stat s0 1 = Serving /\ stat s0 2 = Rejected /\
  let s := run s0 (drop_labels 1 evs ++ arrival 3) in
  stat s 1 = Removed /\ stat s 3 = Serving /\ clients s = [3].
Proof.
  cbn zeta. split; [vm_compute; reflexivity|]. split; [vm_compute; reflexivity|].
  split; [vm_compute; reflexivity|]. split; [apply reachable_inv|].
  vm_compute. repeat split.
Qed.

Print Assumptions c09d_run_is_server_run.
Print Assumptions c09d_refused_request_drops.
Print Assumptions c09d_dropped_frees.
Print Assumptions c09d_dropped_then_served.
Print Assumptions c09d_not_dropped_keeps.
