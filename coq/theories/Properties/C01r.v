(* C01, "exactly one request frame" seen from the network - the peer hangs up.
   Statements only; proofs in Proofs/PeerViewP.v. The view of the listener at
   the client's address over ALL connections it accepts during one call is
   Model/PeerView.v (client_call_hangup); hangup = the peer read the whole
   request and then closed / reset, possibly after sending part of a reply
   (HangAfter), or dropped the connection before / inside the request
   (HangEarly k). *)
From Modbus Require Import Base.Bytes Model.Crc Model.Encoding Model.Wire Model.Client
  Model.PeerView
  Spec.ModbusSpec Spec.ClientSpec Spec.CutSpec Proofs.PeerViewP.

(* what the listener receives: the one connection of the handle carries the
   specified frame (what the peer read of it); a rejected call carries nothing *)
Theorem c01_hangup_view : forall fr cfg txn o h,
  op_wf o -> cfg_wf cfg -> txn < 65536 ->
  let v := client_call_hangup fr cfg txn o h in
  let f := spec_frame fr (u16 (txn + 1)) (spec_pdu cfg o) in
  (valid_op o = true ->
     pv_conns v = match h with
                  | HangAfter _ _ => [f]
                  | HangEarly _ k => [firstn k f]
                  end) /\
  (valid_op o = false -> pv_conns v = [[]] /\ pv_res v = Err EParams).
Proof. exact hangup_view. Qed.

(* never a second connection, never a second frame *)
Theorem c01_hangup_never_two : forall fr cfg txn o h,
  op_wf o -> cfg_wf cfg -> txn < 65536 ->
  let v := client_call_hangup fr cfg txn o h in
  length (pv_conns v) = 1%nat /\
  exists k, concat (pv_conns v) = firstn k (spec_frame fr (u16 (txn + 1)) (spec_pdu cfg o)).
Proof. exact hangup_never_two. Qed.

(* and the caller is told: the call is an error *)
Theorem c01_hangup_fails : forall fr cfg txn o res vs h,
  op_wf o -> cfg_wf cfg -> txn < 65536 -> valid_op o = true ->
  bytesb (p_payload res) = true -> answers cfg o res vs ->
  match h with
  | HangAfter _ sent =>
      exists k, (k < length (spec_frame fr (u16 (txn + 1)) res))%nat /\
                sent = firstn k (spec_frame fr (u16 (txn + 1)) res)
  | HangEarly _ _ => True
  end ->
  cut_failed (pv_res (client_call_hangup fr cfg txn o h)).
Proof. exact hangup_fails. Qed.

(* non-vacuity: WriteRegister(0x0102, 0xbeef) as unit 0x11 over MBAP; the peer
   reads the request and closes / resets / answers 5 of 12 bytes / reads 7
   bytes only *)
Example c01_hangup_example :
  let cfg := mkcfg 0x11 BigE HighFirst in
  let o := OpWriteReg 0x0102 0xbeef in
  let f := [0; 1; 0; 0; 0; 6; 0x11; 6; 1; 2; 0xbe; 0xef] in
  op_wf o /\ cfg_wf cfg /\ valid_op o = true /\
  client_call_hangup FMbap cfg 0 o (HangAfter Closed []) = mkpv [f] (Err EIO) /\
  client_call_hangup FMbap cfg 0 o (HangAfter Reset []) = mkpv [f] (Err EIO) /\
  client_call_hangup FMbap cfg 0 o (HangAfter Closed (firstn 5 f)) = mkpv [f] (Err EIO) /\
  client_call_hangup FMbap cfg 0 o (HangEarly Reset 7) = mkpv [firstn 7 f] (Err EIO) /\
  client_call_hangup FMbap cfg 0 (OpWriteRegs 1 0 []) (HangAfter Closed []) = mkpv [[]] (Err EParams).
Proof. vm_compute. repeat split; reflexivity. Qed.

Print Assumptions c01_hangup_view.
Print Assumptions c01_hangup_never_two.
Print Assumptions c01_hangup_fails.
