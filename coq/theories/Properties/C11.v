(* C11 - Concurrent server sessions are isolated from each other.
   Statements only; proofs in Proofs/SessionsP.v. The model (Model/Sessions.v)
   is a global server = shared handler state + one private session per
   connection; inputs are (connection, chunk | end) pairs in an ARBITRARY
   interleaving (the list `ins` below), for any number of connections and any
   transaction ids (nothing prevents equal ids on different connections).
   The vocabulary (answers_ok, resp_carries, calls_from, close_tail,
   frames_stream) is in Spec/SessionsSpec.v; server_run / spec_mbap /
   pdu_wf are the single-connection model and specification of C03. *)
From Modbus Require Import Base.Bytes Model.Encoding Model.Wire Model.Server
  Spec.ModbusSpec Spec.ServerSpec Spec.ServerSessionSpec Model.Sessions Spec.SessionsSpec
  Proofs.SessionsP.

Section C11.
  Context {St : Type} (gh : ghandler St).

  (* ---- T1 routing ---- *)

  (* whatever a step on input of connection c produces is addressed to c *)
  Theorem c11_step_tagged : forall g c x, Forall (fun o => fst o = c) (snd (gstep gh g (c, x))).
  Proof. exact (gstep_tagged gh). Qed.

  (* over a whole run: outputs only go to connections that sent something *)
  Theorem c11_run_tagged : forall ins g k e, In (k, e) (snd (grun gh g ins)) -> In k (map fst ins).
  Proof. exact (grun_tagged gh). Qed.

  (* every handler invocation made for connection c carries c's address and
     role, in every run, whatever the other connections do *)
  Theorem c11_calls_identity : forall c a ro ins g g' outs,
    gs_lookup c (g_sessions g) = Some (gs_fresh a ro) -> grun gh g ins = (g', outs) ->
    calls_from a ro (gproj c outs).
  Proof. exact (sessions_calls_identity gh). Qed.

  (* every response written to c answers the next unanswered request frame
     of c, in order, and carries THAT frame's transaction id and unit id
     (handler calls carry its unit id); for any shared handler, any number of
     connections, any interleaving *)
  Theorem c11_answers : forall c a ro ins g g' outs frames tail,
    gs_lookup c (g_sessions g) = Some (gs_fresh a ro) -> grun gh g ins = (g', outs) ->
    Forall (fun f => fst f < 65536 /\ pdu_wf (snd f)) frames ->
    gin_stream (gproj c ins) = frames_stream frames ++ tail ->
    answers_ok frames (map gev_strip (gproj c outs)).
  Proof. exact (sessions_answers gh). Qed.

  (* ---- T2 non-interference ---- *)

  (* oracle form, any handler: what c observes in a global run is exactly the
     single-connection session (C03's server_run) on c's own bytes, the shared
     handler being replaced by the list of answers it returned to c's calls.
     Other connections influence c through those answers only. (close_tail
     completes the observations of a still-open session with the final close
     that server_run always ends with.) *)
  Theorem c11_projection_oracle : forall c a ro ins g g' outs e,
    gs_lookup c (g_sessions g) = Some (gs_fresh a ro) -> grun gh g ins = (g', outs) ->
    exists s', gs_lookup c (g_sessions g') = Some s' /\ gs_addr s' = a /\ gs_role s' = ro /\
      map gev_strip (gproj c outs) ++ close_tail (gs_closed s') =
      server_run oracle_handler (gev_answers (gproj c outs)) e (gin_stream (gproj c ins)).
  Proof. exact (sessions_projection_oracle gh). Qed.

  (* pure form: if the handler's answer is a function of the request (its
     state may still change), c's observations are EXACTLY the private session
     of c fed with c's whole byte stream at once - whatever the others sent,
     however the chunks interleave, however c's bytes were chunked *)
  Theorem c11_projection_pure : forall (f : greq -> hres), (forall st r, snd (gh st r) = f r) ->
    forall c a ro ins g g' outs,
    gs_lookup c (g_sessions g) = Some (gs_fresh a ro) -> grun gh g ins = (g', outs) ->
    exists s', gs_lookup c (g_sessions g') = Some s' /\
      sess_whole (gh_pure f) tt a ro (gin_stream (gproj c ins)) (gin_ended (gproj c ins)) =
      (tt, s', gproj c outs).
  Proof. exact (sessions_projection_pure gh). Qed.

  (* ... which is the single-connection model of C03 on c's own stream *)
  Theorem c11_projection_pure_run : forall (f : greq -> hres), (forall st r, snd (gh st r) = f r) ->
    forall c a ro ins g g' outs e,
    gs_lookup c (g_sessions g) = Some (gs_fresh a ro) -> grun gh g ins = (g', outs) ->
    exists s', gs_lookup c (g_sessions g') = Some s' /\
      map gev_strip (gproj c outs) ++ close_tail (gs_closed s') =
      server_run (fun (_ : unit) r => (tt, f (mkgreq a ro r))) tt e (gin_stream (gproj c ins)).
  Proof. exact (sessions_projection_pure_run gh). Qed.

  (* ---- T3 no head-of-line blocking (logical half) ---- *)

  (* a step on c reads and writes c's session only *)
  Theorem c11_others_unchanged : forall g c x c', c' <> c ->
    gs_lookup c' (g_sessions (fst (gstep gh g (c, x)))) = gs_lookup c' (g_sessions g).
  Proof. exact (gstep_other_unchanged gh). Qed.

  (* frame by frame: the step that delivers the last byte of a complete
     request frame of c dispatches and answers it (transaction id of that
     frame), then goes on with c's remaining bytes. There is NO hypothesis on
     the other sessions: they may be stalled mid-frame or closed. *)
  Theorem c11_frame_step : forall g c s chunk t p rest,
    gs_lookup c (g_sessions g) = Some s -> gs_closed s = false ->
    gs_buf s ++ chunk = spec_mbap t p ++ rest -> t < 65536 -> pdu_wf p ->
    let a := gs_addr s in
    let ro := gs_role s in
    let '(st', calls, act) := server_process (conn_handler gh a ro) (g_shared g) p in
    snd (gstep gh g (c, GData chunk)) =
    map (fun r => (c, GEvCall (mkgreq a ro r) (snd (gh (g_shared g) (mkgreq a ro r))))) calls ++
    match act with
    | Respond res =>
        (c, GEvResp (spec_mbap t res)) ::
        snd (gstep gh (mkgstate st' (gs_update c (mkgsess rest a ro false) (g_sessions g))) (c, GData []))
    | CloseLink => [(c, GEvClosed)]
    end.
  Proof. exact (gstep_frame gh). Qed.

  Theorem c11_no_hol : forall g c s chunk t p rest,
    gs_lookup c (g_sessions g) = Some s -> gs_closed s = false ->
    gs_buf s ++ chunk = spec_mbap t p ++ rest -> t < 65536 -> pdu_wf p ->
    exists o, In o (snd (gstep gh g (c, GData chunk))) /\
      (o = (c, GEvClosed) \/ exists res, o = (c, GEvResp (spec_mbap t res)) /\ p_unit res = p_unit p).
  Proof. exact (sessions_no_hol gh). Qed.
End C11.

(* chunking independence per connection: two runs - other chunkings of c's
   bytes, other interleavings, other connections, other shared states, even
   another handler with the same answers - give c the same observations and
   leave c's session in the same state as soon as c sent the same bytes *)
Theorem c11_chunking : forall {S1 S2} (gh1 : ghandler S1) (gh2 : ghandler S2) (f : greq -> hres),
  (forall st r, snd (gh1 st r) = f r) -> (forall st r, snd (gh2 st r) = f r) ->
  forall c a ro ins1 g1 g1' outs1 ins2 g2 g2' outs2,
  gs_lookup c (g_sessions g1) = Some (gs_fresh a ro) -> grun gh1 g1 ins1 = (g1', outs1) ->
  gs_lookup c (g_sessions g2) = Some (gs_fresh a ro) -> grun gh2 g2 ins2 = (g2', outs2) ->
  gin_stream (gproj c ins1) = gin_stream (gproj c ins2) ->
  gin_ended (gproj c ins1) = gin_ended (gproj c ins2) ->
  gproj c outs1 = gproj c outs2 /\ gs_lookup c (g_sessions g1') = gs_lookup c (g_sessions g2').
Proof. exact @sessions_chunking. Qed.

(* a frame's header: the response to a request carries its transaction id,
   protocol id 0 and the unit id *)
Theorem c11_resp_carries : forall t r, resp_carries t (p_unit r) (spec_mbap t r).
Proof. exact spec_mbap_carries. Qed.

(* the initial state: the first entry for c in the connection list is a
   fresh session with that address and role *)
Theorem c11_init_lookup : forall {St} (st : St) conns c a ro,
  gs_lookup c (g_sessions (ginit st conns)) = Some (gs_fresh a ro) <->
  (exists pre post, conns = pre ++ (c, (a, ro)) :: post /\ ~ In c (map fst pre)).
Proof. exact @ginit_lookup. Qed.

(* ---- non-vacuity: three connections, the SAME transaction id 7 on all of
   them, a stateful handler with request-determined answers. Connection 0
   stalls after 5 bytes of its frame; 1 and 2 are served meanwhile (2 in two
   chunks around 1's traffic); 1 ends, its later bytes are ignored; 0 is
   served when the rest of its frame arrives. *)
Definition c11_handler : ghandler N :=
  fun st r => (st + 1, mkhres (repeat true (N.to_nat (h_qty (g_req r))))
                              (repeat (h_addr (g_req r) + g_conn_addr r) (N.to_nat (h_qty (g_req r)))) HNone).
Definition c11_answer (r : greq) : hres :=
  mkhres (repeat true (N.to_nat (h_qty (g_req r))))
         (repeat (h_addr (g_req r) + g_conn_addr r) (N.to_nat (h_qty (g_req r)))) HNone.
Definition c11_frame (unit addr : N) : list N := spec_mbap 7 (mkpdu unit 3 [0; addr; 0; 1]).
Definition c11_conns : list (N * (N * N)) := [(0, (100, 0)); (1, (101, 5)); (2, (102, 0))].
Definition c11_ins : list (N * ginput) :=
  [(0, GData (firstn 5 (c11_frame 1 10)));
   (1, GData (c11_frame 2 20));
   (2, GData (firstn 9 (c11_frame 3 30)));
   (1, GData (c11_frame 2 21 ++ firstn 3 (c11_frame 2 22)));
   (2, GData (skipn 9 (c11_frame 3 30)));
   (1, GEnd);
   (0, GData (skipn 5 (c11_frame 1 10)));
   (1, GData (c11_frame 2 23))].

Definition c11_call (a ro unit addr : N) : gevent :=
  GEvCall (mkgreq a ro (mkhreq HHolding unit addr 1 false [] [])) (mkhres [true] [addr + a] HNone).

Example c11_run_example :
  snd (grun c11_handler (ginit 0 c11_conns) c11_ins) =
  [(1, c11_call 101 5 2 20); (1, GEvResp [0; 7; 0; 0; 0; 5; 2; 3; 2; 0; 121]);
   (1, c11_call 101 5 2 21); (1, GEvResp [0; 7; 0; 0; 0; 5; 2; 3; 2; 0; 122]);
   (2, c11_call 102 0 3 30); (2, GEvResp [0; 7; 0; 0; 0; 5; 3; 3; 2; 0; 132]);
   (1, GEvClosed);
   (0, c11_call 100 0 1 10); (0, GEvResp [0; 7; 0; 0; 0; 5; 1; 3; 2; 0; 110])].
Proof. vm_compute. reflexivity. Qed.

Example c11_handler_pure_sat : forall st r, snd (c11_handler st r) = c11_answer r.
Proof. reflexivity. Qed.

Example c11_fresh_sat : gs_lookup 1 (g_sessions (ginit 0 c11_conns)) = Some (gs_fresh 101 5).
Proof. reflexivity. Qed.

(* the stalled connection's projection is its own session, as the theorems say *)
Example c11_projection_example :
  gproj 0 (snd (grun c11_handler (ginit 0 c11_conns) c11_ins)) =
  snd (sess_whole (gh_pure c11_answer) tt 100 0 (c11_frame 1 10) false).
Proof. vm_compute. reflexivity. Qed.

Example c11_stream_sat :
  gin_stream (gproj 1 c11_ins) =
  frames_stream [(7, mkpdu 2 3 [0; 20; 0; 1]); (7, mkpdu 2 3 [0; 21; 0; 1])] ++ firstn 3 (c11_frame 2 22).
Proof. vm_compute. reflexivity. Qed.

Example c11_frame_sat : 7 < 65536 /\ pdu_wf (mkpdu 2 3 [0; 20; 0; 1]).
Proof. unfold pdu_wf. cbn. repeat split; try reflexivity; discriminate. Qed.

Print Assumptions c11_step_tagged.
Print Assumptions c11_run_tagged.
Print Assumptions c11_calls_identity.
Print Assumptions c11_answers.
Print Assumptions c11_projection_oracle.
Print Assumptions c11_projection_pure.
Print Assumptions c11_projection_pure_run.
Print Assumptions c11_others_unchanged.
Print Assumptions c11_frame_step.
Print Assumptions c11_no_hol.
Print Assumptions c11_chunking.
Print Assumptions c11_resp_carries.
Print Assumptions c11_init_lookup.
