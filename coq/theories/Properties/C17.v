(* C17 - Encoding helpers are exact inverses and match the reference layout.
   Only statements here; proofs live in Proofs/EncodingP.v and Proofs/BoolsP.v. *)
From Modbus Require Import Base.Bytes Model.Encoding Spec.ModbusSpec Proofs.EncodingP Proofs.BoolsP.

(* T1: decode (encode v) = v, for all values, both byte orders, both word orders *)
Theorem c17_u16_roundtrip : forall e v, v < 65536 ->
  bytes_to_u16 e (u16_to_bytes e v) = Some v.
Proof. exact u16_roundtrip. Qed.
Theorem c17_u32_roundtrip : forall e w v, v < 2 ^ 32 ->
  bytes_to_u32s e w (u32_to_bytes e w v) = Some [v].
Proof. exact u32_roundtrip. Qed.
Theorem c17_u64_roundtrip : forall e w v, v < 2 ^ 64 ->
  bytes_to_u64s e w (u64_to_bytes e w v) = Some [v].
Proof. exact u64_roundtrip. Qed.

(* T2: encode (decode bytes) = bytes: the maps are bijections, every bit
   pattern (NaN payloads, signed zero: floats are their bit patterns) survives *)
Theorem c17_u16_inverse : forall e a b, a < 256 -> b < 256 ->
  exists v, bytes_to_u16 e [a; b] = Some v /\ v < 65536 /\ u16_to_bytes e v = [a; b].
Proof. exact u16_inverse. Qed.
Theorem c17_u32_inverse : forall e w a b c d, a < 256 -> b < 256 -> c < 256 -> d < 256 ->
  dec_u32 e w a b c d < 2 ^ 32 /\ u32_to_bytes e w (dec_u32 e w a b c d) = [a; b; c; d].
Proof. exact u32_inverse. Qed.
Theorem c17_u64_inverse : forall e w i0 i1 i2 i3 i4 i5 i6 i7,
  i0 < 256 -> i1 < 256 -> i2 < 256 -> i3 < 256 ->
  i4 < 256 -> i5 < 256 -> i6 < 256 -> i7 < 256 ->
  dec_u64 e w i0 i1 i2 i3 i4 i5 i6 i7 < 2 ^ 64 /\
  u64_to_bytes e w (dec_u64 e w i0 i1 i2 i3 i4 i5 i6 i7) = [i0; i1; i2; i3; i4; i5; i6; i7].
Proof. exact u64_inverse. Qed.

(* T3: the byte sequence is the documented layout *)
Theorem c17_u16_layout : forall e v, v < 65536 -> u16_to_bytes e v = spec_bytes 1 e HighFirst v.
Proof. exact u16_layout. Qed.
Theorem c17_u32_layout : forall e w v, v < 2 ^ 32 -> u32_to_bytes e w v = spec_bytes 2 e w v.
Proof. exact u32_layout. Qed.
Theorem c17_u64_layout : forall e w v, v < 2 ^ 64 -> u64_to_bytes e w v = spec_bytes 4 e w v.
Proof. exact u64_layout. Qed.

(* T4: list versions *)
Theorem c17_u16s_roundtrip : forall e vs, Forall (fun v => v < 65536) vs ->
  bytes_to_u16s e (u16s_to_bytes e vs) = Some vs.
Proof. exact u16s_roundtrip. Qed.
Theorem c17_u32s_roundtrip : forall e w vs, Forall (fun v => v < 2 ^ 32) vs ->
  bytes_to_u32s e w (flat_map (u32_to_bytes e w) vs) = Some vs.
Proof. exact u32s_roundtrip. Qed.
Theorem c17_u64s_roundtrip : forall e w vs, Forall (fun v => v < 2 ^ 64) vs ->
  bytes_to_u64s e w (flat_map (u64_to_bytes e w) vs) = Some vs.
Proof. exact u64s_roundtrip. Qed.

(* T5: coils: LSB first, zero padded, inverted exactly by unpacking, any length *)
Theorem c17_bools_layout : forall l, encode_bools l = spec_coil_bytes l.
Proof. exact encode_bools_spec. Qed.
Theorem c17_bools_len : forall l, length (encode_bools l) = ((length l + 7) / 8)%nat.
Proof. exact encode_bools_len. Qed.
Theorem c17_bools_roundtrip : forall l, decode_bools (length l) (encode_bools l) = Some l.
Proof. exact decode_encode_bools. Qed.
Theorem c17_bools_prefix : forall l q, (q <= length l)%nat ->
  decode_bools q (encode_bools l) = Some (firstn q l).
Proof. exact decode_encode_prefix. Qed.

(* T6: decoders panic (None) exactly on ragged input *)
Theorem c17_u16s_total : forall e l, Nat.even (length l) = true ->
  exists vs, bytes_to_u16s e l = Some vs /\ length l = (2 * length vs)%nat.
Proof. exact bytes_to_u16s_total. Qed.
Theorem c17_u16s_ragged : forall e l, Nat.even (length l) = false -> bytes_to_u16s e l = None.
Proof. exact bytes_to_u16s_ragged. Qed.

(* non-vacuity: concrete instances *)
Example c17_ex_u32 : u32_to_bytes LittleE HighFirst 0x11223344 = [0x22; 0x11; 0x44; 0x33].
Proof. reflexivity. Qed.
Example c17_ex_bools : encode_bools [true; false; true; true; false; false; false; false; true] = [13; 1].
Proof. reflexivity. Qed.

Print Assumptions c17_u16_roundtrip.
Print Assumptions c17_u32_roundtrip.
Print Assumptions c17_u64_roundtrip.
Print Assumptions c17_u16_inverse.
Print Assumptions c17_u32_inverse.
Print Assumptions c17_u64_inverse.
Print Assumptions c17_u16_layout.
Print Assumptions c17_u32_layout.
Print Assumptions c17_u64_layout.
Print Assumptions c17_u16s_roundtrip.
Print Assumptions c17_u32s_roundtrip.
Print Assumptions c17_u64s_roundtrip.
Print Assumptions c17_bools_layout.
Print Assumptions c17_bools_len.
Print Assumptions c17_bools_roundtrip.
Print Assumptions c17_bools_prefix.
Print Assumptions c17_u16s_total.
Print Assumptions c17_u16s_ragged.
