(* C14 (continued) - every attempt of a HISTORY of connection attempts on one
   server instance is decided by the configured client CAs and by the chain
   presented in THAT attempt, never by an earlier attempt.
   Statements only; proofs in Proofs/TlsHistoryP.v, model in Model/TlsHistory.v.

   The property speaks of every peer a server invokes a handler for. A server
   instance takes many connections; a correctly authenticated client is free
   to send, along with its own chain, further certificates the verifier has
   no use for (crypto/tls does not refuse them and lists them in
   ConnectionState.PeerCertificates): for instance a CA certificate that bears
   the name of its issuing CA and somebody else's key. A later peer may hold a
   certificate that chains to such a key only. Model/TlsHistory.v makes the
   server an object that every accepted socket finds and leaves behind; the
   theorems: the object after any history is the object NewServer built (its
   pool and the tls.Config of the next handshake included), every attempt is
   decided as the same attempt on a freshly built server (for EVERY handshake
   oracle), hence T1 / T4 of Properties/C14.v hold for every attempt of every
   history, with the CONFIGURED pool and the chain of that attempt; an attempt
   whose chain does not verify against the configured client CAs reaches no
   handler whatever the other attempts presented and whether they were
   served. *)
From Modbus Require Import Base.Bytes Model.Encoding Model.Wire Model.Client Model.Server
  Model.Role Model.Config Model.TlsPolicy Model.TlsHistory
  Spec.ModbusSpec Spec.ServerSpec Spec.ServerSessionSpec Spec.ConfigSpec Spec.TlsSpec
  Proofs.TlsPolicyP Proofs.TlsHistoryP.
From Coq Require String.
Import String.StringSyntax.

Section C14h.
  Variable hs : tls_policy -> tls_peer -> option tls_session.
  Variable verifies : option (list tls_cert) -> tls_usage -> N -> list N -> list tls_cert -> Prop.
  Variable now : N.
  Context {St : Type} (h : list N -> handler St).

  (* the server object after a history is the object before it *)
  Theorem c14h_history_leaves_object : forall o e l,
    fst (tls_obj_history hs h o e l) = o.
  Proof. exact (tls_obj_history_object hs h). Qed.

  (* in particular the tls.Config of the next handshake: ClientCAs is the configured pool *)
  Theorem c14h_history_leaves_policy : forall o e l,
    tls_policy_of_obj (fst (tls_obj_history hs h o e l)) = tls_policy_of_obj o.
  Proof. exact (tls_obj_history_policy hs h). Qed.

  (* every attempt is decided as if it were alone on a freshly built server *)
  Theorem c14h_history_pointwise : forall c e l,
    tls_server_history hs h c e l = map (tls_attempt_alone hs h c e) l.
  Proof. exact (tls_server_history_pointwise hs h). Qed.

  (* whatever came before it and whatever comes after it *)
  Theorem c14h_history_context_irrelevant : forall c e before a after,
    nth_error (tls_server_history hs h c e (before ++ a :: after)) (length before) =
    Some (tls_attempt_alone hs h c e a).
  Proof. exact (tls_server_history_context hs h). Qed.

  (* T1 along a history: a handler invocation in attempt k implies that the
     peer of attempt k completed a TLS 1.2-or-later handshake presenting, in
     attempt k, a chain that verifies against the configured client CAs *)
  Theorem c14h_history_authenticates : forall c rest e l k evs r,
    tls_srv_documented hs verifies now ->
    url_scheme (tsv_url c) STcpTls rest ->
    nth_error (tls_server_history hs h c e l) k = Some evs ->
    In (EvCall r) evs ->
    exists a cas sess,
      nth_error l k = Some a /\
      tsv_cas c = Some cas /\
      hs (tls_policy_of_server c) (tat_peer a) = Some sess /\
      spec_client_authenticated verifies now cas (tat_peer a) sess.
  Proof. exact (tls_history_call_authenticated hs verifies now h). Qed.

  (* the refusing direction, with no premise about the other attempts: they
     may have presented the very certificates this chain would verify against *)
  Theorem c14h_history_refuses_unverified : forall c rest e l k a evs,
    tls_srv_documented hs verifies now ->
    url_scheme (tsv_url c) STcpTls rest ->
    nth_error l k = Some a ->
    (forall cas, tsv_cas c = Some cas ->
                 ~ verifies (Some cas) TlsUsageClientAuth now [] (tpe_chain (tat_peer a))) ->
    nth_error (tls_server_history hs h c e l) k = Some evs ->
    forall r, ~ In (EvCall r) evs.
  Proof. exact (tls_history_unverified hs verifies now h). Qed.

  Theorem c14h_history_failed_handshake_closes : forall c eff e l k a,
    tls_new_server c = CfgOk eff -> se_transport eff = TTcpOverTls ->
    nth_error l k = Some a ->
    hs (tls_policy_of_server c) (tat_peer a) = None ->
    nth_error (tls_server_history hs h c e l) k = Some [EvClosed].
  Proof. exact (tls_history_failed_handshake hs h). Qed.

  (* T4 along a history: a peer the handshake accepts is served *)
  Theorem c14h_history_serves : forall c rest e l k a sess t p r tail,
    tls_srv_documented hs verifies now ->
    (forall role, handler_wf (h role)) ->
    url_scheme (tsv_url c) STcpTls rest -> rest <> [] ->
    tsv_cert c <> None -> tsv_cas c <> None ->
    nth_error l k = Some a ->
    hs (tls_policy_of_server c) (tat_peer a) = Some sess ->
    tat_stream a = spec_mbap t p ++ tail ->
    t < 65536 -> pdu_wf p -> spec_decode p = Some r -> in_range r = true ->
    exists leaf more,
      tpe_chain (tat_peer a) = leaf :: more /\
      let role := extract_role (tlc_exts leaf) in
      nth_error (tls_server_history hs h c e l) k =
      Some (EvCall r :: EvResp (spec_mbap t (spec_response p r (snd (h role (tat_state a) r)))) ::
            server_run (h role) (fst (h role (tat_state a) r)) e tail).
  Proof. exact (tls_history_serves hs verifies now h). Qed.
End C14h.

Print Assumptions c14h_history_leaves_object.
Print Assumptions c14h_history_leaves_policy.
Print Assumptions c14h_history_pointwise.
Print Assumptions c14h_history_context_irrelevant.
Print Assumptions c14h_history_authenticates.
Print Assumptions c14h_history_refuses_unverified.
Print Assumptions c14h_history_failed_handshake_closes.
Print Assumptions c14h_history_serves.

(* ---- non-vacuity: an oracle that builds chains. Every certificate names its
   issuer (toy: identity / 16); a chain verifies when its leaf is in the pool
   or a path leaf -> issuer -> ... through the certificates PRESENTED WITH IT
   ends at a pool member (at most two intermediates). It satisfies the
   documented premise; the model is run on a history in which a valid client
   sends a foreign CA certificate along and the holder of a leaf issued under
   that foreign CA comes before and after it. *)

Definition c14h_issuer (id : N) : N := id / 16.

Definition c14h_in (id : N) (l : list tls_cert) : bool := existsb (fun c => tlc_id c =? id) l.

Definition c14h_toy_verifiesb (pool : option (list tls_cert)) (chain : list tls_cert) : bool :=
  match pool, chain with
  | Some p, leaf :: more =>
      let i1 := c14h_issuer (tlc_id leaf) in
      let i2 := c14h_issuer i1 in
      let i3 := c14h_issuer i2 in
      c14h_in (tlc_id leaf) p
      || c14h_in i1 p
      || (c14h_in i1 more && c14h_in i2 p)
      || (c14h_in i1 more && c14h_in i2 more && c14h_in i3 p)
  | _, _ => false
  end.

Definition c14h_toy_verifies (pool : option (list tls_cert)) (u : tls_usage) (t : N) (host : list N)
                             (chain : list tls_cert) : Prop :=
  c14h_toy_verifiesb pool chain = true.

Definition c14h_toy_handshake (pol : tls_policy) (peer : tls_peer) : option tls_session :=
  if negb (tpe_speaks_tls peer) then None
  else
    match find (fun v => tls_version_geb v (tpo_min_version pol)) (tpe_versions peer) with
    | None => None
    | Some v =>
        if c14h_toy_verifiesb (tpo_pool pol) (tpe_chain peer)
        then Some (mk_tls_session v (tpe_chain peer)) else None
    end.

Example c14h_toy_srv_documented : tls_srv_documented c14h_toy_handshake c14h_toy_verifies 0.
Proof.
  intros pol peer sess. unfold c14h_toy_handshake.
  destruct (tpe_speaks_tls peer); [|discriminate]. cbn [negb].
  destruct (find _ (tpe_versions peer)) as [v|] eqn:Ef; [|discriminate].
  apply find_some in Ef. destruct Ef as [Hin Hge].
  destruct (c14h_toy_verifiesb (tpo_pool pol) (tpe_chain peer)) eqn:Ev; [|discriminate].
  intros [= <-]. cbn [tss_version tss_peer_certs].
  split; [reflexivity|]. split; [exact Hin|]. split; [exact Hge|].
  intros _. split; [reflexivity|]. split; [|exact Ev].
  intros E. rewrite E in Ev. unfold c14h_toy_verifiesb in Ev. destruct (tpo_pool pol); discriminate Ev.
Qed.

Definition c14h_handler : list N -> handler N :=
  fun role st r =>
    (st + 1, mkhres (repeat true (N.to_nat (h_qty r))) (repeat (lenN role) (N.to_nat (h_qty r))) HNone).

(* identities: the CA 2, a client leaf it issued 2*16+1 = 33; a foreign CA 3,
   an intermediate it issued 3*16+2 = 50, a leaf under that intermediate
   50*16+1 = 801, a leaf directly under the foreign CA 3*16+1 = 49 *)
Definition c14h_ca : tls_cert := mk_tls_cert 2 [].
Definition c14h_own : tls_cert := mk_tls_cert 9 [].
Definition c14h_client : tls_cert := mk_tls_cert 33 [].
Definition c14h_foreign_ca : tls_cert := mk_tls_cert 3 [].
Definition c14h_foreign_inter : tls_cert := mk_tls_cert 50 [].
Definition c14h_intruder : tls_cert := mk_tls_cert 49 [].
Definition c14h_intruder2 : tls_cert := mk_tls_cert 801 [].

Definition c14h_conf : tls_srv_conf :=
  mk_tls_srv_conf (str "tcp+tls://0.0.0.0:802") 0 0 (Some c14h_own) (Some [c14h_ca]).

Definition c14h_request : list N := spec_mbap 7 (mkpdu 1 3 [0; 16; 0; 2]).

Definition c14h_attempt (chain : list tls_cert) : tls_attempt N :=
  mk_tls_attempt (mk_tls_peer true chain [TLS12; TLS13]) 0 c14h_request.

Definition c14h_served : list event :=
  [EvCall (mkhreq HHolding 1 16 2 false [] []); EvResp (spec_mbap 7 (mkpdu 1 3 [4; 0; 0; 0; 0])); EvClosed].

Example c14h_url_sat : url_scheme (tsv_url c14h_conf) STcpTls (str "0.0.0.0:802").
Proof. reflexivity. Qed.

(* the intruders before, the valid client sending the foreign CA and the
   foreign intermediate along, the intruders again (with and without the
   foreign certificates), the valid client with its bare leaf *)
Example c14h_example_history :
  tls_server_history c14h_toy_handshake c14h_handler c14h_conf Closed
    [c14h_attempt [c14h_intruder];
     c14h_attempt [c14h_intruder2; c14h_foreign_inter];
     c14h_attempt [c14h_client; c14h_foreign_ca; c14h_foreign_inter];
     c14h_attempt [c14h_intruder];
     c14h_attempt [c14h_intruder; c14h_foreign_ca];
     c14h_attempt [c14h_intruder2; c14h_foreign_inter; c14h_foreign_ca];
     c14h_attempt [c14h_client]] =
  [[EvClosed]; [EvClosed]; c14h_served; [EvClosed]; [EvClosed]; [EvClosed]; c14h_served].
Proof. vm_compute. reflexivity. Qed.

(* the example discriminates: a server CONFIGURED with the foreign CA serves
   the same intruders, through the intermediate they present *)
Example c14h_example_configured_foreign :
  tls_server_history c14h_toy_handshake c14h_handler
    (mk_tls_srv_conf (str "tcp+tls://0.0.0.0:802") 0 0 (Some c14h_own) (Some [c14h_ca; c14h_foreign_ca])) Closed
    [c14h_attempt [c14h_intruder];
     c14h_attempt [c14h_intruder2; c14h_foreign_inter];
     c14h_attempt [c14h_intruder2]] =
  [c14h_served; c14h_served; [EvClosed]].
Proof. vm_compute. reflexivity. Qed.
