(* C03 - Server validates, dispatches and answers every request per spec.
   Statements only; proofs in Proofs/ServerP.v. The vocabulary (pdu_wf,
   handler_wf, spec_session) is in Spec/ServerSessionSpec.v, the per-request
   specification (spec_decode, spec_response, err_fc, spec_mbap) in
   Spec/ServerSpec.v. *)
From Modbus Require Import Base.Bytes Model.Encoding Model.Wire Model.Server
  Spec.ModbusSpec Spec.ServerSpec Spec.ServerSessionSpec Proofs.ServerP.

Section C03.
  Context {St : Type} (h : handler St).

  (* T2-T5, per frame, for every handler: a valid supported request causes
     exactly one invocation with the decoded fields and exactly the specified
     response (data, mapped exception, or exception 4 on a wrong-sized result);
     a range past 0xFFFF gets exception 2 without a call; an unsupported
     function code gets exception 1 without a call; malformed requests of a
     supported code never reach the handler and are rejected by closing the
     link or by an exception 2 / 3.
     The function code of an exception response is err_fc fc, the request's
     code with the error bit 0x80 set (= fc + 128 for every fc < 128, see
     c03_err_fc below). *)
  Theorem c03_process_spec : forall st p, pdu_wf p -> handler_wf h ->
    let '(st', calls, act) := server_process h st p in
    match spec_decode p with
    | Some r =>
        if in_range r
        then calls = [r] /\ hreq_ok r /\ st' = fst (h st r) /\
             act = Respond (spec_response p r (snd (h st r)))
        else calls = [] /\ st' = st /\ act = Respond (mkpdu (p_unit p) (err_fc (p_fc p)) [2])
    | None =>
        calls = [] /\ st' = st /\
        if supported_fc (p_fc p)
        then act = CloseLink \/ act = Respond (mkpdu (p_unit p) (err_fc (p_fc p)) [2])
             \/ act = Respond (mkpdu (p_unit p) (err_fc (p_fc p)) [3])
        else act = Respond (mkpdu (p_unit p) (err_fc (p_fc p)) [1])
    end.
  Proof. exact (server_process_spec h). Qed.

  (* T1 / pipelining: complete frames are handled strictly in order, each
     answered exactly once with its own transaction id, protocol id 0 and
     unit id; nothing follows a close *)
  Theorem c03_pipelined : forall frames tail st e,
    Forall (fun f => fst f < 65536 /\ pdu_wf (snd f)) frames ->
    server_run h st e (concat (map (fun f => spec_mbap (fst f) (snd f)) frames) ++ tail) =
    spec_session h st frames (fun st' => server_run h st' e tail).
  Proof. exact (server_pipelined h). Qed.

  (* T5: a header that is cut short, announces a length outside 2..254 or a
     non-zero protocol id, or a body that is cut short: no call, session closed *)
  Theorem c03_bad_header : forall st e s, bytesb s = true ->
    (forall t p rest, t < 65536 -> pdu_wf p -> s <> spec_mbap t p ++ rest) ->
    server_run h st e s = [EvClosed].
  Proof. exact (server_bad_header h). Qed.

  (* T3: whatever the byte stream, a handler only ever sees in-range,
     within-limit requests whose Args match the quantity *)
  Theorem c03_calls_valid : forall st e s r, bytesb s = true -> handler_wf h ->
    In (EvCall r) (server_run h st e s) -> hreq_ok r.
  Proof. exact (server_calls_valid h). Qed.

  (* T6: responses fit the maximum frame size; the event list always ends
     with the close and contains it exactly once *)
  Theorem c03_responses_bounded : forall st e s f, bytesb s = true -> handler_wf h ->
    In (EvResp f) (server_run h st e s) -> lenN f <= 260.
  Proof. exact (server_responses_bounded h). Qed.

  Theorem c03_closed_last : forall st e s,
    exists evs, server_run h st e s = evs ++ [EvClosed] /\ ~ In EvClosed evs.
  Proof. exact (server_closed_last h). Qed.
End C03.

(* the error bit: fc + 128 for every function code below 0x80 *)
Theorem c03_err_fc : forall fc, fc < 128 -> err_fc fc = fc + 128.
Proof. exact err_fc_small. Qed.

(* no panic: the two branches of server_process that stand for an
   out-of-range index in decodeBools / bytesToUint16s (write multiple coils /
   registers) are unreachable behind the length and byte-count checks *)
Theorem c03_decode_never_fails : forall pl,
  (length pl <? 6)%nat = false ->
  let qty := be_word (skipn 2 pl) in
  (negb (lenN pl - 5 =? qty / 8 + (if qty mod 8 =? 0 then 0 else 1)) = false ->
   decode_bools (N.to_nat qty) (skipn 5 pl) <> None) /\
  (negb (lenN pl - 5 =? qty * 2) = false ->
   bytes_to_u16s BigE (skipn 5 pl) <> None).
Proof. exact server_decode_never_fails. Qed.

(* the hypotheses are satisfiable *)
Definition c03_example_handler : handler N :=
  fun st r => (st + 1, mkhres (repeat true (N.to_nat (h_qty r))) (repeat 7 (N.to_nat (h_qty r))) HNone).

Example c03_handler_wf_sat : handler_wf c03_example_handler.
Proof.
  intros st r. cbn [c03_example_handler snd r_regs r_err]. split.
  - apply Forall_forall. intros v Hv. apply repeat_spec in Hv. subst v. reflexivity.
  - intros c Hc. discriminate Hc.
Qed.

Example c03_pdu_wf_sat : pdu_wf (mkpdu 1 3 [0; 16; 0; 2]).
Proof. unfold pdu_wf. cbn. repeat split; try reflexivity; discriminate. Qed.

Example c03_session_example :
  server_run c03_example_handler 0 Closed
    (spec_mbap 7 (mkpdu 1 3 [0; 16; 0; 2]) ++ spec_mbap 8 (mkpdu 1 0x2B [14]) ++ [0; 9]) =
  [EvCall (mkhreq HHolding 1 16 2 false [] []);
   EvResp (spec_mbap 7 (mkpdu 1 3 [4; 0; 7; 0; 7]));
   EvResp (spec_mbap 8 (mkpdu 1 0xAB [1]));
   EvClosed].
Proof. vm_compute. reflexivity. Qed.

Example c03_bad_header_sat : forall t p rest, t < 65536 -> pdu_wf p -> @nil N <> spec_mbap t p ++ rest.
Proof. intros t p rest _ _. unfold spec_mbap, be16. cbn [app]. discriminate. Qed.

Print Assumptions c03_process_spec.
Print Assumptions c03_pipelined.
Print Assumptions c03_bad_header.
Print Assumptions c03_calls_valid.
Print Assumptions c03_responses_bounded.
Print Assumptions c03_closed_last.
Print Assumptions c03_err_fc.
Print Assumptions c03_decode_never_fails.
