(* C05 / C12 / C13, source level: tcp_transport.go AS TRANSLATED FROM THE GO SOURCE
   ON THIS RUN (Gen/SrcPure.v, signed mode, the socket and the clock as external
   functions over the state of the world). (1) For EVERY world: each function run
   on the whole translated program computes the transport model of
   Model/Transport.v (out_* of Proofs/SrcTransportP.v) - in particular
   ExecuteRequest arms the deadline, increments the 16-bit transaction id
   (wrapping), writes exactly assemble_mbap of the new id and the request, and
   returns what the response loop returns; the response loop skips frames with a
   foreign protocol id or transaction id and returns the first frame carrying
   the id of the request, or the first error. (2) On worlds that are byte
   streams with an end (stall until the deadline / close / reset) the translated
   functions return what the framing model of Model/Wire.v returns
   (read_mbap, mbap_read_response: the functions C02.v, C05.v, C12.v and C13.v
   are about), consume the same bytes and fail in the same error class.
   Only statements, closed by [exact]. *)
From Coq Require Import List NArith String.
Import ListNotations.
From Modbus Require Import Base.Bytes.
From Modbus Require Import Model.GoLite.
From Modbus Require Import Gen.SrcPure.
From Modbus Require Import Model.Wire.
From Modbus Require Import Model.Transport.
From Modbus Require Import Proofs.GoLiteLinkP.
From Modbus Require Import Proofs.SrcCrcP.
From Modbus Require Import Proofs.SrcMiscP.
From Modbus Require Import Proofs.SrcClientP.
From Modbus Require Import Proofs.SrcTransportP.
From Modbus Require Import Proofs.TransportStreamP.
From Modbus Require Import Proofs.TransportClockP.
From Modbus Require Import Proofs.SrcTransportLinkP.
From Modbus Require Import Proofs.SrcTransportWorldsP.
Open Scope string_scope.
Open Scope N_scope.

Theorem c05t_readMBAPFrame :
  forall (base : fenv) (fuel : nat) (T : tworld) (tmo last : N) (w : val),
       tworld_hyp base T "socket" ->
       tworld_wf T src_codes ->
       call_with src_pure base fuel "tcpTransport.readMBAPFrame" [VN tmo; VN last; w] =
       out_read_mbap T tmo last w.
Proof. exact src_readMBAPFrame_ok. Qed.
Print Assumptions c05t_readMBAPFrame.

Theorem c05t_readResponse :
  forall (base : fenv) (fuel : nat) (T : tworld) (tmo last : N) (w : val),
       tworld_hyp base T "socket" ->
       tworld_wf T src_codes ->
       call_with src_pure base fuel "tcpTransport.readResponse" [VN tmo; VN last; w] =
       out_read_response T fuel tmo last w.
Proof. exact src_readResponse_ok. Qed.
Print Assumptions c05t_readResponse.

Theorem c05t_ExecuteRequest :
  forall (base : fenv) (fuel : nat) (T : tworld) (tmo last : N) (req : pdu) (w : val),
       tworld_hyp base T "socket" ->
       tworld_wf T src_codes ->
       pdu_ok req ->
       call_with src_pure base fuel "tcpTransport.ExecuteRequest" ([VN tmo; VN last] ++ pdu_args req ++ [w]) =
       out_tcp_execute T fuel tmo last req w.
Proof. exact src_tcp_ExecuteRequest_ok. Qed.
Print Assumptions c05t_ExecuteRequest.

Theorem c05t_ReadRequest :
  forall (base : fenv) (fuel : nat) (T : tworld) (tmo last : N) (w : val),
       tworld_hyp base T "socket" ->
       tworld_wf T src_codes ->
       call_with src_pure base fuel "tcpTransport.ReadRequest" [VN tmo; VN last; w] =
       out_tcp_read_request T tmo last w.
Proof. exact src_tcp_ReadRequest_ok. Qed.
Print Assumptions c05t_ReadRequest.

Theorem c05t_WriteResponse :
  forall (base : fenv) (fuel : nat) (T : tworld) (tmo last : N) (res0 : pdu) (w : val),
       tworld_hyp base T "socket" ->
       pdu_ok res0 ->
       call_with src_pure base fuel "tcpTransport.WriteResponse" ([VN tmo; VN last] ++ pdu_args res0 ++ [w]) =
       out_tcp_write_response T tmo last res0 w.
Proof. exact src_tcp_WriteResponse_ok. Qed.
Print Assumptions c05t_WriteResponse.

Theorem c05t_Close :
  forall (base : fenv) (fuel : nat) (T : tworld) (tmo last : N) (w : val),
       tworld_hyp base T "socket" ->
       call_with src_pure base fuel "tcpTransport.Close" [VN tmo; VN last; w] =
       out_close T [VN tmo; VN last] w.
Proof. exact src_tcp_Close_ok. Qed.
Print Assumptions c05t_Close.

Theorem c05t_stream_world_satisfies_the_hypotheses :
  forall e : send, tworld_wf (sw e) src_codes.
Proof. exact sw_wf. Qed.
Print Assumptions c05t_stream_world_satisfies_the_hypotheses.

Theorem c05t_readMBAPFrame_stream :
  forall (fuel : nat) (e : send) (tmo last : N) (s : list N),
       bytesb s = true ->
       exists (w' : val) (p : option pdu) (txn c : N),
         call_with src_pure (world_base (sw e)) fuel "tcpTransport.readMBAPFrame" [VN tmo; VN last; vbytes s] =
         GOk ([VN tmo; VN last; w'] ++ enc_opdu p ++ [VN txn; VN c])%list /\
         w' = vbytes (snd (read_mbap e s)) /\
         match fst (read_mbap e s) with
         | FOk q t => p = Some q /\ txn = t /\ c = 0
         | FErr x => p = None /\ c <> 0 /\ EC c = x
         end.
Proof. exact src_readMBAPFrame_stream. Qed.
Print Assumptions c05t_readMBAPFrame_stream.

Theorem c05t_ExecuteRequest_stream :
  forall (fuel : nat) (e : send) (tmo last : N) (req : pdu) (s : list N),
       bytesb s = true ->
       pdu_ok req ->
       let last' := (last + 1) mod 65536 in
       let run :=
         call_with src_pure (world_base (sw e)) fuel "tcpTransport.ExecuteRequest"
           ([VN tmo; VN last] ++ pdu_args req ++ [vbytes s]) in
       let (r, s') := mbap_read_response fuel e last' s in
       match r with
       | MOk q => run = GOk ([VN tmo; VN last'; vbytes s'] ++ enc_opdu (Some q) ++ [VN 0])%list
       | Err x =>
           exists c : N,
             run = GOk ([VN tmo; VN last'; vbytes s'] ++ enc_opdu None ++ [VN c])%list /\ c <> 0 /\ EC c = x
       | Panic => False
       | OutOfFuel => run = GoLite.OutOfFuel
       end.
Proof. exact src_tcp_ExecuteRequest_stream. Qed.
Print Assumptions c05t_ExecuteRequest_stream.

