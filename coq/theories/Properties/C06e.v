(* C06 - second and third clause over SESSIONS: in a sequence of requests on one
   client / one RTU transport facing a well-behaved device behind a line that
   damages some of the replies, a damaged reply that the transport rejects is
   reported as that error, the line is clean afterwards, and every reply that
   arrives intact - the next one, and every later one - is a success with the
   values of that very reply, wherever in the session the damage occurs. (That
   a single-bit, double-bit or burst error is never a success, whatever length
   it makes the receiver infer, is c06_never_success of Properties/C06b.v; the
   gap of the recovery clause where a leading part of the damaged reply is a
   CRC-valid frame is c06_recovery_refuted there, finding F8.)
   Statements only; proofs in Proofs/RtuSeqBadP.v. *)
From Modbus Require Import Base.Bytes Model.Crc Model.Encoding Model.Wire Model.Client Model.RtuSeq
  Model.RtuSeqBad Spec.ModbusSpec Spec.ClientSpec Spec.RtuSeqSpec
  Proofs.CrcP Proofs.RtuRecoveryP Proofs.RtuSeqBadP.

(* the outcomes of every such session; nothing is ever left on the line *)
Theorem c06_session_recovery : forall steps cfg outs,
  cfg_wf cfg -> rb_session cfg steps outs ->
  map cr_res (rtuseqbad_run cfg steps) = outs /\
  Forall (fun r => cr_rest r = []) (rtuseqbad_run cfg steps).
Proof. exact rtuseqbad_recovers. Qed.

(* the per-call demand the check evaluates on the real client's results
   (computed from the session alone) is what those outcomes say: the values of
   the reply that arrived intact, no success for the damaged one *)
Theorem c06_session_demands : forall steps cfg outs,
  cfg_wf cfg -> rb_session cfg steps outs ->
  rtuseqbad_demands cfg steps = map rb_demand_of outs.
Proof. exact rtuseqbad_demands_spec. Qed.

(* any CRC field that does not match is such a rejection *)
Theorem c06_session_bad_crc_field : forall unit fc b2 data lo hi,
  expected_len fc b2 = Some (lenN data) -> lenN data <= 251 ->
  crc_is_equal (crc16 ([unit; fc; b2] ++ data)) lo hi = false ->
  rb_rejected (([unit; fc; b2] ++ data) ++ [lo; hi]) EBadCRC.
Proof. exact rb_rejected_bad_crc_field. Qed.

(* non-vacuity: three polls of the same two registers, the device's data differ
   from reply to reply, one bit of the first reply is flipped on the line *)
Definition c06e_cfg := mkcfg 1 BigE HighFirst.
Definition c06e_op := OpReadRegs 1 0 2 Holding.
Definition c06e_r1 := spec_frame FRtu 0 (mkpdu 1 3 [4; 0; 1; 0; 2]).
Definition c06e_r2 := spec_frame FRtu 0 (mkpdu 1 3 [4; 0; 3; 0; 4]).
Definition c06e_r3 := spec_frame FRtu 0 (mkpdu 1 3 [4; 0; 5; 0; 6]).
Definition c06e_session :=
  [RbCall c06e_op c06e_r1 (xor_bytes c06e_r1 [0; 0; 0; 0; 1; 0; 0; 0; 0]);
   RbCall c06e_op c06e_r2 c06e_r2;
   RbCall c06e_op c06e_r3 c06e_r3].

Example c06_ex_session_recovery :
  map cr_res (rtuseqbad_run c06e_cfg c06e_session) =
  [Err EBadCRC; Ok (VNums [3; 4]); Ok (VNums [5; 6])].
Proof. vm_compute. reflexivity. Qed.

(* the hypothesis of c06_session_recovery is satisfiable (by that session) *)
Example c06_ex_session_hyp :
  rb_session c06e_cfg c06e_session [Err EBadCRC; Ok (VNums [3; 4]); Ok (VNums [5; 6])].
Proof.
  assert (W : op_wf c06e_op).
  { cbn [c06e_op op_wf]. split; [left; reflexivity|]. split; reflexivity. }
  assert (Ans : forall a b, (a = 1 /\ b = 2) \/ (a = 3 /\ b = 4) \/ (a = 5 /\ b = 6) ->
            answers c06e_cfg c06e_op (mkpdu 1 3 [4; 0; a; 0; b]) (VNums [a; b])).
  { intros a b H. split; [reflexivity|]. split; [reflexivity|].
    exists [a; b]. split.
    - destruct H as [[-> ->]|[[-> ->]|[-> ->]]]; vm_compute; reflexivity.
    - split; [reflexivity|]. split; [|reflexivity].
      change (2 ^ (16 * 1)) with 65536. repeat constructor; lia. }
  cbn [rb_session c06e_session].
  split; [exact W|]. split; [reflexivity|]. split.
  { exists (mkpdu 1 3 [4; 0; 1; 0; 2]), (VNums [1; 2]).
    split; [reflexivity|]. split; [apply Ans; tauto|]. split; [reflexivity|].
    right. exists EBadCRC. split; [|reflexivity].
    split; [vm_compute; lia|]. exists []. split; [vm_compute; reflexivity|left; reflexivity]. }
  split; [exact W|]. split; [reflexivity|]. split.
  { exists (mkpdu 1 3 [4; 0; 3; 0; 4]), (VNums [3; 4]).
    split; [reflexivity|]. split; [apply Ans; tauto|]. split; [reflexivity|].
    left. split; reflexivity. }
  split; [exact W|]. split; [reflexivity|]. split.
  { exists (mkpdu 1 3 [4; 0; 5; 0; 6]), (VNums [5; 6]).
    split; [reflexivity|]. split; [apply Ans; tauto|]. split; [reflexivity|].
    left. split; reflexivity. }
  reflexivity.
Qed.

Print Assumptions c06_session_recovery.
Print Assumptions c06_session_demands.
Print Assumptions c06_session_bad_crc_field.
