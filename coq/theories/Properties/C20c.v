(* C20c - C20 for command lists that are executed more than once (`repeat`).
   Statements only; proofs in Proofs/CliRepeatP.v. The model
   (Model/CliRepeat.v) adds `repeat` and `sleep:<duration>` to the parser of
   Model/Cli.v and iterates the execution loop; the documented meaning
   (Spec/CliRepeatSpec.v) is written from the help text: "Restart execution of
   the given commands". time.ParseDuration enters as an oracle (dur). *)
From Modbus Require Import Base.Bytes Model.Encoding Model.Wire Model.Client Model.Strconv Model.Cli
  Model.CliRepeat Spec.ModbusSpec Spec.ClientSpec Spec.CliSpec Spec.CliRepeatSpec Proofs.CliP Proofs.CliRepeatP.
From Coq Require String.
Import String.StringSyntax.
Local Delimit Scope string_scope with string.

(* ---- every pass is a run of the execution loop over the SAME operations,
   started from the state (unit id, transaction counter, device memory) the
   previous pass left: all the statements of C20 about cli_exec / cli_run in
   an arbitrary state (c20_read_regs_values, c20_write_num_lands, ...) hold
   for every command of every pass, with the device as the earlier passes
   left it. *)
Theorem c20c_pass_is_run : forall n st ops,
  clr_iter (S n) st ops = cli_run (clr_iter n st ops) ops.
Proof. exact iter_snoc. Qed.

(* ---- the requests of n passes: the documented requests of the list, n times
   over; the addresses, counts and values are those on the command line in
   every pass, only the unit id selected by `sid` and the transaction counter
   carry over. Independent of the device's contents. *)
Theorem c20c_frames : forall n cs st,
  Forall cli_op_wf cs -> cfg_wf (cs_cfg st) -> cs_txn st < 65536 ->
  cs_tx (clr_iter n st cs) = cs_tx st ++ clr_doc_frames n (cs_cfg st) (cs_txn st) cs.
Proof. exact iter_frames. Qed.

Theorem c20c_pass_frames : forall n cs st,
  Forall cli_op_wf cs -> cfg_wf (cs_cfg st) -> cs_txn st < 65536 ->
  let s := clr_iter n st cs in
  cs_tx (clr_iter (S n) st cs) = cs_tx s ++ cli_doc_frames (cs_cfg s) (cs_txn s) cs.
Proof. exact pass_frames. Qed.

(* unit id and transaction counter at the end of a pass are the documented ones *)
Theorem c20c_pass_end : forall cs st,
  Forall cli_op_wf cs -> cfg_wf (cs_cfg st) -> cs_txn st < 65536 ->
  cli_doc_end (cs_cfg st) (cs_txn st) cs = (cs_cfg (cli_run st cs), cs_txn (cli_run st cs)) /\
  cfg_wf (cs_cfg (cli_run st cs)) /\ cs_txn (cli_run st cs) < 65536.
Proof. exact run_end. Qed.

(* the whole program: n passes of an accepted looping command line *)
Theorem c20c_requests_exact : forall pf32 pf64 dur,
  (forall s v, pf32 s = Some v -> v < 2 ^ 32) -> (forall s v, pf64 s = Some v -> v < 2 ^ 64) ->
  forall n e w u args dev st,
  Forall (fun a => bytesb a = true) args -> bytesb u = true ->
  clr_main pf32 pf64 dur n e w u args dev = CliDone st ->
  clr_main_loops pf32 pf64 dur args = true ->
  exists unit en wo items,
    sc_parse_uint 64 u = ScOk unit /\ unit < 256 /\
    cli_endian_of e = Some en /\ cli_word_of w = Some wo /\
    Forall2 (fun a o => clr_parse_cmd pf32 pf64 dur a = CliOk o) args items /\
    cs_tx st = clr_doc_frames n (mkcfg unit en wo) 0 (clr_pass items).
Proof. exact rmain_frames. Qed.

(* ---- what is executed: the commands in front of the first `repeat`; what
   stands behind it never runs *)
Theorem c20c_pass_ops : forall pre post, clr_loops pre = false ->
  clr_pass (pre ++ ClrRepeat :: post) = clr_pass pre /\ clr_loops (pre ++ ClrRepeat :: post) = true.
Proof. exact pass_split. Qed.

(* ---- parsing: the two extra commands, everything else as in C20 *)
Theorem c20c_parse_cases : forall pf32 pf64 dur arg i,
  clr_parse_cmd pf32 pf64 dur arg = CliOk i ->
  (i = ClrRepeat /\ arg = clr_s_repeat) \/
  (i = ClrSleep /\ exists d, cli_split 58 arg = [clr_s_sleep; d] /\ dur d = true) \/
  (exists c, i = ClrOp c /\ cli_parse_cmd pf32 pf64 arg = CliOk c).
Proof. exact parse_cmd_cases. Qed.

Theorem c20c_parse_kept : forall pf32 pf64 dur arg c,
  cli_parse_cmd pf32 pf64 arg = CliOk c -> clr_parse_cmd pf32 pf64 dur arg = CliOk (ClrOp c).
Proof. exact parse_cmd_kept. Qed.

(* a command line without the extra commands behaves as cli_main says *)
Theorem c20c_one_shot : forall pf32 pf64 dur n e w u args dev ops,
  cli_parse_all pf32 pf64 args = CliOk ops ->
  clr_main pf32 pf64 dur n e w u args dev = cli_main pf32 pf64 e w u args dev /\
  clr_main_loops pf32 pf64 dur args = false.
Proof. exact rmain_one_shot. Qed.

(* all-or-nothing: a refused argument anywhere in the list (also behind a
   `repeat`) ends the program with a non-zero status before any connection *)
Theorem c20c_all_or_nothing : forall pf32 pf64 dur n e w u args dev a,
  In a args -> clr_parse_cmd pf32 pf64 dur a = CliRefused ->
  let r := clr_main pf32 pf64 dur n e w u args dev in
  (exists code, r = CliExit code /\ code <> 0) /\ cli_tx_log r = [] /\ cli_printed r = [].
Proof.
  intros pf32 pf64 dur n e w u args dev a Hin Hr.
  destruct (rmain_all_or_nothing pf32 pf64 dur n e w u args dev a Hin Hr) as (code & E & Hc).
  cbn zeta. rewrite E. repeat split. exists code. split; [reflexivity|exact Hc].
Qed.

(* ---- non-vacuity: the help text's own example, three passes *)
Definition c20c_nof : list N -> option N := fun _ => None.
Definition c20c_anydur : list N -> bool := fun _ => true.

(* "rh:uint32:100 sleep:1s repeat": addresses 100-101 in every pass *)
Example c20c_ex_help :
  let r := clr_main c20c_nof c20c_nof c20c_anydur 3 (sc_str "big"%string) (sc_str "highfirst"%string)
             (sc_str "1"%string)
             [sc_str "rh:uint32:100"%string; sc_str "sleep:1s"%string; sc_str "repeat"%string] cli_dev_init in
  cli_tx_log r =
    [[0; 1; 0; 0; 0; 6; 1; 3; 0; 100; 0; 2];
     [0; 2; 0; 0; 0; 6; 1; 3; 0; 100; 0; 2];
     [0; 3; 0; 0; 0; 6; 1; 3; 0; 100; 0; 2]] /\
  cli_printed r =
    [ClNum 2 100 (cli_pat_hold 100 * 65536 + cli_pat_hold 101);
     ClNum 2 100 (cli_pat_hold 100 * 65536 + cli_pat_hold 101);
     ClNum 2 100 (cli_pat_hold 100 * 65536 + cli_pat_hold 101)].
Proof. vm_compute. split; reflexivity. Qed.

(* a write in the list: the read of the next pass sees it; `sid` behind the
   read takes effect from the write on and stays for the later passes; the
   command behind `repeat` never runs *)
Example c20c_ex_threaded :
  let r := clr_main c20c_nof c20c_nof c20c_anydur 2 (sc_str "big"%string) (sc_str "hf"%string)
             (sc_str "1"%string)
             [sc_str "rh:uint16:7"%string; sc_str "sid:9"%string; sc_str "wr:uint16:7:0x1234"%string;
              sc_str "repeat"%string; sc_str "wc:1:true"%string] cli_dev_init in
  cli_tx_log r =
    [[0; 1; 0; 0; 0; 6; 1; 3; 0; 7; 0; 1];
     [0; 2; 0; 0; 0; 6; 9; 6; 0; 7; 18; 52];
     [0; 3; 0; 0; 0; 6; 9; 3; 0; 7; 0; 1];
     [0; 4; 0; 0; 0; 6; 9; 6; 0; 7; 18; 52]] /\
  cli_printed r = [ClNum 1 7 (cli_pat_hold 7); ClWrote; ClNum 1 7 0x1234; ClWrote].
Proof. vm_compute. split; reflexivity. Qed.

Example c20c_ex_refused :
  clr_parse_cmd c20c_nof c20c_nof c20c_anydur (sc_str "repeat:1"%string) = CliRefused /\
  clr_parse_cmd c20c_nof c20c_nof c20c_anydur (sc_str "sleep"%string) = CliRefused /\
  clr_parse_cmd c20c_nof c20c_nof c20c_anydur (sc_str "sleep:1s:2s"%string) = CliRefused /\
  clr_parse_cmd c20c_nof c20c_nof (fun _ => false) (sc_str "sleep:soon"%string) = CliRefused /\
  clr_parse_cmd c20c_nof c20c_nof c20c_anydur (sc_str "repeat"%string) = CliOk ClrRepeat /\
  clr_parse_cmd c20c_nof c20c_nof c20c_anydur (sc_str "sleep:3ms"%string) = CliOk ClrSleep.
Proof. vm_compute. repeat split; reflexivity. Qed.

Print Assumptions c20c_pass_is_run.
Print Assumptions c20c_frames.
Print Assumptions c20c_pass_frames.
Print Assumptions c20c_pass_end.
Print Assumptions c20c_requests_exact.
Print Assumptions c20c_pass_ops.
Print Assumptions c20c_parse_cases.
Print Assumptions c20c_parse_kept.
Print Assumptions c20c_one_shot.
Print Assumptions c20c_all_or_nothing.
