(* C05 across Close() + Open() - a late reply to a request made before a reopen
   never satisfies a request made after it.
   Statements only; proofs in Proofs/TxnReopenP.v (on top of Proofs/TxnP.v).
   Model: Model/TxnReopen.v - every Open() gives the client a new socket (a new
   TCP connection, a UDP socket with a local address of its own) and a new
   transport whose counter starts at 0; whatever the network delivers is
   addressed to ONE socket; a device answers to where the request came from.
   Vocabulary: Spec/TxnReopenSpec.v.

   Why this needs the stream and not the ids: the counter restarts, so request
   number j after a reopen carries the id request number j carried before it
   (c05c_request_id_after_reopen, c05c_ids_coincide). The transaction id alone
   cannot tell the late reply from the own one; what protects the new request
   is that the new socket receives nothing that was sent to the old one
   (c05c_contrast_shared_socket shows the misattribution when it does). *)
From Modbus Require Import Base.Bytes Model.Crc Model.Encoding Model.Wire Model.Client
  Model.TxnHistory Model.TxnReopen Spec.ModbusSpec Spec.ClientSpec Spec.TxnSpec Spec.TxnReopenSpec
  Proofs.TxnP Proofs.TxnReopenP.

(* R1: a reopen is a new transport on a new, empty stream: whatever happened
   before it (any steps, any outcomes, any unread bytes, any counter), the
   steps after it run as on a client that has just been opened, on the next
   socket. Every history. *)
Theorem c05c_reopen_restarts : forall fr cfg st pre post,
  tr_run fr cfg st (pre ++ TrReopen :: post) =
  tr_run fr cfg st pre ++
  None :: tr_run fr cfg (mktr (tr_sock (tr_final fr cfg st pre) + 1) th_init) post.
Proof. exact tr_reopen_restarts. Qed.

(* the socket in use: one more per reopen, never an earlier one again *)
Theorem c05c_socket_number : forall fr cfg xs st,
  tr_sock (tr_final fr cfg st xs) = tr_sock st + tr_reopens xs.
Proof. exact tr_sock_final. Qed.

(* R2: bytes addressed to a socket older than the current one - any number,
   any content, at any step - are never delivered: the outcomes are those of
   the history with all of them removed *)
Theorem c05c_old_socket_bytes_dropped : forall fr cfg m xs st, m <= tr_sock st ->
  tr_run fr cfg st (map (tr_forget m) xs) = tr_run fr cfg st xs.
Proof. exact tr_run_forget. Qed.

(* R3: hence two histories that differ, after a reopen, only in what is
   addressed to the sockets of before the reopen - late replies to the
   requests made on them, duplicates, anything - have the same outcomes: no
   frame sent in reply to an earlier request is returned, or has any other
   effect *)
Theorem c05c_old_replies_irrelevant : forall fr cfg st pre post post',
  map (tr_forget (tr_sock (tr_final fr cfg st pre) + 1)) post =
  map (tr_forget (tr_sock (tr_final fr cfg st pre) + 1)) post' ->
  tr_run fr cfg st (pre ++ TrReopen :: post) = tr_run fr cfg st (pre ++ TrReopen :: post').
Proof. exact tr_old_irrelevant. Qed.

(* R4: the calls that follow a reopen are a history of Model/TxnHistory.v on a
   fresh client (counter 0, nothing unread) that receives exactly what is
   addressed to the new socket: all of C05's history theorems (c05_history,
   c05_no_misattribution, c05_request_id, ...) apply to them with txn0 = 0 *)
Theorem c05c_segment_is_fresh_history : forall fr cfg st pre calls,
  tr_run fr cfg st (pre ++ TrReopen :: map TrCall calls) =
  tr_run fr cfg st pre ++
  None :: map Some (hist_run fr cfg th_init
                      (map (tr_concrete (tr_sock (tr_final fr cfg st pre) + 1)) calls)).
Proof. exact tr_segment_fresh. Qed.

(* R5: whole tagged frames, each addressed to a socket. If call number j after
   a reopen succeeds, the frame it consumed was ADDRESSED TO THE NEW SOCKET k
   and delivered after the reopen (so it is no reply to a request made before
   the reopen: those are addressed to sockets < k), and it was built for a
   request of the new transport with number i = j (mod 2^16); the values are
   those of a lone, on-time delivery of that frame *)
Theorem c05c_no_stale_reply : forall cfg st pre seg x post r vs,
  Forall tr_scall_ok (seg ++ x :: post) ->
  let k := tr_sock (tr_final FMbap cfg st pre) + 1 in
  let j := lenN seg in
  nth (length pre + 1 + length seg)
      (tr_run FMbap cfg st
         (pre ++ TrReopen :: map (fun c => TrCall (tr_scall_concrete c)) (seg ++ x :: post)))
      None = Some r ->
  cr_res r = Ok vs ->
  exists i res,
    In (k, ThReply i res) (concat (map tsc_frames (seg ++ [x]))) /\
    i mod 65536 = j mod 65536 /\
    cr_res (client_call FMbap cfg (j mod 65536) (tsc_op x)
              (th_end_after (th_end_run Stall (map (tr_sstep k) seg)) (tsc_end x))
              (spec_frame FMbap (th_id 0 j) res)) = Ok vs.
Proof. exact tr_no_stale_reply. Qed.

(* R6: the ids restart with the transport: request number j after a reopen
   carries id th_id 0 j = (j + 1) mod 2^16, whatever was sent before *)
Theorem c05c_request_id_after_reopen : forall cfg st pre seg c post r,
  cfg_wf cfg -> Forall (fun c => op_wf (trc_op c) /\ valid_op (trc_op c) = true) (seg ++ c :: post) ->
  nth (length pre + 1 + length seg)
      (tr_run FMbap cfg st (pre ++ TrReopen :: map TrCall (seg ++ c :: post))) None = Some r ->
  cr_writes r = [spec_frame FMbap (th_id 0 (lenN seg)) (spec_pdu cfg (trc_op c))].
Proof. exact tr_request_id_after_reopen. Qed.

(* ------------------------------------------------------------ non-vacuity *)

Definition c05c_cfg : ccfg := mkcfg 1 BigE HighFirst.
Definition c05c_read : op := OpReadRegs 1 0 1 Holding.
Definition c05c_reply (v : N) : pdu := mkpdu 1 3 [2; v / 256; v mod 256].

(* request 0 on socket 0 gets no reply in time; the client reopens; during
   the first request on socket 1 the device's late reply to request 0 (value
   100, sent to socket 0) is on the network, then the reply to the new request
   (value 101, sent to socket 1): the new request returns 101 *)
Definition c05c_script (late_to : N) : list tr_step :=
  [ TrCall (tr_scall_concrete (mktrscall c05c_read [] Stall));
    TrReopen;
    TrCall (tr_scall_concrete (mktrscall c05c_read
              [(late_to, ThReply 0 (c05c_reply 100)); (1, ThReply 0 (c05c_reply 101))] Stall)) ].

Example c05c_script_run :
  map (option_map (fun r => (cr_res r, cr_writes r))) (tr_run FMbap c05c_cfg tr_init (c05c_script 0)) =
  [ Some (Err ETimeout, [[0;1; 0;0; 0;6; 1; 3; 0;0; 0;1]]);
    None;
    Some (Ok (VNums [101]), [[0;1; 0;0; 0;6; 1; 3; 0;0; 0;1]]) ].
Proof. vm_compute. reflexivity. Qed.

(* both requests carried id 1, the two replies are the same bytes up to the value *)
Example c05c_ids_coincide :
  th_bytes 0 (ThReply 0 (c05c_reply 100)) = [0;1; 0;0; 0;5; 1; 3; 2; 0;100] /\
  th_bytes 0 (ThReply 0 (c05c_reply 101)) = [0;1; 0;0; 0;5; 1; 3; 2; 0;101].
Proof. vm_compute. split; reflexivity. Qed.

(* contrast: were the late reply delivered to the NEW socket (a client that
   reopens on the same local address), the new request would return the value
   meant for the old one - the empty stream of R1 is what the property rests on *)
Example c05c_contrast_shared_socket :
  map (option_map (fun r => cr_res r)) (tr_run FMbap c05c_cfg tr_init (c05c_script 1)) =
  [ Some (Err ETimeout); None; Some (Ok (VNums [100])) ].
Proof. vm_compute. reflexivity. Qed.

(* the hypotheses of R5 are satisfiable, and R5's conclusion on the script:
   the frame taken is the one addressed to socket 1 *)
Example c05c_script_ok :
  Forall tr_scall_ok [mktrscall c05c_read
     [(0, ThReply 0 (c05c_reply 100)); (1, ThReply 0 (c05c_reply 101))] Stall].
Proof.
  assert (Hop : op_wf c05c_read /\ valid_op c05c_read = true).
  { split; [|reflexivity]. cbn. repeat split; try reflexivity. left. reflexivity. }
  destruct Hop as [Hwf V].
  repeat constructor; try exact Hwf; try exact V; cbn; lia.
Qed.

(* arrivals between calls: a late reply that reaches the old socket before the
   Close() is gone with it; one addressed to the old socket after the reopen is
   not delivered *)
Example c05c_arrivals :
  map (option_map (fun r => cr_res r))
    (tr_run FMbap c05c_cfg tr_init
       [ TrCall (mktrcall c05c_read [] Stall);
         TrArrive [tr_dgram_of (0, ThReply 0 (c05c_reply 100))];
         TrReopen;
         TrArrive [tr_dgram_of (0, ThReply 0 (c05c_reply 100))];
         TrCall (mktrcall c05c_read [] Stall);
         TrCall (mktrcall c05c_read [tr_dgram_of (1, ThReply 1 (c05c_reply 102))] Stall) ]) =
  [ Some (Err ETimeout); None; None; None; Some (Err ETimeout); Some (Ok (VNums [102])) ].
Proof. vm_compute. reflexivity. Qed.

Print Assumptions c05c_reopen_restarts.
Print Assumptions c05c_socket_number.
Print Assumptions c05c_old_socket_bytes_dropped.
Print Assumptions c05c_old_replies_irrelevant.
Print Assumptions c05c_segment_is_fresh_history.
Print Assumptions c05c_no_stale_reply.
Print Assumptions c05c_request_id_after_reopen.
