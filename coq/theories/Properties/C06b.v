(* C06 - client-level clauses: a corrupted RTU reply is never reported as
   success, a wrong CRC field is rejected as such, and the next exchange
   succeeds after a rejection that triggers the resynchronisation flush.
   The unconditional form of the last clause is FALSE for the code as it is
   (finding F8, recorded in known_findings.json): c06_recovery_refuted.
   Statements only; proofs in Proofs/RtuRecoveryP.v. *)
From Modbus Require Import Base.Bytes Model.Crc Model.Encoding Model.Wire Model.Client
  Spec.ModbusSpec Spec.ClientSpec Proofs.CrcP Proofs.FramingP Proofs.RtuRecoveryP.

(* T3: every RTU frame sent ends with the low-byte-first CRC-16 of all
   preceding bytes (bit-serial reference) *)
Theorem c06_frame_sent : forall t p, bytesb ([p_unit p; p_fc p] ++ p_payload p) = true ->
  assemble_rtu p = spec_frame FRtu t p.
Proof. exact (fun t p => assemble_rtu_spec t p). Qed.

(* T6: for every request, every valid reply and every single-bit, double-bit
   (frames are at most 256 bytes) or <= 16-bit burst corruption of it, followed
   by anything: the call is not a success - whatever length the corrupted
   bytes make the receiver infer *)
Theorem c06_never_success : forall cfg txn o e res vs err post,
  op_wf o -> cfg_wf cfg -> txn < 65536 -> valid_op o = true ->
  bytesb (p_payload res) = true -> answers cfg o res vs ->
  let v := spec_frame FRtu 0 res in
  bytesb err = true -> length err = length v -> low_weight err -> bytesb post = true ->
  forall vs', cr_res (client_call FRtu cfg txn o e (xor_bytes v err ++ post)) <> Ok vs'.
Proof. exact corrupted_never_success. Qed.

(* T7: any CRC field that does not match is a bad-CRC error *)
Theorem c06_bad_crc_field : forall e unit fc b2 data lo hi rest,
  expected_len fc b2 = Some (lenN data) -> lenN data <= 251 ->
  crc_is_equal (crc16 ([unit; fc; b2] ++ data)) lo hi = false ->
  read_rtu e (([unit; fc; b2] ++ data) ++ [lo; hi] ++ rest) = (Err EBadCRC, rest).
Proof. exact read_rtu_bad_crc. Qed.

(* T8: after a rejection by bad CRC, protocol error or short frame at the
   transport (everything the peer sent, up to 1024 bytes, is flushed) the line
   is clean and the next exchange with a well-behaved device succeeds *)
Theorem c06_recovery : forall cfg txn o e s req x rest o2 e2 res2 vs2 post,
  client_request cfg o = Ok req -> (length s <= 1024)%nat ->
  rtu_read_response e s = (Err x, rest) -> flushes x = true ->
  op_wf o2 -> cfg_wf cfg -> valid_op o2 = true ->
  bytesb (p_payload res2) = true -> answers cfg o2 res2 vs2 ->
  let r1 := client_call FRtu cfg txn o e s in
  cr_res r1 = Err x /\ cr_rest r1 = [] /\
  let r2 := client_call FRtu cfg (cr_txn r1) o2 e2 (cr_rest r1 ++ spec_frame FRtu 0 res2 ++ post) in
  cr_res r2 = Ok vs2 /\ cr_rest r2 = post.
Proof. exact recovery_after_flush. Qed.

(* F8: the unconditional recovery clause does not hold: a single-bit flip can
   make a prefix of the reply parse as a complete, CRC-valid exception frame;
   it is not a success, but nothing is flushed and the next exchange fails *)
Theorem c06_recovery_refuted :
  answers f8_cfg f8_op f8_reply (VNums [0x40F3; 0x1234]) /\
  low_weight f8_flip /\ length f8_flip = length (spec_frame FRtu 0 f8_reply) /\
  answers f8_cfg f8_op f8_next (VNums [1; 2]) /\
  let r1 := client_call FRtu f8_cfg 0 f8_op Stall (xor_bytes (spec_frame FRtu 0 f8_reply) f8_flip) in
  cr_res r1 = Err (EExc 4) /\ cr_rest r1 <> [] /\
  let r2 := client_call FRtu f8_cfg (cr_txn r1) f8_op Stall (cr_rest r1 ++ spec_frame FRtu 0 f8_next) in
  cr_res r2 = Err EProtocol.
Proof. exact recovery_refuted. Qed.

Print Assumptions c06_frame_sent.
Print Assumptions c06_never_success.
Print Assumptions c06_bad_crc_field.
Print Assumptions c06_recovery.
Print Assumptions c06_recovery_refuted.
