(* C19, source level: the line timing of rtu_transport.go AS TRANSLATED FROM THE GO
   SOURCE ON THIS RUN. The clock is an external function: on worlds with a
   clock (time.Now reads it, time.Sleep(d) advances it by d when d is positive,
   as Go's does) and a log of the instants at which writes start:
   - against a silent peer, whatever the history (lastActivity before or after
     now): ExecuteRequest writes its frame exactly at max(now, lastActivity +
     t3.5), sets lastActivity to the end of the frame (+ length * t1) and starts
     reading t3.5 after that; WriteResponse stamps lastActivity likewise;
   - for ANY behaviour of the link (reads and deadlines may take any time and
     fail in any way): ExecuteRequest writes at most one frame, never before
     lastActivity + t3.5.
   Only statements, closed by [exact]. *)
From Coq Require Import List NArith String.
Import ListNotations.
From Modbus Require Import Base.Bytes.
From Modbus Require Import Model.GoLite.
From Modbus Require Import Gen.SrcPure.
From Modbus Require Import Model.Wire.
From Modbus Require Import Model.Transport.
From Modbus Require Import Proofs.GoLiteLinkP.
From Modbus Require Import Proofs.SrcCrcP.
From Modbus Require Import Proofs.SrcMiscP.
From Modbus Require Import Proofs.SrcClientP.
From Modbus Require Import Proofs.SrcTransportP.
From Modbus Require Import Proofs.TransportStreamP.
From Modbus Require Import Proofs.TransportClockP.
From Modbus Require Import Proofs.SrcTransportLinkP.
From Modbus Require Import Proofs.SrcTransportWorldsP.
Open Scope string_scope.
Open Scope N_scope.

Theorem c19t_ExecuteRequest_any_world :
  forall (base : fenv) (fuel : nat) (T : tworld) (tmo la t35 t1 : N) (req : pdu) (w : val),
       tworld_hyp base T "link" ->
       tworld_hyp base T "rtuLink" ->
       tworld_wf T src_codes ->
       pdu_ok req ->
       call_with src_pure base fuel "rtuTransport.ExecuteRequest"
         ([VN tmo; VN la; VN t35; VN t1] ++ pdu_args req ++ [w]) = out_rtu_execute T tmo la t35 t1 req w.
Proof. exact src_rtu_ExecuteRequest_ok. Qed.
Print Assumptions c19t_ExecuteRequest_any_world.

Theorem c19t_WriteResponse_any_world :
  forall (base : fenv) (fuel : nat) (T : tworld) (tmo la t35 t1 : N) (res0 : pdu) (w : val),
       tworld_hyp base T "link" ->
       pdu_ok res0 ->
       call_with src_pure base fuel "rtuTransport.WriteResponse"
         ([VN tmo; VN la; VN t35; VN t1] ++ pdu_args res0 ++ [w]) =
       out_rtu_write_response T tmo la t35 t1 res0 w.
Proof. exact src_rtu_WriteResponse_ok. Qed.
Print Assumptions c19t_WriteResponse_any_world.

Theorem c19t_clock_world_satisfies_the_hypotheses :
  forall sc : N, sc <> 0 -> sc <> c_ueof src_codes -> tworld_wf (clock_world sc) src_codes.
Proof. exact clock_world_wf. Qed.
Print Assumptions c19t_clock_world_satisfies_the_hypotheses.

Theorem c19t_ExecuteRequest_timing :
  forall (fuel : nat) (tmo la t35 t1 : N) (req : pdu) (c0 : N) (log : list val),
       c0 < 2 ^ 62 ->
       la < 2 ^ 62 ->
       t35 < 2 ^ 40 ->
       t1 < 2 ^ 40 ->
       lenN (assemble_rtu req) < 2 ^ 16 ->
       pdu_ok req ->
       let sc := c_timedout src_codes in
       let tw := N.max c0 (la + t35) in
       let busy := lenN (assemble_rtu req) * t1 in
       exists w' : val,
         call_with src_pure (world_base (clock_world sc)) fuel "rtuTransport.ExecuteRequest"
           ([VN tmo; VN la; VN t35; VN t1] ++ pdu_args req ++ [mkclock c0 log]) =
         GOk ([VN tmo; VN (tw + busy); VN t35; VN t1; w'] ++ enc_opdu None ++ [VN sc])%list /\
         log_of w' = (log ++ [VN tw])%list /\ clock_of w' = tw + busy + t35.
Proof. exact src_rtu_ExecuteRequest_timing. Qed.
Print Assumptions c19t_ExecuteRequest_timing.

Theorem c19t_ExecuteRequest_never_early :
  forall (T : tworld) (sc : N) (fuel : nat) (tmo la t35 t1 : N) (req : pdu) (c0 : N) (log : list val),
       (forall w : val, t_now T w = t_now (clock_world sc) w) ->
       (forall (w : val) (d : N), t_sleep T w d = t_sleep (clock_world sc) w d) ->
       (forall (w : val) (bs : list N), t_write T w bs = t_write (clock_world sc) w bs) ->
       (forall (w : val) (d : N),
        clock_of w < 2 ^ 62 -> clock_of w <= clock_of (fst (t_setdl T w d)) < 2 ^ 62) ->
       (forall (w : val) (d : N), log_of (fst (t_setdl T w d)) = log_of w) ->
       (forall (w : val) (n : N), log_of (fst (fst (t_readfull T w n))) = log_of w) ->
       tworld_wf T src_codes ->
       pdu_ok req ->
       c0 < 2 ^ 62 ->
       la < 2 ^ 62 ->
       t35 < 2 ^ 40 ->
       exists (la' : N) (w' : val) (p : option pdu) (c : N),
         call_with src_pure (world_base T) fuel "rtuTransport.ExecuteRequest"
           ([VN tmo; VN la; VN t35; VN t1] ++ pdu_args req ++ [mkclock c0 log]) =
         GOk ([VN tmo; VN la'; VN t35; VN t1; w'] ++ enc_opdu p ++ [VN c])%list /\
         (exists extra : list val,
            log_of w' = (log ++ extra)%list /\
            Forall (fun v : val => exists t : N, v = VN t /\ la + t35 <= t) extra).
Proof. exact src_rtu_ExecuteRequest_never_early. Qed.
Print Assumptions c19t_ExecuteRequest_never_early.

Theorem c19t_WriteResponse_timing :
  forall (fuel : nat) (sc tmo la t35 t1 : N) (res0 : pdu) (c0 : N) (log : list val),
       c0 < 2 ^ 62 ->
       t1 < 2 ^ 40 ->
       lenN (assemble_rtu res0) < 2 ^ 16 ->
       pdu_ok res0 ->
       exists w' : val,
         call_with src_pure (world_base (clock_world sc)) fuel "rtuTransport.WriteResponse"
           ([VN tmo; VN la; VN t35; VN t1] ++ pdu_args res0 ++ [mkclock c0 log]) =
         GOk [VN tmo; VN (c0 + lenN (assemble_rtu res0) * t1); VN t35; VN t1; w'; VN 0] /\
         log_of w' = (log ++ [VN c0])%list /\ clock_of w' = c0.
Proof. exact src_rtu_WriteResponse_timing. Qed.
Print Assumptions c19t_WriteResponse_timing.

