(* C05 - Replies are matched to requests by transaction id.
   Statements only; proofs in Proofs/TxnP.v (on top of Proofs/FramingP.v).
   Model: Model/Wire.v (readMBAPFrame, readResponse), Model/Client.v
   (ExecuteRequest, executeRequest), Model/TxnHistory.v (a history of calls on
   one client and one connection: the counter and the unread peer bytes are
   carried from call to call). Vocabulary: Spec/ClientSpec.v (skippable,
   spec_frame), Spec/TxnSpec.v (request numbering th_id, the peer's whole
   frames tagged with the request they answer, the matching rule th_take). *)
From Modbus Require Import Base.Bytes Model.Crc Model.Encoding Model.Wire Model.Client
  Model.TxnHistory Spec.ModbusSpec Spec.ClientSpec Spec.TxnSpec Proofs.TxnP.

(* ------------------------------------------------------------ one exchange *)

(* T1: the request goes out with the incremented counter t'; if the exchange
   returns a reply PDU, that PDU is the content of a frame of the stream, at a
   frame boundary, whose header carries protocol id 0 and transaction id t';
   every frame before it had a foreign protocol id or another transaction id;
   what follows it stays unread. Every byte stream. *)
Theorem c05_reply_matches : forall txn req e s p w rest t',
  bytesb s = true ->
  transport_exchange FMbap txn req e s = (Ok p, w, rest, t') ->
  t' = u16 (txn + 1) /\ w = [spec_frame FMbap t' req] /\
  exists frames,
    Forall (skippable t') frames /\
    s = concat frames ++ spec_frame FMbap t' p ++ rest /\
    lenN (p_payload p) <= 252.
Proof. exact exchange_reply_matches. Qed.

(* T2a: frames with a foreign protocol id or another transaction id - any
   number, any content - are never returned and have no influence at all: the
   outcome, the bytes left unread and the counter are those of the same
   stream without them *)
Theorem c05_skipped_transparent : forall txn req e frames rest,
  Forall (skippable (u16 (txn + 1))) frames ->
  transport_exchange FMbap txn req e (concat frames ++ rest) =
  transport_exchange FMbap txn req e rest.
Proof. exact exchange_skips. Qed.

(* T2b: a stream made only of such frames (followed by nothing, or by less
   than a header): the call reads on until the stream is exhausted and then
   fails with the error of the stream end - never with a reply *)
Theorem c05_keeps_waiting : forall txn req e frames tail,
  Forall (skippable (u16 (txn + 1))) frames -> (length tail < 7)%nat ->
  transport_exchange FMbap txn req e (concat frames ++ tail) =
  (Err (short_err e), [assemble_mbap (u16 (txn + 1)) req], [], u16 (txn + 1)).
Proof. exact exchange_waits. Qed.

(* ... which for a silent peer is the timeout, at the level of the public call *)
Theorem c05_call_times_out : forall cfg txn o frames tail,
  op_wf o -> valid_op o = true ->
  Forall (skippable (u16 (txn + 1))) frames -> (length tail < 7)%nat ->
  let r := client_call FMbap cfg txn o Stall (concat frames ++ tail) in
  cr_res r = Err ETimeout /\ cr_rest r = [] /\ cr_txn r = u16 (txn + 1).
Proof. intros cfg txn o. exact (call_waits cfg txn o Stall). Qed.

(* ------------------------------------------------------------ the counter *)

(* T3a: over any history (any byte streams, any outcomes) the counter
   advances by exactly one per transmitted request, modulo 2^16 *)
Theorem c05_counter : forall cfg xs st,
  Forall (fun x => op_wf (ths_op x)) xs -> th_txn st < 65536 ->
  th_txn (hist_final FMbap cfg st xs) = (th_txn st + th_sent xs) mod 65536.
Proof. exact hist_counter. Qed.

(* T3b: the request at any position of any history is sent with transaction id
   (counter + number of requests transmitted before it + 1) mod 2^16; locally
   rejected calls transmit nothing *)
Theorem c05_request_id : forall cfg st pre x post d,
  cfg_wf cfg -> th_txn st < 65536 ->
  Forall (fun x => op_wf (ths_op x)) (pre ++ x :: post) ->
  let r := nth (length pre) (hist_run FMbap cfg st (pre ++ x :: post)) d in
  (valid_op (ths_op x) = true ->
   cr_writes r = [spec_frame FMbap (th_id (th_txn st) (th_sent pre)) (spec_pdu cfg (ths_op x))]) /\
  (valid_op (ths_op x) = false -> cr_writes r = [] /\ cr_res r = Err EParams).
Proof. exact hist_request_id. Qed.

(* T3c: requests i and i + k carry different ids for 0 < k < 65536; the bound
   is exact (the 16-bit counter wraps); a fresh client starts with id 1 *)
Theorem c05_ids_distinct : forall txn0 i k, 0 < k < 65536 ->
  th_id txn0 (i + k) <> th_id txn0 i.
Proof. exact th_id_distinct. Qed.

Theorem c05_ids_period : forall txn0 i, th_id txn0 (i + 65536) = th_id txn0 i.
Proof. exact th_id_period. Qed.

Theorem c05_ids_fresh : forall i, i < 65535 -> th_id (th_txn th_init) i = i + 1.
Proof. exact th_id_fresh. Qed.

(* ------------------------------------------------------------ histories *)

(* T4a: every finite history in which the peer delivers whole frames, each
   either built as the reply to some request i (any i: on time, late, early,
   duplicated, in any order) or carrying a foreign protocol id, during any
   call. Request number j = length pre sees the frames still pending plus
   those delivered during the call, and
   - returns exactly what a lone, on-time delivery of the FIRST pending reply
     built for a request i with i = j (mod 2^16) would return, leaving the
     frames behind it pending, or
   - if there is no such frame, fails with the error of the stream end (the
     timeout for a silent peer) having passed over everything pending. *)
Theorem c05_history : forall cfg txn0 pend0 e0 pre x post d,
  txn0 < 65536 -> Forall th_frame_wf pend0 -> Forall th_sstep_ok (pre ++ x :: post) ->
  let j := lenN pre in
  let t := (txn0 + j) mod 65536 in
  let e := th_end_after (th_end_run e0 pre) (ss_end x) in
  let all := th_pending 0 pend0 pre ++ ss_frames x in
  let r := nth (length pre)
             (hist_run FMbap cfg (mkth txn0 (th_stream txn0 pend0) e0)
                (map (th_concrete txn0) (pre ++ x :: post))) d in
  match th_take j all with
  | Some (res, rest) =>
      cr_res r = cr_res (client_call FMbap cfg t (ss_op x) e (spec_frame FMbap (th_id txn0 j) res)) /\
      cr_rest r = th_stream txn0 rest
  | None => cr_res r = Err (short_err e) /\ cr_rest r = []
  end.
Proof. exact hist_frames. Qed.

(* the matching rule spelled out: the frame taken is tagged i = j (mod 2^16)
   and everything before it is passed over; nothing is taken iff every
   pending frame is passed over *)
Theorem c05_rule_some : forall j pend res rest,
  th_take j pend = Some (res, rest) <->
  exists skipped i,
    pend = skipped ++ ThReply i res :: rest /\ i mod 65536 = j mod 65536 /\
    Forall (fun f => th_accepts j f = false) skipped.
Proof. exact th_take_some. Qed.

Theorem c05_rule_none : forall j pend,
  th_take j pend = None <-> Forall (fun f => th_accepts j f = false) pend.
Proof. exact th_take_none. Qed.

(* T4b: if request j succeeds, the frame it consumed was built for a request i
   with i = j (mod 2^16), i.e. with j's transaction id *)
Theorem c05_no_misattribution : forall cfg txn0 pend0 e0 pre x post d vs,
  txn0 < 65536 -> Forall th_frame_wf pend0 -> Forall th_sstep_ok (pre ++ x :: post) ->
  let j := lenN pre in
  let r := nth (length pre)
             (hist_run FMbap cfg (mkth txn0 (th_stream txn0 pend0) e0)
                (map (th_concrete txn0) (pre ++ x :: post))) d in
  cr_res r = Ok vs ->
  exists skipped i res rest,
    th_pending 0 pend0 pre ++ ss_frames x = skipped ++ ThReply i res :: rest /\
    i mod 65536 = j mod 65536 /\
    th_id txn0 i = th_id txn0 j /\
    Forall (fun f => th_accepts j f = false) skipped /\
    cr_res (client_call FMbap cfg ((txn0 + j) mod 65536) (ss_op x)
              (th_end_after (th_end_run e0 pre) (ss_end x))
              (spec_frame FMbap (th_id txn0 j) res)) = Ok vs /\
    cr_rest r = th_stream txn0 rest.
Proof. exact hist_no_misattribution. Qed.

(* T4c: a late reply to request i is passed over by requests i+1 .. i+65535
   (and so are foreign-protocol frames by every request); at distance 65536
   the ids coincide and the stale reply is taken *)
Theorem c05_late_reply_passed_over : forall i k res, 0 < k < 65536 ->
  th_accepts (i + k) (ThReply i res) = false.
Proof. exact th_late_passed_over. Qed.

Theorem c05_foreign_passed_over : forall j t proto res,
  th_accepts j (ThForeign t proto res) = false.
Proof. exact th_foreign_passed_over. Qed.

Theorem c05_late_reply_at_wrap : forall i res, th_accepts (i + 65536) (ThReply i res) = true.
Proof. exact th_late_wrap. Qed.

(* ------------------------------------------------------------ non-vacuity *)

Definition c05_cfg : ccfg := mkcfg 1 BigE HighFirst.
Definition c05_read : op := OpReadRegs 1 0 1 Holding.
Definition c05_reply (v : N) : pdu := mkpdu 1 3 [2; v / 256; v mod 256].

(* a fresh client: request 0 gets nothing; during request 1 arrive the late
   reply to request 0, a foreign-protocol frame carrying request 1's id, the
   reply to request 1 - twice; request 2 finds the duplicate and nothing
   else; request 3 is answered on time *)
Definition c05_script : list th_sstep :=
  [ mksstep c05_read [] Stall;
    mksstep c05_read [ThReply 0 (c05_reply 100); ThForeign 2 7 (c05_reply 999);
                      ThReply 1 (c05_reply 101); ThReply 1 (c05_reply 101)] Stall;
    mksstep c05_read [] Stall;
    mksstep c05_read [ThReply 3 (c05_reply 103)] Stall ].

Example c05_script_ok : Forall th_sstep_ok c05_script.
Proof.
  assert (Hop : op_wf c05_read /\ valid_op c05_read = true).
  { split; [|reflexivity]. cbn. repeat split; try reflexivity. left. reflexivity. }
  destruct Hop as [Hwf V].
  assert (Hl : forall v, lenN (p_payload (c05_reply v)) <= 252) by (intros v; cbn; lia).
  repeat constructor; try exact Hwf; try exact V; try apply Hl; try lia; try reflexivity.
Qed.

Example c05_script_run :
  map (fun r => (cr_res r, cr_rest r))
      (hist_run FMbap c05_cfg th_init (map (th_concrete 0) c05_script)) =
  [ (Err ETimeout, []);
    (Ok (VNums [101]), th_stream 0 [ThReply 1 (c05_reply 101)]);
    (Err ETimeout, []);
    (Ok (VNums [103]), []) ].
Proof. vm_compute. reflexivity. Qed.

Example c05_script_ids :
  map cr_writes (hist_run FMbap c05_cfg th_init (map (th_concrete 0) c05_script)) =
  [ [[0;1; 0;0; 0;6; 1; 3; 0;0; 0;1]]; [[0;2; 0;0; 0;6; 1; 3; 0;0; 0;1]];
    [[0;3; 0;0; 0;6; 1; 3; 0;0; 0;1]]; [[0;4; 0;0; 0;6; 1; 3; 0;0; 0;1]] ].
Proof. vm_compute. reflexivity. Qed.

(* the counter wraps: after id 65535 comes id 0, and a stale frame carrying
   the id that is current 65536 requests later is taken *)
Example c05_wrap_ids : th_id 0 65534 = 65535 /\ th_id 0 65535 = 0 /\ th_id 0 65536 = 1 /\ th_id 0 0 = 1.
Proof. vm_compute. repeat split; reflexivity. Qed.

Example c05_wrap_run :
  map (fun r => (cr_res r, cr_txn r))
      (hist_run FMbap c05_cfg (mkth 65534 [] Stall)
         [ mkthstep c05_read (spec_frame FMbap 65535 (c05_reply 7)) Stall;
           mkthstep c05_read (spec_frame FMbap 65535 (c05_reply 8)) Stall;
           mkthstep c05_read (spec_frame FMbap 1 (c05_reply 9)) Stall ]) =
  [ (Ok (VNums [7]), 65535); (Err ETimeout, 0); (Ok (VNums [9]), 1) ].
Proof. vm_compute. reflexivity. Qed.

(* skippable frames exist: another transaction id, a foreign protocol id *)
Example c05_skippable_sat :
  Forall (skippable (u16 (4 + 1)))
    [ [0;4; 0;0; 0;5; 1; 3; 2; 0;9]; [0;5; 0;7; 0;5; 1; 3; 2; 0;9] ].
Proof.
  constructor; [|constructor; [|constructor]].
  - exists 4, 0, 1, 3, [2; 0; 9]. split; [reflexivity|].
    unfold lenN, u16. cbn [length]. repeat split; lia.
  - exists 5, 7, 1, 3, [2; 0; 9]. split; [reflexivity|].
    unfold lenN, u16. cbn [length]. repeat split; lia.
Qed.

Print Assumptions c05_reply_matches.
Print Assumptions c05_skipped_transparent.
Print Assumptions c05_keeps_waiting.
Print Assumptions c05_call_times_out.
Print Assumptions c05_counter.
Print Assumptions c05_request_id.
Print Assumptions c05_ids_distinct.
Print Assumptions c05_ids_period.
Print Assumptions c05_ids_fresh.
Print Assumptions c05_history.
Print Assumptions c05_rule_some.
Print Assumptions c05_rule_none.
Print Assumptions c05_no_misattribution.
Print Assumptions c05_late_reply_passed_over.
Print Assumptions c05_foreign_passed_over.
Print Assumptions c05_late_reply_at_wrap.
