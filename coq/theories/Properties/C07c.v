(* C07c - "a valid reply that arrives before the timeout is never turned into
   a timeout": for EVERY call of a connection that stays in use, not only for
   the first calls of a fresh one. Statements only; proofs in
   Proofs/TimedSteadyP.v.

   Model/TimedSteady.v makes a session (Model/TimedWrite.v tm_session_w) out
   of a list of (operation, its valid reply PDU, what the peer does): the
   peer reads every request and answers it within the timeout with a frame
   that carries the transaction id of the request - possibly after a
   well-formed frame with a foreign id -, or stays silent for once. The
   transport keeps a 16-bit transaction counter per connection (tm_next_txn);
   no theorem bounds the length of the session, so the counter goes through
   every value and starts again as often as one likes, and no theorem fixes
   the value it has when the session starts. *)
From Modbus Require Import Base.Bytes Model.Crc Model.Encoding Model.Wire Model.Client
  Model.Timed Model.TimedSession Model.TimedWrite Model.TimedSteady
  Spec.ModbusSpec Spec.ClientSpec Spec.TimedSpec Spec.TimedWriteSpec Spec.TimedSteadySpec
  Proofs.TimedSteadyP.

(* every call of every session: the values of its reply within the timeout;
   a silence costs exactly one request-timed-out (at the deadline) and leaves
   the calls after it unharmed *)
Theorem c07c_steady_session_mbap : forall k cfg, cfg_wf cfg -> (0 <= tm_timeout k)%Z ->
  forall l la txn room now, txn < 65536 -> Forall (tm_item_wf k cfg) l ->
  Forall2 (tm_step_ok k cfg) l
    (tm_session_w FMbap k cfg la txn room now [] (tm_steady_calls FMbap cfg txn l)).
Proof. exact tm_steady_session_mbap. Qed.

(* the converse clause for whole sessions: a peer that answers every request
   in time is never reported as timed out (or as anything but its values),
   however many requests the connection has carried *)
Theorem c07c_alive_never_fails_mbap : forall k cfg, cfg_wf cfg -> (0 <= tm_timeout k)%Z ->
  forall l la txn room now, txn < 65536 -> Forall (tm_item_wf k cfg) l ->
  Forall (fun it => snd it <> PaSilent) l ->
  Forall (fun st => exists vs, tws_res st = Ok vs)
    (tm_session_w FMbap k cfg la txn room now [] (tm_steady_calls FMbap cfg txn l)).
Proof. exact tm_alive_session_mbap. Qed.

(* the transaction counter stays a 16-bit value for ever (Proofs/TimedSteadyP.v
   tm_next_txn_u16), every timely reply is consumed to its last byte
   (tm_timely_mbap_clean), and the i-th request of a session carries the id
   (start + 1 + i) mod 2^16 *)
Theorem c07c_request_ids : forall cfg l txn,
  Forall (fun it => op_wf (fst (fst it)) /\ valid_op (fst (fst it)) = true) l ->
  tm_steady_ids cfg txn l = map (fun i => u16 (txn + 1 + N.of_nat i)) (seq 0 (length l)).
Proof. exact tm_steady_ids_step. Qed.

(* ------------------------------------------------------------ non-vacuity *)

Definition exc_k : tm_conf := mk_tm_conf 1000000000 0 0 0.   (* 1 s, a socket *)
Definition exc_cfg : ccfg := mkcfg 1 BigE HighFirst.
Definition exc_o : op := OpReadRegs 1 0x10 1 Holding.
Definition exc_res : pdu := mkpdu 1 3 [2; 0xab; 0xcd].
Definition exc_proj (l : list tm_wstep) :=
  map (fun st => (tws_res st, (tws_finish st - tws_start st)%Z)) l.

Example c07c_ex_item : forall a, tm_act_wf exc_k a -> tm_item_wf exc_k exc_cfg (exc_o, exc_res, a).
Proof.
  intros a Ha. unfold tm_item_wf, exc_o, exc_res, exc_cfg, op_wf, answers.
  cbn [p_unit p_fc p_payload c_unit c_endian c_word].
  split; [lia|]. split; [vm_compute; reflexivity|]. split; [vm_compute; reflexivity|].
  split; [vm_compute; discriminate|]. split; [|exact Ha].
  exists (VNums [0xabcd]). split; [reflexivity|]. split; [vm_compute; reflexivity|].
  exists [0xabcd]. split; [vm_compute; reflexivity|]. split; [reflexivity|].
  split; [|reflexivity]. constructor; [|constructor]. cbn. lia.
Qed.

Example c07c_ex_hyps : cfg_wf exc_cfg /\ (0 <= tm_timeout exc_k)%Z /\
  Forall (tm_item_wf exc_k exc_cfg)
    [(exc_o, exc_res, PaReply 0); (exc_o, exc_res, PaSilent); (exc_o, exc_res, PaForeign 0xffff);
     (exc_o, exc_res, PaReply 500000000)].
Proof.
  split; [vm_compute; reflexivity|]. split; [vm_compute; discriminate|].
  repeat (apply Forall_cons; [apply c07c_ex_item; cbn [tm_act_wf exc_k tm_timeout]; (exact I || lia)|]).
  apply Forall_nil.
Qed.

(* a connection that has already carried 65533 requests: the next ones bear
   the ids fffe, ffff, 0000, 0001, 0002 - each is answered; the silence on the
   id 0000 costs that one call, the stale frame (id ffff on the request 0001)
   is passed over *)
Example c07c_ex_ids :
  tm_steady_ids exc_cfg 65533 (repeat (exc_o, exc_res, PaReply 0) 5) = [0xfffe; 0xffff; 0; 1; 2].
Proof. vm_compute. reflexivity. Qed.

Example c07c_ex_wrap :
  exc_proj (tm_session_w FMbap exc_k exc_cfg 0 65533 0 1000 []
    (tm_steady_calls FMbap exc_cfg 65533
       [(exc_o, exc_res, PaReply 0); (exc_o, exc_res, PaReply 7000); (exc_o, exc_res, PaSilent);
        (exc_o, exc_res, PaForeign 0xfffe); (exc_o, exc_res, PaReply 0)]))
  = [(Ok (VNums [0xabcd]), 0%Z); (Ok (VNums [0xabcd]), 7000%Z); (Err ETimeout, 1000000000%Z);
     (Ok (VNums [0xabcd]), 0%Z); (Ok (VNums [0xabcd]), 0%Z)].
Proof. vm_compute. reflexivity. Qed.

Print Assumptions c07c_steady_session_mbap.
Print Assumptions c07c_alive_never_fails_mbap.
Print Assumptions c07c_request_ids.
