(* C05 - Replies are matched to requests by transaction id: histories in which
   the application changes the unit id between requests on ONE connection
   (SetUnitId; one client and one MBAP connection used for several units, e.g.
   the devices behind a gateway).
   Statements only; proofs in Proofs/TxnUnitsP.v (on top of Proofs/TxnP.v).
   Model: Model/TxnUnits.v (a step is a call of Model/TxnHistory.v under the
   unit id currently set, or a unit change; the transaction counter and the
   unread peer bytes belong to the CONNECTION and are independent of the unit
   id). Vocabulary: Spec/TxnUnitsSpec.v (the requests of the connection are
   numbered in the order they are made, to whatever unit; the matching rule
   th_take of Spec/TxnSpec.v on that numbering). *)
From Modbus Require Import Base.Bytes Model.Crc Model.Encoding Model.Wire Model.Client
  Model.TxnHistory Model.TxnUnits Spec.ModbusSpec Spec.ClientSpec Spec.TxnSpec
  Spec.TxnUnitsSpec Proofs.TxnP Proofs.TxnUnitsP.

(* U1: what a call leaves behind on the connection - the counter, the unread
   bytes, the end-of-stream condition - does not depend on the client's
   configuration, in particular not on the unit id the request is addressed
   to. Every byte stream. *)
Theorem c05u_state_unit_independent : forall cfg cfg' st x, op_wf (ths_op x) ->
  fst (hist_step FMbap cfg st x) = fst (hist_step FMbap cfg' st x).
Proof. exact hist_step_state_cfg. Qed.

(* U2: after any steps the unit id is that of the last unit change and the
   connection state is that of the calls alone (made under any configuration
   cfg0): a unit change touches neither the counter nor the unread bytes *)
Theorem c05u_final : forall cfg0 xs cfg st, Forall thu_step_wf xs ->
  histu_final FMbap (cfg, st) xs =
  (thu_set_unit cfg (thu_unit_run (c_unit cfg) xs), hist_final FMbap cfg0 st (thu_erase xs)).
Proof. exact histu_final_split. Qed.

(* U3: every call of every history with unit changes (any byte streams)
   returns exactly what it returns in the history made of the same calls
   without unit changes, all requests going out under the unit id in force at
   that call; a unit change returns nothing. With this every history theorem
   of Properties/C05.v carries over. *)
Theorem c05u_call_single_unit : forall cfg st pre x post d d',
  Forall thu_step_wf pre ->
  let cfg' := thu_set_unit cfg (thu_unit_run (c_unit cfg) pre) in
  nth (length pre) (histu_run FMbap (cfg, st) (pre ++ UCall x :: post)) d =
  Some (nth (length (thu_erase pre))
          (hist_run FMbap cfg' st (thu_erase pre ++ x :: thu_erase post)) d').
Proof. exact histu_call_single_unit. Qed.

Theorem c05u_setunit_returns_nothing : forall fr cs pre u post d,
  nth (length pre) (histu_run fr cs (pre ++ USetUnit u :: post)) d = None.
Proof. exact histu_setunit_none. Qed.

(* U4: the counter advances by exactly one per transmitted request of the
   connection, modulo 2^16, to whatever units the requests are addressed *)
Theorem c05u_counter : forall cfg xs st,
  Forall thu_step_wf xs -> th_txn st < 65536 ->
  th_txn (snd (histu_final FMbap (cfg, st) xs)) = (th_txn st + th_sent (thu_erase xs)) mod 65536.
Proof. exact histu_counter. Qed.

(* U5: the request at any position is sent with transaction id (counter +
   number of requests transmitted on the connection before it - to ANY unit -
   + 1) mod 2^16 and is addressed to the unit of the last unit change. By
   c05_ids_distinct two requests of a connection less than 65536 requests apart
   therefore carry different ids whether or not they go to the same unit. *)
Theorem c05u_request_id : forall cfg st pre x post d,
  cfg_wf cfg -> th_txn st < 65536 -> Forall thu_step_wf (pre ++ UCall x :: post) ->
  let u := thu_unit_run (c_unit cfg) pre in
  exists r,
    nth (length pre) (histu_run FMbap (cfg, st) (pre ++ UCall x :: post)) d = Some r /\
    (valid_op (ths_op x) = true ->
     cr_writes r = [spec_frame FMbap (th_id (th_txn st) (th_sent (thu_erase pre)))
                      (spec_pdu (thu_set_unit cfg u) (ths_op x))] /\
     p_unit (spec_pdu (thu_set_unit cfg u) (ths_op x)) = u) /\
    (valid_op (ths_op x) = false -> cr_writes r = [] /\ cr_res r = Err EParams).
Proof. exact histu_request_id. Qed.

(* U6: every finite history with unit changes in which the peer delivers whole
   frames, each built as the reply to some request i of the connection (on
   time, late, early, duplicated, carrying whatever unit id - the one request i
   was addressed to or any other) or carrying a foreign protocol id: request
   number j (counting all requests of the connection) returns what a lone,
   on-time delivery of the FIRST pending reply built for a request i = j
   (mod 2^16) would return under the unit id in force, else the error of the
   stream end after passing over everything pending. In particular the late
   reply to a timed-out request to unit A that arrives during a request to
   unit B is passed over. *)
Theorem c05u_history : forall cfg txn0 pend0 e0 pre x post d,
  txn0 < 65536 -> Forall th_frame_wf pend0 -> Forall thu_sstep_ok (pre ++ SCall x :: post) ->
  let calls := thu_calls pre in
  let j := lenN calls in
  let cfg' := thu_set_unit cfg (thu_unit_after (c_unit cfg) pre) in
  let t := (txn0 + j) mod 65536 in
  let e := th_end_after (th_end_run e0 calls) (ss_end x) in
  let all := th_pending 0 pend0 calls ++ ss_frames x in
  exists r,
    nth (length pre)
      (histu_run FMbap (cfg, mkth txn0 (th_stream txn0 pend0) e0)
         (map (thu_concrete txn0) (pre ++ SCall x :: post))) d = Some r /\
    match th_take j all with
    | Some (res, rest) =>
        cr_res r = cr_res (client_call FMbap cfg' t (ss_op x) e (spec_frame FMbap (th_id txn0 j) res)) /\
        cr_rest r = th_stream txn0 rest
    | None => cr_res r = Err (short_err e) /\ cr_rest r = []
    end.
Proof. exact histu_frames. Qed.

(* U7: a request that succeeds consumed a frame built for a request of the
   connection with its own number modulo 2^16, i.e. with its own id *)
Theorem c05u_no_misattribution : forall cfg txn0 pend0 e0 pre x post d,
  txn0 < 65536 -> Forall th_frame_wf pend0 -> Forall thu_sstep_ok (pre ++ SCall x :: post) ->
  let calls := thu_calls pre in
  let j := lenN calls in
  exists r,
    nth (length pre)
      (histu_run FMbap (cfg, mkth txn0 (th_stream txn0 pend0) e0)
         (map (thu_concrete txn0) (pre ++ SCall x :: post))) d = Some r /\
    forall vs, cr_res r = Ok vs ->
    exists skipped i res rest,
      th_pending 0 pend0 calls ++ ss_frames x = skipped ++ ThReply i res :: rest /\
      i mod 65536 = j mod 65536 /\
      th_id txn0 i = th_id txn0 j /\
      Forall (fun f => th_accepts j f = false) skipped /\
      cr_rest r = th_stream txn0 rest.
Proof. exact histu_no_misattribution. Qed.

(* ------------------------------------------------------------ non-vacuity *)

Definition c05u_cfg : ccfg := mkcfg 1 BigE HighFirst.
Definition c05u_read : op := OpReadRegs 1 0 1 Holding.
Definition c05u_reply (unit v : N) : pdu := mkpdu unit 3 [2; v / 256; v mod 256].

(* a fresh client set to unit 1: request 0 (unit 1) gets nothing; the
   application switches to unit 2; during request 1 (unit 2) arrive the late
   reply of unit 1 to request 0 and then unit 2's reply to request 1; back to
   unit 1: request 2 finds a late duplicate of unit 2's reply and then its own *)
Definition c05u_script : list thu_sstep :=
  [ SCall (mksstep c05u_read [] Stall);
    SSetUnit 2;
    SCall (mksstep c05u_read [ThReply 0 (c05u_reply 1 100); ThReply 1 (c05u_reply 2 101)] Stall);
    SSetUnit 1;
    SCall (mksstep c05u_read [ThReply 1 (c05u_reply 2 101); ThReply 2 (c05u_reply 1 102)] Stall) ].

Example c05u_script_ok : Forall thu_sstep_ok c05u_script.
Proof.
  assert (Hop : op_wf c05u_read /\ valid_op c05u_read = true).
  { split; [|reflexivity]. cbn. repeat split; try reflexivity. left. reflexivity. }
  destruct Hop as [Hwf V].
  assert (Hl : forall u v, lenN (p_payload (c05u_reply u v)) <= 252) by (intros u v; cbn; lia).
  repeat constructor; try exact Hwf; try exact V; try apply Hl; try lia; try reflexivity.
Qed.

Example c05u_script_run :
  map (option_map (fun r => (cr_res r, cr_rest r)))
      (histu_run FMbap (c05u_cfg, th_init) (map (thu_concrete 0) c05u_script)) =
  [ Some (Err ETimeout, []); None;
    Some (Ok (VNums [101]), []); None;
    Some (Ok (VNums [102]), []) ].
Proof. vm_compute. reflexivity. Qed.

(* ids 1, 2, 3 on the connection; unit bytes 1, 2, 1 *)
Example c05u_script_ids :
  map (option_map cr_writes)
      (histu_run FMbap (c05u_cfg, th_init) (map (thu_concrete 0) c05u_script)) =
  [ Some [[0;1; 0;0; 0;6; 1; 3; 0;0; 0;1]]; None;
    Some [[0;2; 0;0; 0;6; 2; 3; 0;0; 0;1]]; None;
    Some [[0;3; 0;0; 0;6; 1; 3; 0;0; 0;1]] ].
Proof. vm_compute. reflexivity. Qed.

Print Assumptions c05u_state_unit_independent.
Print Assumptions c05u_final.
Print Assumptions c05u_call_single_unit.
Print Assumptions c05u_setunit_returns_nothing.
Print Assumptions c05u_counter.
Print Assumptions c05u_request_id.
Print Assumptions c05u_history.
Print Assumptions c05u_no_misattribution.
