(* C18b - the deepening of C18 (calls never modify caller data, returned data
   stays stable). Statements only; proofs in Proofs/HeapValuesP.v.

   C18 proves WHERE the data of a call lives (Model/Heap.v) and that the
   frames it transmits are those of the value-level client model
   (Model/Client.v, the model C01 / C02 are about). Here:

   V  the VALUES a call returns - the elements of the returned slice, read
      through the heap the call leaves (spec_result_values) - are exactly the
      values the value-level client_call returns: same Ok / Err outcome, for
      Ok the decoded list, for ReadBytes / ReadRawBytes the bytes after the
      in-place swap in the receive buffer and the cut of an odd quantity;
      the whole call refines client_call (frames, bytes left unread,
      transaction counter). So the slices whose stability C18 proves hold the
      very values C02 characterises.
   J  the same, and the frame theorem of C18, for calls that also leave
      behind the receive buffers of skipped / rejected frames, the RTU
      resynchronisation buffer and the temporaries of the float decoders
      (Model/HeapJunk.v: arbitrary left-over arrays).
   S  histories in which the caller's own code stores into any array between
      the calls (vocabulary: Spec/AliasValuesSpec.v). *)
From Coq Require Import List.
From Modbus Require Import Base.Bytes Model.Crc Model.Encoding Model.Wire Model.Client Model.Heap
  Model.HeapJunk Spec.ModbusSpec Spec.ClientSpec Spec.AliasSpec Spec.AliasValuesSpec
  Proofs.HeapValuesP.

(* ------------------------------------------------------------- V: values *)

(* every read call (every call without a slice argument), every heap, every
   reply stream, framing, encoding, growth policy: what the caller reads
   through the returned slice after the call is what client_call returns *)
Theorem c18_result_values : forall gr fr cfg txn ro e s h,
  spec_result_values (snd (hp_call gr fr cfg txn (HpOther ro) e s h))
                     (hr_res (fst (hp_call gr fr cfg txn (HpOther ro) e s h))) =
  cr_res (client_call fr cfg txn ro e s).
Proof. exact c18b_read_values. Qed.

(* every call: the heap-level call, seen at the value level, IS the
   value-level call on the content the argument slice has when the call is
   made - result, transmitted frames (C18's c18_wire_bytes is the second
   component), peer bytes left unread, transaction counter *)
Theorem c18_call_refines_value_model : forall gr fr cfg txn o e s h,
  args_are_caller_slices o h ->
  spec_call_view (snd (hp_call gr fr cfg txn o e s h)) (fst (hp_call gr fr cfg txn o e s h)) =
  client_call fr cfg txn (hp_value_op o h) e s.
Proof. exact c18b_call. Qed.

(* histories (those of c18_results_stable): the values a call returned,
   re-read after any number of later calls and caller allocations, are still
   the values of the value-level call; counter and unread bytes carry on as
   in the value-level model *)
Theorem c18_result_values_stable : forall gr fr c cfg o e chunk evs,
  args_are_caller_slices o (hc_heap c) ->
  let c1 := hp_step gr fr c (HeCall cfg o e chunk) in
  let c2 := hp_run gr fr c1 evs in
  let v := client_call fr cfg (hc_txn c) (hp_value_op o (hc_heap c)) e (hc_left c ++ chunk) in
  spec_result_values (hc_heap c2)
    (hr_res (fst (hp_call gr fr cfg (hc_txn c) o e (hc_left c ++ chunk) (hc_heap c)))) = cr_res v /\
  hc_txn c1 = cr_txn v /\ hc_left c1 = cr_rest v.
Proof. exact c18b_values_stable. Qed.

(* consequently what C02 proves of client_call holds of the slices: success
   only on a well-formed reply to this very request, found at a frame
   boundary, and the ELEMENTS OF THE RETURNED SLICE are the requested values
   decoded from that reply (answers: Spec/ClientSpec.v) *)
Theorem c18_returned_slice_answers_request : forall gr fr cfg txn o e s h vs,
  args_are_caller_slices o h ->
  op_wf (hp_value_op o h) -> cfg_wf cfg -> txn < 65536 -> bytesb s = true ->
  spec_result_values (snd (hp_call gr fr cfg txn o e s h))
                     (hr_res (fst (hp_call gr fr cfg txn o e s h))) = Ok vs ->
  valid_op (hp_value_op o h) = true /\
  exists res pre post,
    answers cfg (hp_value_op o h) res vs /\
    s = pre ++ spec_frame fr (u16 (txn + 1)) res ++ post /\
    hr_rest (fst (hp_call gr fr cfg txn o e s h)) = post /\
    match fr with
    | FMbap => exists frames, pre = concat frames /\ Forall (skippable (u16 (txn + 1))) frames
    | FRtu => pre = []
    end.
Proof. exact c18b_sound. Qed.

(* and no reply stream drives a call into an out-of-range index or slice
   expression on its buffers (the heap model panics on those) *)
Theorem c18_no_out_of_range : forall gr fr cfg txn o e s h,
  args_are_caller_slices o h -> op_wf (hp_value_op o h) ->
  hr_res (fst (hp_call gr fr cfg txn o e s h)) <> Panic /\
  hr_res (fst (hp_call gr fr cfg txn o e s h)) <> OutOfFuel.
Proof. exact c18b_no_panic. Qed.

(* ------------------------------------------------ J: left-over buffers *)

(* hj_call = hp_call + arbitrary arrays j1 (receive buffers of frames the
   transport skipped or rejected, discard buffer) and j2 (decoder
   temporaries) left on the heap; without them it is hp_call *)
Theorem c18_leftover_none : forall gr fr cfg txn o e s h,
  hj_call gr fr cfg txn o e s [] [] h = hp_call gr fr cfg txn o e s h.
Proof. exact hjp_call_nil. Qed.

Theorem c18_leftover_memory_untouched : forall gr fr cfg txn o e s j1 j2 h,
  memory_untouched h (snd (hj_call gr fr cfg txn o e s j1 j2 h)).
Proof. exact c18b_junk_memory. Qed.

Theorem c18_leftover_results_allocated_by_the_call : forall gr fr cfg txn o e s j1 j2 h,
  Forall (allocated_between h (snd (hj_call gr fr cfg txn o e s j1 j2 h)))
         (hv_slices (hr_res (fst (hj_call gr fr cfg txn o e s j1 j2 h)))).
Proof. exact c18b_junk_fresh. Qed.

Theorem c18_leftover_call_refines_value_model : forall gr fr cfg txn o e s j1 j2 h,
  args_are_caller_slices o h ->
  spec_call_view (snd (hj_call gr fr cfg txn o e s j1 j2 h))
                 (fst (hj_call gr fr cfg txn o e s j1 j2 h)) =
  client_call fr cfg txn (hp_value_op o h) e s.
Proof. exact c18b_junk_call. Qed.

(* ------------------------------------------- S: the caller stores, too *)

(* histories of caller stores (into ANY array: arguments, spare capacity,
   results), caller allocations and calls with left-over buffers: the arrays
   that existed at any point of a history end up exactly as the caller's own
   stores of the rest of the history leave them - the calls in between (any
   operations, settings, replies) contribute nothing *)
Theorem c18_only_caller_stores_alter : forall gr fr c evs,
  firstn (length (hc_heap c)) (hc_heap (hx_run gr fr c evs)) = hx_caller_only evs (hc_heap c).
Proof. exact c18b_caller_only. Qed.

(* in particular every slice returned so far, contents and spare capacity *)
Theorem c18_results_stable_but_for_caller_stores : forall gr fr h0 txn0 left0 evs1 evs2 r,
  let c1 := hx_run gr fr (mkhc h0 txn0 left0 []) evs1 in
  let c2 := hx_run gr fr c1 evs2 in
  In r (hc_results c1) ->
  spec_contents (hc_heap c2) r = spec_contents (hx_caller_only evs2 (hc_heap c1)) r /\
  spec_room (hc_heap c2) r = spec_room (hx_caller_only evs2 (hc_heap c1)) r.
Proof. exact c18b_results_stores. Qed.

(* and the values of a call made at any point of such a history (the caller
   may have overwritten the argument or earlier results before): right after
   the call they are the value-level values for the content the argument has
   THEN; later they are what the caller's own stores made of them *)
Theorem c18_history_values : forall gr fr c cfg o e chunk j1 j2 evs,
  args_are_caller_slices o (hc_heap c) ->
  let c1 := hx_step gr fr c (HxCall cfg o e chunk j1 j2) in
  let c2 := hx_run gr fr c1 evs in
  let res := hr_res (fst (hj_call gr fr cfg (hc_txn c) o e (hc_left c ++ chunk) j1 j2 (hc_heap c))) in
  let v := client_call fr cfg (hc_txn c) (hp_value_op o (hc_heap c)) e (hc_left c ++ chunk) in
  spec_result_values (hc_heap c1) res = cr_res v /\
  hc_txn c1 = cr_txn v /\ hc_left c1 = cr_rest v /\
  spec_result_values (hc_heap c2) res = spec_result_values (hx_caller_only evs (hc_heap c1)) res.
Proof. exact c18b_history_values. Qed.

(* the histories of C18 are the special case: no stores, no left-overs *)
Theorem c18_histories_generalised : forall gr fr evs c,
  hx_run gr fr c (map hx_of_event evs) = hp_run gr fr c evs /\
  hx_caller_only (map hx_of_event evs) (hc_heap c) = hc_heap c.
Proof. exact c18b_no_stores. Qed.

(* -------------------------------------------------------- non-vacuity *)

(* ReadBytes, little endian, odd quantity 3, over RTU: the reply carries
   0a 0b 0c 0d; the slice returned (an interior window of the 256-byte
   receive buffer, swapped in place and cut) holds 0b 0a 0d - which is what
   client_call returns *)
Example c18b_ex_read_bytes :
  let cfg := mkcfg 1 LittleE HighFirst in
  let reply := [1; 3; 4; 0x0a; 0x0b; 0x0c; 0x0d] ++ crc_bytes [1; 3; 4; 0x0a; 0x0b; 0x0c; 0x0d] in
  let '(r, h') := hp_call hp_gr_double FRtu cfg 0 (HpOther (OpReadBytes false 0 3 Holding)) Stall reply [] in
  cr_res (client_call FRtu cfg 0 (OpReadBytes false 0 3 Holding) Stall reply) = Ok (VBytes [0x0b; 0x0a; 0x0d]) /\
  spec_result_values h' (hr_res r) = Ok (VBytes [0x0b; 0x0a; 0x0d]) /\
  hr_res r = Ok (HvBytes (mkhs 4 3 3 253)).
Proof. vm_compute. repeat split; reflexivity. Qed.

(* a foreign frame first (skipped: its two buffers are left over), then the
   reply; ReadUint32s; the caller then overwrites the first element of the
   result and reads again: the later call leaves the caller's value alone *)
Example c18b_ex_history :
  let cfg := mkcfg 1 BigE HighFirst in
  let foreign := [0; 9; 0; 0; 0; 3; 1; 3; 0] in
  let reply1 := [0; 1; 0; 0; 0; 7; 1; 3; 4; 0x0a; 0x0b; 0x0c; 0x0d] in
  let reply2 := [0; 2; 0; 0; 0; 5; 1; 3; 2; 0xee; 0xff] in
  let c1 := hx_run hp_gr_double FMbap (mkhc [] 0 [] [])
              [HxCall cfg (HpOther (OpReadRegs 2 0 1 Holding)) Stall (foreign ++ reply1)
                      [[0; 9; 0; 0; 0; 3; 1]; [3; 0]] [[0x0a0b0c0d]]] in
  match hc_results c1 with
  | [r] =>
      spec_contents (hc_heap c1) r = [0x0a0b0c0d] /\
      let c2 := hx_run hp_gr_double FMbap c1
                  [HxStore (hs_arr r) (hs_off r) [7];
                   HxCall cfg (HpOther (OpReadRegs 1 0 1 Holding)) Stall reply2 [] []] in
      length (hc_results c2) = 2%nat /\ spec_contents (hc_heap c2) r = [7] /\ hc_txn c2 = 2
  | _ => False
  end.
Proof. vm_compute. repeat split; reflexivity. Qed.

Print Assumptions c18_result_values.
Print Assumptions c18_call_refines_value_model.
Print Assumptions c18_result_values_stable.
Print Assumptions c18_returned_slice_answers_request.
Print Assumptions c18_no_out_of_range.
Print Assumptions c18_leftover_none.
Print Assumptions c18_leftover_memory_untouched.
Print Assumptions c18_leftover_results_allocated_by_the_call.
Print Assumptions c18_leftover_call_refines_value_model.
Print Assumptions c18_only_caller_stores_alter.
Print Assumptions c18_results_stable_but_for_caller_stores.
Print Assumptions c18_history_values.
Print Assumptions c18_histories_generalised.
