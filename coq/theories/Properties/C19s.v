(* C19, source level: serialCharTime AS TRANSLATED FROM THE GO SOURCE ON THIS
   RUN (Gen/SrcPure.v) is the model's character time (eleven bit times,
   truncated to the nanosecond) for every rate that fits Go's int64; rate 0
   is a division by zero. Only statements, closed by [exact].
   [call_with src_pure no_fns] runs a function of the translated program with no
   external functions under it. *)
From Coq Require Import List NArith ZArith String.
Import ListNotations.
From Modbus Require Import Base.Bytes Model.GoLite Gen.SrcPure Model.Timing.
From Modbus Require Import Proofs.GoLiteLinkP Proofs.SrcCrcP Proofs.SrcMiscP.
Open Scope string_scope.
Open Scope N_scope.

Theorem c19s_char_time : forall fuel rate, 0 < rate -> rate < 2 ^ 63 ->
  call_with src_pure no_fns fuel "serialCharTime" [VN rate] = GoLite.Ok [VN (Z.to_N (char_time (Z.of_N rate)))].
Proof. exact (src_serialCharTime_ok no_fns). Qed.
Print Assumptions c19s_char_time.

Example c19s_check_9600 :
  call_with src_pure no_fns 0 "serialCharTime" [VN 9600] = GoLite.Ok [VN 1145833].
Proof. vm_compute. reflexivity. Qed.
