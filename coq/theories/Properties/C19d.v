(* C19, bytes that reach the client while it is idle: "an RTU client never
   starts transmitting a request earlier than the inter-frame delay after the
   end of the previous frame it received" - also when that frame is the late
   reply to a request that timed out, or a frame nobody asked for, that
   arrived between two calls and was read when the next call began or during
   it. Only statements here; proofs live in Proofs/TimingIdleP.v. What the
   client does with buffered bytes at the beginning of a call is a component
   of the model (an entry rule); the silence is kept for every session
   (calls, idle times, arrivals), every clock and every content of the link's
   buffer whenever the rule records the instant after a read that took bytes. *)
From Modbus Require Import Base.Bytes Model.Timing Model.TimingIdle Proofs.TimingP Proofs.TimingIdleP.
Local Open Scope Z_scope.

(* all ordered pairs (a read that took bytes, a later request) of every session *)
Theorem c19d_silence : forall rule t1 t35 steps s,
  stamps rule -> 0 <= t1 -> 0 <= t35 -> Forall istep_ok steps ->
  ForallOrdPairs (quiet t35) (irun rule t1 t35 s steps).
Proof. exact irun_quiet_all. Qed.

(* by position, at the delays of a rate of the property *)
Theorem c19d_silence_rate : forall rule r steps s i j a b,
  stamps rule -> 1 <= r -> r <= 10000000 -> Forall istep_ok steps -> (i < j)%nat ->
  nth_error (irun rule (char_time r) (t35 r) s steps) i = Some (Took a) ->
  nth_error (irun rule (char_time r) (t35 r) s steps) j = Some (Sent b) ->
  a + t35 r <= b.
Proof. exact irun_quiet_rate. Qed.

(* one step of the invariant *)
Theorem c19d_step_invariant : forall rule t1 t35 s st s' evs,
  stamps rule -> 0 <= t1 -> 0 <= t35 -> istep_ok st ->
  istep_run rule t1 t35 s st = (s', evs) ->
  la s <= la s' /\
  Forall (starts_after (la s) t35) evs /\
  Forall (taken_by (la s')) evs /\
  ForallOrdPairs (quiet t35) evs.
Proof. exact istep_facts. Qed.

(* rtu_transport.go reads nothing before it transmits: a rule that records
   what it reads; so is draining the buffer first and recording that *)
Theorem c19d_code_rule : stamps LeaveQueued.
Proof. exact leave_queued_stamps. Qed.

Theorem c19d_drain_stamp_rule : stamps DrainStamp.
Proof. exact drain_stamp_stamps. Qed.

(* every call transmits exactly one request, whatever the rule *)
Theorem c19d_calls : forall rule t1 t35 steps s,
  sent_count (irun rule t1 t35 s steps) = script_calls steps.
Proof. exact irun_calls. Qed.

(* the one-sided measurement of the check can never fail such a client *)
Theorem c19d_measurement_sound : forall rule r steps s i j a b before arrive,
  stamps rule -> 1 <= r -> r <= 10000000 -> Forall istep_ok steps -> (i < j)%nat ->
  nth_error (irun rule (char_time r) (t35 r) s steps) i = Some (Took a) ->
  nth_error (irun rule (char_time r) (t35 r) s steps) j = Some (Sent b) ->
  before <= a -> b <= arrive -> t35 r <= arrive - before.
Proof. exact irun_measurement_sound. Qed.

(* the predicate of the correspondence check (scenario silenceidle) is the
   property's inequality on the smallest measured silence, plus one request
   per call at least; the machine passes it on its own run of every script
   under every rule that records what it reads *)
Theorem c19d_silence_okb : forall rate steps n gap,
  idle_silence_okb rate steps n gap = true <->
  script_calls steps <= n /\ (forall g, gap = Some g -> t35 rate <= g).
Proof. exact idle_silence_okb_iff. Qed.

Theorem c19d_idle_gap : forall rule rate steps g,
  stamps rule -> 1 <= rate -> rate <= 10000000 -> Forall istep_ok steps ->
  idle_gap rule rate steps = Some g -> t35 rate <= g.
Proof. exact idle_gap_sound. Qed.

Theorem c19d_idle_gap_okb : forall rule rate steps,
  stamps rule -> 1 <= rate -> rate <= 10000000 -> Forall istep_ok steps ->
  idle_silence_okb rate steps
    (sent_count (irun rule (char_time rate) (t35 rate) (idle_start rate) steps))
    (idle_gap rule rate steps) = true.
Proof. exact idle_gap_sound_okb. Qed.

(* non-vacuity. 2400 bps (t3.5 = 16.04 ms). A request gets no answer; 30 ms
   after the call returned the late answer (7 bytes) lands in the link's
   buffer; 20 ms later the next call begins, and one more follows. The code
   meets the late answer in the read of the second call and keeps t3.5 before
   the third request; a rule that drains the buffer first and records that
   keeps t3.5 before the second; a rule that drains without recording
   transmits the second request at the very instant the drain returned and
   is refused by the predicate. *)
Definition c19d_ex_script : list istep :=
  [quiet_call 8 0; SIdle 30000000; SArrive 7; SIdle 20000000; quiet_call 8 7; quiet_call 8 7].

Example c19d_ex_ok : Forall istep_ok c19d_ex_script.
Proof.
  unfold c19d_ex_script.
  repeat (constructor; [first [apply quiet_call_ok; lia | cbn [istep_ok]; lia]|]). constructor.
Qed.

Example c19d_ex_runs :
  t35 2400 = 16041665 /\
  irun LeaveQueued (char_time 2400) (t35 2400) (idle_start 2400) c19d_ex_script
    = [Sent 0; Sent 102708329; Took 155416658; Sent 171458323; Took 224166652] /\
  idle_gap LeaveQueued 2400 c19d_ex_script = Some 16041665 /\
  irun DrainStamp (char_time 2400) (t35 2400) (idle_start 2400) c19d_ex_script
    = [Sent 0; Took 102708329; Sent 118749994; Took 171458323; Sent 187499988; Took 240208317] /\
  idle_gap DrainStamp 2400 c19d_ex_script = Some 16041665 /\
  irun DrainNoStamp (char_time 2400) (t35 2400) (idle_start 2400) c19d_ex_script
    = [Sent 0; Took 102708329; Sent 102708329; Took 155416658; Sent 171458323; Took 224166652] /\
  idle_gap DrainNoStamp 2400 c19d_ex_script = Some 0 /\
  idle_silence_okb 2400 c19d_ex_script 3 (Some 0) = false /\
  idle_silence_okb 2400 c19d_ex_script 3 (Some 16041665) = true /\
  idle_silence_okb 2400 c19d_ex_script 2 (Some 16041665) = false /\
  idle_silence_okb 2400 c19d_ex_script 3 None = true.
Proof. repeat split; vm_compute; reflexivity. Qed.

(* draining without recording is NOT covered by c19d_silence: its timeline
   of a well-formed session is not quiet *)
Theorem c19d_drain_no_stamp_unsound :
  ~ (forall steps, Forall istep_ok steps ->
       ForallOrdPairs (quiet (t35 2400))
         (irun DrainNoStamp (char_time 2400) (t35 2400) (idle_start 2400) steps)).
Proof. exact drain_no_stamp_not_quiet. Qed.

(* an unsolicited frame after a normal exchange, the caller back 5 ms later
   (less than t3.5 after the arrival, more than t3.5 after the exchange) *)
Example c19d_ex_unsolicited :
  idle_gap LeaveQueued 9600 [quiet_call 8 7; SIdle 20000000; SArrive 5; SIdle 5000000; quiet_call 8 7; quiet_call 8 7]
    = Some (t35 9600) /\
  idle_gap DrainNoStamp 9600 [quiet_call 8 7; SIdle 20000000; SArrive 5; SIdle 5000000; quiet_call 8 7; quiet_call 8 7]
    = Some 0 /\
  t35 9600 = 4010415.
Proof. repeat split; vm_compute; reflexivity. Qed.

Print Assumptions c19d_silence.
Print Assumptions c19d_silence_rate.
Print Assumptions c19d_step_invariant.
Print Assumptions c19d_code_rule.
Print Assumptions c19d_drain_stamp_rule.
Print Assumptions c19d_calls.
Print Assumptions c19d_measurement_sound.
Print Assumptions c19d_silence_okb.
Print Assumptions c19d_idle_gap.
Print Assumptions c19d_idle_gap_okb.
Print Assumptions c19d_drain_no_stamp_unsound.
