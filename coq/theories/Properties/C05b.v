(* C05 - "the call keeps waiting for its own reply until the timeout", in
   time. The peer's bytes carry their arrival instants (Model/Timed.v); times
   are integer nanoseconds. Statements only; proofs in Proofs/TxnTimedP.v and
   Proofs/TimedP.v. *)
From Modbus Require Import Base.Bytes Model.Crc Model.Encoding Model.Wire Model.Client
  Model.Timed Spec.ModbusSpec Spec.ClientSpec Spec.TimedSpec Proofs.TimedP Proofs.TxnTimedP.

(* T5: a peer that only ever sends frames with another transaction id or a
   non-Modbus protocol id - late replies to earlier requests, duplicates,
   foreign traffic; any number, at any instants, the last one possibly cut by
   the deadline: the call returns the request-timed-out error, exactly at its
   deadline t0 + timeout - never a result, never earlier, never later. *)
Theorem c05_timed_keeps_waiting : forall k la cfg txn o t0 s frames,
  op_wf o -> valid_op o = true -> (0 <= tm_timeout k)%Z ->
  map snd s = concat frames -> Forall (skippable (u16 (txn + 1))) frames ->
  let r := tm_client_call FMbap k la cfg txn o t0 None s in
  tmc_res r = Err ETimeout /\ tmc_finish r = (t0 + tm_timeout k)%Z.
Proof. exact timed_keeps_waiting. Qed.

(* T6: ... and when its own reply does arrive by the deadline, after any such
   frames, the call returns the values of that reply (no later than the
   deadline), whatever follows *)
Theorem c05_timed_own_reply : forall k la cfg txn o t0 c pre post res vs frames,
  op_wf o -> cfg_wf cfg -> txn < 65536 -> valid_op o = true -> (0 <= tm_timeout k)%Z ->
  bytesb (p_payload res) = true -> answers cfg o res vs ->
  Forall (skippable (u16 (txn + 1))) frames ->
  map snd pre = concat frames ++ spec_frame FMbap (u16 (txn + 1)) res ->
  Forall (fun p => (fst p <= t0 + tm_timeout k)%Z) pre ->
  let r := tm_client_call FMbap k la cfg txn o t0 c (pre ++ post) in
  tmc_res r = Ok vs /\ (t0 <= tmc_finish r <= t0 + tm_timeout k)%Z.
Proof. exact tm_timely_mbap. Qed.

(* what has arrived by an instant is a prefix of the stream, and any prefix of
   a sequence of frames to skip leaves the untimed receive loop waiting *)
Theorem c05_prefix_waits : forall cfg txn o e frames k,
  op_wf o -> valid_op o = true -> Forall (skippable (u16 (txn + 1))) frames ->
  let r := client_call FMbap cfg txn o e (firstn k (concat frames)) in
  cr_res r = Err (short_err e) /\ cr_rest r = [] /\ cr_txn r = u16 (txn + 1).
Proof. exact call_prefix_waits. Qed.

(* ------------------------------------------------------------ non-vacuity *)

Definition c05b_k : tm_conf := mk_tm_conf 150000000 0 0 0.   (* 150 ms *)
Definition c05b_cfg : ccfg := mkcfg 17 BigE HighFirst.
Definition c05b_o : op := OpReadRegs 1 0x10 1 Holding.
(* the call under study is the third on this connection: its id is 3 *)
Definition c05b_late1 : list N := [0; 1; 0; 0; 0; 5; 17; 3; 2; 0x11; 0x11].   (* reply to request 1 *)
Definition c05b_late2 : list N := [0; 2; 0; 0; 0; 5; 17; 3; 2; 0x22; 0x22].   (* reply to request 2 *)
Definition c05b_foreign : list N := [0; 3; 0; 7; 0; 5; 17; 3; 2; 0x33; 0x33]. (* id 3, protocol 7 *)
Definition c05b_own : list N := [0; 3; 0; 0; 0; 5; 17; 3; 2; 0xab; 0xcd].
Definition c05b_at (t : Z) (l : list N) : list (Z * N) := map (fun b => (t, b)) l.
Definition c05b_run (s : list (Z * N)) :=
  let r := tm_client_call FMbap c05b_k 0%Z c05b_cfg 2 c05b_o 1000%Z None s in (tmc_res r, tmc_finish r).

(* late replies, a duplicate and a foreign-protocol frame, the last one cut by
   the deadline: timeout at t0 + 150 ms *)
Example c05b_ex_waits :
  c05b_run (c05b_at 2000 c05b_late1 ++ c05b_at 40000000 c05b_late2 ++ c05b_at 40000001 c05b_late2
            ++ c05b_at 90000000 c05b_foreign ++ c05b_at 150000000 (firstn 9 c05b_late1)
            ++ c05b_at 150002000 (skipn 9 c05b_late1))
  = (Err ETimeout, 150001000%Z).
Proof. vm_compute. reflexivity. Qed.

(* the same stale traffic, then the own reply at 0.9 x timeout *)
Example c05b_ex_own :
  c05b_run (c05b_at 2000 c05b_late1 ++ c05b_at 40000000 c05b_late2 ++ c05b_at 90000000 c05b_foreign
            ++ c05b_at 135000000 c05b_own ++ c05b_at 135000001 c05b_late1)
  = (Ok (VNums [0xabcd]), 135000000%Z).
Proof. vm_compute. reflexivity. Qed.

Example c05b_ex_skippable :
  Forall (skippable (u16 (2 + 1))) [c05b_late1; c05b_late2; c05b_late2; c05b_foreign].
Proof.
  repeat constructor.
  - exists 1, 0, 17, 3, [2; 0x11; 0x11]. repeat split; try (vm_compute; reflexivity); cbn; lia.
  - exists 2, 0, 17, 3, [2; 0x22; 0x22]. repeat split; try (vm_compute; reflexivity); cbn; lia.
  - exists 2, 0, 17, 3, [2; 0x22; 0x22]. repeat split; try (vm_compute; reflexivity); cbn; lia.
  - exists 3, 7, 17, 3, [2; 0x33; 0x33]. repeat split; try (vm_compute; reflexivity); cbn; lia.
Qed.

Print Assumptions c05_timed_keeps_waiting.
Print Assumptions c05_timed_own_reply.
Print Assumptions c05_prefix_waits.
