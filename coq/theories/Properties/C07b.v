(* C07b - "whatever the peer does" includes a peer that does not READ.
   Statements only; proofs in Proofs/TimedWriteP.v.

   Model/TimedWrite.v gives the request Write of Model/Timed.v a link that
   takes only `room` more bytes while the peer does not read them (reads =
   false): a request that does not fit blocks until the write deadline, which
   both transports arm with SetDeadline(now + timeout) before anything else,
   and the deadline error of Write surfaces as the request-timed-out error.
   No theorem restricts room, the peer stream, or (in a session) which
   requests the peer reads. *)
From Modbus Require Import Base.Bytes Model.Crc Model.Encoding Model.Wire Model.Client
  Model.Timed Model.TimedSession Model.TimedWrite
  Spec.ModbusSpec Spec.ClientSpec Spec.TimedSpec Spec.TimedWriteSpec Proofs.TimedWriteP.

(* ------------------------------------------------------------------ T1 *)

(* the bounds of C07 (c07_bound_mbap, c07_bound_rtu) hold for every room,
   whether or not the peer reads *)
Theorem c07b_bound_mbap : forall k la cfg txn o t0 reads room c s, (0 <= tm_timeout k)%Z ->
  (t0 <= tmc_finish (tmw_call (tm_client_call_w FMbap k la cfg txn o t0 reads room c s))
      <= t0 + tm_timeout k)%Z.
Proof. exact tm_call_w_time_mbap. Qed.

Theorem c07b_bound_rtu : forall k la cfg txn o t0 reads room c s,
  op_wf o -> tm_conf_wf k -> (la <= t0)%Z ->
  (t0 <= tmc_finish (tmw_call (tm_client_call_w FRtu k la cfg txn o t0 reads room c s))
      <= tm_rtu_bound k t0 (tm_req_len cfg o))%Z.
Proof. exact tm_call_w_time_rtu. Qed.

(* ------------------------------------------------------------------ T2 *)

(* the request does not fit into what the link still takes: request timed
   out - on MBAP exactly at the deadline, on RTU at the deadline or at the
   end of the pre-send wait when that is later -, nothing of the peer's
   stream is consumed, the link is full afterwards *)
Theorem c07b_full_link : forall fr k la cfg txn o t0 room c s,
  op_wf o -> valid_op o = true -> (room < tm_wire_len fr cfg txn o)%Z ->
  tm_client_call_w fr k la cfg txn o t0 false room c s =
  mk_tm_wcall (mk_tm_call (Err ETimeout)
                 (Z.max (tm_write_start fr k la t0) (t0 + tm_timeout k)) s) 0 true.
Proof. exact tm_full_link. Qed.

(* conservative extension: a request that fits, or a peer that reads, gives
   the call of Model/Timed.v - every theorem of C07.v applies to it *)
Theorem c07b_room_enough : forall fr k la cfg txn o t0 room c s,
  op_wf o -> valid_op o = true -> (tm_wire_len fr cfg txn o <= room)%Z ->
  tm_client_call_w fr k la cfg txn o t0 false room c s =
  mk_tm_wcall (tm_client_call fr k la cfg txn o t0 c s) (room - tm_wire_len fr cfg txn o) false.
Proof. exact tm_room_enough. Qed.

Theorem c07b_peer_reads : forall fr k la cfg txn o t0 room c s,
  tm_client_call_w fr k la cfg txn o t0 true room c s =
  mk_tm_wcall (tm_client_call fr k la cfg txn o t0 c s) room false.
Proof. exact tm_peer_reads. Qed.

(* total silence is the request-timed-out error whatever room is left: the
   outcome does not tell a full link from an empty one *)
Theorem c07b_silence_any_room_mbap : forall k la cfg txn o t0 reads room,
  op_wf o -> valid_op o = true -> (0 <= tm_timeout k)%Z ->
  tmw_call (tm_client_call_w FMbap k la cfg txn o t0 reads room None []) =
  mk_tm_call (Err ETimeout) (t0 + tm_timeout k) [].
Proof. exact tm_silent_any_room_mbap. Qed.

Theorem c07b_silence_any_room_rtu : forall k la cfg txn o t0 reads room,
  op_wf o -> valid_op o = true -> tm_conf_wf k -> tm_gran k = 0%Z ->
  let r := tmw_call (tm_client_call_w FRtu k la cfg txn o t0 reads room None []) in
  tmc_res r = Err ETimeout /\ (t0 + tm_timeout k <= tmc_finish r)%Z /\ tmc_rest r = [].
Proof. exact tm_silent_any_room_rtu. Qed.

(* ------------------------------------------------------------------ T3 *)

(* calls in a row on one connection: rt.lastActivity as left by a call is
   not later than its return, so the next call starts with la <= t0 ... *)
Theorem c07b_last_activity : forall fr k la cfg txn o t0 reads room c s,
  op_wf o -> tm_conf_wf k -> (la <= t0)%Z ->
  let w := tm_client_call_w fr k la cfg txn o t0 reads room c s in
  (tm_next_la fr k cfg o la t0 c s (tmw_blocked w) <= tmc_finish (tmw_call w))%Z.
Proof. exact tm_next_la_le. Qed.

(* ... and EVERY call of EVERY session returns within the bound counted from
   its own start: any operations, any room, the peer reading any subset of
   the requests and sending anything at any time *)
Theorem c07b_session_bound : forall fr k cfg, tm_conf_wf k -> forall calls la txn room now rest,
  Forall (fun cl => op_wf (fst (fst cl))) calls -> (la <= now)%Z ->
  Forall (fun p => (tws_start (snd p) <= tws_finish (snd p)
                    <= tm_call_bound fr k cfg (fst (fst (fst p))) (tws_start (snd p)))%Z)
    (combine calls (tm_session_w fr k cfg la txn room now rest calls)).
Proof. exact tm_session_w_time. Qed.
(* (the session has one step per call: Proofs/TimedWriteP.v tm_session_w_length) *)

(* a polling application against a peer that has died with the connection
   open (reads nothing, sends nothing): every call is a request-timed-out -
   on MBAP exactly one timeout after its start - for every amount of room *)
Theorem c07b_dead_peer_mbap : forall k cfg, (0 <= tm_timeout k)%Z -> forall ops la txn room now,
  Forall op_wf ops -> Forall (fun o => valid_op o = true) ops ->
  Forall (fun st => tws_res st = Err ETimeout /\
                    tws_finish st = (tws_start st + tm_timeout k)%Z)
    (tm_session_w FMbap k cfg la txn room now [] (tm_dead_calls ops)).
Proof. exact tm_dead_session_mbap. Qed.

Theorem c07b_dead_peer_rtu : forall k cfg, tm_conf_wf k -> tm_gran k = 0%Z -> forall ops la txn room now,
  Forall op_wf ops -> Forall (fun o => valid_op o = true) ops ->
  Forall (fun st => tws_res st = Err ETimeout /\
                    (tws_start st + tm_timeout k <= tws_finish st)%Z)
    (tm_session_w FRtu k cfg la txn room now [] (tm_dead_calls ops)).
Proof. exact tm_dead_session_rtu. Qed.

(* ------------------------------------------------------------ non-vacuity *)

Definition exb_k : tm_conf := mk_tm_conf 150000000 572916 1750000 0.   (* 150 ms, 19200 bps *)
Definition exb_cfg : ccfg := mkcfg 1 BigE HighFirst.
Definition exb_o : op := OpReadRegs 1 0x10 1 Holding.     (* 12 bytes over MBAP, 8 over RTU *)
Definition exb_reply (txn : N) : list (Z * N) :=
  map (fun b => (5000%Z, b)) (assemble_mbap txn (mkpdu 1 3 [2; 0xab; 0xcd])).
Definition exb_proj (l : list tm_wstep) :=
  map (fun st => (tws_res st, (tws_finish st - tws_start st)%Z, tws_room st, tws_blocked st)) l.

Example c07b_ex_lens : tm_wire_len FMbap exb_cfg 0 exb_o = 12%Z /\ tm_wire_len FRtu exb_cfg 0 exb_o = 8%Z.
Proof. split; vm_compute; reflexivity. Qed.

(* the peer answers two calls, then dies with room for 20 more bytes: the
   third request (12 bytes) still fits, the fourth finds 8 bytes of room and
   blocks, the fifth finds none; all three time out after exactly 150 ms *)
Example c07b_ex_session_mbap :
  exb_proj (tm_session_w FMbap exb_k exb_cfg 0 0 20 1000 []
    [(exb_o, true, exb_reply 1); (exb_o, true, exb_reply 2);
     (exb_o, false, []); (exb_o, false, []); (exb_o, false, [])])
  = [(Ok (VNums [0xabcd]), 5000%Z, 20%Z, false); (Ok (VNums [0xabcd]), 5000%Z, 20%Z, false);
     (Err ETimeout, 150000000%Z, 8%Z, false); (Err ETimeout, 150000000%Z, 0%Z, true);
     (Err ETimeout, 150000000%Z, 0%Z, true)].
Proof. vm_compute. reflexivity. Qed.

(* RTU, room for 10 bytes: the first request (8 bytes) fits and the call ends
   at the read deadline; the second blocks in Write until the same kind of
   deadline - no post-write sleep, no flush *)
Example c07b_ex_session_rtu :
  exb_proj (tm_session_w FRtu exb_k exb_cfg (-1000000000) 0 10 1000 [] (tm_dead_calls [exb_o; exb_o]))
  = [(Err ETimeout, 150000000%Z, 2%Z, false); (Err ETimeout, 150000000%Z, 0%Z, true)].
Proof. vm_compute. reflexivity. Qed.

Example c07b_ex_hyps : tm_conf_wf exb_k /\ tm_gran exb_k = 0%Z /\ op_wf exb_o /\ valid_op exb_o = true.
Proof.
  unfold tm_conf_wf, op_wf, exb_k, exb_o. cbn [tm_timeout tm_t1 tm_t35 tm_gran].
  repeat split; try lia; vm_compute; reflexivity.
Qed.

Print Assumptions c07b_bound_mbap.
Print Assumptions c07b_bound_rtu.
Print Assumptions c07b_full_link.
Print Assumptions c07b_room_enough.
Print Assumptions c07b_peer_reads.
Print Assumptions c07b_silence_any_room_mbap.
Print Assumptions c07b_silence_any_room_rtu.
Print Assumptions c07b_last_activity.
Print Assumptions c07b_session_bound.
Print Assumptions c07b_dead_peer_mbap.
Print Assumptions c07b_dead_peer_rtu.
