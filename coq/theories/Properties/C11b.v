(* C11 (clause "a stalled connection does not delay the others", lock side):
   the server never waits for a peer while it holds ms.lock. The operations
   that can wait for a peer, for the user's handler or for another goroutine
   (Accept, ReadRequest, WriteResponse, the TLS handshake, handler calls,
   sleeps, channel operations) appear in the lock skeleton GENERATED from
   server.go (Gen/ServerLocks.v) as AWait actions; the discipline check
   rejects a wait made while the mutex is held. Hence the mutex is only ever
   held across steps that need nobody else: a stalled, silent or slow
   connection cannot keep the others from being let in, served or removed
   by way of the lock. Same generic theorems as C08 / C10b (Proofs/ConcP.v). *)
From Coq Require Import List Bool String Arith.
Import ListNotations.
From Modbus Require Import Model.Conc Proofs.ConcP Proofs.GenLocksP Gen.ServerLocks.
Local Open Scope string_scope.
Local Open Scope list_scope.

(* the generated table (with its waits) passes the structured discipline check *)
Theorem c11b_table_wb : cc_table_wb server_programs cc_fuel server_entries = true.
Proof. exact server_programs_wb. Qed.

(* any number of goroutines running Start / Stop / accept loops / sessions, any
   interleaving: a goroutine that performs a wait does not hold ms.lock *)
Theorem c11b_wait_without_lock : forall prog ps e1 i w e2 c,
  cc_runs_table server_programs server_entries prog ps ->
  cc_exec (cc_init ps) (e1 ++ (i, AWait w) :: e2) c ->
  exists c1, cc_exec (cc_init ps) e1 c1 /\ cc_holds c1 i = false.
Proof. exact (tb_wait_not_holder _ _ server_programs_wb). Qed.

(* in every reachable configuration the next action of the goroutine that
   holds ms.lock is not a wait: it can go on to its Unlock without any peer *)
Theorem c11b_holder_not_waiting : forall prog ps evs c i th w r,
  cc_runs_table server_programs server_entries prog ps ->
  cc_exec (cc_init ps) evs c -> nth_error c i = Some th -> ct_holds th = true ->
  ct_rem th <> AWait w :: r.
Proof. exact (tb_holder_not_waiting _ _ server_programs_wb). Qed.

(* generic form, for any well-bracketed threads *)
Theorem c11b_generic_wait : forall ps e1 i w e2 c, cc_good ps ->
  cc_exec (cc_init ps) (e1 ++ (i, AWait w) :: e2) c ->
  exists c1, cc_exec (cc_init ps) e1 c1 /\ cc_holds c1 i = false.
Proof. exact cc_wait_not_holder. Qed.

(* the check is not vacuous: a wait under the mutex is rejected, flat and structured *)
Example c11b_ex_rejected :
  cc_swb false [ALock; AWait "WriteResponse"; AUnlock] = None /\
  cc_swb false [ALock; ARd "tcpClients"; AUnlock; AWait "WriteResponse"] = Some false /\
  cc_table_wb [mk_cmethod "m" false (SSeq [SAct ALock; SAct (AWait "WriteResponse"); SAct AUnlock])]
              cc_fuel ["m"] = false.
Proof. vm_compute. repeat split; reflexivity. Qed.

(* the generated skeleton does contain the waits of the accept loop and of a session *)
Example c11b_ex_waits :
  cc_method_mentions server_programs "acceptTCPClients" (AWait "Accept") = true /\
  cc_method_mentions server_programs "handleTransport" (AWait "ReadRequest") = true /\
  cc_method_mentions server_programs "handleTransport" (AWait "WriteResponse") = true /\
  cc_method_mentions server_programs "handleTransport" (AWait "handler.HandleCoils") = true /\
  cc_method_mentions server_programs "handleTransport" (AWait "handler.HandleHoldingRegisters") = true.
Proof. vm_compute. repeat split; reflexivity. Qed.

(* a miniature session: wait for a request, touch the shared list under the
   mutex, answer. Its path is well bracketed and contains both waits; two such
   goroutines interleave freely - one waits for its peer while the other holds
   the mutex - but the holder itself is never the one waiting *)
Definition c11b_mini : ctable :=
  [mk_cmethod "serve" false
     (SSeq [SAct (AWait "ReadRequest"); SAct ALock; SAct (ARd "tcpClients"); SAct AUnlock;
            SAct (AWait "WriteResponse")])].
Example c11b_ex_mini :
  cc_table_wb c11b_mini cc_fuel ["serve"] = true /\
  cc_fp_thread c11b_mini cc_fuel ["serve"] =
    Some [AWait "ReadRequest"; ALock; ARd "tcpClients"; AUnlock; AWait "WriteResponse"] /\
  let p := [AWait "ReadRequest"; ALock; ARd "tcpClients"; AUnlock; AWait "WriteResponse"] in
  cc_flat_wb p /\
  (exists c, cc_exec (cc_init [p; p])
     [(0, AWait "ReadRequest"); (0, ALock); (1, AWait "ReadRequest"); (0, ARd "tcpClients");
      (0, AUnlock); (1, ALock); (0, AWait "WriteResponse")] c /\ cc_holds c 1 = true) /\
  cc_run (cc_init [[ALock; AWait "WriteResponse"; AUnlock]]) [(0, ALock); (0, AWait "WriteResponse")] <> None /\
  ~ cc_flat_wb [ALock; AWait "WriteResponse"; AUnlock].
Proof.
  split; [vm_compute; reflexivity|]. split; [vm_compute; reflexivity|]. cbv zeta.
  split; [vm_compute; reflexivity|]. split; [eexists; split; vm_compute; reflexivity|].
  split; [vm_compute; discriminate|].
  unfold cc_flat_wb. vm_compute. discriminate.
Qed.

Print Assumptions c11b_table_wb.
Print Assumptions c11b_wait_without_lock.
Print Assumptions c11b_holder_not_waiting.
Print Assumptions c11b_generic_wait.
