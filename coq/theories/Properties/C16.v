(* C16 - Each URL scheme selects its documented transport; bad configs are
   refused. Only statements here; proofs live in Proofs/ConfigP.v.
   URLs are arbitrary byte strings (list N), optional fields arbitrary
   numbers; every theorem is quantified over all of them. *)
From Modbus Require Import Base.Bytes Model.Config Spec.ConfigSpec Proofs.ConfigP.
From Coq Require String.
Import String.StringSyntax.

(* ---- the URL split: Go's strings.SplitN(url, "://", 2) *)

(* split_url u = (a, b) exactly when u = a ++ "://" ++ b and that is the FIRST
   occurrence of "://" in u (none occurs in a ++ ":/") *)
Theorem c16_split_first_occurrence : forall u a b,
  split_url u = Some (a, b) <->
  u = a ++ str "://" ++ b /\ ~ occurs (str "://") (a ++ str ":/").
Proof. exact split_url_spec. Qed.
Print Assumptions c16_split_first_occurrence.

Theorem c16_split_none : forall u,
  split_url u = None <-> ~ occurs (str "://") u.
Proof. exact split_url_none. Qed.
Print Assumptions c16_split_none.

(* a URL reads <scheme>://<rest> with a documented scheme in at most one way,
   and then the scheme is the text before the first "://" *)
Theorem c16_scheme_reading_unique : forall u s rest s' rest',
  url_scheme u s rest -> url_scheme u s' rest' -> s = s' /\ rest = rest'.
Proof. exact url_scheme_unique. Qed.
Print Assumptions c16_scheme_reading_unique.

Theorem c16_scheme_is_first_split : forall u s rest,
  url_scheme u s rest -> split_url u = Some (scheme_name s, rest).
Proof. exact url_scheme_split. Qed.
Print Assumptions c16_scheme_is_first_split.

(* ---- T1: which client configurations are accepted *)

Theorem c16_client_accept_iff : forall c,
  (exists e, new_client c = CfgOk e) <->
  exists s rest, cc_url c = scheme_name s ++ str "://" ++ rest /\
                 (s = STcpTls -> cc_has_cert c = true /\ cc_has_cas c = true).
Proof. exact new_client_accept_iff. Qed.
Print Assumptions c16_client_accept_iff.

(* everything else gets the configuration error *)
Theorem c16_client_refused : forall c,
  ~ (exists s rest, url_scheme (cc_url c) s rest /\ client_creds_ok s c) ->
  new_client c = CfgErr EConfig.
Proof. exact new_client_refused. Qed.
Print Assumptions c16_client_refused.

Theorem c16_client_missing_scheme : forall c,
  ~ occurs (str "://") (cc_url c) -> new_client c = CfgErr EConfig.
Proof. exact new_client_no_sep. Qed.
Print Assumptions c16_client_missing_scheme.

(* the text before the first "://" must be one of the six names, exactly *)
Theorem c16_client_unknown_scheme : forall c a b,
  split_url (cc_url c) = Some (a, b) -> (forall s, a <> scheme_name s) ->
  new_client c = CfgErr EConfig.
Proof. exact new_client_unknown_scheme'. Qed.
Print Assumptions c16_client_unknown_scheme.

Theorem c16_client_tls_needs_credentials : forall c rest,
  url_scheme (cc_url c) STcpTls rest ->
  cc_has_cert c = false \/ cc_has_cas c = false ->
  new_client c = CfgErr EConfig.
Proof. exact new_client_tls_no_creds. Qed.
Print Assumptions c16_client_tls_needs_credentials.

(* ---- T2: the effective configuration *)

Theorem c16_client_effective : forall c s rest,
  url_scheme (cc_url c) s rest -> client_creds_ok s c ->
  new_client c = CfgOk (spec_client_eff s rest c).
Proof. exact new_client_ok. Qed.
Print Assumptions c16_client_effective.

Theorem c16_client_effective_inv : forall c e,
  new_client c = CfgOk e ->
  exists s rest, url_scheme (cc_url c) s rest /\ e = spec_client_eff s rest c.
Proof. exact new_client_scheme. Qed.
Print Assumptions c16_client_effective_inv.

(* the same, field by field, with the documented numbers spelled out
   (durations in nanoseconds) *)
Theorem c16_client_defaults : forall c e s rest,
  new_client c = CfgOk e -> url_scheme (cc_url c) s rest ->
  ce_url e = rest /\
  ce_parity e = cc_parity c /\
  ce_unit e = 1 /\ ce_endianness e = 1 /\ ce_word_order e = 1 /\
  (cc_speed c <> 0 -> ce_speed e = cc_speed c) /\
  (cc_data_bits c <> 0 -> ce_data_bits e = cc_data_bits c) /\
  (cc_stop_bits c <> 0 -> ce_stop_bits e = cc_stop_bits c) /\
  (cc_timeout c <> 0%Z -> ce_timeout e = cc_timeout c) /\
  (cc_timeout c = 0%Z ->
   ce_timeout e = match s with SRtu => 300000000%Z | _ => 1000000000%Z end) /\
  (cc_speed c = 0 ->
   ce_speed e = match s with SRtu | SRtuOverTcp | SRtuOverUdp => 19200 | _ => 0 end) /\
  (cc_data_bits c = 0 -> ce_data_bits e = match s with SRtu => 8 | _ => 0 end) /\
  (cc_stop_bits c = 0 ->
   ce_stop_bits e = match s with
                    | SRtu => if cc_parity c =? 0 then 2 else 1
                    | _ => 0
                    end).
Proof. exact client_defaults. Qed.
Print Assumptions c16_client_defaults.

(* ---- T3: the wiring table *)

Theorem c16_wiring_table : forall s, wiring (scheme_transport s) = spec_wiring s.
Proof. exact wiring_table. Qed.
Print Assumptions c16_wiring_table.

(* constructor and Open() composed: a client accepted for scheme s opens the
   documented socket type with the documented framing *)
Theorem c16_client_wiring : forall c e s rest,
  new_client c = CfgOk e -> url_scheme (cc_url c) s rest ->
  wiring (ce_transport e) = spec_wiring s.
Proof. exact client_wiring. Qed.
Print Assumptions c16_client_wiring.

(* ---- T4: servers *)

Theorem c16_server_accept_iff : forall c,
  (exists e, new_server c = CfgOk e) <->
  exists s rest, sc_url c = scheme_name s ++ str "://" ++ rest /\
                 (s = STcp \/ s = STcpTls) /\ rest <> [] /\
                 (s = STcpTls -> sc_has_cert c = true /\ sc_has_cas c = true).
Proof. exact new_server_accept_iff. Qed.
Print Assumptions c16_server_accept_iff.

Theorem c16_server_refused : forall c,
  ~ (exists s rest, url_scheme (sc_url c) s rest /\ server_scheme s = true /\ rest <> [] /\
                    server_creds_ok s c) ->
  new_server c = CfgErr EConfig.
Proof. exact new_server_refused. Qed.
Print Assumptions c16_server_refused.

Theorem c16_server_effective : forall c s rest,
  url_scheme (sc_url c) s rest -> server_scheme s = true -> rest <> [] ->
  server_creds_ok s c ->
  new_server c = CfgOk (spec_server_eff s rest c).
Proof. exact new_server_ok. Qed.
Print Assumptions c16_server_effective.

Theorem c16_server_no_host : forall c s,
  url_scheme (sc_url c) s [] -> new_server c = CfgErr EConfig.
Proof. exact new_server_no_host. Qed.
Print Assumptions c16_server_no_host.

Theorem c16_server_missing_scheme : forall c,
  ~ occurs (str "://") (sc_url c) -> new_server c = CfgErr EConfig.
Proof. exact new_server_no_sep. Qed.
Print Assumptions c16_server_missing_scheme.

(* 120 s, 10 clients; a TCP listener speaking MBAP *)
Theorem c16_server_defaults : forall c e,
  new_server c = CfgOk e ->
  (sc_timeout c = 0%Z -> se_timeout e = 120000000000%Z) /\
  (sc_timeout c <> 0%Z -> se_timeout e = sc_timeout c) /\
  (sc_max_clients c = 0 -> se_max_clients e = 10) /\
  (sc_max_clients c <> 0 -> se_max_clients e = sc_max_clients c) /\
  (se_transport e = TTcp \/ se_transport e = TTcpOverTls) /\
  exists sk, server_wiring (se_transport e) = Some (sk, KMbap).
Proof. exact server_defaults. Qed.
Print Assumptions c16_server_defaults.

(* ---- T5: selectors *)

Theorem c16_set_encoding_ok : forall st e w,
  valid_selector e -> valid_selector w ->
  set_encoding st e w = ({| es_endianness := e; es_word_order := w |}, None).
Proof. exact set_encoding_ok. Qed.
Print Assumptions c16_set_encoding_ok.

Theorem c16_set_encoding_refused : forall st e w,
  ~ (valid_selector e /\ valid_selector w) ->
  set_encoding st e w = (st, Some EUnexpectedParams).
Proof. exact set_encoding_refused. Qed.
Print Assumptions c16_set_encoding_refused.

Theorem c16_set_encoding_iff : forall st e w,
  snd (set_encoding st e w) = None <-> (e = 1 \/ e = 2) /\ (w = 1 \/ w = 2).
Proof. exact set_encoding_iff. Qed.
Print Assumptions c16_set_encoding_iff.

(* ---- T6: totality. The three functions are Gallina functions, hence total;
   their only outcomes are an object or the one documented error (the result
   types have no third, "panic" or "half-built", alternative). *)

Theorem c16_client_total : forall c,
  (exists e, new_client c = CfgOk e) \/ new_client c = CfgErr EConfig.
Proof. exact new_client_total. Qed.
Print Assumptions c16_client_total.

Theorem c16_server_total : forall c,
  (exists e, new_server c = CfgOk e) \/ new_server c = CfgErr EConfig.
Proof. exact new_server_total. Qed.
Print Assumptions c16_server_total.

Theorem c16_set_encoding_total : forall st e w,
  set_encoding st e w = ({| es_endianness := e; es_word_order := w |}, None) \/
  set_encoding st e w = (st, Some EUnexpectedParams).
Proof. exact set_encoding_total. Qed.
Print Assumptions c16_set_encoding_total.

(* ---- non-vacuity *)

Definition conf0 (u : list N) : client_conf := mkcc u 0 0 0 0 0 false false.
Definition sconf0 (u : list N) : server_conf := mksc u 0 0 false false.

(* the names are what they read *)
Example ex_names :
  map scheme_name all_schemes =
  [nm_tcp; nm_tcptls; nm_udp; nm_rtu; nm_rtuovertcp; nm_rtuoverudp].
Proof. reflexivity. Qed.

(* first occurrence: "tcp://a://b" has scheme "tcp" and rest "a://b" *)
Example ex_split_multi : split_url (str "tcp://a://b") = Some (str "tcp", str "a://b").
Proof. reflexivity. Qed.
Example ex_first_split_multi : first_split (str "tcp://a://b") (str "tcp") (str "a://b").
Proof. apply split_url_spec. reflexivity. Qed.
Example ex_split_none : split_url (str "tcp:/x") = None.
Proof. reflexivity. Qed.
Example ex_split_empty_scheme : split_url (str "://x") = Some ([], str "x").
Proof. reflexivity. Qed.
Example ex_split_triple : split_url (str "tcp:///x") = Some (str "tcp", str "/x").
Proof. reflexivity. Qed.

Example ex_client_tcp :
  new_client (conf0 (str "tcp://a://b")) =
  CfgOk (mkce (str "a://b") 0 0 0 0 1000000000 1 1 1 TTcp).
Proof. reflexivity. Qed.
Example ex_client_rtu :
  new_client (conf0 (str "rtu:///dev/ttyUSB0")) =
  CfgOk (mkce (str "/dev/ttyUSB0") 19200 8 0 2 300000000 1 1 1 TRtu).
Proof. reflexivity. Qed.
Example ex_client_rtu_even :
  new_client (mkcc (str "rtu:///dev/ttyUSB0") 9600 0 1 0 0 false false) =
  CfgOk (mkce (str "/dev/ttyUSB0") 9600 8 1 1 300000000 1 1 1 TRtu).
Proof. reflexivity. Qed.
Example ex_client_rtuoverudp :
  new_client (conf0 (str "rtuoverudp://h:1")) =
  CfgOk (mkce (str "h:1") 19200 0 0 0 1000000000 1 1 1 TRtuOverUdp).
Proof. reflexivity. Qed.
Example ex_client_tls :
  new_client (mkcc (str "tcp+tls://h:802") 0 0 0 0 5 true true) =
  CfgOk (mkce (str "h:802") 0 0 0 0 5 1 1 1 TTcpOverTls).
Proof. reflexivity. Qed.
Example ex_client_tls_nocreds :
  new_client (mkcc (str "tcp+tls://h:802") 0 0 0 0 0 true false) = CfgErr EConfig.
Proof. reflexivity. Qed.
Example ex_client_case : new_client (conf0 (str "TCP://x")) = CfgErr EConfig.
Proof. reflexivity. Qed.
Example ex_client_space : new_client (conf0 (str " tcp://x")) = CfgErr EConfig.
Proof. reflexivity. Qed.
Example ex_client_space2 : new_client (conf0 (str "tcp ://x")) = CfgErr EConfig.
Proof. reflexivity. Qed.
Example ex_client_nosep : new_client (conf0 (str "tcp:/x")) = CfgErr EConfig.
Proof. reflexivity. Qed.
Example ex_client_empty : new_client (conf0 []) = CfgErr EConfig.
Proof. reflexivity. Qed.
Example ex_client_noscheme : new_client (conf0 (str "://x")) = CfgErr EConfig.
Proof. reflexivity. Qed.
Example ex_client_rtutls : new_client (mkcc (str "rtu+tls://x") 0 0 0 0 0 true true) = CfgErr EConfig.
Proof. reflexivity. Qed.
(* a client (unlike a server) takes an empty target *)
Example ex_client_empty_rest :
  new_client (conf0 (str "tcp://")) = CfgOk (mkce [] 0 0 0 0 1000000000 1 1 1 TTcp).
Proof. reflexivity. Qed.
(* the hypotheses of the refusal theorems are satisfiable *)
Example ex_unknown_scheme_hyp : forall s, str "TCP" <> scheme_name s.
Proof. intros s; destruct s; discriminate. Qed.
Example ex_missing_scheme_hyp : ~ occurs (str "://") (str "tcp:/x").
Proof. apply split_url_none. reflexivity. Qed.

Example ex_server_tcp :
  new_server (sconf0 (str "tcp://[::]:502")) =
  CfgOk (mkse (str "[::]:502") 120000000000 10 TTcp).
Proof. reflexivity. Qed.
Example ex_server_tls :
  new_server (mksc (str "tcp+tls://0.0.0.0:802") 7 3 true true) =
  CfgOk (mkse (str "0.0.0.0:802") 7 3 TTcpOverTls).
Proof. reflexivity. Qed.
Example ex_server_nohost : new_server (sconf0 (str "tcp://")) = CfgErr EConfig.
Proof. reflexivity. Qed.
Example ex_server_udp : new_server (sconf0 (str "udp://h:1")) = CfgErr EConfig.
Proof. reflexivity. Qed.
Example ex_server_rtu : new_server (sconf0 (str "rtu:///dev/ttyS0")) = CfgErr EConfig.
Proof. reflexivity. Qed.
Example ex_server_nosep : new_server (sconf0 (str "localhost:502")) = CfgErr EConfig.
Proof. reflexivity. Qed.
Example ex_server_tls_nocreds :
  new_server (mksc (str "tcp+tls://h:1") 0 0 false true) = CfgErr EConfig.
Proof. reflexivity. Qed.

Example ex_wiring :
  map (fun s => wiring (scheme_transport s)) all_schemes =
  [(KTcp, KMbap); (KTls, KMbap); (KUdp, KMbap); (KSerial, KRtu); (KTcp, KRtu); (KUdp, KRtu)].
Proof. reflexivity. Qed.
Example ex_codes :
  map (fun s => tkind_code (scheme_transport s)) all_schemes = [4; 5; 6; 1; 2; 3].
Proof. reflexivity. Qed.

Example ex_setenc_ok : set_encoding enc_init 2 2 = (mkes 2 2, None).
Proof. reflexivity. Qed.
Example ex_setenc_zero : set_encoding (mkes 2 1) 0 1 = (mkes 2 1, Some EUnexpectedParams).
Proof. reflexivity. Qed.
Example ex_setenc_three : set_encoding (mkes 2 1) 1 3 = (mkes 2 1, Some EUnexpectedParams).
Proof. reflexivity. Qed.
