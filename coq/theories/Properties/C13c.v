(* C13 - the reply is cut in the MIDDLE of a session.
   Statements only; proofs in Proofs/CutSessionP.v. Model/CutSession.v: a
   really opened client makes several calls on the one connection of its
   handle; a device answers the earlier ones in full (cs_earlier) and the
   reply to the last one ends after k bytes with stream end e = Stall | Closed
   | Reset; then Close, a call on the closed handle, Open, one more call
   answered in full (cut_session). csv_conns is what the listener at the
   client's address receives on EVERY connection it accepts: the request
   frames per connection, in order of acceptance. Vocabulary in
   Spec/CutSessionSpec.v: cs_valid (a valid call with a valid reply to it),
   reply_len (the cut offsets are 0 .. reply_len - 1), cs_frames (the request
   frames of consecutive calls: one frame each, consecutive 16-bit ids). *)
From Modbus Require Import Base.Bytes Model.Crc Model.Encoding Model.Wire Model.Client
  Model.Handle Model.TxnHistory Model.CutSession
  Spec.ModbusSpec Spec.ClientSpec Spec.CutSpec Spec.TxnSpec Spec.CutSessionSpec
  Proofs.CutSessionP.

(* T1: however many exchanges (any valid calls, any valid replies) completed
   before on the connection, for every cut offset inside the reply of the
   next one and every stream end: the earlier calls returned their values, the
   cut call is an error of the class of C13 (never a success); the listener
   has seen ONE connection for all of it, carrying one request frame per call
   - exactly one for the cut call, nothing was sent again anywhere; the call
   on the closed handle fails without a byte; after Open a SECOND connection
   carries exactly the next request (transaction id 1 again) and that call
   completes normally *)
Theorem c13c_cut_kth : forall fr cfg pre vss cut vsc fresh vsf,
  cfg_wf cfg -> Forall2 (cs_valid cfg) pre vss -> cs_valid cfg cut vsc -> cs_valid cfg fresh vsf ->
  forall e k, (k < reply_len fr (csc_reply cut))%nat ->
  let v := cut_session fr cfg pre cut e k fresh in
  csv_results v = map (@Ok values) vss ++ [Err (cut_err_class fr e k)] /\
  cut_failed (csv_closed v) /\
  csv_fresh v = Ok vsf /\
  csv_conns v = [cs_frames fr cfg 0 (map csc_op pre ++ [csc_op cut]);
                 [spec_frame fr 1 (spec_pdu cfg (csc_op fresh))]].
Proof. exact session_cut. Qed.

(* control: the peer goes away only after the complete reply: same frames,
   and the call succeeds *)
Theorem c13c_complete_kth : forall fr cfg pre vss cut vsc fresh vsf,
  cfg_wf cfg -> Forall2 (cs_valid cfg) pre vss -> cs_valid cfg cut vsc -> cs_valid cfg fresh vsf ->
  forall e k, (reply_len fr (csc_reply cut) <= k)%nat ->
  let v := cut_session fr cfg pre cut e k fresh in
  csv_results v = map (@Ok values) vss ++ [Ok vsc] /\
  cut_failed (csv_closed v) /\
  csv_fresh v = Ok vsf /\
  csv_conns v = [cs_frames fr cfg 0 (map csc_op pre ++ [csc_op cut]);
                 [spec_frame fr 1 (spec_pdu cfg (csc_op fresh))]].
Proof. exact session_complete. Qed.

(* T2: the cut call on its own, in ANY state of an open handle with nothing
   unread (any value of the transaction counter, i.e. any number of earlier
   exchanges): an error, never a success, and exactly one frame transmitted -
   the specified request with the next transaction id *)
Theorem c13c_cut_any_state : forall fr cfg h c vs e k,
  cfg_wf cfg -> cs_valid cfg c vs ->
  hd_closed h = false -> hd_unread h = [] -> hd_txn h < 65536 ->
  (k < reply_len fr (csc_reply c))%nat ->
  let r := fst (hd_call fr cfg h (csc_op c) e (firstn k (cs_answer fr h c))) in
  cut_failed (cr_res r) /\ (forall vs', cr_res r <> Ok vs') /\
  cr_writes r = [spec_frame fr (u16 (hd_txn h + 1)) (spec_pdu cfg (csc_op c))].
Proof. exact cut_any_state. Qed.

(* T3 (MBAP): after ANY history of calls on the connection - any calls, any
   peer bytes, any outcomes (Model/TxnHistory.v) - that left nothing unread
   but whole frames the next call passes over: the call whose reply is cut
   fails and has transmitted exactly one frame, with the transaction id that
   follows those of the requests transmitted so far *)
Theorem c13c_cut_after_any_history : forall cfg xs frames o e res vs k,
  cfg_wf cfg -> Forall (fun x => op_wf (ths_op x)) xs ->
  let st := hist_final FMbap cfg th_init xs in
  let t := th_id 0 (th_sent xs) in
  th_left st = concat frames -> Forall (skippable t) frames ->
  op_wf o -> valid_op o = true -> bytesb (p_payload res) = true -> answers cfg o res vs ->
  (k < reply_len FMbap res)%nat ->
  let r := snd (hist_step FMbap cfg st (mkthstep o (firstn k (spec_frame FMbap t res)) e)) in
  cut_failed (cr_res r) /\ (forall vs', cr_res r <> Ok vs') /\
  cr_writes r = [spec_frame FMbap t (spec_pdu cfg o)].
Proof. exact cut_after_history. Qed.

(* the transaction counter carried through the session, in closed form: the
   request of exchange number n (0-based) of a connection has id (n + 1) mod
   2^16 over MBAP; RTU has no counter *)
Theorem c13c_counter : forall n,
  cs_count_n FMbap 0 n = N.of_nat n mod 65536 /\ cs_count_n FRtu 0 n = 0.
Proof.
  intros n. split; [rewrite cs_count_n_mbap by reflexivity; reflexivity|apply cs_count_n_rtu].
Qed.

(* the length of a reply frame is reply_len *)
Theorem c13c_reply_len : forall fr t res, length (spec_frame fr t res) = reply_len fr res.
Proof. exact reply_frame_len. Qed.

(* ------------------------------------------------------------ non-vacuity *)

(* unit 0x11 over MBAP: ReadRegister 0x10 = 0x1234 and WriteCoil 7 on
   complete, then WriteRegister(0x0102, 0xbeef) whose 12-byte reply is cut at
   every offset 0..11 with every stream end: an error; one connection with the
   three request frames (ids 1, 2, 3), the write exactly once; after Close;
   Open a second connection with the one frame of the next call (id 1) *)
Example c13c_example :
  let cfg := mkcfg 0x11 BigE HighFirst in
  let c1 := mkcsc (OpReadRegs 1 0x10 1 Holding) (mkpdu 0x11 3 [2; 0x12; 0x34]) in
  let c2 := mkcsc (OpWriteCoil 7 true) (mkpdu 0x11 5 [0; 7; 255; 0]) in
  let c3 := mkcsc (OpWriteReg 0x0102 0xbeef) (mkpdu 0x11 6 [1; 2; 0xbe; 0xef]) in
  cs_valid cfg c1 (VNums [0x1234]) /\ cs_valid cfg c2 VUnit /\ cs_valid cfg c3 VUnit /\
  reply_len FMbap (csc_reply c3) = 12%nat /\
  forallb (fun k =>
    forallb (fun e =>
      match cut_session FMbap cfg [c1; c2] c3 e k c1 with
      | mkcsv [Ok (VNums [0x1234]); Ok VUnit; Err _] (Err _) (Ok (VNums [0x1234]))
              [[f1; f2; f3]; [g]] =>
          list_eqb f1 [0; 1; 0; 0; 0; 6; 0x11; 3; 0; 0x10; 0; 1] &&
          list_eqb f2 [0; 2; 0; 0; 0; 6; 0x11; 5; 0; 7; 255; 0] &&
          list_eqb f3 [0; 3; 0; 0; 0; 6; 0x11; 6; 1; 2; 0xbe; 0xef] &&
          list_eqb g [0; 1; 0; 0; 0; 6; 0x11; 3; 0; 0x10; 0; 1]
      | _ => false
      end) [Stall; Closed; Reset]) (seq 0 12) = true /\
  csv_results (cut_session FMbap cfg [c1; c2] c3 Closed 12 c1) =
    [Ok (VNums [0x1234]); Ok VUnit; Ok VUnit].
Proof.
  cbv zeta. split; [|split; [|split; [|split; [|split]]]].
  - unfold cs_valid. cbn [csc_op csc_reply op_wf]. split; [|split; [|split]].
    + split; [left; reflexivity|split; reflexivity].
    + vm_compute. reflexivity.
    + reflexivity.
    + unfold answers. cbn [p_unit c_unit p_fc spec_fc p_payload]. repeat split.
      exists [0x1234]. repeat split.
      constructor; [vm_compute; reflexivity|constructor].
  - unfold cs_valid, answers. cbn. repeat split; reflexivity.
  - unfold cs_valid, answers. cbn. repeat split; reflexivity.
  - reflexivity.
  - vm_compute. reflexivity.
  - vm_compute. reflexivity.
Qed.

Print Assumptions c13c_cut_kth.
Print Assumptions c13c_complete_kth.
Print Assumptions c13c_cut_any_state.
Print Assumptions c13c_cut_after_any_history.
Print Assumptions c13c_counter.
Print Assumptions c13c_reply_len.
