(* C02 - Client never accepts a reply that does not answer its request.
   Statements only; proofs in Proofs/FramingP.v and Proofs/ClientRespP.v. *)
From Modbus Require Import Base.Bytes Model.Crc Model.Encoding Model.Wire Model.Client
  Spec.ModbusSpec Spec.ClientSpec Proofs.ClientRespP.

(* T1 soundness: success only on a well-formed reply to this very request,
   found at a frame boundary (MBAP: after frames that had to be skipped; RTU:
   at the start of the stream), and the returned values are exactly the
   requested number of values decoded from that reply. *)
Theorem c02_sound : forall fr cfg txn o e s vs,
  op_wf o -> cfg_wf cfg -> txn < 65536 -> bytesb s = true ->
  cr_res (client_call fr cfg txn o e s) = Ok vs ->
  valid_op o = true /\
  exists res pre post,
    answers cfg o res vs /\
    s = pre ++ spec_frame fr (u16 (txn + 1)) res ++ post /\
    cr_rest (client_call fr cfg txn o e s) = post /\
    match fr with
    | FMbap => exists frames, pre = concat frames /\ Forall (skippable (u16 (txn + 1))) frames
    | FRtu => pre = []
    end.
Proof. exact client_sound. Qed.

(* T2 completeness: every valid reply is accepted, whatever follows it *)
Theorem c02_complete_rtu : forall cfg txn o e res vs post,
  op_wf o -> cfg_wf cfg -> valid_op o = true ->
  bytesb (p_payload res) = true -> answers cfg o res vs ->
  let r := client_call FRtu cfg txn o e (spec_frame FRtu 0 res ++ post) in
  cr_res r = Ok vs /\ cr_rest r = post.
Proof. exact client_complete_rtu. Qed.

Theorem c02_complete_mbap : forall cfg txn o e res vs frames post,
  op_wf o -> cfg_wf cfg -> txn < 65536 -> valid_op o = true ->
  bytesb (p_payload res) = true -> answers cfg o res vs ->
  Forall (skippable (u16 (txn + 1))) frames ->
  let r := client_call FMbap cfg txn o e
             (concat frames ++ spec_frame FMbap (u16 (txn + 1)) res ++ post) in
  cr_res r = Ok vs /\ cr_rest r = post.
Proof. exact client_complete_mbap. Qed.

(* T3: exception replies (addressed unit or gateway unit 255) give the error
   of their code; all 256 codes *)
Theorem c02_exception_rtu : forall cfg txn o e res code post,
  op_wf o -> cfg_wf cfg -> valid_op o = true -> code < 256 ->
  exception_reply cfg o res code ->
  cr_res (client_call FRtu cfg txn o e (spec_frame FRtu 0 res ++ post)) =
    Err (if documented_exception code then EExc code else EExcUnknown code).
Proof. exact client_exception_rtu. Qed.

Theorem c02_exception_mbap : forall cfg txn o e res code frames post,
  op_wf o -> cfg_wf cfg -> txn < 65536 -> valid_op o = true -> code < 256 ->
  exception_reply cfg o res code ->
  Forall (skippable (u16 (txn + 1))) frames ->
  cr_res (client_call FMbap cfg txn o e
            (concat frames ++ spec_frame FMbap (u16 (txn + 1)) res ++ post)) =
    Err (if documented_exception code then EExc code else EExcUnknown code).
Proof. exact client_exception_mbap. Qed.

(* a normal (non-exception) reply from another unit, 255 included, is refused *)
Theorem c02_foreign_unit_refused : forall fr cfg txn o e res vs post,
  op_wf o -> cfg_wf cfg -> txn < 65536 -> valid_op o = true ->
  bytesb (p_payload res) = true -> answers cfg o res vs ->
  forall u, u < 256 -> u <> c_unit cfg ->
  cr_res (client_call fr cfg txn o e
            (spec_frame fr (u16 (txn + 1)) (mkpdu u (p_fc res) (p_payload res)) ++ post)) = Err EBadUnit.
Proof. exact client_foreign_unit. Qed.

(* T4: no byte stream makes the client panic (no out-of-range slice or index,
   decoders never see ragged input) and the receive loop terminates *)
Theorem c02_no_panic : forall fr cfg txn o e s, op_wf o ->
  cr_res (client_call fr cfg txn o e s) <> Panic /\
  cr_res (client_call fr cfg txn o e s) <> OutOfFuel.
Proof. exact client_no_panic. Qed.

(* non-vacuity: a concrete request, reply and outcome *)
Example c02_ex :
  cr_res (client_call FMbap (mkcfg 17 BigE HighFirst) 0 (OpReadRegs 2 0xfffc 1 Holding) Stall
            [0;1;0;0;0;7;17;3;4;0x0a;0x0b;0x0c;0x0d]) = Ok (VNums [0x0a0b0c0d]).
Proof. vm_compute. reflexivity. Qed.

Print Assumptions c02_sound.
Print Assumptions c02_complete_rtu.
Print Assumptions c02_complete_mbap.
Print Assumptions c02_exception_rtu.
Print Assumptions c02_exception_mbap.
Print Assumptions c02_foreign_unit_refused.
Print Assumptions c02_no_panic.
