(* C19, replies that arrive in pieces: "an RTU client never starts
   transmitting a request earlier than the inter-frame delay after the end of
   the previous frame it received", however slowly that frame came in
   (header first and the body after a pause, byte by byte with gaps, in
   segments of a gateway). Only statements here; proofs live in
   Proofs/TimingPiecesP.v. The instant recorded as the end of a received
   frame is a component of the model (a policy); the silence is kept for
   every history, every clock and every cutting of the replies into reads
   whenever that instant is not earlier than the return of the read that
   consumed the last byte of the frame. *)
From Modbus Require Import Base.Bytes Model.Timing Model.TimingPieces Proofs.TimingP Proofs.TimingPiecesP.
Local Open Scope Z_scope.

(* the condition on the policy, and the silence it gives: all ordered pairs
   of exchanges of every history *)
Theorem c19c_silence : forall pol t1 t35 xs s,
  sound_policy pol -> 0 <= t1 -> 0 <= t35 -> Forall step_ok xs ->
  ForallOrdPairs
    (fun e1 e2 => forall f, frame_end e1 = Some f -> f + t35 <= ev_tx_start e2)
    (run_p pol t1 t35 s xs).
Proof. exact run_p_silence_all. Qed.

(* by position, at the delays of a rate of the property *)
Theorem c19c_silence_rate : forall pol r xs s i j e1 e2 f,
  sound_policy pol -> 1 <= r -> r <= 10000000 -> Forall step_ok xs -> (i < j)%nat ->
  nth_error (run_p pol (char_time r) (t35 r) s xs) i = Some e1 ->
  nth_error (run_p pol (char_time r) (t35 r) s xs) j = Some e2 ->
  frame_end e1 = Some f -> f + t35 r <= ev_tx_start e2.
Proof. exact run_p_silence_rate. Qed.

(* one step of the invariant *)
Theorem c19c_exchange_invariant : forall pol t1 t35 s x ps s' e,
  sound_policy pol -> 0 <= t1 -> 0 <= t35 -> admissible x -> Forall piece_ok ps ->
  exchange_p pol t1 t35 s x ps = (s', e) ->
  last_activity s + t35 <= ev_tx_start e /\
  last_activity s <= last_activity s' /\
  (forall f, frame_end e = Some f -> f <= last_activity s') /\
  clock s <= clock s'.
Proof. exact exchange_p_facts. Qed.

(* rtu_transport.go stamps time.Now() after the read: a sound policy; so is
   the earliest instant allowed, and everything later than a sound policy *)
Theorem c19c_code_policy_sound : sound_policy stamp_now.
Proof. exact stamp_now_sound. Qed.

Theorem c19c_last_read_sound : sound_policy stamp_last_read.
Proof. exact stamp_last_read_sound. Qed.

Theorem c19c_later_sound : forall pol pol', sound_policy pol ->
  (forall t1 tr, pol t1 tr <= pol' t1 tr) -> sound_policy pol'.
Proof. exact sound_policy_later. Qed.

(* with the code's stamp the refined machine is the machine of C19 run on
   the reads taken together: c19_silence carries over to pieces *)
Theorem c19c_refines : forall t1 t35 xs s,
  run_p stamp_now t1 t35 s xs = run t1 t35 s (map (fun xp => flat (fst xp) (snd xp)) xs).
Proof. exact run_p_flat_all. Qed.

Theorem c19c_refines_admissible : forall x ps,
  admissible x -> Forall piece_ok ps -> admissible (flat x ps).
Proof. exact flat_admissible. Qed.

(* an end of frame estimated from the header (header time + announced bytes
   at line rate) is NOT such an instant ... *)
Theorem c19c_estimate_unsound : ~ sound_policy stamp_estimate.
Proof. exact stamp_estimate_unsound. Qed.

(* the one-sided measurement of the check (an instant not later than the end
   of the received frame, an instant not earlier than the start of the next
   transmission) can never fail a client with a sound policy *)
Theorem c19c_measurement_sound : forall pol r xs s i j e1 e2 f before arrive,
  sound_policy pol -> 1 <= r -> r <= 10000000 -> Forall step_ok xs -> (i < j)%nat ->
  nth_error (run_p pol (char_time r) (t35 r) s xs) i = Some e1 ->
  nth_error (run_p pol (char_time r) (t35 r) s xs) j = Some e2 ->
  frame_end e1 = Some f -> before <= f -> ev_tx_start e2 <= arrive ->
  t35 r <= arrive - before.
Proof. exact run_p_measurement_sound. Qed.

(* the predicate of the correspondence check (scenario silenceslow): the
   machine run on the delivery plan of the case, nothing but the line taking
   time, keeps exactly t35 whatever the plan is; the predicate is therefore
   the property's inequality, and every sound policy passes it on its own
   run of the plan *)
Theorem c19c_plan_gap : forall rate n segs, 1 <= rate -> rate <= 10000000 ->
  plan_gap stamp_now rate n segs = t35 rate.
Proof. exact plan_gap_now. Qed.

Theorem c19c_silence_okb : forall rate n segs gap, 1 <= rate -> rate <= 10000000 ->
  slow_silence_okb rate n segs gap = true <-> t35 rate <= gap.
Proof. exact slow_silence_okb_iff. Qed.

Theorem c19c_plan_gap_sound : forall pol rate n segs,
  sound_policy pol -> 1 <= rate -> rate <= 10000000 -> 0 <= n -> plan_ok segs ->
  slow_silence_okb rate n segs (plan_gap pol rate n segs) = true.
Proof. exact plan_gap_sound_okb. Qed.

(* non-vacuity. A 9-byte reply at 9600 bps: header, then the six remaining
   bytes 30 ms later (line rate would be 6.9 ms). The code's policy keeps
   t3.5; the estimate leaves no silence at all and is refused by the
   predicate; delivered at line rate the estimate is harmless. *)
Example c19c_ex_plan :
  plan_ok [(3, 0); (6, 30000000)] /\
  plan_gap stamp_now 9600 8 [(3, 0); (6, 30000000)] = 4010415 /\
  plan_gap stamp_last_read 9600 8 [(3, 0); (6, 30000000)] = 4010415 /\
  plan_gap stamp_estimate 9600 8 [(3, 0); (6, 30000000)] = 0 /\
  slow_silence_okb 9600 8 [(3, 0); (6, 30000000)] 0 = false /\
  plan_gap stamp_estimate 9600 8 [(3, 0); (6, 6000000)] = 4885413 /\
  slow_silence_okb 9600 8 [(3, 0); (6, 6000000)] 4885413 = true.
Proof.
  split; [repeat constructor; cbn; lia|]. repeat split; vm_compute; reflexivity.
Qed.

(* byte by byte with gaps of two character times, and in three segments *)
Example c19c_ex_bytes :
  plan_gap stamp_estimate 115200 8
    [(1, 0); (1, 190000); (1, 190000); (1, 190000); (1, 190000); (1, 190000); (1, 190000)] = 1371944 /\
  t35 115200 = 1750000 /\
  plan_gap stamp_now 115200 8 [(2, 0); (3, 400000); (2, 900000)] = 1750000.
Proof. repeat split; vm_compute; reflexivity. Qed.

(* a history with pieces that satisfies the hypotheses of c19c_silence *)
Definition c19c_ex_history : list (xchg * list piece) :=
  [ (mk_xchg 8 Heard 0 10 20 30 40 500 0 7, [mk_piece 3 100 5; mk_piece 4 30000000 9]);
    (mk_xchg 8 Heard 5 0 0 0 0 0 0 0, [mk_piece 1 0 0; mk_piece 1 2000000 0; mk_piece 5 0 700]);
    (mk_xchg 8 Silent 0 3 3 3 3 300000000 0 0, []);
    (mk_xchg 8 Heard 0 0 0 0 0 0 0 0, [mk_piece 7 0 0]) ].
Example c19c_ex_ok : Forall step_ok c19c_ex_history.
Proof. repeat (constructor; [split; [cbn; unfold admissible; cbn; lia | repeat constructor; cbn; lia]|]). constructor. Qed.
Example c19c_ex_run :
  map (fun e => (ev_tx_start e, frame_end e))
      (run_p stamp_now (char_time 9600) (t35 9600) (mk_tstate 0 (-1000000000000)) c19c_ex_history)
  = map (fun e => (ev_tx_start e, frame_end e))
      (run (char_time 9600) (t35 9600) (mk_tstate 0 (-1000000000000))
           (map (fun xp => flat (fst xp) (snd xp)) c19c_ex_history)).
Proof. vm_compute. reflexivity. Qed.

Print Assumptions c19c_silence.
Print Assumptions c19c_silence_rate.
Print Assumptions c19c_exchange_invariant.
Print Assumptions c19c_code_policy_sound.
Print Assumptions c19c_last_read_sound.
Print Assumptions c19c_later_sound.
Print Assumptions c19c_refines.
Print Assumptions c19c_refines_admissible.
Print Assumptions c19c_estimate_unsound.
Print Assumptions c19c_measurement_sound.
Print Assumptions c19c_plan_gap.
Print Assumptions c19c_silence_okb.
Print Assumptions c19c_plan_gap_sound.
