(* C08, scenario "concgarble": goroutines share one client over an RTU-framed
   link whose device sometimes garbles a reply (wrong CRC, unknown function
   code, trailing line noise, a frame cut short, silence) and answers the
   exchange after a garbled one late. The harness gives every call the bytes
   the device answers ITS request with; the model side computes what every
   caller must be handed with cg_expected (Model/ConcGarble.v) and checks that
   the answers are settled (cg_all_settled). Statements only; proofs in
   Proofs/ConcGarbleP.v. *)
From Coq Require Import List Bool NArith Permutation.
Import ListNotations.
From Modbus Require Import Base.Bytes Model.Encoding Model.Wire Model.Client Spec.ModbusSpec Model.ConcGarble
  Proofs.ConcGarbleP.

(* whatever the order in which the goroutines get the client (l' = the calls in
   the order of their exchanges on the line), the exchanges - each one facing
   what the earlier ones left on the line - return what every call returns on a
   quiet line facing its own answer *)
Theorem c08g_any_order : forall cfg l l',
  Permutation l l' -> cg_all_settled cfg l = true ->
  cg_serial cfg [] l' = cg_expected cfg l'.
Proof. exact cg_serial_any_order. Qed.
Print Assumptions c08g_any_order.

(* per caller: the result it is handed is decided by the answer to its own
   request, not by the exchange (garbled or not) that went before *)
Theorem c08g_each_caller_own_reply : forall cfg l l' c r,
  Permutation l l' -> cg_all_settled cfg l = true ->
  In (c, r) (combine l' (cg_serial cfg [] l')) -> r = cg_own cfg c.
Proof. exact cg_each_own. Qed.
Print Assumptions c08g_each_caller_own_reply.

(* non-vacuity *)
Definition c08g_cfg := mkcfg 1 BigE HighFirst.
Definition c08g_o1 := OpReadRegs 1 0x0900 1 Holding.
Definition c08g_o2 := OpReadRegs 1 0x0a00 1 Holding.
Definition c08g_good1 := assemble_rtu (mkpdu 1 3 [2; 0x12; 0x34]).
Definition c08g_good2 := assemble_rtu (mkpdu 1 3 [2; 0x56; 0x78]).
(* the last CRC byte inverted, three bytes of noise behind the frame *)
Definition c08g_bad1 := removelast c08g_good1 ++ [N.lxor (last c08g_good1 0) 255] ++ [7; 7; 7].
(* a function code no reply can carry; the rest of the frame stays on the line *)
Definition c08g_odd1 := [1; 0x2b; 2; 0x12; 0x34; 0; 0].

Example c08g_ex_good :
  cr_res (cg_own c08g_cfg (c08g_o1, c08g_good1)) = Ok (VNums [0x1234]) /\
  cg_settled c08g_cfg (c08g_o1, c08g_good1) = true.
Proof. split; vm_compute; reflexivity. Qed.

Example c08g_ex_badcrc_noise :
  cr_res (cg_own c08g_cfg (c08g_o1, c08g_bad1)) = Err EBadCRC /\
  cg_settled c08g_cfg (c08g_o1, c08g_bad1) = true.
Proof. split; vm_compute; reflexivity. Qed.

Example c08g_ex_unknown_fc :
  cr_res (cg_own c08g_cfg (c08g_o1, c08g_odd1)) = Err EProtocol /\
  cg_settled c08g_cfg (c08g_o1, c08g_odd1) = true.
Proof. split; vm_compute; reflexivity. Qed.

(* the caller after a garbled exchange is handed its own reply *)
Example c08g_ex_next_unaffected :
  map cr_res (cg_serial c08g_cfg [] [(c08g_o1, c08g_bad1); (c08g_o2, c08g_good2)]) =
  [Err EBadCRC; Ok (VNums [0x5678])].
Proof. vm_compute; reflexivity. Qed.

(* the hypothesis is needed: a good reply with a byte of noise behind it is not
   settled (nothing flushes the line after a good exchange), and the next
   caller is handed something else than its own reply *)
Example c08g_ex_unsettled :
  cg_settled c08g_cfg (c08g_o1, c08g_good1 ++ [9]) = false /\
  map cr_res (cg_serial c08g_cfg [] [(c08g_o1, c08g_good1 ++ [9]); (c08g_o2, c08g_good2)]) <>
  map cr_res (cg_expected c08g_cfg [(c08g_o1, c08g_good1 ++ [9]); (c08g_o2, c08g_good2)]).
Proof. split; vm_compute; [reflexivity|discriminate]. Qed.
