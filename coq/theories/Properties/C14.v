(* C14 - Modbus/TLS enforces mutual authentication in both directions.
   Statements only; proofs in Proofs/TlsPolicyP.v, model in Model/TlsPolicy.v,
   vocabulary (spec_client_authenticated, spec_server_authenticated,
   tls12_or_later) in Spec/TlsSpec.v.

   Go's crypto/tls and crypto/x509 are ORACLES: every theorem is quantified
   over the handshake functions hs (server side) / hc (client side), the
   verification predicate `verifies` and the clock `now`; what the Go
   documentation states about them is the explicit premise
   tls_srv_documented hs verifies now / tls_cli_documented hc verifies now.
   These premises are about Go's standard library, not about this
   repository; the correspondence run exercises them on the whole credential
   x version matrix. *)
From Modbus Require Import Base.Bytes Model.Encoding Model.Wire Model.Client Model.Server
  Model.Role Model.Config Model.TlsPolicy
  Spec.ModbusSpec Spec.ServerSpec Spec.ServerSessionSpec Spec.ConfigSpec Spec.TlsSpec
  Proofs.TlsPolicyP.
From Coq Require String.
Import String.StringSyntax.

Section C14.
  Variable hs hc : tls_policy -> tls_peer -> option tls_session.
  Variable verifies : option (list tls_cert) -> tls_usage -> N -> list N -> list tls_cert -> Prop.
  Variable now : N.

  Section Server.
    Context {St : Type} (h : list N -> handler St).

    (* handleTCPClient, whatever crypto/tls does: a handler invocation implies
       that Handshake() returned nil under the repository's policy *)
    Theorem c14_server_call_needs_handshake : forall c rest peer st e s r,
      url_scheme (tsv_url c) STcpTls rest ->
      In (EvCall r) (tls_server_conn hs h c peer st e s) ->
      exists sess, hs (tls_policy_of_server c) peer = Some sess.
    Proof. exact (tls_server_call_handshake hs h). Qed.

    (* T1: hence, with what crypto/tls documents, the peer completed a TLS
       1.2-or-later handshake and presented a chain that verifies against the
       configured client CAs for client authentication at the current time *)
    Theorem c14_server_authenticates : forall c rest peer st e s r,
      tls_srv_documented hs verifies now ->
      url_scheme (tsv_url c) STcpTls rest ->
      In (EvCall r) (tls_server_conn hs h c peer st e s) ->
      exists cas sess,
        tsv_cas c = Some cas /\
        hs (tls_policy_of_server c) peer = Some sess /\
        spec_client_authenticated verifies now cas peer sess.
    Proof. exact (tls_server_call_authenticated hs verifies now h). Qed.

    (* the refusing direction, one rule per way of not being authenticated *)
    Theorem c14_server_refuses_unauthenticated : forall c rest peer st e s,
      tls_srv_documented hs verifies now ->
      url_scheme (tsv_url c) STcpTls rest ->
      (forall cas sess, tsv_cas c = Some cas -> ~ spec_client_authenticated verifies now cas peer sess) ->
      forall r, ~ In (EvCall r) (tls_server_conn hs h c peer st e s).
    Proof. exact (tls_server_unauthenticated hs verifies now h). Qed.

    Theorem c14_server_refuses_plain_text : forall c rest peer st e s,
      tls_srv_documented hs verifies now ->
      url_scheme (tsv_url c) STcpTls rest ->
      tpe_speaks_tls peer = false ->
      forall r, ~ In (EvCall r) (tls_server_conn hs h c peer st e s).
    Proof. exact (tls_server_plain_peer hs verifies now h). Qed.

    Theorem c14_server_refuses_no_certificate : forall c rest peer st e s,
      tls_srv_documented hs verifies now ->
      url_scheme (tsv_url c) STcpTls rest ->
      tpe_chain peer = [] ->
      forall r, ~ In (EvCall r) (tls_server_conn hs h c peer st e s).
    Proof. exact (tls_server_no_certificate hs verifies now h). Qed.

    Theorem c14_server_refuses_unverified : forall c rest peer st e s,
      tls_srv_documented hs verifies now ->
      url_scheme (tsv_url c) STcpTls rest ->
      (forall cas, tsv_cas c = Some cas ->
                   ~ verifies (Some cas) TlsUsageClientAuth now [] (tpe_chain peer)) ->
      forall r, ~ In (EvCall r) (tls_server_conn hs h c peer st e s).
    Proof. exact (tls_server_unverified hs verifies now h). Qed.

    Theorem c14_server_refuses_old_version : forall c rest peer st e s,
      tls_srv_documented hs verifies now ->
      url_scheme (tsv_url c) STcpTls rest ->
      (forall v, In v (tpe_versions peer) -> v = TLS10 \/ v = TLS11) ->
      forall r, ~ In (EvCall r) (tls_server_conn hs h c peer st e s).
    Proof. exact (tls_server_old_version hs verifies now h). Qed.

    (* a failed handshake: nothing but the close *)
    Theorem c14_server_failed_handshake_closes : forall c eff peer st e s,
      tls_new_server c = CfgOk eff -> se_transport eff = TTcpOverTls ->
      hs (tls_policy_of_server c) peer = None ->
      tls_server_conn hs h c peer st e s = [EvClosed].
    Proof. exact (tls_server_handshake_failed hs h). Qed.

    (* T4: a peer the handshake accepts is served: its first valid request is
       dispatched (with the role of its leaf certificate) and answered *)
    Theorem c14_server_serves : forall c rest peer sess st e t p r tail,
      tls_srv_documented hs verifies now ->
      (forall role, handler_wf (h role)) ->
      url_scheme (tsv_url c) STcpTls rest -> rest <> [] ->
      tsv_cert c <> None -> tsv_cas c <> None ->
      hs (tls_policy_of_server c) peer = Some sess ->
      t < 65536 -> pdu_wf p -> spec_decode p = Some r -> in_range r = true ->
      exists leaf more,
        tpe_chain peer = leaf :: more /\
        let role := extract_role (tlc_exts leaf) in
        tls_server_conn hs h c peer st e (spec_mbap t p ++ tail) =
        EvCall r :: EvResp (spec_mbap t (spec_response p r (snd (h role st r)))) ::
        server_run (h role) (fst (h role st r)) e tail.
    Proof. exact (tls_server_serves hs verifies now h). Qed.
  End Server.

  (* Open, whatever crypto/tls does: nothing is written on the connection
     unless the handshake returned nil under the repository's policy *)
  Theorem c14_client_tx_needs_handshake : forall c rest server cfg txn o e s,
    url_scheme (tcl_url c) STcpTls rest ->
    tls_client_tx hc c server cfg txn o e s <> [] ->
    exists sess, hc (tls_policy_of_client c) server = Some sess.
  Proof. exact (tls_client_tx_handshake hc). Qed.

  Theorem c14_client_silent_on_failed_handshake : forall c rest server cfg txn o e s,
    url_scheme (tcl_url c) STcpTls rest ->
    hc (tls_policy_of_client c) server = None ->
    tls_client_tx hc c server cfg txn o e s = [].
  Proof. exact (tls_client_handshake_failed hc). Qed.

  (* T2: hence the server completed a TLS 1.2-or-later handshake with a chain
     that verifies against the configured roots for the dialled host *)
  Theorem c14_client_authenticates : forall c rest server cfg txn o e s,
    tls_cli_documented hc verifies now ->
    url_scheme (tcl_url c) STcpTls rest ->
    tls_client_tx hc c server cfg txn o e s <> [] ->
    exists roots sess,
      tcl_roots c = Some roots /\
      hc (tls_policy_of_client c) server = Some sess /\
      spec_server_authenticated verifies now roots (tls_dial_host rest) server sess.
  Proof. exact (tls_client_tx_authenticated hc verifies now). Qed.

  Theorem c14_client_refuses_unauthenticated : forall c rest server cfg txn o e s,
    tls_cli_documented hc verifies now ->
    url_scheme (tcl_url c) STcpTls rest ->
    (forall roots sess, tcl_roots c = Some roots ->
       ~ spec_server_authenticated verifies now roots (tls_dial_host rest) server sess) ->
    tls_client_tx hc c server cfg txn o e s = [].
  Proof. exact (tls_client_unauthenticated hc verifies now). Qed.

  (* T4, client side: towards a server the handshake accepts the request goes out *)
  Theorem c14_client_sends : forall c rest server sess cfg txn o e s req,
    url_scheme (tcl_url c) STcpTls rest ->
    tcl_cert c <> None -> tcl_roots c <> None ->
    hc (tls_policy_of_client c) server = Some sess ->
    client_request cfg o = Ok req ->
    tls_client_tx hc c server cfg txn o e s = [assemble_mbap (u16 (txn + 1)) req].
  Proof. exact (tls_client_sends hc). Qed.
End C14.

(* T3: constructors. A tcp+tls configuration is refused exactly when the
   certificate or the pool is missing *)
Theorem c14_server_ctor_iff : forall c rest,
  url_scheme (tsv_url c) STcpTls rest -> rest <> [] ->
  (tls_new_server c = CfgErr EConfig <-> tsv_cert c = None \/ tsv_cas c = None).
Proof. exact tls_new_server_refuses_iff. Qed.

Theorem c14_client_ctor_iff : forall c rest,
  url_scheme (tcl_url c) STcpTls rest ->
  (tls_new_client c = CfgErr EConfig <-> tcl_cert c = None \/ tcl_roots c = None).
Proof. exact tls_new_client_refuses_iff. Qed.

(* T5: the constants handed to crypto/tls *)
Theorem c14_server_policy_constants : forall c,
  tpo_client_auth (tls_policy_of_server c) = TlsRequireAndVerify /\
  tpo_min_version (tls_policy_of_server c) = TLS12 /\
  tpo_pool (tls_policy_of_server c) = tsv_cas c /\
  tpo_own_cert (tls_policy_of_server c) = tsv_cert c /\
  tpo_skip_verify (tls_policy_of_server c) = false.
Proof. exact tls_server_policy_pinned. Qed.

Theorem c14_client_policy_constants : forall c,
  tpo_min_version (tls_policy_of_client c) = TLS12 /\
  tpo_skip_verify (tls_policy_of_client c) = false /\
  tpo_pool (tls_policy_of_client c) = tcl_roots c /\
  tpo_own_cert (tls_policy_of_client c) = tcl_cert c /\
  tpo_server_name (tls_policy_of_client c) = tls_dial_host (snd (url_parts (tcl_url c))).
Proof. exact tls_client_policy_pinned. Qed.

(* the name the server certificate is checked for: host:port without :port *)
Theorem c14_dial_host : forall host port,
  ~ In 58 port -> tls_dial_host (host ++ 58 :: port) = host.
Proof. exact tls_dial_host_port. Qed.

Theorem c14_tls12_or_later_iff : forall v,
  tls_version_geb v TLS12 = true <-> tls12_or_later v.
Proof. exact tls_geb_12_iff. Qed.

Print Assumptions c14_server_call_needs_handshake.
Print Assumptions c14_server_authenticates.
Print Assumptions c14_server_refuses_unauthenticated.
Print Assumptions c14_server_refuses_plain_text.
Print Assumptions c14_server_refuses_no_certificate.
Print Assumptions c14_server_refuses_unverified.
Print Assumptions c14_server_refuses_old_version.
Print Assumptions c14_server_failed_handshake_closes.
Print Assumptions c14_server_serves.
Print Assumptions c14_client_tx_needs_handshake.
Print Assumptions c14_client_silent_on_failed_handshake.
Print Assumptions c14_client_authenticates.
Print Assumptions c14_client_refuses_unauthenticated.
Print Assumptions c14_client_sends.
Print Assumptions c14_server_ctor_iff.
Print Assumptions c14_client_ctor_iff.
Print Assumptions c14_server_policy_constants.
Print Assumptions c14_client_policy_constants.
Print Assumptions c14_dial_host.
Print Assumptions c14_tls12_or_later_iff.

(* ---- non-vacuity: an instance of the oracles that satisfies both documented
   premises and accepts some peers; the model run on it *)

Definition c14_toy_verifiesb (pool : option (list tls_cert)) (chain : list tls_cert) : bool :=
  match pool, chain with
  | Some p, leaf :: _ => existsb (fun c => tlc_id c =? tlc_id leaf) p    (* pinned leaf *)
  | _, _ => false
  end.

Definition c14_toy_verifies (pool : option (list tls_cert)) (u : tls_usage) (t : N) (host : list N)
                            (chain : list tls_cert) : Prop :=
  c14_toy_verifiesb pool chain = true.

Definition c14_toy_handshake (pol : tls_policy) (peer : tls_peer) : option tls_session :=
  if negb (tpe_speaks_tls peer) then None
  else
    match find (fun v => tls_version_geb v (tpo_min_version pol)) (tpe_versions peer) with
    | None => None
    | Some v =>
        if c14_toy_verifiesb (tpo_pool pol) (tpe_chain peer)
        then Some (mk_tls_session v (tpe_chain peer)) else None
    end.

Example c14_toy_srv_documented : tls_srv_documented c14_toy_handshake c14_toy_verifies 0.
Proof.
  intros pol peer sess. unfold c14_toy_handshake.
  destruct (tpe_speaks_tls peer); [|discriminate]. cbn [negb].
  destruct (find _ (tpe_versions peer)) as [v|] eqn:Ef; [|discriminate].
  apply find_some in Ef. destruct Ef as [Hin Hge].
  destruct (c14_toy_verifiesb (tpo_pool pol) (tpe_chain peer)) eqn:Ev; [|discriminate].
  intros [= <-]. cbn [tss_version tss_peer_certs].
  split; [reflexivity|]. split; [exact Hin|]. split; [exact Hge|].
  intros _. split; [reflexivity|]. split; [|exact Ev].
  intros E. rewrite E in Ev. unfold c14_toy_verifiesb in Ev. destruct (tpo_pool pol); discriminate Ev.
Qed.

Example c14_toy_cli_documented : tls_cli_documented c14_toy_handshake c14_toy_verifies 0.
Proof.
  intros pol peer sess. unfold c14_toy_handshake.
  destruct (tpe_speaks_tls peer); [|discriminate]. cbn [negb].
  destruct (find _ (tpe_versions peer)) as [v|] eqn:Ef; [|discriminate].
  apply find_some in Ef. destruct Ef as [Hin Hge].
  destruct (c14_toy_verifiesb (tpo_pool pol) (tpe_chain peer)) eqn:Ev; [|discriminate].
  intros [= <-]. cbn [tss_version tss_peer_certs].
  split; [reflexivity|]. split; [exact Hin|]. split; [exact Hge|].
  intros _. split; [reflexivity|]. split; [|exact Ev].
  intros E. rewrite E in Ev. unfold c14_toy_verifiesb in Ev. destruct (tpo_pool pol); discriminate Ev.
Qed.

Definition c14_example_handler : list N -> handler N :=
  fun role st r =>
    (st + 1, mkhres (repeat true (N.to_nat (h_qty r))) (repeat (lenN role) (N.to_nat (h_qty r))) HNone).

Example c14_example_handler_wf : forall role, lenN role < 65536 -> handler_wf (c14_example_handler role).
Proof.
  intros role Hr st r. cbn [c14_example_handler snd r_regs r_err]. split.
  - apply Forall_forall. intros v Hv. apply repeat_spec in Hv. subst v. exact Hr.
  - intros c Hc. discriminate Hc.
Qed.

Definition c14_ca : tls_cert := mk_tls_cert 1 [].
Definition c14_server_cert : tls_cert := mk_tls_cert 2 [].
(* a client certificate with the role "AB" (0c 02 41 42) in its Modbus role extension *)
Definition c14_client_cert : tls_cert := mk_tls_cert 3 [(false, [1; 2]); (true, [12; 2; 65; 66])].
Definition c14_stranger_cert : tls_cert := mk_tls_cert 4 [(true, [12; 2; 65; 66])].

Definition c14_srv_conf : tls_srv_conf :=
  mk_tls_srv_conf (str "tcp+tls://0.0.0.0:802") 0 0 (Some c14_server_cert) (Some [c14_ca; c14_client_cert]).

Definition c14_cli_conf : tls_cli_conf :=
  mk_tls_cli_conf (str "tcp+tls://10.1.2.3:802") 0 (Some c14_client_cert) (Some [c14_server_cert]).

Definition c14_request : list N := spec_mbap 7 (mkpdu 1 3 [0; 16; 0; 2]).

Example c14_url_sat : url_scheme (tsv_url c14_srv_conf) STcpTls (str "0.0.0.0:802").
Proof. reflexivity. Qed.

(* an authenticated peer is served, and the handler sees the role of its leaf (length 2) *)
Example c14_example_served :
  tls_server_conn c14_toy_handshake c14_example_handler c14_srv_conf
    (mk_tls_peer true [c14_client_cert] [TLS10; TLS12; TLS13]) 0 Closed c14_request =
  [EvCall (mkhreq HHolding 1 16 2 false [] []);
   EvResp (spec_mbap 7 (mkpdu 1 3 [4; 0; 2; 0; 2]));
   EvClosed].
Proof. vm_compute. reflexivity. Qed.

(* a stranger, a TLS 1.1 peer, a peer without certificate, a plain-text peer:
   nothing but the close *)
Example c14_example_refused :
  map (fun peer => tls_server_conn c14_toy_handshake c14_example_handler c14_srv_conf peer 0 Closed c14_request)
    [mk_tls_peer true [c14_stranger_cert] [TLS12; TLS13];
     mk_tls_peer true [c14_client_cert] [TLS10; TLS11];
     mk_tls_peer true [] [TLS12; TLS13];
     mk_tls_peer false [c14_client_cert] [TLS12]] =
  [[EvClosed]; [EvClosed]; [EvClosed]; [EvClosed]].
Proof. vm_compute. reflexivity. Qed.

(* a plain tcp server of the same model serves without any handshake, with the empty role *)
Example c14_example_plain_tcp :
  tls_server_conn c14_toy_handshake c14_example_handler
    (mk_tls_srv_conf (str "tcp://0.0.0.0:502") 0 0 None None)
    (mk_tls_peer false [] []) 0 Closed c14_request =
  [EvCall (mkhreq HHolding 1 16 2 false [] []);
   EvResp (spec_mbap 7 (mkpdu 1 3 [4; 0; 0; 0; 0]));
   EvClosed].
Proof. vm_compute. reflexivity. Qed.

(* the client: the request goes out to the pinned server only; the name checked is the host part *)
Example c14_example_client :
  map (fun server => tls_client_tx c14_toy_handshake c14_cli_conf server (mkcfg 1 BigE HighFirst) 0
                       (OpReadRegs 1 16 2 Holding) Closed [])
    [mk_tls_peer true [c14_server_cert] [TLS12];
     mk_tls_peer true [c14_stranger_cert] [TLS12];
     mk_tls_peer true [c14_server_cert] [TLS11];
     mk_tls_peer false [] []] =
  [[spec_mbap 1 (mkpdu 1 3 [0; 16; 0; 2])]; []; []; []].
Proof. vm_compute. reflexivity. Qed.

Example c14_example_server_name :
  tpo_server_name (tls_policy_of_client c14_cli_conf) = str "10.1.2.3".
Proof. vm_compute. reflexivity. Qed.

(* constructors *)
Example c14_example_ctor :
  (tls_new_server (mk_tls_srv_conf (str "tcp+tls://h:1") 0 0 None (Some [c14_ca])),
   tls_new_server (mk_tls_srv_conf (str "tcp+tls://h:1") 0 0 (Some c14_server_cert) None),
   tls_new_client (mk_tls_cli_conf (str "tcp+tls://h:1") 0 None (Some [c14_ca])),
   tls_new_client (mk_tls_cli_conf (str "tcp+tls://h:1") 0 (Some c14_client_cert) None)) =
  (CfgErr EConfig, CfgErr EConfig, CfgErr EConfig, CfgErr EConfig).
Proof. vm_compute. reflexivity. Qed.
