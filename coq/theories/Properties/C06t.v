(* C06 / C02 / C13, source level: the frame reader and the exchange of
   rtu_transport.go AS TRANSLATED FROM THE GO SOURCE ON THIS RUN. (1) For EVERY
   world the translated functions compute the transport model of
   Model/Transport.v: readRTUFrame reads three bytes, asks
   expectedResponseLenth, refuses frames beyond 256 bytes, reads the rest,
   and accepts the frame only when the CRC-16 of everything before the trailer
   equals the trailer; ExecuteRequest flushes the link (discard) exactly after a
   bad CRC, a protocol error or a short frame. (2) On byte-stream worlds they
   return what read_rtu / rtu_read_response of Model/Wire.v return (the
   functions C02.v and C06.v are about), consume the same bytes and fail in
   the same error class. Only statements, closed by [exact]. *)
From Coq Require Import List NArith String.
Import ListNotations.
From Modbus Require Import Base.Bytes.
From Modbus Require Import Model.GoLite.
From Modbus Require Import Gen.SrcPure.
From Modbus Require Import Model.Wire.
From Modbus Require Import Model.Transport.
From Modbus Require Import Proofs.GoLiteLinkP.
From Modbus Require Import Proofs.SrcCrcP.
From Modbus Require Import Proofs.SrcMiscP.
From Modbus Require Import Proofs.SrcClientP.
From Modbus Require Import Proofs.SrcTransportP.
From Modbus Require Import Proofs.TransportStreamP.
From Modbus Require Import Proofs.TransportClockP.
From Modbus Require Import Proofs.SrcTransportLinkP.
From Modbus Require Import Proofs.SrcTransportWorldsP.
Open Scope string_scope.
Open Scope N_scope.

Theorem c06t_readRTUFrame :
  forall (base : fenv) (fuel : nat) (T : tworld) (tmo la t35 t1 : N) (w : val),
       tworld_hyp base T "link" ->
       tworld_wf T src_codes ->
       call_with src_pure base fuel "rtuTransport.readRTUFrame" [VN tmo; VN la; VN t35; VN t1; w] =
       out_read_rtu T tmo la t35 t1 w.
Proof. exact src_readRTUFrame_ok. Qed.
Print Assumptions c06t_readRTUFrame.

Theorem c06t_discard :
  forall (base : fenv) (fuel : nat) (T : tworld) (w : val),
       tworld_hyp base T "rtuLink" ->
       tworld_wf T src_codes -> call_with src_pure base fuel "discard" [w] = out_discard T w.
Proof. exact src_discard_ok. Qed.
Print Assumptions c06t_discard.

Theorem c06t_ExecuteRequest :
  forall (base : fenv) (fuel : nat) (T : tworld) (tmo la t35 t1 : N) (req : pdu) (w : val),
       tworld_hyp base T "link" ->
       tworld_hyp base T "rtuLink" ->
       tworld_wf T src_codes ->
       pdu_ok req ->
       call_with src_pure base fuel "rtuTransport.ExecuteRequest"
         ([VN tmo; VN la; VN t35; VN t1] ++ pdu_args req ++ [w]) = out_rtu_execute T tmo la t35 t1 req w.
Proof. exact src_rtu_ExecuteRequest_ok. Qed.
Print Assumptions c06t_ExecuteRequest.

Theorem c06t_readRTUFrame_stream :
  forall (fuel : nat) (e : send) (tmo la t35 t1 : N) (s : list N),
       bytesb s = true ->
       exists (w' : val) (p : option pdu) (c : N),
         call_with src_pure (world_base (sw e)) fuel "rtuTransport.readRTUFrame"
           [VN tmo; VN la; VN t35; VN t1; vbytes s] =
         GOk ([VN tmo; VN la; VN t35; VN t1; w'] ++ enc_opdu p ++ [VN c])%list /\
         w' = vbytes (snd (read_rtu e s)) /\
         match fst (read_rtu e s) with
         | MOk q => p = Some q /\ c = 0
         | Err x => p = None /\ c <> 0 /\ EC c = x
         | _ => False
         end.
Proof. exact src_readRTUFrame_stream. Qed.
Print Assumptions c06t_readRTUFrame_stream.

Theorem c06t_ExecuteRequest_stream :
  forall (fuel : nat) (e : send) (tmo la t35 t1 : N) (req : pdu) (s : list N),
       bytesb s = true ->
       pdu_ok req ->
       exists (la' : N) (p : option pdu) (c : N),
         call_with src_pure (world_base (sw e)) fuel "rtuTransport.ExecuteRequest"
           ([VN tmo; VN la; VN t35; VN t1] ++ pdu_args req ++ [vbytes s]) =
         GOk
           ([VN tmo; VN la'; VN t35; VN t1; vbytes (snd (rtu_read_response e s))] ++ enc_opdu p ++ [VN c])%list /\
         match fst (rtu_read_response e s) with
         | MOk q => p = Some q /\ c = 0
         | Err x => p = None /\ c <> 0 /\ EC c = x
         | _ => False
         end.
Proof. exact src_rtu_ExecuteRequest_stream. Qed.
Print Assumptions c06t_ExecuteRequest_stream.

