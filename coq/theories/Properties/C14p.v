(* C14 (continued) - correctly authenticated peers are served WHILE other
   peers of the same server are still in their handshake.
   Statements only; proofs in Proofs/TlsPendingP.v, model in Model/TlsPending.v.

   The last clause of the property ("correctly authenticated peers are
   served") is about one peer; the server it connects to has other peers, and
   nothing in the property lets what those do matter. Properties/C14h.v takes
   the peers one after the other. Here some of them have opened their TCP
   connection and are still in their handshake (nothing sent yet, part of a
   ClientHello, stopped before the second flight) while the later ones
   arrive; they complete it after all of those (PaceLate) or go away
   (PaceNever). Model/TlsPending.v: a pending handshake holds one of the
   MaxClients places and nothing else. The theorems: as long as the pending
   handshakes leave a place, the history is the history of C14h with the
   peers taken one after the other (for EVERY handshake oracle), every step
   is decided as the same step alone on a freshly built server, hence T1 / T4
   of Properties/C14.v hold for every step: a peer the handshake accepts is
   served, with 0 .. MaxClients - 1 other handshakes pending, whoever those
   peers are; a peer that went away in its handshake reaches no handler; a
   handler invocation implies an authenticated peer whatever is pending (no
   premise about the places). *)
From Modbus Require Import Base.Bytes Model.Encoding Model.Wire Model.Client Model.Server
  Model.Role Model.Config Model.TlsPolicy Model.TlsHistory Model.TlsPending
  Spec.ModbusSpec Spec.ServerSpec Spec.ServerSessionSpec Spec.ConfigSpec Spec.TlsSpec
  Proofs.TlsPolicyP Proofs.TlsHistoryP Proofs.TlsPendingP.
From Coq Require String.
Import String.StringSyntax.

Section C14p.
  Variable hs : tls_policy -> tls_peer -> option tls_session.
  Variable verifies : option (list tls_cert) -> tls_usage -> N -> list N -> list tls_cert -> Prop.
  Variable now : N.
  Context {St : Type} (h : list N -> handler St).

  (* the server object after a history is the object before it, whatever is pending *)
  Theorem c14p_pending_leaves_object : forall o held e l,
    fst (tls_pending_history hs h o held e l) = o.
  Proof. exact (tls_pending_history_object hs h). Qed.

  (* fewer pending handshakes than MaxClients: the peers might as well have
     come one after the other *)
  Theorem c14p_pending_as_history : forall c e l,
    tls_pending_count l < tls_places c ->
    tls_server_pending hs h c e l = tls_server_history hs h c e (map tls_pstep_seen l).
  Proof. exact (tls_server_pending_as_history hs h). Qed.

  (* and every one of them is decided as if it were alone on a fresh server *)
  Theorem c14p_pending_pointwise : forall c e l,
    tls_pending_count l < tls_places c ->
    tls_server_pending hs h c e l = map (fun s => tls_attempt_alone hs h c e (tls_pstep_seen s)) l.
  Proof. exact (tls_server_pending_pointwise hs h). Qed.

  (* the step that arrives after `before`: what is pending among `before`
     changes nothing for it while a place is left, nor does what comes after *)
  Theorem c14p_pending_context_irrelevant : forall c e before s after,
    tls_pending_count before < tls_places c ->
    nth_error (tls_server_pending hs h c e (before ++ s :: after)) (length before) =
    Some (tls_attempt_alone hs h c e (tls_pstep_seen s)).
  Proof. exact (tls_server_pending_context hs h). Qed.

  (* nobody stalls: Properties/C14h.v *)
  Theorem c14p_nobody_pending : forall c e l,
    0 < tls_places c ->
    tls_server_pending hs h c e (map (mk_tls_pstep PaceAtOnce) l) = tls_server_history hs h c e l.
  Proof. exact (tls_server_pending_at_once hs h). Qed.

  (* the places are MaxClients, 10 when left at 0 *)
  Theorem c14p_places : forall c rest,
    url_scheme (tsv_url c) STcpTls rest -> rest <> [] ->
    tsv_cert c <> None -> tsv_cas c <> None ->
    tls_places c = if tsv_max_clients c =? 0 then 10 else tsv_max_clients c.
  Proof. exact tls_places_of_conf. Qed.

  (* T1 with pending handshakes *)
  Theorem c14p_pending_authenticates : forall c rest e l k evs r,
    tls_srv_documented hs verifies now ->
    url_scheme (tsv_url c) STcpTls rest ->
    nth_error (tls_server_pending hs h c e l) k = Some evs ->
    In (EvCall r) evs ->
    exists s cas sess,
      nth_error l k = Some s /\
      tps_pace s <> PaceNever /\
      tsv_cas c = Some cas /\
      hs (tls_policy_of_server c) (tat_peer (tps_attempt s)) = Some sess /\
      spec_client_authenticated verifies now cas (tat_peer (tps_attempt s)) sess.
  Proof. exact (tls_pending_call_authenticated hs verifies now h). Qed.

  Theorem c14p_pending_refuses_unverified : forall c rest e l k s evs,
    tls_srv_documented hs verifies now ->
    url_scheme (tsv_url c) STcpTls rest ->
    nth_error l k = Some s ->
    (forall cas, tsv_cas c = Some cas ->
                 ~ verifies (Some cas) TlsUsageClientAuth now [] (tpe_chain (tat_peer (tps_attempt s)))) ->
    nth_error (tls_server_pending hs h c e l) k = Some evs ->
    forall r, ~ In (EvCall r) evs.
  Proof. exact (tls_pending_unverified hs verifies now h). Qed.

  (* a peer that goes away in the middle of its handshake *)
  Theorem c14p_abandoned_handshake_no_handler : forall c rest e l k s evs,
    tls_srv_documented hs verifies now ->
    url_scheme (tsv_url c) STcpTls rest ->
    nth_error l k = Some s -> tps_pace s = PaceNever ->
    nth_error (tls_server_pending hs h c e l) k = Some evs ->
    forall r, ~ In (EvCall r) evs.
  Proof. exact (tls_pending_abandoned hs verifies now h). Qed.

  (* T4 with pending handshakes: a peer the handshake accepts is served *)
  Theorem c14p_pending_serves : forall c rest e l k s sess t p r tail,
    tls_srv_documented hs verifies now ->
    (forall role, handler_wf (h role)) ->
    url_scheme (tsv_url c) STcpTls rest -> rest <> [] ->
    tsv_cert c <> None -> tsv_cas c <> None ->
    nth_error l k = Some s -> tps_pace s <> PaceNever ->
    tls_pending_count (firstn k l) < tls_places c ->
    hs (tls_policy_of_server c) (tat_peer (tps_attempt s)) = Some sess ->
    tat_stream (tps_attempt s) = spec_mbap t p ++ tail ->
    t < 65536 -> pdu_wf p -> spec_decode p = Some r -> in_range r = true ->
    exists leaf more,
      tpe_chain (tat_peer (tps_attempt s)) = leaf :: more /\
      let role := extract_role (tlc_exts leaf) in
      nth_error (tls_server_pending hs h c e l) k =
      Some (EvCall r :: EvResp (spec_mbap t (spec_response p r (snd (h role (tat_state (tps_attempt s)) r)))) ::
            server_run (h role) (fst (h role (tat_state (tps_attempt s)) r)) e tail).
  Proof. exact (tls_pending_serves hs verifies now h). Qed.
End C14p.

Print Assumptions c14p_pending_leaves_object.
Print Assumptions c14p_pending_as_history.
Print Assumptions c14p_pending_pointwise.
Print Assumptions c14p_pending_context_irrelevant.
Print Assumptions c14p_nobody_pending.
Print Assumptions c14p_places.
Print Assumptions c14p_pending_authenticates.
Print Assumptions c14p_pending_refuses_unverified.
Print Assumptions c14p_abandoned_handshake_no_handler.
Print Assumptions c14p_pending_serves.

(* ---- non-vacuity: a toy oracle (a chain verifies when its leaf is in the
   pool or names a pool member as its issuer: identity / 16) that satisfies
   the documented premise, and the model run on histories with pending
   handshakes. *)

Definition c14p_in (id : N) (l : list tls_cert) : bool := existsb (fun c => tlc_id c =? id) l.

Definition c14p_toy_verifiesb (pool : option (list tls_cert)) (chain : list tls_cert) : bool :=
  match pool, chain with
  | Some p, leaf :: _ => c14p_in (tlc_id leaf) p || c14p_in (tlc_id leaf / 16) p
  | _, _ => false
  end.

Definition c14p_toy_verifies (pool : option (list tls_cert)) (u : tls_usage) (t : N) (host : list N)
                             (chain : list tls_cert) : Prop :=
  c14p_toy_verifiesb pool chain = true.

Definition c14p_toy_handshake (pol : tls_policy) (peer : tls_peer) : option tls_session :=
  if negb (tpe_speaks_tls peer) then None
  else
    match find (fun v => tls_version_geb v (tpo_min_version pol)) (tpe_versions peer) with
    | None => None
    | Some v =>
        if c14p_toy_verifiesb (tpo_pool pol) (tpe_chain peer)
        then Some (mk_tls_session v (tpe_chain peer)) else None
    end.

Example c14p_toy_srv_documented : tls_srv_documented c14p_toy_handshake c14p_toy_verifies 0.
Proof.
  intros pol peer sess. unfold c14p_toy_handshake.
  destruct (tpe_speaks_tls peer); [|discriminate]. cbn [negb].
  destruct (find _ (tpe_versions peer)) as [v|] eqn:Ef; [|discriminate].
  apply find_some in Ef. destruct Ef as [Hin Hge].
  destruct (c14p_toy_verifiesb (tpo_pool pol) (tpe_chain peer)) eqn:Ev; [|discriminate].
  intros [= <-]. cbn [tss_version tss_peer_certs].
  split; [reflexivity|]. split; [exact Hin|]. split; [exact Hge|].
  intros _. split; [reflexivity|]. split; [|exact Ev].
  intros E. rewrite E in Ev. unfold c14p_toy_verifiesb in Ev. destruct (tpo_pool pol); discriminate Ev.
Qed.

Definition c14p_handler : list N -> handler N :=
  fun role st r =>
    (st + 1, mkhres (repeat true (N.to_nat (h_qty r))) (repeat (lenN role) (N.to_nat (h_qty r))) HNone).

(* identities: the CA 2, two client leaves it issued (33, 34), a stranger 49 *)
Definition c14p_ca : tls_cert := mk_tls_cert 2 [].
Definition c14p_own : tls_cert := mk_tls_cert 9 [].
Definition c14p_client : tls_cert := mk_tls_cert 33 [].
Definition c14p_client2 : tls_cert := mk_tls_cert 34 [].
Definition c14p_stranger : tls_cert := mk_tls_cert 49 [].

(* MaxClients = 3 *)
Definition c14p_conf : tls_srv_conf :=
  mk_tls_srv_conf (str "tcp+tls://0.0.0.0:802") 0 3 (Some c14p_own) (Some [c14p_ca]).

Definition c14p_request : list N := spec_mbap 7 (mkpdu 1 3 [0; 16; 0; 2]).

Definition c14p_step (pace : tls_pace) (chain : list tls_cert) : tls_pstep N :=
  mk_tls_pstep pace (mk_tls_attempt (mk_tls_peer true chain [TLS12; TLS13]) 0 c14p_request).

Definition c14p_served : list event :=
  [EvCall (mkhreq HHolding 1 16 2 false [] []); EvResp (spec_mbap 7 (mkpdu 1 3 [4; 0; 0; 0; 0])); EvClosed].

Example c14p_url_sat : url_scheme (tsv_url c14p_conf) STcpTls (str "0.0.0.0:802").
Proof. reflexivity. Qed.

Example c14p_places_sat : tls_places c14p_conf = 3.
Proof. reflexivity. Qed.

(* two peers stall (one of them for good, the other one holds a valid
   certificate and completes in the end), MaxClients - 1 handshakes are
   pending: the valid clients that arrive meanwhile are served, the stranger
   is not, the slow valid client is served, the one that went away is not *)
Example c14p_example_pending :
  tls_server_pending c14p_toy_handshake c14p_handler c14p_conf Closed
    [c14p_step PaceNever [c14p_client];
     c14p_step PaceAtOnce [c14p_client];
     c14p_step PaceLate [c14p_client2];
     c14p_step PaceAtOnce [c14p_client];
     c14p_step PaceAtOnce [c14p_stranger];
     c14p_step PaceAtOnce [c14p_client2]] =
  [[EvClosed]; c14p_served; c14p_served; c14p_served; [EvClosed]; c14p_served].
Proof. vm_compute. reflexivity. Qed.

(* the example discriminates: the premise about the places is needed. With
   MaxClients handshakes pending the next peer is turned away, valid or not
   (property C09 says that this is what MaxClients means) *)
Example c14p_example_no_place :
  tls_server_pending c14p_toy_handshake c14p_handler c14p_conf Closed
    [c14p_step PaceNever [c14p_client];
     c14p_step PaceLate [c14p_client2];
     c14p_step PaceNever [];
     c14p_step PaceAtOnce [c14p_client]] =
  [[EvClosed]; c14p_served; [EvClosed]; [EvClosed]].
Proof. vm_compute. reflexivity. Qed.
