(* C09 (slots held by connections that never become a session) - "a slot is
   released whenever a served client disconnects, is dropped for a protocol
   error ... so that a later connection is served again - for every order".
   On a tcp+tls server a connection holds its slot from the admission critical
   section on, before its TLS handshake has even started: a peer that talks in
   the clear, sends garbage, hangs up, or presents no / an untrusted
   certificate occupies a slot without a single request ever being dispatched.
   In the Slots system this is an arrival followed by a departure with no Req
   step (Model/SlotsVisit.v). Statements only; proofs in Proofs/SlotsVisitP.v. *)
From Coq Require Import List Arith Bool Permutation.
Import ListNotations.
From Modbus Require Import Model.Slots Proofs.SlotsP Model.SlotsVisit Proofs.SlotsVisitP.

(* the departure of a connection that is on the list - whether or not it ever
   had a request dispatched - gives back exactly its slot and closes the socket,
   in every reachable state *)
Theorem c09b_departure_frees : forall s c w, Inv s -> stat s c = Serving -> w <> ClosedByStop ->
  let s1 := run s (departure c w) in
  Permutation (clients s) (c :: clients s1) /\ stat s1 c = Removed /\ closed s1 c = true /\
  started s1 = started s /\ listening s1 = listening s /\ acceptors s1 = acceptors s /\ maxc s1 = maxc s /\
  (forall x, x <> c -> stat s1 x = stat s x).
Proof. exact departure_frees. Qed.

(* a peer that comes and goes without becoming a session leaves the active
   list as it was (enrolled or refused at the limit alike), and is closed *)
Theorem c09b_visit_neutral : forall s c w, Inv s -> started s = true -> 0 < acceptors s ->
  stat s c = Fresh -> w <> ClosedByStop ->
  let s1 := run s (visit c w) in
  Permutation (clients s) (clients s1) /\ closed s1 c = true /\
  (stat s1 c = Removed \/ stat s1 c = Rejected) /\
  started s1 = true /\ acceptors s1 = acceptors s /\ maxc s1 = maxc s /\
  (forall x, x <> c -> stat s1 x = stat s x).
Proof. exact visit_neutral. Qed.

(* after any number of such peers, for whatever reasons they were dropped, a
   connection that would have been served before them is served after them *)
Theorem c09b_visits_then_served : forall l s d, Inv s -> started s = true -> 0 < acceptors s ->
  NoDup (map fst l) ->
  (forall c w, In (c, w) l -> stat s c = Fresh /\ w <> ClosedByStop) ->
  stat s d = Fresh -> ~ In d (map fst l) -> length (clients s) < maxc s ->
  let s1 := run s (visits l ++ arrival d) in
  stat s1 d = Serving /\ In d (clients s1) /\ length (clients s1) = S (length (clients s)).
Proof. exact visits_then_served. Qed.

(* non-vacuity: MaxClients = 1, two peers fail their handshake one after the
   other while a third is refused at the limit; the next connection is served *)
Example c09b_ex :
  let s0 := run (init 1) [Start] in
  Inv s0 /\ started s0 = true /\ 0 < acceptors s0 /\ length (clients s0) < maxc s0 /\
  let s := run s0 (arrival 1 ++ arrival 2 ++ departure 1 ProtocolError ++ visit 3 Disconnect ++ arrival 4) in
  stat s 1 = Removed /\ stat s 2 = Rejected /\ stat s 3 = Removed /\ stat s 4 = Serving /\ clients s = [4].
Proof.
  cbn zeta. split; [apply reachable_inv|]. vm_compute. repeat split; repeat constructor.
Qed.

Print Assumptions c09b_departure_frees.
Print Assumptions c09b_visit_neutral.
Print Assumptions c09b_visits_then_served.
