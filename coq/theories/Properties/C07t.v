(* C07, source level: the serial port wrapper of serial.go AS TRANSLATED FROM THE GO
   SOURCE ON THIS RUN (the port and the clock as external functions over the
   world). For EVERY port: Read called after the deadline returns the
   request-timed-out error without touching the port or the buffer; before the
   deadline it hands out what the port read, and the driver's own short
   timeout (nothing arrived within 10 ms) is masked as "no data, no error" so
   that io.ReadFull calls again - until the deadline check ends the loop;
   SetDeadline only stores the instant. Only statements, closed by [exact]. *)
From Coq Require Import List NArith String.
Import ListNotations.
From Modbus Require Import Base.Bytes.
From Modbus Require Import Model.GoLite.
From Modbus Require Import Gen.SrcPure.
From Modbus Require Import Model.Wire.
From Modbus Require Import Model.Client.
From Modbus Require Import Model.Transport.
From Modbus Require Import Proofs.GoLiteLinkP.
From Modbus Require Import Proofs.SrcCrcP.
From Modbus Require Import Proofs.SrcMiscP.
From Modbus Require Import Proofs.SrcClientP.
From Modbus Require Import Proofs.SrcTransportP.
From Modbus Require Import Proofs.SrcWrapP.
From Modbus Require Import Proofs.SrcSerialP.
Open Scope string_scope.
Open Scope N_scope.

Theorem c07t_serial_Read :
  forall (base : fenv) (fuel : nat) (T : tworld) (deadline : N) (buf : list N) (w : val),
       port_hyp base T ->
       tread_wf T ->
       lenN buf < 2 ^ 32 ->
       call_with src_pure base fuel "serialPortWrapper.Read" [VN deadline; vbytes buf; w] =
       out_serial_read T deadline buf w.
Proof. exact src_serial_Read_ok. Qed.
Print Assumptions c07t_serial_Read.

Theorem c07t_serial_Write :
  forall (base : fenv) (fuel : nat) (T : tworld) (deadline : N) (buf : list N) (w : val),
       port_hyp base T ->
       call_with src_pure base fuel "serialPortWrapper.Write" [VN deadline; vbytes buf; w] =
       out_serial_write T deadline buf w.
Proof. exact src_serial_Write_ok. Qed.
Print Assumptions c07t_serial_Write.

Theorem c07t_serial_SetDeadline :
  forall (base : fenv) (fuel : nat) (deadline d : N) (w : val),
       call_with src_pure base fuel "serialPortWrapper.SetDeadline" [VN deadline; VN d; w] =
       out_serial_setdl d w.
Proof. exact src_serial_SetDeadline_ok. Qed.
Print Assumptions c07t_serial_SetDeadline.

Theorem c07t_serial_Close :
  forall (base : fenv) (fuel : nat) (T : tworld) (deadline : N) (w : val),
       port_hyp base T ->
       call_with src_pure base fuel "serialPortWrapper.Close" [VN deadline; w] =
       out_serial_close T deadline w.
Proof. exact src_serial_Close_ok. Qed.
Print Assumptions c07t_serial_Close.

Theorem c07t_read_after_deadline :
  forall (T : tworld) (ct st deadline : N) (buf : list N) (w : val),
       deadline < snd (t_now T w) -> t_serial_read T ct st deadline buf w = (buf, fst (t_now T w), 0, ct).
Proof. exact serial_read_after_deadline. Qed.
Print Assumptions c07t_read_after_deadline.

Theorem c07t_read_masks_driver_timeout :
  forall (T : tworld) (ct st deadline : N) (buf : list N) (w : val),
       snd (t_now T w) <= deadline ->
       st <> 0 ->
       let
       '(w1, got, e) := t_readfull T (fst (t_now T w)) (lenN buf) in
        e = st ->
        t_serial_read T ct st deadline buf w =
        ((got ++ skipn (Datatypes.length got) buf)%list, w1, lenN got, 0).
Proof. exact serial_read_masks_driver_timeout. Qed.
Print Assumptions c07t_read_masks_driver_timeout.

