(* C13, second part - the cut facts hold for every way a connection may
   report its end. The io.Reader contract lets a Read return its last bytes
   TOGETHER with the end of the stream (n > 0, err = EOF / reset), or the
   error alone in a later call; C13.v is stated over the byte stream and its
   end, Model/Chunks.v (C12) delivers the end in a Read of its own. Here the
   connection is any list of chunks plus the choice of where the end is
   reported (Model/TailErr.v); statements only, proofs in Proofs/TailErrP.v. *)
From Modbus Require Import Base.Bytes Model.Crc Model.Encoding Model.Wire Model.Client
  Model.Server Model.Chunks Model.TailErr
  Spec.ModbusSpec Spec.ClientSpec Spec.ServerSpec Spec.ServerSessionSpec Spec.CutSpec
  Proofs.ChunksP Proofs.TailErrP.

(* T0: io.ReadFull over such a connection = a full read on the concatenation
   (bytes obtained, bytes left, short reads included) *)
Theorem c13b_read_full : rdf_ok read_full_tail tc_flat.
Proof. exact read_full_tail_ok. Qed.

Section C13b.
  Context {St : Type} (h : handler St).

  (* where the end is reported cannot be observed *)
  Theorem c13b_server_delivery_irrelevant : forall st e cs tl,
    server_run_t h st e (mktconn cs tl) = server_run h st e (concat cs).
  Proof. exact (server_run_tail_flat h). Qed.

  (* T1a: a request cut inside, whatever the chunks and wherever the end is
     reported: no handler call, closed *)
  Theorem c13b_server_cut : forall st e t p k cs tl,
    pdu_wf p -> (k < length (spec_mbap t p))%nat -> concat cs = firstn k (spec_mbap t p) ->
    server_run_t h st e (mktconn cs tl) = [EvClosed].
  Proof. exact (server_cut_tail h). Qed.

  (* T1b: the request fully received - also when its last bytes arrive in the
     very Read that reports the end: the handler runs exactly once *)
  Theorem c13b_server_full_once : forall st e t p r cs tl,
    t < 65536 -> pdu_wf p -> handler_wf h -> spec_decode p = Some r -> in_range r = true ->
    concat cs = spec_mbap t p ->
    server_run_t h st e (mktconn cs tl) =
      [EvCall r; EvResp (spec_mbap t (spec_response p r (snd (h st r)))); EvClosed].
  Proof. exact (server_full_once_tail h). Qed.

  (* T1c: pipelined requests of which only the last Read carries the end:
     every complete request is processed once, in order; a last request cut
     inside (k = 0: nothing of it) adds nothing *)
  Theorem c13b_server_pipelined_cut : forall frames t p k st e cs tl,
    Forall (fun f => fst f < 65536 /\ pdu_wf (snd f)) frames ->
    pdu_wf p -> (k < length (spec_mbap t p))%nat ->
    concat cs = concat (map (fun f => spec_mbap (fst f) (snd f)) frames) ++ firstn k (spec_mbap t p) ->
    server_run_t h st e (mktconn cs tl) = spec_session h st frames (fun _ => [EvClosed]).
  Proof. exact (server_pipelined_cut_tail h). Qed.
End C13b.

(* T2: the client side *)
Theorem c13b_client_delivery_irrelevant : forall fr cfg txn o e cs tl,
  client_call fr cfg txn o e (concat cs) =
  let r := client_call_t fr cfg txn o e (mktconn cs tl) in
  mkcall (gcr_res r) (gcr_writes r) (tc_flat (gcr_rest r)) (gcr_txn r).
Proof. exact client_call_tail_flat. Qed.

Theorem c13b_client_cut_never_ok : forall fr cfg txn o e res vs frames k cs tl,
  op_wf o -> cfg_wf cfg -> valid_op o = true ->
  bytesb (p_payload res) = true -> answers cfg o res vs ->
  match fr with
  | FMbap => txn < 65536 /\ Forall (skippable (u16 (txn + 1))) frames
  | FRtu => frames = []
  end ->
  (k < length (concat frames ++ spec_frame fr (u16 (txn + 1)) res))%nat ->
  concat cs = firstn k (concat frames ++ spec_frame fr (u16 (txn + 1)) res) ->
  let r := gcr_res (client_call_t fr cfg txn o e (mktconn cs tl)) in
  cut_failed r /\ forall vs', r <> Ok vs'.
Proof. exact client_cut_tail_never_ok. Qed.

(* the complete valid reply whose last bytes come with the end: a success *)
Theorem c13b_client_full : forall cfg txn o e res vs cs tl,
  op_wf o -> cfg_wf cfg -> valid_op o = true ->
  bytesb (p_payload res) = true -> answers cfg o res vs ->
  (forall frames, txn < 65536 -> Forall (skippable (u16 (txn + 1))) frames ->
     concat cs = concat frames ++ spec_frame FMbap (u16 (txn + 1)) res ->
     gcr_res (client_call_t FMbap cfg txn o e (mktconn cs tl)) = Ok vs) /\
  (concat cs = spec_frame FRtu 0 res ->
     gcr_res (client_call_t FRtu cfg txn o e (mktconn cs tl)) = Ok vs).
Proof. exact client_full_tail. Qed.

(* ------------------------------------------------------------ non-vacuity *)

Definition c13b_example_handler : handler N :=
  fun st r => (st + 1, mkhres (repeat true (N.to_nat (h_qty r))) (repeat 7 (N.to_nat (h_qty r))) HNone).

(* the Reads of a 12-byte request delivered as one record whose last bytes
   come with the end: the 7-byte header Read is (7, nil), the 5-byte body Read
   is (5, err), every later Read (0, err) *)
Example c13b_reads_example :
  let f := spec_mbap 7 (mkpdu 1 3 [0; 16; 0; 2]) in
  let c0 := mktconn [f] true in
  match tail_read 7 c0 with
  | RdE got1 fin1 c1 =>
      match tail_read 5 c1 with
      | RdE got2 fin2 c2 =>
          match tail_read 7 c2 with
          | RdE got3 fin3 _ =>
              (got1, fin1) = (firstn 7 f, false) /\ (got2, fin2) = (skipn 7 f, true) /\
              (got3, fin3) = ([], true)
          end
      end
  end.
Proof. vm_compute. repeat split; reflexivity. Qed.

(* every cut offset, both ways of reporting the end, three chunkings: inside
   the request closed without a call, at its end one call and one response *)
Example c13b_server_example :
  let f := spec_mbap 7 (mkpdu 1 3 [0; 16; 0; 2]) in
  let chunkings (s : list N) := [[s]; [firstn 7 s; skipn 7 s]; map (fun b => [b]) s] in
  forallb (fun tl =>
    forallb (fun e =>
      forallb (fun k =>
        forallb (fun cs =>
          match server_run_t c13b_example_handler 0 e (mktconn cs tl) with
          | [EvClosed] => true | _ => false end) (chunkings (firstn k f)))
        (seq 0 12) &&
      forallb (fun cs =>
        match server_run_t c13b_example_handler 0 e (mktconn cs tl) with
        | [EvCall r; EvResp _; EvClosed] => h_addr r =? 16 | _ => false end) (chunkings f))
      [Closed; Reset]) [true; false] = true.
Proof. vm_compute. reflexivity. Qed.

(* the delivery is not a vacuous addition: a reader that tests the error of a
   Read before counting its bytes (the discipline the io.Reader documentation
   warns against) loses the completely received request under it, and only
   under it *)
Example c13b_delivery_discriminates :
  let f := spec_mbap 7 (mkpdu 1 3 [0; 16; 0; 2]) in
  server_run_err_first c13b_example_handler 0 Closed (mktconn [f] true) = [EvClosed] /\
  server_run_err_first c13b_example_handler 0 Closed (mktconn [f] false) =
    server_run_t c13b_example_handler 0 Closed (mktconn [f] false) /\
  cut_calls (server_run_t c13b_example_handler 0 Closed (mktconn [f] true)) = 1%nat.
Proof. vm_compute. repeat split; reflexivity. Qed.

(* a complete valid reply delivered with the end in its last Read *)
Example c13b_client_example :
  let cfg := mkcfg 17 BigE HighFirst in
  let o := OpReadRegs 2 0xfffc 1 Holding in
  let res := mkpdu 17 3 [4; 0x0a; 0x0b; 0x0c; 0x0d] in
  let v := spec_frame FMbap 1 res in
  gcr_res (client_call_t FMbap cfg 0 o Closed (mktconn [v] true)) = Ok (VNums [0x0a0b0c0d]) /\
  gcr_res (client_call_t FMbap cfg 0 o Closed (mktconn [firstn 12 v] true)) = Err EIO /\
  gcr_res (client_call_t FRtu cfg 0 o Reset (mktconn [spec_frame FRtu 0 res] true)) = Ok (VNums [0x0a0b0c0d]).
Proof. vm_compute. repeat split; reflexivity. Qed.

Print Assumptions c13b_read_full.
Print Assumptions c13b_server_delivery_irrelevant.
Print Assumptions c13b_server_cut.
Print Assumptions c13b_server_full_once.
Print Assumptions c13b_server_pipelined_cut.
Print Assumptions c13b_client_delivery_irrelevant.
Print Assumptions c13b_client_cut_never_ok.
Print Assumptions c13b_client_full.
