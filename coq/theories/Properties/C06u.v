(* C01 / C02 / C06, source level, END TO END on RTU framing: the translated methods of
   client.go run ON TOP OF the translated rtuTransport.ExecuteRequest (on a peer
   byte stream, with the clock standing still) return what the model's
   client_call returns for RTU framing - for every fuel of the transport run and
   whatever the transaction counter - up to the one distinction the model does
   not make between io.EOF and other i/o errors (sout_norm). Only statements,
   closed by [exact]. *)
From Coq Require Import List NArith String.
Import ListNotations.
From Modbus Require Import Base.Bytes.
From Modbus Require Import Model.GoLite.
From Modbus Require Import Gen.SrcPure.
From Modbus Require Import Model.Wire.
From Modbus Require Import Model.Client.
From Modbus Require Import Model.Transport.
From Modbus Require Import Proofs.GoLiteLinkP.
From Modbus Require Import Proofs.SrcCrcP.
From Modbus Require Import Proofs.SrcMiscP.
From Modbus Require Import Proofs.SrcClientP.
From Modbus Require Import Proofs.SrcTransportP.
From Modbus Require Import Proofs.SrcClientLinkP.
From Modbus Require Import Proofs.SrcTransportWorldsP.
From Modbus Require Import Proofs.SrcStackP.
From Modbus Require Import Proofs.SrcStackRtuP.
Open Scope string_scope.
Open Scope N_scope.

Theorem c06u_reply_well_formed :
  forall (fuel : nat) (tmo la t35 t1 : N) (e : send) (s : list N) (req : pdu),
       treply_wf (src_rtu_reply fuel tmo la t35 t1 e s req).
Proof. exact src_rtu_reply_wf_all. Qed.
Print Assumptions c06u_reply_well_formed.

Theorem c06u_translated_transport_is_model_transport :
  forall (fuel : nat) (tmo la t35 t1 txn : N) (e : send) (s : list N) (req : pdu),
       bytesb s = true ->
       pdu_ok req -> reply_rel (src_rtu_reply fuel tmo la t35 t1 e s req) (model_transport FRtu txn e s req).
Proof. exact src_rtu_reply_model. Qed.
Print Assumptions c06u_translated_transport_is_model_transport.

Theorem c06u_call_out_stack :
  forall (cfg : ccfg) (o : op) (fuel : nat) (tmo la t35 t1 txn : N) (e : send) (s : list N),
       ClientSpec.op_wf o ->
       ClientSpec.cfg_wf cfg ->
       bytesb s = true ->
       sout_norm (call_out cfg o (xchg (src_rtu_reply fuel tmo la t35 t1 e s))) =
       sout_of (cr_res (client_call FRtu cfg txn o e s)).
Proof. exact call_out_stack_rtu. Qed.
Print Assumptions c06u_call_out_stack.

Theorem c06u_WriteCoil_stack :
  forall (cfg : ccfg) (tt : N) (fuel' : nat) (tmo la t35 t1 txn : N) (e : send) 
         (s : list N) (fuel : nat) (a : N) (v : bool),
       bytesb s = true ->
       ClientSpec.cfg_wf cfg ->
       a < 65536 ->
       exists X : sout,
         call_with src_pure (oracle_of (src_rtu_reply fuel' tmo la t35 t1 e s)) fuel "ModbusClient.WriteCoil"
           (mc_fields cfg tt ++ [VN a; VB v]) = out_err (mc_fields cfg tt) X /\
         sout_norm X = sout_of (cr_res (client_call FRtu cfg txn (OpWriteCoil a v) e s)).
Proof. exact src_WriteCoil_stack_rtu. Qed.
Print Assumptions c06u_WriteCoil_stack.

Theorem c06u_ReadRegisters_stack :
  forall (cfg : ccfg) (tt : N) (fuel' : nat) (tmo la t35 t1 txn : N) (e : send) 
         (s : list N) (fuel : nat) (a q rtn : N) (rt : regtype),
       bytesb s = true ->
       ClientSpec.cfg_wf cfg ->
       a < 65536 ->
       q < 65536 ->
       regtype_sel rt rtn ->
       (300 < fuel)%nat ->
       exists X : sout,
         call_with src_pure (oracle_of (src_rtu_reply fuel' tmo la t35 t1 e s)) fuel
           "ModbusClient.ReadRegisters" (mc_fields cfg tt ++ [VN a; VN q; VN rtn]) =
         out_vals (mc_fields cfg tt) X /\
         sout_norm X = sout_of (cr_res (client_call FRtu cfg txn (OpReadRegs 1 a q rt) e s)).
Proof. exact src_ReadRegisters_stack_rtu. Qed.
Print Assumptions c06u_ReadRegisters_stack.

