(* C14 (continued) - the peer is authenticated NOW, whatever the validity period
   of the local end's own certificate.
   Statements only; proofs in Proofs/TlsLocalP.v, model in Model/TlsLocal.v.

   The property is about the PEER's certificate verifying (validity period
   included). The local certificate (TLSServerCert / TLSClientCert) may itself
   be expired, not yet valid or about to expire: that is irrelevant to whether
   the peer verifies. Model/TlsLocal.v gives the local key pair a validity
   period and crypto/tls the clock of its configuration (tls.Config.Time);
   the oracles are families indexed by the reading of that clock and
   crypto/tls' documentation is assumed of each member at its own instant:
     forall t, tls_srv_documented (hs t) verifies t.
   The theorems: the repository validates at time.Now() (c14b_*_check_time),
   the behaviour of a connection does not depend on the local validity period
   at all (c14b_*_local_validity_irrelevant, for EVERY oracle family), hence
   T1 / T2 / T4 of Properties/C14.v hold with `now` for every local validity
   period; a chain that does not verify now is refused even if it verifies at
   every other instant (for example at any instant of the local certificate's
   validity period). *)
From Modbus Require Import Base.Bytes Model.Encoding Model.Wire Model.Client Model.Server
  Model.Role Model.Config Model.TlsPolicy Model.TlsLocal
  Spec.ModbusSpec Spec.ServerSpec Spec.ServerSessionSpec Spec.ConfigSpec Spec.TlsSpec
  Proofs.TlsPolicyP Proofs.TlsLocalP.
From Coq Require String.
Import String.StringSyntax.

(* the instant handed to certificate validation is time.Now(), for every
   configuration (in particular for every local validity period) *)
Theorem c14b_server_check_time : forall now c, tls_server_check_time now c = now.
Proof. exact tls_server_check_time_now. Qed.

Theorem c14b_client_check_time : forall now c, tls_client_check_time now c = now.
Proof. exact tls_client_check_time_now. Qed.

Section C14b.
  Variable hs hc : N -> tls_policy -> tls_peer -> option tls_session.
  Variable verifies : option (list tls_cert) -> tls_usage -> N -> list N -> list tls_cert -> Prop.
  Variable now : N.

  Section Server.
    Context {St : Type} (h : list N -> handler St).

    (* the serve decision (the whole event list of the connection) is
       independent of the validity period of the server's own certificate,
       and so is the tls.Config the handshake runs under *)
    Theorem c14b_server_local_validity_irrelevant : forall c w peer st e s,
      tls_server_conn_l hs now h (tsl_set_window c w) peer st e s =
      tls_server_conn_l hs now h c peer st e s.
    Proof. exact (tls_server_conn_l_window hs now h). Qed.

    Theorem c14b_server_policy_local_validity_irrelevant : forall c w,
      tls_policy_of_server (tsl_conf (tsl_set_window c w)) = tls_policy_of_server (tsl_conf c).
    Proof. exact tls_server_policy_l_window. Qed.

    (* T1: a handler invocation implies a peer authenticated at the current
       time, whatever tsl_own c holds *)
    Theorem c14b_server_authenticates_now : forall c rest peer st e s r,
      (forall t, tls_srv_documented (hs t) verifies t) ->
      url_scheme (tsl_url c) STcpTls rest ->
      In (EvCall r) (tls_server_conn_l hs now h c peer st e s) ->
      exists cas sess,
        tsl_cas c = Some cas /\
        hs now (tls_policy_of_server (tsl_conf c)) peer = Some sess /\
        spec_client_authenticated verifies now cas peer sess.
    Proof. exact (tls_server_l_call_authenticated hs verifies now h). Qed.

    (* a chain that does not verify at the current time is refused: no premise
       about any other instant, the chain may verify at all of them *)
    Theorem c14b_server_refuses_unverified_now : forall c rest peer st e s,
      (forall t, tls_srv_documented (hs t) verifies t) ->
      url_scheme (tsl_url c) STcpTls rest ->
      (forall cas, tsl_cas c = Some cas ->
                   ~ verifies (Some cas) TlsUsageClientAuth now [] (tpe_chain peer)) ->
      forall r, ~ In (EvCall r) (tls_server_conn_l hs now h c peer st e s).
    Proof. exact (tls_server_l_unverified hs verifies now h). Qed.

    (* T4: a peer the handshake accepts at the current time is served, whatever
       the validity period of the server's own certificate *)
    Theorem c14b_server_serves : forall c rest peer sess st e t p r tail,
      (forall t, tls_srv_documented (hs t) verifies t) ->
      (forall role, handler_wf (h role)) ->
      url_scheme (tsl_url c) STcpTls rest -> rest <> [] ->
      tsl_own c <> None -> tsl_cas c <> None ->
      hs now (tls_policy_of_server (tsl_conf c)) peer = Some sess ->
      t < 65536 -> pdu_wf p -> spec_decode p = Some r -> in_range r = true ->
      exists leaf more,
        tpe_chain peer = leaf :: more /\
        let role := extract_role (tlc_exts leaf) in
        tls_server_conn_l hs now h c peer st e (spec_mbap t p ++ tail) =
        EvCall r :: EvResp (spec_mbap t (spec_response p r (snd (h role st r)))) ::
        server_run (h role) (fst (h role st r)) e tail.
    Proof. exact (tls_server_l_serves hs verifies now h). Qed.
  End Server.

  (* the send decision is independent of the validity period of the client's
     own certificate *)
  Theorem c14b_client_local_validity_irrelevant : forall c w server cfg txn o e s,
    tls_client_tx_l hc now (tcl_set_window c w) server cfg txn o e s =
    tls_client_tx_l hc now c server cfg txn o e s.
  Proof. exact (tls_client_tx_l_window hc now). Qed.

  Theorem c14b_client_open_local_validity_irrelevant : forall c w eff server,
    tls_client_open_l hc now (tcl_set_window c w) eff server = tls_client_open_l hc now c eff server.
  Proof. exact (tls_client_open_l_window hc now). Qed.

  Theorem c14b_client_policy_local_validity_irrelevant : forall c w,
    tls_policy_of_client (tcl_conf (tcl_set_window c w)) = tls_policy_of_client (tcl_conf c).
  Proof. exact tls_client_policy_l_window. Qed.

  (* T2: bytes on the connection imply a server authenticated at the current time *)
  Theorem c14b_client_authenticates_now : forall c rest server cfg txn o e s,
    (forall t, tls_cli_documented (hc t) verifies t) ->
    url_scheme (tcl_url_l c) STcpTls rest ->
    tls_client_tx_l hc now c server cfg txn o e s <> [] ->
    exists roots sess,
      tcl_roots_l c = Some roots /\
      hc now (tls_policy_of_client (tcl_conf c)) server = Some sess /\
      spec_server_authenticated verifies now roots (tls_dial_host rest) server sess.
  Proof. exact (tls_client_l_tx_authenticated hc verifies now). Qed.

  Theorem c14b_client_refuses_unverified_now : forall c rest server cfg txn o e s,
    (forall t, tls_cli_documented (hc t) verifies t) ->
    url_scheme (tcl_url_l c) STcpTls rest ->
    (forall roots, tcl_roots_l c = Some roots ->
       ~ verifies (Some roots) TlsUsageServerAuth now (tls_dial_host rest) (tpe_chain server)) ->
    tls_client_tx_l hc now c server cfg txn o e s = [].
  Proof. exact (tls_client_l_unverified hc verifies now). Qed.

  (* T4, client side *)
  Theorem c14b_client_sends : forall c rest server sess cfg txn o e s req,
    url_scheme (tcl_url_l c) STcpTls rest ->
    tcl_own c <> None -> tcl_roots_l c <> None ->
    hc now (tls_policy_of_client (tcl_conf c)) server = Some sess ->
    client_request cfg o = Ok req ->
    tls_client_tx_l hc now c server cfg txn o e s = [assemble_mbap (u16 (txn + 1)) req].
  Proof. exact (tls_client_l_sends hc now). Qed.
End C14b.

Print Assumptions c14b_server_check_time.
Print Assumptions c14b_client_check_time.
Print Assumptions c14b_server_local_validity_irrelevant.
Print Assumptions c14b_server_policy_local_validity_irrelevant.
Print Assumptions c14b_server_authenticates_now.
Print Assumptions c14b_server_refuses_unverified_now.
Print Assumptions c14b_server_serves.
Print Assumptions c14b_client_local_validity_irrelevant.
Print Assumptions c14b_client_open_local_validity_irrelevant.
Print Assumptions c14b_client_policy_local_validity_irrelevant.
Print Assumptions c14b_client_authenticates_now.
Print Assumptions c14b_client_refuses_unverified_now.
Print Assumptions c14b_client_sends.

(* ---- non-vacuity: an oracle family whose verification depends on the instant
   (every certificate has a validity period, looked up by identity) and that
   satisfies the documented premises at every instant; the model run on it
   with local certificates that are expired / not yet valid *)

Definition c14b_toy_window (id : N) : tls_window :=
  if id =? 3 then mk_tls_window 0 150          (* a peer certificate that expired at 150 *)
  else if id =? 4 then mk_tls_window 250 900   (* a peer certificate valid from 250 *)
  else mk_tls_window 0 1000.

Definition c14b_toy_verifiesb (pool : option (list tls_cert)) (t : N) (chain : list tls_cert) : bool :=
  match pool, chain with
  | Some p, leaf :: _ =>
      existsb (fun c => tlc_id c =? tlc_id leaf) p && tls_in_window t (c14b_toy_window (tlc_id leaf))
  | _, _ => false
  end.

Definition c14b_toy_verifies (pool : option (list tls_cert)) (u : tls_usage) (t : N) (host : list N)
                             (chain : list tls_cert) : Prop :=
  c14b_toy_verifiesb pool t chain = true.

Definition c14b_toy_handshake (t : N) (pol : tls_policy) (peer : tls_peer) : option tls_session :=
  if negb (tpe_speaks_tls peer) then None
  else
    match find (fun v => tls_version_geb v (tpo_min_version pol)) (tpe_versions peer) with
    | None => None
    | Some v =>
        if c14b_toy_verifiesb (tpo_pool pol) t (tpe_chain peer)
        then Some (mk_tls_session v (tpe_chain peer)) else None
    end.

Example c14b_toy_srv_documented : forall t, tls_srv_documented (c14b_toy_handshake t) c14b_toy_verifies t.
Proof.
  intros t pol peer sess. unfold c14b_toy_handshake.
  destruct (tpe_speaks_tls peer); [|discriminate]. cbn [negb].
  destruct (find _ (tpe_versions peer)) as [v|] eqn:Ef; [|discriminate].
  apply find_some in Ef. destruct Ef as [Hin Hge].
  destruct (c14b_toy_verifiesb (tpo_pool pol) t (tpe_chain peer)) eqn:Ev; [|discriminate].
  intros [= <-]. cbn [tss_version tss_peer_certs].
  split; [reflexivity|]. split; [exact Hin|]. split; [exact Hge|].
  intros _. split; [reflexivity|]. split; [|exact Ev].
  intros E. rewrite E in Ev. unfold c14b_toy_verifiesb in Ev. destruct (tpo_pool pol); discriminate Ev.
Qed.

Example c14b_toy_cli_documented : forall t, tls_cli_documented (c14b_toy_handshake t) c14b_toy_verifies t.
Proof.
  intros t pol peer sess. unfold c14b_toy_handshake.
  destruct (tpe_speaks_tls peer); [|discriminate]. cbn [negb].
  destruct (find _ (tpe_versions peer)) as [v|] eqn:Ef; [|discriminate].
  apply find_some in Ef. destruct Ef as [Hin Hge].
  destruct (c14b_toy_verifiesb (tpo_pool pol) t (tpe_chain peer)) eqn:Ev; [|discriminate].
  intros [= <-]. cbn [tss_version tss_peer_certs].
  split; [reflexivity|]. split; [exact Hin|]. split; [exact Hge|].
  intros _. split; [reflexivity|]. split; [|exact Ev].
  intros E. rewrite E in Ev. unfold c14b_toy_verifiesb in Ev. destruct (tpo_pool pol); discriminate Ev.
Qed.

Definition c14b_handler : list N -> handler N :=
  fun role st r =>
    (st + 1, mkhres (repeat true (N.to_nat (h_qty r))) (repeat (lenN role) (N.to_nat (h_qty r))) HNone).

Definition c14b_ca : tls_cert := mk_tls_cert 1 [].
Definition c14b_own : tls_cert := mk_tls_cert 2 [].
Definition c14b_peer_expired_150 : tls_cert := mk_tls_cert 3 [].
Definition c14b_peer_valid_from_250 : tls_cert := mk_tls_cert 4 [].
Definition c14b_peer_valid : tls_cert := mk_tls_cert 5 [].

(* the current time is 200; the local certificate expired at 100 (valid from 300) *)
Definition c14b_now : N := 200.
Definition c14b_expired_own : tls_own := mk_tls_own c14b_own (mk_tls_window 0 100).
Definition c14b_notyet_own : tls_own := mk_tls_own c14b_own (mk_tls_window 300 900).

Definition c14b_pool : list tls_cert :=
  [c14b_ca; c14b_peer_expired_150; c14b_peer_valid_from_250; c14b_peer_valid].

Definition c14b_srv_conf (own : tls_own) : tls_srv_conf_l :=
  mk_tls_srv_conf_l (str "tcp+tls://0.0.0.0:802") 0 0 (Some own) (Some c14b_pool).

Definition c14b_cli_conf (own : tls_own) : tls_cli_conf_l :=
  mk_tls_cli_conf_l (str "tcp+tls://10.1.2.3:802") 0 (Some own) (Some c14b_pool).

Definition c14b_request : list N := spec_mbap 7 (mkpdu 1 3 [0; 16; 0; 2]).

(* a server whose own certificate expired at 100 (resp. is valid from 300), at
   time 200: the peer whose certificate expired at 150 (after the local one)
   and the peer whose certificate is valid from 250 (before the local one)
   are refused, the peer with a currently valid certificate is served *)
Example c14b_example_server :
  map (fun cp : tls_own * tls_cert =>
         tls_server_conn_l c14b_toy_handshake c14b_now c14b_handler (c14b_srv_conf (fst cp))
           (mk_tls_peer true [snd cp] [TLS12; TLS13]) 0 Closed c14b_request)
    [(c14b_expired_own, c14b_peer_expired_150); (c14b_expired_own, c14b_peer_valid_from_250);
     (c14b_notyet_own, c14b_peer_expired_150); (c14b_notyet_own, c14b_peer_valid_from_250);
     (c14b_expired_own, c14b_peer_valid); (c14b_notyet_own, c14b_peer_valid)] =
  [[EvClosed]; [EvClosed]; [EvClosed]; [EvClosed];
   [EvCall (mkhreq HHolding 1 16 2 false [] []); EvResp (spec_mbap 7 (mkpdu 1 3 [4; 0; 0; 0; 0])); EvClosed];
   [EvCall (mkhreq HHolding 1 16 2 false [] []); EvResp (spec_mbap 7 (mkpdu 1 3 [4; 0; 0; 0; 0])); EvClosed]].
Proof. vm_compute. reflexivity. Qed.

(* the example discriminates: the same oracle family asked at the instant the
   local certificate expired (100), resp. becomes valid (300), accepts them *)
Example c14b_example_other_instants :
  (tls_is_some (c14b_toy_handshake 100 (tls_policy_of_server (tsl_conf (c14b_srv_conf c14b_expired_own)))
                  (mk_tls_peer true [c14b_peer_expired_150] [TLS12])),
   tls_is_some (c14b_toy_handshake 300 (tls_policy_of_server (tsl_conf (c14b_srv_conf c14b_notyet_own)))
                  (mk_tls_peer true [c14b_peer_valid_from_250] [TLS12])),
   tls_is_some (c14b_toy_handshake c14b_now (tls_policy_of_server (tsl_conf (c14b_srv_conf c14b_expired_own)))
                  (mk_tls_peer true [c14b_peer_expired_150] [TLS12]))) =
  (true, true, false).
Proof. vm_compute. reflexivity. Qed.

(* the client: requests go out to the currently valid server only *)
Example c14b_example_client :
  map (fun cp : tls_own * tls_cert =>
         tls_client_tx_l c14b_toy_handshake c14b_now (c14b_cli_conf (fst cp))
           (mk_tls_peer true [snd cp] [TLS12]) (mkcfg 1 BigE HighFirst) 0
           (OpReadRegs 1 16 2 Holding) Closed [])
    [(c14b_expired_own, c14b_peer_expired_150); (c14b_notyet_own, c14b_peer_valid_from_250);
     (c14b_expired_own, c14b_peer_valid); (c14b_notyet_own, c14b_peer_valid)] =
  [[]; []; [spec_mbap 1 (mkpdu 1 3 [0; 16; 0; 2])]; [spec_mbap 1 (mkpdu 1 3 [0; 16; 0; 2])]].
Proof. vm_compute. reflexivity. Qed.

Example c14b_url_sat : url_scheme (tsl_url (c14b_srv_conf c14b_expired_own)) STcpTls (str "0.0.0.0:802").
Proof. reflexivity. Qed.
