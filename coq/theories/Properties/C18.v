(* C18 - Calls never modify caller data, and returned data stays stable.
   Statements only; proofs in Proofs/HeapP.v. Model: Model/Heap.v (heap of
   arrays, Go slice headers, append in place iff it fits; the client calls
   statement by statement as far as memory is concerned); vocabulary of the
   statements: Spec/AliasSpec.v.

   hp_call gr fr cfg txn o e s h  runs one public call o (any write taking a
   slice of any geometry, or any other call) on heap h under the settings cfg,
   with framing fr, capacity growth policy gr, peer behaviour e / s; it returns
   what was transmitted, the result, and the heap afterwards (also when the
   call panicked half-way). *)
From Coq Require Import List.
From Modbus Require Import Base.Bytes Model.Crc Model.Encoding Model.Wire Model.Client Model.Heap
  Spec.AliasSpec Proofs.HeapP.

(* T1 (arguments). For every call, slice geometry (offset, length, capacity,
   odd/even, with or without spare capacity), encoding, framing, growth
   policy, peer behaviour and heap: every array that existed before the call
   is bit for bit the same after it - the whole array, i.e. also the cells
   beyond the length of any slice into it. *)
Theorem c18_memory_untouched : forall gr fr cfg txn o e s h,
  memory_untouched h (snd (hp_call gr fr cfg txn o e s h)).
Proof. exact c18_memory. Qed.

(* in particular every slice the caller holds - the argument first of all -
   has the same contents and the same spare capacity cells *)
Theorem c18_argument_untouched : forall gr fr cfg txn o e s h t,
  caller_slice h t -> slice_untouched h (snd (hp_call gr fr cfg txn o e s h)) t.
Proof. exact c18_slice. Qed.

(* what goes on the wire is the frame of the value-level client model (whose
   bytes are the specified ones: C01), computed from the content the argument
   slice has when the call is made *)
Theorem c18_wire_bytes : forall gr fr cfg txn o e s h,
  args_are_caller_slices o h ->
  hr_writes (fst (hp_call gr fr cfg txn o e s h)) =
  cr_writes (client_call fr cfg txn (hp_value_op o h) e s).
Proof. exact c18_wire. Qed.

(* corollary: the same call with the same slice sends the same bytes again
   (the MBAP transaction id, which numbers the calls, set aside) - directly
   after the first call ... *)
Theorem c18_repeat_same_bytes : forall gr fr cfg txn1 txn2 o e1 s1 e2 s2 h,
  args_are_caller_slices o h ->
  map (frame_body fr)
      (hr_writes (fst (hp_call gr fr cfg txn2 o e2 s2 (snd (hp_call gr fr cfg txn1 o e1 s1 h))))) =
  map (frame_body fr) (hr_writes (fst (hp_call gr fr cfg txn1 o e1 s1 h))).
Proof. exact c18_repeat_once. Qed.

(* ... and after any history of further calls and caller allocations *)
Theorem c18_repeat_after_history : forall gr fr c evs cfg txn1 txn2 o e1 s1 e2 s2,
  args_are_caller_slices o (hc_heap c) ->
  map (frame_body fr)
      (hr_writes (fst (hp_call gr fr cfg txn2 o e2 s2 (hc_heap (hp_run gr fr c evs))))) =
  map (frame_body fr) (hr_writes (fst (hp_call gr fr cfg txn1 o e1 s1 (hc_heap c)))).
Proof. exact c18_repeat. Qed.

(* T2 (results). A call stores only into arrays it allocates itself
   (c18_memory_untouched), and whatever it returns lives in such an array:
   allocated during this call, never earlier *)
Theorem c18_results_allocated_by_the_call : forall gr fr cfg txn o e s h,
  Forall (allocated_between h (snd (hp_call gr fr cfg txn o e s h)))
         (hv_slices (hr_res (fst (hp_call gr fr cfg txn o e s h)))).
Proof. exact c18_fresh. Qed.

(* hence, for every history of calls (any operations, settings, replies) and
   caller allocations on one client: every slice returned so far reads the
   same - contents and spare capacity - after any number of later events *)
Theorem c18_results_stable : forall gr fr h0 txn0 left0 evs1 evs2 r,
  let c1 := hp_run gr fr (mkhc h0 txn0 left0 []) evs1 in
  let c2 := hp_run gr fr c1 evs2 in
  In r (hc_results c1) ->
  slice_untouched (hc_heap c1) (hc_heap c2) r.
Proof. exact c18_stable. Qed.

(* T3 (finding F4). The pinned upstream writeBytes (no copy) violates T1:
   WriteBytes under little endian swaps the caller's bytes in place
   ([1;2;3;4] becomes [2;1;4;3]); WriteRawBytes of an odd number of bytes
   with spare capacity leaves the contents alone but writes the pad byte
   into the caller's array beyond the slice ([9;1;2;3;7;8] -> [9;1;2;3;0;8]) *)
Theorem c18_pinned_refuted :
  (exists h t cfg, caller_slice h t /\
     ~ slice_untouched h (snd (hp_call_pinned (fun _ => 0%nat) FMbap cfg 0 (HpWriteBytes false 5 t) Stall [] h)) t) /\
  (exists h t cfg, caller_slice h t /\
     spec_contents (snd (hp_call_pinned (fun _ => 0%nat) FRtu cfg 0 (HpWriteBytes true 5 t) Stall [] h)) t =
       spec_contents h t /\
     spec_room (snd (hp_call_pinned (fun _ => 0%nat) FRtu cfg 0 (HpWriteBytes true 5 t) Stall [] h)) t <>
       spec_room h t).
Proof. exact c18_pinned. Qed.

(* the two witnesses, evaluated *)
Example c18_pinned_swap_witness :
  nth_error (snd (hp_call_pinned (fun _ => 0%nat) FMbap (mkcfg 1 LittleE HighFirst) 0
                    (HpWriteBytes false 5 (mkhs 0 0 4 4)) Stall [] [[1; 2; 3; 4]])) 0 = Some [2; 1; 4; 3].
Proof. exact c18_pinned_swap. Qed.

Example c18_pinned_pad_witness :
  nth_error (snd (hp_call_pinned (fun _ => 0%nat) FRtu (mkcfg 1 BigE HighFirst) 0
                    (HpWriteBytes true 5 (mkhs 0 1 3 4)) Stall [] [[9; 1; 2; 3; 7; 8]])) 0
  = Some [9; 1; 2; 3; 0; 8].
Proof. exact c18_pinned_pad. Qed.

(* non-vacuity. The fixed call on the first witness: the array is left alone
   and the swapped bytes are on the wire *)
Example c18_ex_fixed :
  let '(r, h') := hp_call hp_gr_double FMbap (mkcfg 1 LittleE HighFirst) 0
                    (HpWriteBytes false 5 (mkhs 0 0 4 4)) Stall [] [[1; 2; 3; 4]] in
  nth_error h' 0 = Some [1; 2; 3; 4] /\
  hr_writes r = [[0; 1; 0; 0; 0; 11; 1; 16; 0; 5; 0; 2; 4; 2; 1; 4; 3]].
Proof. vm_compute. split; reflexivity. Qed.

(* a history: ReadBytes (little endian, odd quantity: swapped in place in the
   receive buffer and cut) returns a slice; the caller passes it to
   WriteBytes; a second read follows; the first result still reads the same *)
Example c18_ex_history :
  let cfg := mkcfg 1 LittleE HighFirst in
  let reply1 := [0; 1; 0; 0; 0; 7; 1; 3; 4; 0x0a; 0x0b; 0x0c; 0x0d] in
  let reply2 := [0; 3; 0; 0; 0; 5; 1; 3; 2; 0xee; 0xff] in
  let c1 := hp_run hp_gr_double FMbap (mkhc [] 0 [] [])
              [HeCall cfg (HpOther (OpReadBytes false 0 3 Holding)) Stall reply1] in
  match hc_results c1 with
  | [r] =>
      h_read r (hc_heap c1) = [0x0b; 0x0a; 0x0d] /\
      let c2 := hp_run hp_gr_double FMbap c1
                  [HeCall cfg (HpWriteBytes false 7 r) Stall [];
                   HeCall cfg (HpOther (OpReadBytes false 0 2 Holding)) Stall reply2] in
      length (hc_results c2) = 2%nat /\ h_read r (hc_heap c2) = [0x0b; 0x0a; 0x0d] /\
      hc_txn c2 = 3
  | _ => False
  end.
Proof. vm_compute. repeat split; reflexivity. Qed.

Print Assumptions c18_memory_untouched.
Print Assumptions c18_argument_untouched.
Print Assumptions c18_wire_bytes.
Print Assumptions c18_repeat_same_bytes.
Print Assumptions c18_repeat_after_history.
Print Assumptions c18_results_allocated_by_the_call.
Print Assumptions c18_results_stable.
Print Assumptions c18_pinned_refuted.
