(* C07 - Every client call completes within the timeout, whatever the peer does.
   Statements only; proofs in Proofs/TimedP.v.

   The peer is ANY timed stream s : list (Z * N) of (arrival time in ns, byte)
   with an optional close time c: silence is [], a stall after k bytes is a
   stream of k bytes, a trickle has one byte every d, a flood is as long as
   one likes - no theorem below restricts the content, the length or the
   times of s. *)
From Modbus Require Import Base.Bytes Model.Crc Model.Encoding Model.Wire Model.Client
  Model.Timed Spec.ModbusSpec Spec.ClientSpec Spec.TimedSpec Proofs.TimedP.

(* ------------------------------------------------------------------ T1 *)

(* MBAP transports (tcp, tcp+tls, udp): the call returns by t0 + timeout *)
Theorem c07_bound_mbap : forall k la cfg txn o t0 c s, (0 <= tm_timeout k)%Z ->
  (t0 <= tmc_finish (tm_client_call FMbap k la cfg txn o t0 c s) <= t0 + tm_timeout k)%Z.
Proof. exact tm_client_time_mbap. Qed.

(* RTU transports (rtu, rtuovertcp, rtuoverudp): the call returns by
     max (t0 + timeout + g) (t0 + t35 + n*t1 + t35) + 256*t1 + 500 us + g
   where n is the request length and g the poll granularity of the link
   (0 on a net.Conn, 10 ms behind serialPortWrapper: the read AND the flush
   may each overrun their deadline by one poll) *)
Theorem c07_bound_rtu : forall k la cfg txn o t0 c s,
  op_wf o -> tm_conf_wf k -> (la <= t0)%Z ->
  (t0 <= tmc_finish (tm_client_call FRtu k la cfg txn o t0 c s)
      <= tm_rtu_bound k t0 (tm_req_len cfg o))%Z.
Proof. exact tm_client_time_rtu. Qed.

(* the same with the formula spelled out, for a net.Conn *)
Theorem c07_bound_rtu_netconn : forall k la cfg txn o t0 c s,
  op_wf o -> tm_conf_wf k -> tm_gran k = 0%Z -> (la <= t0)%Z ->
  let n := tm_req_len cfg o in
  (tmc_finish (tm_client_call FRtu k la cfg txn o t0 c s)
   <= Z.max (t0 + tm_timeout k) (t0 + tm_t35 k + n * tm_t1 k + tm_t35 k)
      + 256 * tm_t1 k + 500000)%Z.
Proof.
  intros k la cfg txn o t0 c s Hwf Hk Hg Hla n.
  pose proof (tm_client_time_rtu k la cfg txn o t0 c s Hwf Hk Hla) as H.
  unfold tm_rtu_bound in H. rewrite Hg in H. fold n in H. lia.
Qed.

(* ... and behind the serial wrapper (g = 10 ms) *)
Theorem c07_bound_rtu_serial : forall k la cfg txn o t0 c s,
  op_wf o -> tm_conf_wf k -> tm_gran k = 10000000%Z -> (la <= t0)%Z ->
  let n := tm_req_len cfg o in
  (tmc_finish (tm_client_call FRtu k la cfg txn o t0 c s)
   <= Z.max (t0 + tm_timeout k + 10000000) (t0 + tm_t35 k + n * tm_t1 k + tm_t35 k)
      + 256 * tm_t1 k + 500000 + 10000000)%Z.
Proof.
  intros k la cfg txn o t0 c s Hwf Hk Hg Hla n.
  pose proof (tm_client_time_rtu k la cfg txn o t0 c s Hwf Hk Hla) as H.
  unfold tm_rtu_bound in H. rewrite Hg in H. fold n in H. lia.
Qed.

(* ------------------------------------------------------------------ T2 *)

(* total silence: the request-timed-out error, exactly at the deadline *)
Theorem c07_silence_mbap : forall k la cfg txn o t0,
  op_wf o -> valid_op o = true -> (0 <= tm_timeout k)%Z ->
  let r := tm_client_call FMbap k la cfg txn o t0 None [] in
  tmc_res r = Err ETimeout /\ tmc_finish r = (t0 + tm_timeout k)%Z.
Proof. exact tm_silence_mbap. Qed.

(* RTU on a net.Conn: at the deadline, or at the end of the post-write sleep
   when the configuration makes that later *)
Theorem c07_silence_rtu : forall k la cfg txn o t0,
  op_wf o -> valid_op o = true -> tm_conf_wf k -> tm_gran k = 0%Z ->
  let r := tm_client_call FRtu k la cfg txn o t0 None [] in
  tmc_res r = Err ETimeout /\
  tmc_finish r = Z.max (t0 + tm_timeout k) (tm_rtu_read_start k la t0 (tm_req_len cfg o)).
Proof. exact tm_silence_rtu. Qed.

(* RTU behind the serial wrapper: less than one poll period after the deadline *)
Theorem c07_silence_serial : forall k la cfg txn o t0,
  op_wf o -> valid_op o = true -> tm_conf_wf k -> (0 < tm_gran k)%Z ->
  (tm_rtu_read_start k la t0 (tm_req_len cfg o) <= t0 + tm_timeout k)%Z ->
  let r := tm_client_call FRtu k la cfg txn o t0 None [] in
  tmc_res r = Err ETimeout /\
  (t0 + tm_timeout k < tmc_finish r <= t0 + tm_timeout k + tm_gran k)%Z.
Proof. exact tm_silence_serial. Qed.

(* a timeout is never reported early: the transport-level timeout error comes
   exactly at the deadline (RTU: or at the end of the post-write sleep when
   that is later; the re-synchronisation delay is not added to a timeout) *)
Theorem c07_timeout_not_early_mbap : forall timeout t0 c txn s t rest, (0 <= timeout)%Z ->
  mbap_exchange_t timeout t0 c txn s = (Err ETimeout, t, rest) -> t = (t0 + timeout)%Z.
Proof. exact mbap_exchange_timeout. Qed.

Theorem c07_timeout_not_early_rtu : forall k la t0 nreq c s t rest,
  tm_conf_wf k -> tm_gran k = 0%Z -> (0 <= nreq)%Z ->
  rtu_exchange_t k la t0 nreq c s = (Err ETimeout, t, rest) ->
  t = Z.max (t0 + tm_timeout k) (tm_rtu_read_start k la t0 nreq).
Proof. exact rtu_exchange_timeout. Qed.

(* ------------------------------------------------------------------ T3 *)

(* a valid reply, preceded only by frames that have to be skipped, whose last
   byte arrives by the deadline is accepted with its values - whatever comes
   after it, whenever, and whether or not the peer then closes *)
Theorem c07_timely_reply_mbap : forall k la cfg txn o t0 c pre post res vs frames,
  op_wf o -> cfg_wf cfg -> txn < 65536 -> valid_op o = true -> (0 <= tm_timeout k)%Z ->
  bytesb (p_payload res) = true -> answers cfg o res vs ->
  Forall (skippable (u16 (txn + 1))) frames ->
  map snd pre = concat frames ++ spec_frame FMbap (u16 (txn + 1)) res ->
  Forall (fun p => (fst p <= t0 + tm_timeout k)%Z) pre ->
  let r := tm_client_call FMbap k la cfg txn o t0 c (pre ++ post) in
  tmc_res r = Ok vs /\ (t0 <= tmc_finish r <= t0 + tm_timeout k)%Z.
Proof. exact tm_timely_mbap. Qed.

(* RTU (net.Conn): the reply is at the start of the stream, complete by the
   deadline, and the post-write sleep ends before the deadline *)
Theorem c07_timely_reply_rtu : forall k la cfg txn o t0 c pre post res vs,
  op_wf o -> cfg_wf cfg -> valid_op o = true -> tm_conf_wf k -> tm_gran k = 0%Z ->
  (tm_rtu_read_start k la t0 (tm_req_len cfg o) <= t0 + tm_timeout k)%Z ->
  bytesb (p_payload res) = true -> answers cfg o res vs ->
  map snd pre = spec_frame FRtu 0 res ->
  Forall (fun p => (fst p <= t0 + tm_timeout k)%Z) pre ->
  tmc_res (tm_client_call FRtu k la cfg txn o t0 c (pre ++ post)) = Ok vs.
Proof. exact tm_timely_rtu. Qed.

(* the general fact behind T3: the timed call with deadline D returns what the
   untimed client of C01/C02 returns on the bytes that arrived by D (followed
   by silence, or by EOF when the peer closed by D with nothing outstanding) *)
Theorem c07_deadline_view_mbap : forall k la cfg txn o t0 c s, (0 <= tm_timeout k)%Z ->
  let D := (t0 + tm_timeout k)%Z in
  let r := tm_client_call FMbap k la cfg txn o t0 c s in
  let u := client_call FMbap cfg txn o (tm_end D c s) (map snd (tm_avail D s)) in
  tmc_res r = cr_res u /\ map snd (tm_avail D (tmc_rest r)) = cr_rest u.
Proof. exact tm_client_sim_mbap. Qed.

Theorem c07_deadline_view_rtu : forall k la cfg txn o t0 c s,
  op_wf o -> tm_conf_wf k -> tm_gran k = 0%Z ->
  (tm_rtu_read_start k la t0 (tm_req_len cfg o) <= t0 + tm_timeout k)%Z ->
  let D := (t0 + tm_timeout k)%Z in
  tmc_res (tm_client_call FRtu k la cfg txn o t0 c s) =
  cr_res (client_call FRtu cfg txn o (tm_end D c s) (map snd (tm_avail D s))).
Proof. exact tm_client_sim_rtu. Qed.

(* relation to the untimed model: every byte already there when the call
   starts, then silence = Client.client_call with end Stall *)
Theorem c07_untimed_mbap : forall k la cfg txn o t0 s, (0 <= tm_timeout k)%Z ->
  Forall (fun p => (fst p <= t0)%Z) s ->
  let r := tm_client_call FMbap k la cfg txn o t0 None s in
  let u := client_call FMbap cfg txn o Stall (map snd s) in
  tmc_res r = cr_res u /\ map snd (tm_avail (t0 + tm_timeout k) (tmc_rest r)) = cr_rest u.
Proof. exact tm_client_untimed_mbap. Qed.

Theorem c07_untimed_rtu : forall k la cfg txn o t0 s,
  op_wf o -> tm_conf_wf k -> tm_gran k = 0%Z ->
  (tm_rtu_read_start k la t0 (tm_req_len cfg o) <= t0 + tm_timeout k)%Z ->
  Forall (fun p => (fst p <= t0)%Z) s ->
  tmc_res (tm_client_call FRtu k la cfg txn o t0 None s) =
  cr_res (client_call FRtu cfg txn o Stall (map snd s)).
Proof. exact tm_client_untimed_rtu. Qed.

(* ------------------------------------------------------------------ T4 *)

(* the measure of the skip loop: a frame that lets readResponse go round
   again has consumed at least 8 bytes of the stream ... *)
Theorem c07_skip_consumes : forall g D c now s r t rest,
  tm_read_mbap g D c now s = (r, t, rest) ->
  match r with
  | FOk _ _ | FErr EUnknownProto => (length rest + 8 <= length s)%nat
  | FErr _ => (length rest <= length s)%nat
  end.
Proof. exact tm_read_mbap_len. Qed.

(* ... so one unit of fuel per 8 bytes is enough (the exchange uses |s| + 1) *)
Theorem c07_skip_terminates : forall g D c txn fuel now s, (length s < 8 * fuel)%nat ->
  fst (fst (tm_mbap_read_response fuel g D c txn now s)) <> OutOfFuel.
Proof. intros g D c txn fuel. exact (tm_mbap_no_oof g D c txn fuel). Qed.

Theorem c07_no_fuel_artefact : forall fr k la cfg txn o t0 c s, op_wf o ->
  tmc_res (tm_client_call fr k la cfg txn o t0 c s) <> Panic /\
  tmc_res (tm_client_call fr k la cfg txn o t0 c s) <> OutOfFuel.
Proof. exact tm_client_no_panic. Qed.

(* ------------------------------------------------- read_full_t, closed form *)

(* on a net.Conn, entered before the deadline: the n bytes at
   max(now, latest arrival among them) when that is <= D ... *)
Theorem c07_read_full_in_time : forall D c n cur s, (cur <= D)%Z -> (n <= length s)%nat ->
  (tm_tmax (firstn n s) cur <= D)%Z ->
  read_full_t 0 D c n cur s =
    TmFull (map snd (firstn n s)) (tm_tmax (firstn n s) cur) (skipn n s).
Proof. intros D c n. exact (rft_full D c n). Qed.

(* ... otherwise what arrived by D and the timeout, at D *)
Theorem c07_read_full_late : forall D n cur s, (cur <= D)%Z ->
  ((length s < n)%nat \/ (D < tm_tmax (firstn n s) cur)%Z) ->
  read_full_t 0 D None n cur s =
    TmShort (map snd (tm_avail D s)) ETimeout D (skipn (length (tm_avail D s)) s).
Proof. intros D n. exact (rft_late D n). Qed.

(* with non-decreasing arrival times that instant is the arrival of the n-th byte *)
Theorem c07_nth_arrival : forall n s cur, tm_sorted s -> (n < length s)%nat ->
  tm_tmax (firstn (S n) s) cur = Z.max cur (fst (nth n s (0%Z, 0))).
Proof. exact tm_tmax_sorted. Qed.

(* ------------------------------------------------------------ non-vacuity *)

Definition ex_k : tm_conf := mk_tm_conf 150000000 572916 1750000 0.   (* 150 ms, 19200 bps *)
Definition ex_ks : tm_conf := mk_tm_conf 150000000 572916 1750000 10000000. (* same, serial *)
Definition ex_cfg : ccfg := mkcfg 17 BigE HighFirst.
Definition ex_o : op := OpReadRegs 1 0x10 1 Holding.
Definition ex_mbap_reply : list N := [0; 1; 0; 0; 0; 5; 17; 3; 2; 0xab; 0xcd].
Definition ex_foreign : list N := [0; 9; 0; 0; 0; 5; 17; 3; 2; 0; 0].   (* transaction 9 *)
Definition ex_rtu_reply : list N := assemble_rtu (mkpdu 17 3 [2; 0xab; 0xcd]).
Definition ex_at (t : Z) (l : list N) : list (Z * N) := map (fun b => (t, b)) l.
Definition ex_run fr k s := let r := tm_client_call fr k 0%Z ex_cfg 0 ex_o 1000%Z None s in
                            (tmc_res r, tmc_finish r).

Example c07_ex_conf : tm_conf_wf ex_k /\ tm_conf_wf ex_ks /\ op_wf ex_o /\ valid_op ex_o = true /\
  cfg_wf ex_cfg /\ (tm_rtu_read_start ex_k 0 1000 (tm_req_len ex_cfg ex_o) <= 1000 + tm_timeout ex_k)%Z.
Proof.
  unfold tm_conf_wf, op_wf, cfg_wf, ex_k, ex_ks, ex_o, ex_cfg.
  cbn [tm_timeout tm_t1 tm_t35 tm_gran c_unit].
  repeat split; try lia; vm_compute; (reflexivity || discriminate).
Qed.

(* a reply delayed by 0.8 x timeout is accepted when its last byte arrives *)
Example c07_ex_delayed : ex_run FMbap ex_k (ex_at 120001000 ex_mbap_reply) = (Ok (VNums [0xabcd]), 120001000%Z).
Proof. vm_compute. reflexivity. Qed.

(* a stall after every k < 11 bytes of that reply: timeout at the deadline *)
Example c07_ex_stall : forallb (fun k =>
    match ex_run FMbap ex_k (ex_at 5000 (firstn k ex_mbap_reply)) with
    | (Err ETimeout, t) => (t =? 150001000)%Z
    | _ => false
    end) (seq 0 11) = true.
Proof. vm_compute. reflexivity. Qed.

(* a flood of well-formed frames with a foreign transaction id, one per ms for
   5 x timeout: the skip loop is cut by the deadline it cannot re-arm *)
Example c07_ex_flood :
  ex_run FMbap ex_k (flat_map (fun i => ex_at (1000 + Z.of_nat i * 1000000) ex_foreign) (seq 0 750))
  = (Err ETimeout, 150001000%Z).
Proof. vm_compute. reflexivity. Qed.

(* a trickle, one byte every timeout/4 *)
Example c07_ex_trickle :
  ex_run FMbap ex_k (map (fun i => ((1000 + Z.of_nat i * 37500000)%Z, nth i ex_mbap_reply 0)) (seq 0 11))
  = (Err ETimeout, 150001000%Z).
Proof. vm_compute. reflexivity. Qed.

(* the peer closes after 3 bytes: an i/o error at the close time *)
Example c07_ex_close :
  let r := tm_client_call FMbap ex_k 0%Z ex_cfg 0 ex_o 1000%Z (Some 7000%Z) (ex_at 5000 (firstn 3 ex_mbap_reply)) in
  (tmc_res r, tmc_finish r) = (Err EIO, 7000%Z).
Proof. vm_compute. reflexivity. Qed.

(* RTU: timely reply; garbage with an unknown function code => protocol error,
   256*t1 later the 500 us flush (the call was entered 1 us after the last
   activity: the pre-send wait lasts until la + t35); silence behind the
   serial wrapper *)
Example c07_ex_rtu_ok : ex_run FRtu ex_k (ex_at 30000000 ex_rtu_reply) = (Ok (VNums [0xabcd]), 30000000%Z).
Proof. vm_compute. reflexivity. Qed.

Example c07_ex_rtu_garbage :
  ex_run FRtu ex_k (ex_at 2000 [17; 0x55; 1; 2; 3])
  = (Err EProtocol, (1750000 + 8 * 572916 + 1750000 + 256 * 572916 + 500000)%Z).
Proof. vm_compute. reflexivity. Qed.

Example c07_ex_serial_silence : exists t, ex_run FRtu ex_ks [] = (Err ETimeout, t) /\
  (150001000 < t <= 160001000)%Z.
Proof. eexists. split; [vm_compute; reflexivity|lia]. Qed.

Print Assumptions c07_bound_mbap.
Print Assumptions c07_bound_rtu.
Print Assumptions c07_bound_rtu_netconn.
Print Assumptions c07_bound_rtu_serial.
Print Assumptions c07_silence_mbap.
Print Assumptions c07_silence_rtu.
Print Assumptions c07_silence_serial.
Print Assumptions c07_timeout_not_early_mbap.
Print Assumptions c07_timeout_not_early_rtu.
Print Assumptions c07_timely_reply_mbap.
Print Assumptions c07_timely_reply_rtu.
Print Assumptions c07_deadline_view_mbap.
Print Assumptions c07_deadline_view_rtu.
Print Assumptions c07_untimed_mbap.
Print Assumptions c07_untimed_rtu.
Print Assumptions c07_skip_consumes.
Print Assumptions c07_skip_terminates.
Print Assumptions c07_no_fuel_artefact.
Print Assumptions c07_read_full_in_time.
Print Assumptions c07_read_full_late.
Print Assumptions c07_nth_arrival.
