(* C12 - Results do not depend on how the byte stream is segmented.
   Statements only; proofs in Proofs/ChunksP.v and Proofs/UdpP.v. The models of
   segmented delivery are in Model/Chunks.v (a connection is a list of chunks,
   one Read returns at most one chunk, io.ReadFull loops) and Model/Udp.v
   (udpSockWrapper); the vocabulary (same_stream, seg_*, dgrams_ok, call_same,
   is_suffix) is in Spec/SegmentSpec.v. *)
From Modbus Require Import Base.Bytes Model.Crc Model.Encoding Model.Wire Model.Client Model.Server
  Model.Chunks Model.Udp Spec.ModbusSpec Spec.ServerSpec Spec.ServerSessionSpec Spec.SegmentSpec
  Proofs.ChunksP Proofs.UdpP.

(* ------------------------------------------------------------------ T1 *)

(* io.ReadFull over ANY chunking (empty chunks included) obtains exactly the
   bytes read_full obtains from the concatenation and leaves exactly the rest
   of the stream; when fewer than n bytes are to come both are short, have
   read the same bytes and have consumed everything *)
Theorem c12_read_full_chunks : forall n cs,
  match read_full_chunks n cs with
  | GFull g r => read_full n (concat cs) = RFull g (concat r)
  | GShort g r => read_full n (concat cs) = RShort g /\ concat r = []
  end.
Proof. exact read_full_chunks_ok. Qed.

Theorem c12_read_full_flat : forall n cs,
  match read_full n (concat cs) with
  | RFull g rest => exists r, read_full_chunks n cs = GFull g r /\ concat r = rest
  | RShort g => exists r, read_full_chunks n cs = GShort g r /\ concat r = []
  end.
Proof. exact read_full_chunks_flat. Qed.

(* ------------------------------------------------------------------ T2 *)

(* the frame readers over any chunking = the flat readers over the concatenation *)
Theorem c12_read_mbap_chunks : forall e cs,
  read_mbap e (concat cs) = (fst (read_mbap_c e cs), concat (snd (read_mbap_c e cs))).
Proof. exact read_mbap_chunks. Qed.

Theorem c12_mbap_read_response_chunks : forall fuel e txn cs,
  mbap_read_response fuel e txn (concat cs) =
  (fst (mbap_read_response_c fuel e txn cs), concat (snd (mbap_read_response_c fuel e txn cs))).
Proof. exact mbap_read_response_chunks. Qed.

Theorem c12_read_rtu_chunks : forall e cs,
  read_rtu e (concat cs) = (fst (read_rtu_c e cs), concat (snd (read_rtu_c e cs))).
Proof. exact read_rtu_chunks. Qed.

Theorem c12_rtu_read_response_chunks : forall e cs,
  rtu_read_response e (concat cs) =
  (fst (rtu_read_response_c e cs), concat (snd (rtu_read_response_c e cs))).
Proof. exact rtu_read_response_chunks. Qed.

(* a client call over any chunking: result, frames written, transaction
   counter and unread bytes are those of the call over the concatenation *)
Theorem c12_client_call_chunks : forall fr cfg txn o e cs,
  client_call fr cfg txn o e (concat cs) =
  let r := client_call_c fr cfg txn o e cs in
  mkcall (gcr_res r) (gcr_writes r) (concat (gcr_rest r)) (gcr_txn r).
Proof. exact client_call_chunks. Qed.

(* a server session over any chunking: the same handler calls, responses and close *)
Theorem c12_server_run_chunks : forall (St : Type) (h : handler St) st e cs,
  server_run_c h st e cs = server_run h st e (concat cs).
Proof. exact @server_run_chunks. Qed.

(* hence: whatever the frames and however their bytes are cut into reads, the
   outcome is that of one-frame-per-read delivery *)
Theorem c12_client_any_segmentation : forall fr cfg txn o e frames cs,
  same_stream cs frames ->
  call_same (client_call_c fr cfg txn o e cs) (client_call_c fr cfg txn o e frames).
Proof. exact client_call_any_segmentation. Qed.

Theorem c12_server_any_segmentation : forall (St : Type) (h : handler St) st e frames cs,
  same_stream cs frames ->
  server_run_c h st e cs = server_run_c h st e frames.
Proof. exact @server_run_any_segmentation. Qed.

(* the segmentations the property names are instances: byte by byte, every
   split point, every pair of split points, all frames in one segment *)
Theorem c12_named_segmentations : forall frames j k,
  same_stream (seg_bytewise (concat frames)) frames /\
  same_stream (seg_split k (concat frames)) frames /\
  same_stream (seg_split2 j k (concat frames)) frames /\
  same_stream (seg_coalesced frames) frames.
Proof. exact named_segmentations. Qed.

Theorem c12_client_named : forall fr cfg txn o e frames j k,
  let ref := client_call_c fr cfg txn o e frames in
  call_same (client_call_c fr cfg txn o e (seg_bytewise (concat frames))) ref /\
  call_same (client_call_c fr cfg txn o e (seg_split k (concat frames))) ref /\
  call_same (client_call_c fr cfg txn o e (seg_split2 j k (concat frames))) ref /\
  call_same (client_call_c fr cfg txn o e (seg_coalesced frames)) ref.
Proof. exact client_call_named. Qed.

Theorem c12_server_named : forall (St : Type) (h : handler St) st e frames j k,
  let ref := server_run_c h st e frames in
  server_run_c h st e (seg_bytewise (concat frames)) = ref /\
  server_run_c h st e (seg_split k (concat frames)) = ref /\
  server_run_c h st e (seg_split2 j k (concat frames)) = ref /\
  server_run_c h st e (seg_coalesced frames) = ref.
Proof. exact @server_run_named. Qed.

(* ------------------------------------------------------------------ T3: UDP *)

(* full reads through udpSockWrapper.Read over datagrams of at most 260 bytes =
   full reads over the concatenation of the datagrams *)
Theorem c12_udp_read_full : forall n ds, dgrams_ok ds ->
  match usw_read_full n (usw_init ds) with
  | GFull g r => read_full n (concat ds) = RFull g (usw_flat r)
  | GShort g r => read_full n (concat ds) = RShort g /\ usw_flat r = []
  end.
Proof. exact usw_read_full_dgrams. Qed.

(* in every state (without the bound): the wrapper presents its leftover
   followed by the queued datagrams, each cut to 260 bytes *)
Theorem c12_udp_read_full_any : forall n u,
  match usw_read_full n u with
  | GFull g r => read_full n (usw_flat u) = RFull g (usw_flat r)
  | GShort g r => read_full n (usw_flat u) = RShort g /\ usw_flat r = []
  end.
Proof. exact usw_read_full_ok. Qed.

(* the leftover is a suffix of the last datagram received (cut to the receive
   buffer): initially, after every single Read with any buffer length and
   after every full read; so it always fits the 260-byte buffer *)
Theorem c12_udp_invariant_init : forall ds, usw_inv ds (usw_init ds).
Proof. exact usw_inv_init. Qed.

Theorem c12_udp_invariant_read : forall all n u got u',
  usw_inv all u -> usw_read n u = Rd1 got u' -> usw_inv all u'.
Proof. exact usw_read_inv. Qed.

Theorem c12_udp_invariant_read_full : forall all n u, usw_inv all u ->
  match usw_read_full n u with GFull _ r => usw_inv all r | GShort _ r => usw_inv all r end.
Proof. exact usw_read_full_inv. Qed.

Theorem c12_udp_leftover_bound : forall all u, usw_inv all u -> (length (usw_left u) <= 260)%nat.
Proof. exact usw_inv_bound. Qed.

(* a client call through the wrapper = the call over the concatenation *)
Theorem c12_udp_client_call : forall fr cfg txn o e ds, dgrams_ok ds ->
  client_call fr cfg txn o e (concat ds) =
  let r := client_call_u fr cfg txn o e (usw_init ds) in
  mkcall (gcr_res r) (gcr_writes r) (usw_flat (gcr_rest r)) (gcr_txn r).
Proof. exact client_call_dgrams. Qed.

(* all partitions of a stream into datagrams of at most 260 bytes are alike *)
Theorem c12_udp_partitions : forall fr cfg txn o e ds1 ds2,
  dgrams_ok ds1 -> dgrams_ok ds2 -> same_stream ds1 ds2 ->
  let r1 := client_call_u fr cfg txn o e (usw_init ds1) in
  let r2 := client_call_u fr cfg txn o e (usw_init ds2) in
  gcr_res r1 = gcr_res r2 /\ gcr_writes r1 = gcr_writes r2 /\ gcr_txn r1 = gcr_txn r2 /\
  usw_flat (gcr_rest r1) = usw_flat (gcr_rest r2).
Proof. exact client_call_dgram_partitions. Qed.

(* the bound is necessary: a longer datagram loses its tail *)
Theorem c12_udp_truncates : forall d, (260 < length d)%nat ->
  exists r, usw_read_full (length d) (usw_init [d]) = GShort (firstn 260 d) r /\ usw_flat r = [].
Proof. exact usw_truncates. Qed.

(* without the bound: the call sees every datagram cut to 260 bytes *)
Theorem c12_udp_client_call_any : forall fr cfg txn o e u,
  client_call fr cfg txn o e (usw_flat u) =
  let r := client_call_u fr cfg txn o e u in
  mkcall (gcr_res r) (gcr_writes r) (usw_flat (gcr_rest r)) (gcr_txn r).
Proof. exact client_call_udp. Qed.

(* ------------------------------------------------------------------ T4 *)

(* pipelining under any chunking: complete frames, however their bytes are cut
   into reads, are each answered exactly once, in order, with their own
   transaction id (spec_session is the reference session of C03) *)
Theorem c12_pipelined_chunks : forall (St : Type) (h : handler St) frames tail st e cs,
  Forall (fun f => fst f < 65536 /\ pdu_wf (snd f)) frames ->
  concat cs = concat (map (fun f => spec_mbap (fst f) (snd f)) frames) ++ tail ->
  server_run_c h st e cs =
  spec_session h st frames (fun st' => server_run h st' e tail).
Proof. exact @server_pipelined_chunks. Qed.

(* ------------------------------------------------------------------ examples *)

Definition c12_reply : list N := [0;1;0;0;0;7;17;3;4;0x0a;0x0b;0x0c;0x0d].
Definition c12_cfg : ccfg := mkcfg 17 BigE HighFirst.
Definition c12_op : op := OpReadRegs 2 0xfffc 1 Holding.

(* byte by byte, with empty chunks in between *)
Example c12_ex_bytewise :
  gcr_res (client_call_c FMbap c12_cfg 0 c12_op Stall
             ([] :: seg_bytewise c12_reply ++ [[]])) = Ok (VNums [0x0a0b0c0d]).
Proof. vm_compute. reflexivity. Qed.

(* a foreign frame and the reply coalesced, cut in the middle of the second header *)
Example c12_ex_coalesced :
  let s := [0;9;0;0;0;3;17;3;0] ++ c12_reply ++ [0xee] in
  let r := client_call_c FMbap c12_cfg 0 c12_op Stall (seg_split 12 s) in
  gcr_res r = Ok (VNums [0x0a0b0c0d]) /\ gcr_rest r = [[0xee]].
Proof. vm_compute. split; reflexivity. Qed.

(* a short read: the same bytes are consumed *)
Example c12_ex_short :
  read_full_chunks 7 [[1;2];[];[3]] = GShort [1;2;3] [] /\ read_full 7 [1;2;3] = RShort [1;2;3].
Proof. vm_compute. split; reflexivity. Qed.

Example c12_ex_partial_chunk :
  read_full_chunks 3 [[1;2];[3;4;5]] = GFull [1;2;3] [[4;5]].
Proof. vm_compute. reflexivity. Qed.

Definition c12_example_handler : handler N :=
  fun st r => (st + 1, mkhres (repeat true (N.to_nat (h_qty r))) (repeat 7 (N.to_nat (h_qty r))) HNone).

(* two pipelined requests delivered in three segments that ignore the frame boundaries *)
Example c12_ex_pipelined :
  server_run_c c12_example_handler 0 Closed
    (seg_split2 5 9 (spec_mbap 7 (mkpdu 1 3 [0; 16; 0; 2]) ++ spec_mbap 8 (mkpdu 1 0x2B [14]))) =
  [EvCall (mkhreq HHolding 1 16 2 false [] []);
   EvResp (spec_mbap 7 (mkpdu 1 3 [4; 0; 7; 0; 7]));
   EvResp (spec_mbap 8 (mkpdu 1 0xAB [1]));
   EvClosed].
Proof. vm_compute. reflexivity. Qed.

Example c12_frames_sat :
  Forall (fun f => fst f < 65536 /\ pdu_wf (snd f)) [(7, mkpdu 1 3 [0; 16; 0; 2])].
Proof.
  constructor; [|constructor]. split; [reflexivity|]. unfold pdu_wf. cbn.
  repeat split; try reflexivity; discriminate.
Qed.

(* UDP: the reply spread over three datagrams; leftover handling *)
Example c12_ex_udp :
  let ds := [firstn 6 c12_reply; firstn 2 (skipn 6 c12_reply); skipn 8 c12_reply] in
  dgrams_ok ds /\
  gcr_res (client_call_u FMbap c12_cfg 0 c12_op Stall (usw_init ds)) = Ok (VNums [0x0a0b0c0d]).
Proof.
  split; [repeat constructor|vm_compute; reflexivity].
Qed.

(* UDP: two frames in one datagram of 272 > 260 bytes: the reply is cut and the
   call times out although the stream, delivered over TCP, contains the reply *)
Example c12_ex_udp_too_long :
  let foreign := assemble_mbap 9 (mkpdu 17 3 (250 :: repeat 0 250)) in
  length (foreign ++ c12_reply) = 272%nat /\
  gcr_res (client_call_u FMbap c12_cfg 0 c12_op Stall (usw_init [foreign ++ c12_reply])) = Err ETimeout /\
  cr_res (client_call FMbap c12_cfg 0 c12_op Stall (foreign ++ c12_reply)) = Ok (VNums [0x0a0b0c0d]).
Proof. vm_compute. repeat split; reflexivity. Qed.

Print Assumptions c12_read_full_chunks.
Print Assumptions c12_read_full_flat.
Print Assumptions c12_read_mbap_chunks.
Print Assumptions c12_mbap_read_response_chunks.
Print Assumptions c12_read_rtu_chunks.
Print Assumptions c12_rtu_read_response_chunks.
Print Assumptions c12_client_call_chunks.
Print Assumptions c12_server_run_chunks.
Print Assumptions c12_client_any_segmentation.
Print Assumptions c12_server_any_segmentation.
Print Assumptions c12_named_segmentations.
Print Assumptions c12_client_named.
Print Assumptions c12_server_named.
Print Assumptions c12_udp_read_full.
Print Assumptions c12_udp_read_full_any.
Print Assumptions c12_udp_invariant_init.
Print Assumptions c12_udp_invariant_read.
Print Assumptions c12_udp_invariant_read_full.
Print Assumptions c12_udp_leftover_bound.
Print Assumptions c12_udp_client_call.
Print Assumptions c12_udp_partitions.
Print Assumptions c12_udp_truncates.
Print Assumptions c12_udp_client_call_any.
Print Assumptions c12_pipelined_chunks.
