(* C09 - Server never serves more than MaxClients and always reclaims slots.
   Statements only; proofs in Proofs/SlotsP.v. The model (Model/Slots.v) is a
   labelled transition system whose step sequences are exactly the
   interleavings of the accept goroutine's, the session goroutines' and the
   Start/Stop callers' atomic actions. *)
From Coq Require Import List Arith Bool Permutation.
Import ListNotations.
From Coq Require Import ZArith.
From Modbus Require Import Model.Slots Proofs.SlotsP Model.IdleTimer Proofs.IdleTimerP.

(* the invariant holds in every reachable state, for every MaxClients and
   every interleaving *)
Theorem c09_invariant : forall m tr, Inv (run (init m) tr).
Proof. exact reachable_inv. Qed.

(* T1: at every instant at most MaxClients connections are being served *)
Theorem c09_bound : forall m tr,
  let s := run (init m) tr in
  serving_count s <= m /\ NoDup (clients s) /\ (forall c, stat s c = Serving -> In c (clients s)).
Proof. exact served_at_most_max. Qed.

(* T2: an arrival at the limit (or while stopped) is closed ... *)
Theorem c09_full_rejects : forall s c, Inv s -> stat s c = Taken ->
  (started s = false \/ maxc s <= length (clients s)) ->
  stat (step s (Enrol c)) c = Rejected /\ closed (step s (Enrol c)) c = true /\
  clients (step s (Enrol c)) = clients s.
Proof. exact full_list_rejects. Qed.

(* ... and none of its requests ever reaches a handler *)
Theorem c09_rejected_never_served : forall s tr c, stat s c = Rejected ->
  forall pre l post, tr = pre ++ l :: post -> l = Req c -> enabled (run s pre) l = false.
Proof. exact rejected_never_served. Qed.

(* T3: the removal deletes exactly the ended connection, for every position
   in the list, i.e. for every order in which served connections end *)
Theorem c09_remove_exact : forall s c, Inv s -> stat s c = Ended ->
  Permutation (clients s) (c :: clients (step s (Remove c))) /\
  closed (step s (Remove c)) c = true.
Proof. exact remove_exact. Qed.

(* T4: the slot is free again: a later connection is served *)
Theorem c09_slot_reclaimed : forall s c d, Inv s -> stat s c = Ended -> started s = true ->
  stat s d = Taken -> d <> c -> length (clients s) <= maxc s ->
  let s1 := step s (Remove c) in
  let s2 := step s1 (Enrol d) in
  stat s2 d = Serving /\ In d (clients s2).
Proof. exact slot_reclaimed. Qed.

(* T5: idle expiry, over every admissible history of request reads of a
   session: the session is closed no earlier than the timeout after the last
   request read began, and a connection that stays idle is closed at exactly
   that instant *)
Theorem c09_idle_not_early : forall timeout t0 tr t,
  idle_valid timeout (idle_init t0) (tr ++ [IExpire t]) = true ->
  exists r, last_read_start tr None = Some r /\ (r + timeout <= t)%Z.
Proof. exact idle_not_early. Qed.
Theorem c09_idle_expiry_enabled : forall timeout t0 tr r, (0 <= timeout)%Z ->
  idle_valid timeout (idle_init t0) (tr ++ [IReadStart r]) = true ->
  idle_valid timeout (idle_init t0) ((tr ++ [IReadStart r]) ++ [IExpire (r + timeout)]) = true.
Proof. exact idle_expiry_enabled. Qed.

Example c09_ex_idle :
  idle_valid 200 (idle_init 0) [IReadStart 0; IRequest 50; IReadStart 51; IExpire 251] = true /\
  idle_valid 200 (idle_init 0) [IReadStart 0; IRequest 50; IReadStart 51; IExpire 250] = false.
Proof. vm_compute. split; reflexivity. Qed.

(* non-vacuity: a trace that reaches the limit, rejects, reclaims *)
Example c09_ex :
  let tr := [Start; Arrive 1; Take 1; Enrol 1; Arrive 2; Take 2; Enrol 2;
             End 1 Disconnect; Arrive 3; Take 3; Remove 1; Enrol 3] in
  let s := run (init 1) tr in
  stat s 1 = Removed /\ stat s 2 = Rejected /\ stat s 3 = Serving /\ clients s = [3].
Proof. vm_compute. repeat split; reflexivity. Qed.

Print Assumptions c09_invariant.
Print Assumptions c09_bound.
Print Assumptions c09_full_rejects.
Print Assumptions c09_rejected_never_served.
Print Assumptions c09_remove_exact.
Print Assumptions c09_slot_reclaimed.
Print Assumptions c09_idle_not_early.
Print Assumptions c09_idle_expiry_enabled.
