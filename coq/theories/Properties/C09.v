(* C09 - Server never serves more than MaxClients and always reclaims slots.
   Statements only; proofs in Proofs/SlotsP.v. The model (Model/Slots.v) is a
   labelled transition system whose step sequences are exactly the
   interleavings of the accept goroutine's, the session goroutines' and the
   Start/Stop callers' atomic actions. *)
From Coq Require Import List Arith Bool Permutation.
Import ListNotations.
From Modbus Require Import Model.Slots Proofs.SlotsP.

(* the invariant holds in every reachable state, for every MaxClients and
   every interleaving *)
Theorem c09_invariant : forall m tr, Inv (run (init m) tr).
Proof. exact reachable_inv. Qed.

(* T1: at every instant at most MaxClients connections are being served *)
Theorem c09_bound : forall m tr,
  let s := run (init m) tr in
  serving_count s <= m /\ NoDup (clients s) /\ (forall c, stat s c = Serving -> In c (clients s)).
Proof. exact served_at_most_max. Qed.

(* T2: an arrival at the limit (or while stopped) is closed ... *)
Theorem c09_full_rejects : forall s c, Inv s -> stat s c = Taken ->
  (started s = false \/ maxc s <= length (clients s)) ->
  stat (step s (Enrol c)) c = Rejected /\ closed (step s (Enrol c)) c = true /\
  clients (step s (Enrol c)) = clients s.
Proof. exact full_list_rejects. Qed.

(* ... and none of its requests ever reaches a handler *)
Theorem c09_rejected_never_served : forall s tr c, stat s c = Rejected ->
  forall pre l post, tr = pre ++ l :: post -> l = Req c -> enabled (run s pre) l = false.
Proof. exact rejected_never_served. Qed.

(* T3: the removal deletes exactly the ended connection, for every position
   in the list, i.e. for every order in which served connections end *)
Theorem c09_remove_exact : forall s c, Inv s -> stat s c = Ended ->
  Permutation (clients s) (c :: clients (step s (Remove c))) /\
  closed (step s (Remove c)) c = true.
Proof. exact remove_exact. Qed.

(* T4: the slot is free again: a later connection is served *)
Theorem c09_slot_reclaimed : forall s c d, Inv s -> stat s c = Ended -> started s = true ->
  stat s d = Taken -> d <> c -> length (clients s) <= maxc s ->
  let s1 := step s (Remove c) in
  let s2 := step s1 (Enrol d) in
  stat s2 d = Serving /\ In d (clients s2).
Proof. exact slot_reclaimed. Qed.

(* non-vacuity: a trace that reaches the limit, rejects, reclaims *)
Example c09_ex :
  let tr := [Start; Arrive 1; Take 1; Enrol 1; Arrive 2; Take 2; Enrol 2;
             End 1 Disconnect; Arrive 3; Take 3; Remove 1; Enrol 3] in
  let s := run (init 1) tr in
  stat s 1 = Removed /\ stat s 2 = Rejected /\ stat s 3 = Serving /\ clients s = [3].
Proof. vm_compute. repeat split; reflexivity. Qed.

Print Assumptions c09_invariant.
Print Assumptions c09_bound.
Print Assumptions c09_full_rejects.
Print Assumptions c09_rejected_never_served.
Print Assumptions c09_remove_exact.
Print Assumptions c09_slot_reclaimed.
