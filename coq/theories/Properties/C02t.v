(* C02 / C01, source level: the request construction and reply validation of
   client.go AS TRANSLATED FROM THE GO SOURCE ON THIS RUN (Gen/SrcPure.v), with
   the transport as an oracle: for EVERY function [T] from requests to replies
   (a response PDU, or an error), each public method run on top of it returns
   what the model says - [call_out cfg op (xchg T)]: the unexpected-arguments
   error exactly when [client_request] rejects the arguments (and then the
   transport is not called), otherwise the transport is called once with the
   model's request, i/o timeouts become the request-timed-out error, the
   unit-id rule is applied, and the reply goes through [client_validate]
   ([xchg T req = exec_spec req (T req)]). Because this holds for every [T],
   the request handed to the transport is the model's request. The last
   theorems instantiate [T] with the model's own transports (MBAP and RTU
   framing over a peer byte stream) and obtain [client_call], the function
   C01.v / C02.v are about. [mc_fields cfg tt] are the receiver fields the
   translation keeps (byte order, word order, unit id, transport type); they
   come back first in every result list. Error values are numbers
   (Proofs/SrcMiscP.v, Proofs/SrcClientP.v). Only statements, closed by [exact]. *)
From Coq Require Import List NArith String.
Import ListNotations.
From Modbus Require Import Base.Bytes Model.GoLite Gen.SrcPure Model.Wire Model.Client Model.Encoding.
From Modbus Require Import Proofs.GoLiteLinkP Proofs.SrcMiscP Proofs.SrcClientP Proofs.SrcClientLinkP.
Open Scope string_scope.
Open Scope N_scope.

Theorem c02t_executeRequest :
  forall (base : fenv) (fuel : nat) (T : pdu -> treply) (cfg : ccfg) (tt : N) (req : pdu),
  transport_hyp base T ->
  call_with src_pure base fuel "ModbusClient.executeRequest"
    (mc_fields cfg tt ++ [VN (p_unit req); VN (p_fc req); vbytes (p_payload req)]) =
  GOk (mc_fields cfg tt ++ enc_reply (xchg T req))%list.
Proof. exact src_executeRequest_ok. Qed.
Print Assumptions c02t_executeRequest.

Theorem c02t_SetUnitId :
  forall (base : fenv) (fuel : nat) (cfg : ccfg) (tt id : N),
  call_with src_pure base fuel "ModbusClient.SetUnitId" (mc_fields cfg tt ++ [VN id]) =
  GOk [VN (endian_sel (c_endian cfg)); VN (word_sel (c_word cfg)); VN id; VN tt; VN 0].
Proof. exact src_SetUnitId_ok. Qed.
Print Assumptions c02t_SetUnitId.

Theorem c02t_SetEncoding :
  forall (base : fenv) (fuel : nat) (cfg : ccfg) (tt e w : N),
  call_with src_pure base fuel "ModbusClient.SetEncoding" (mc_fields cfg tt ++ [VN e; VN w]) =
  (if ((e =? 1) || (e =? 2)) && ((w =? 1) || (w =? 2))
   then GOk [VN e; VN w; VN (c_unit cfg); VN tt; VN 0]
   else GOk (mc_fields cfg tt ++ [VN (err_code EParams)])%list).
Proof. exact src_SetEncoding_ok. Qed.
Print Assumptions c02t_SetEncoding.

Theorem c02t_encoding :
  forall (base : fenv) (fuel : nat) (cfg : ccfg) (tt : N),
  call_with src_pure base fuel "ModbusClient.encoding" (mc_fields cfg tt) =
  GOk (mc_fields cfg tt ++ [VN (endian_sel (c_endian cfg)); VN (word_sel (c_word cfg))])%list.
Proof. exact src_encoding_ok. Qed.
Print Assumptions c02t_encoding.

Theorem c02t_readBools :
  forall (base : fenv) (fuel : nat) (T : pdu -> treply) (cfg : ccfg) (tt a q : N) (di : bool),
  transport_hyp base T ->
  a < 65536 ->
  q < 65536 ->
  (2000 < fuel)%nat ->
  call_with src_pure base fuel "ModbusClient.readBools" (mc_fields cfg tt ++ [VN a; VN q; VB di]) =
  out_vals (mc_fields cfg tt) (call_out cfg (OpReadBools di a q) (xchg T)).
Proof. exact src_readBools_ok. Qed.
Print Assumptions c02t_readBools.

Theorem c02t_readRegisters :
  forall (base : fenv) (fuel : nat) (T : pdu -> treply) (cfg : ccfg) (tt a q rtn : N) (rt : regtype),
  transport_hyp base T ->
  a < 65536 ->
  q < 65536 ->
  regtype_sel rt rtn ->
  call_with src_pure base fuel "ModbusClient.readRegisters" (mc_fields cfg tt ++ [VN a; VN q; VN rtn]) =
  out_vals (mc_fields cfg tt) (rr_out cfg a q rt (xchg T)).
Proof. exact src_readRegisters_ok. Qed.
Print Assumptions c02t_readRegisters.

Theorem c02t_writeRegisters :
  forall (base : fenv) (fuel : nat) (T : pdu -> treply) (cfg : ccfg) (tt a : N) (bytes : list N),
  transport_hyp base T ->
  a < 65536 ->
  bytesb bytes = true ->
  N.of_nat (Datatypes.length bytes) < 2 ^ 62 ->
  call_with src_pure base fuel "ModbusClient.writeRegisters" (mc_fields cfg tt ++ [VN a; vbytes bytes]) =
  out_err (mc_fields cfg tt) (wr_out cfg a bytes (xchg T)).
Proof. exact src_writeRegisters_ok. Qed.
Print Assumptions c02t_writeRegisters.

Theorem c02t_ReadCoils :
  forall (base : fenv) (fuel : nat) (T : pdu -> treply) (cfg : ccfg) (tt a q : N),
  transport_hyp base T ->
  a < 65536 ->
  q < 65536 ->
  (2000 < fuel)%nat ->
  call_with src_pure base fuel "ModbusClient.ReadCoils" (mc_fields cfg tt ++ [VN a; VN q]) =
  out_vals (mc_fields cfg tt) (call_out cfg (OpReadBools false a q) (xchg T)).
Proof. exact src_ReadCoils_ok. Qed.
Print Assumptions c02t_ReadCoils.

Theorem c02t_ReadCoil :
  forall (base : fenv) (fuel : nat) (T : pdu -> treply) (cfg : ccfg) (tt a : N),
  transport_hyp base T ->
  a < 65536 ->
  (2000 < fuel)%nat ->
  call_with src_pure base fuel "ModbusClient.ReadCoil" (mc_fields cfg tt ++ [VN a]) =
  out_one (mc_fields cfg tt) (VB false) (call_out cfg (OpReadBools false a 1) (xchg T)).
Proof. exact src_ReadCoil_ok. Qed.
Print Assumptions c02t_ReadCoil.

Theorem c02t_ReadDiscreteInputs :
  forall (base : fenv) (fuel : nat) (T : pdu -> treply) (cfg : ccfg) (tt a q : N),
  transport_hyp base T ->
  a < 65536 ->
  q < 65536 ->
  (2000 < fuel)%nat ->
  call_with src_pure base fuel "ModbusClient.ReadDiscreteInputs" (mc_fields cfg tt ++ [VN a; VN q]) =
  out_vals (mc_fields cfg tt) (call_out cfg (OpReadBools true a q) (xchg T)).
Proof. exact src_ReadDiscreteInputs_ok. Qed.
Print Assumptions c02t_ReadDiscreteInputs.

Theorem c02t_ReadDiscreteInput :
  forall (base : fenv) (fuel : nat) (T : pdu -> treply) (cfg : ccfg) (tt a : N),
  transport_hyp base T ->
  a < 65536 ->
  (2000 < fuel)%nat ->
  call_with src_pure base fuel "ModbusClient.ReadDiscreteInput" (mc_fields cfg tt ++ [VN a]) =
  out_one (mc_fields cfg tt) (VB false) (call_out cfg (OpReadBools true a 1) (xchg T)).
Proof. exact src_ReadDiscreteInput_ok. Qed.
Print Assumptions c02t_ReadDiscreteInput.

Theorem c02t_ReadRegisters :
  forall (base : fenv) (fuel : nat) (T : pdu -> treply) (cfg : ccfg) (tt a q rtn : N) (rt : regtype),
  transport_hyp base T ->
  a < 65536 ->
  q < 65536 ->
  regtype_sel rt rtn ->
  (300 < fuel)%nat ->
  call_with src_pure base fuel "ModbusClient.ReadRegisters" (mc_fields cfg tt ++ [VN a; VN q; VN rtn]) =
  out_vals (mc_fields cfg tt) (call_out cfg (OpReadRegs 1 a q rt) (xchg T)).
Proof. exact src_ReadRegisters_ok. Qed.
Print Assumptions c02t_ReadRegisters.

Theorem c02t_ReadRegister :
  forall (base : fenv) (fuel : nat) (T : pdu -> treply) (cfg : ccfg) (tt a rtn : N) (rt : regtype),
  transport_hyp base T ->
  a < 65536 ->
  regtype_sel rt rtn ->
  (300 < fuel)%nat ->
  call_with src_pure base fuel "ModbusClient.ReadRegister" (mc_fields cfg tt ++ [VN a; VN rtn]) =
  out_one (mc_fields cfg tt) (VN 0) (call_out cfg (OpReadRegs 1 a 1 rt) (xchg T)).
Proof. exact src_ReadRegister_ok. Qed.
Print Assumptions c02t_ReadRegister.

Theorem c02t_ReadUint32s :
  forall (base : fenv) (fuel : nat) (T : pdu -> treply) (cfg : ccfg) (tt a q rtn : N) (rt : regtype),
  transport_hyp base T ->
  a < 65536 ->
  q < 65536 ->
  regtype_sel rt rtn ->
  (300 < fuel)%nat ->
  call_with src_pure base fuel "ModbusClient.ReadUint32s" (mc_fields cfg tt ++ [VN a; VN q; VN rtn]) =
  out_vals (mc_fields cfg tt) (call_out cfg (OpReadRegs 2 a q rt) (xchg T)).
Proof. exact src_ReadUint32s_ok. Qed.
Print Assumptions c02t_ReadUint32s.

Theorem c02t_ReadUint32 :
  forall (base : fenv) (fuel : nat) (T : pdu -> treply) (cfg : ccfg) (tt a rtn : N) (rt : regtype),
  transport_hyp base T ->
  a < 65536 ->
  regtype_sel rt rtn ->
  (300 < fuel)%nat ->
  call_with src_pure base fuel "ModbusClient.ReadUint32" (mc_fields cfg tt ++ [VN a; VN rtn]) =
  out_one (mc_fields cfg tt) (VN 0) (call_out cfg (OpReadRegs 2 a 1 rt) (xchg T)).
Proof. exact src_ReadUint32_ok. Qed.
Print Assumptions c02t_ReadUint32.

Theorem c02t_ReadFloat32s :
  forall (base : fenv) (fuel : nat) (T : pdu -> treply) (cfg : ccfg) (tt a q rtn : N) (rt : regtype),
  transport_hyp base T ->
  a < 65536 ->
  q < 65536 ->
  regtype_sel rt rtn ->
  (300 < fuel)%nat ->
  call_with src_pure base fuel "ModbusClient.ReadFloat32s" (mc_fields cfg tt ++ [VN a; VN q; VN rtn]) =
  out_vals (mc_fields cfg tt) (call_out cfg (OpReadRegs 2 a q rt) (xchg T)).
Proof. exact src_ReadFloat32s_ok. Qed.
Print Assumptions c02t_ReadFloat32s.

Theorem c02t_ReadFloat32 :
  forall (base : fenv) (fuel : nat) (T : pdu -> treply) (cfg : ccfg) (tt a rtn : N) (rt : regtype),
  transport_hyp base T ->
  a < 65536 ->
  regtype_sel rt rtn ->
  (300 < fuel)%nat ->
  call_with src_pure base fuel "ModbusClient.ReadFloat32" (mc_fields cfg tt ++ [VN a; VN rtn]) =
  out_one (mc_fields cfg tt) (VN 0) (call_out cfg (OpReadRegs 2 a 1 rt) (xchg T)).
Proof. exact src_ReadFloat32_ok. Qed.
Print Assumptions c02t_ReadFloat32.

Theorem c02t_ReadUint64s :
  forall (base : fenv) (fuel : nat) (T : pdu -> treply) (cfg : ccfg) (tt a q rtn : N) (rt : regtype),
  transport_hyp base T ->
  a < 65536 ->
  q < 65536 ->
  regtype_sel rt rtn ->
  (300 < fuel)%nat ->
  call_with src_pure base fuel "ModbusClient.ReadUint64s" (mc_fields cfg tt ++ [VN a; VN q; VN rtn]) =
  out_vals (mc_fields cfg tt) (call_out cfg (OpReadRegs 4 a q rt) (xchg T)).
Proof. exact src_ReadUint64s_ok. Qed.
Print Assumptions c02t_ReadUint64s.

Theorem c02t_ReadUint64 :
  forall (base : fenv) (fuel : nat) (T : pdu -> treply) (cfg : ccfg) (tt a rtn : N) (rt : regtype),
  transport_hyp base T ->
  a < 65536 ->
  regtype_sel rt rtn ->
  (300 < fuel)%nat ->
  call_with src_pure base fuel "ModbusClient.ReadUint64" (mc_fields cfg tt ++ [VN a; VN rtn]) =
  out_one (mc_fields cfg tt) (VN 0) (call_out cfg (OpReadRegs 4 a 1 rt) (xchg T)).
Proof. exact src_ReadUint64_ok. Qed.
Print Assumptions c02t_ReadUint64.

Theorem c02t_ReadFloat64s :
  forall (base : fenv) (fuel : nat) (T : pdu -> treply) (cfg : ccfg) (tt a q rtn : N) (rt : regtype),
  transport_hyp base T ->
  a < 65536 ->
  q < 65536 ->
  regtype_sel rt rtn ->
  (300 < fuel)%nat ->
  call_with src_pure base fuel "ModbusClient.ReadFloat64s" (mc_fields cfg tt ++ [VN a; VN q; VN rtn]) =
  out_vals (mc_fields cfg tt) (call_out cfg (OpReadRegs 4 a q rt) (xchg T)).
Proof. exact src_ReadFloat64s_ok. Qed.
Print Assumptions c02t_ReadFloat64s.

Theorem c02t_ReadFloat64 :
  forall (base : fenv) (fuel : nat) (T : pdu -> treply) (cfg : ccfg) (tt a rtn : N) (rt : regtype),
  transport_hyp base T ->
  a < 65536 ->
  regtype_sel rt rtn ->
  (300 < fuel)%nat ->
  call_with src_pure base fuel "ModbusClient.ReadFloat64" (mc_fields cfg tt ++ [VN a; VN rtn]) =
  out_one (mc_fields cfg tt) (VN 0) (call_out cfg (OpReadRegs 4 a 1 rt) (xchg T)).
Proof. exact src_ReadFloat64_ok. Qed.
Print Assumptions c02t_ReadFloat64.

Theorem c02t_WriteCoil :
  forall (base : fenv) (fuel : nat) (T : pdu -> treply) (cfg : ccfg) (tt a : N) (v : bool),
  transport_hyp base T ->
  a < 65536 ->
  call_with src_pure base fuel "ModbusClient.WriteCoil" (mc_fields cfg tt ++ [VN a; VB v]) =
  out_err (mc_fields cfg tt) (call_out cfg (OpWriteCoil a v) (xchg T)).
Proof. exact src_WriteCoil_ok. Qed.
Print Assumptions c02t_WriteCoil.

Theorem c02t_WriteCoils :
  forall (base : fenv) (fuel : nat) (T : pdu -> treply) (cfg : ccfg) (tt a : N) (vs : list bool),
  transport_hyp base T ->
  a < 65536 ->
  (2000 < fuel)%nat ->
  call_with src_pure base fuel "ModbusClient.WriteCoils" (mc_fields cfg tt ++ [VN a; vbools vs]) =
  out_err (mc_fields cfg tt) (call_out cfg (OpWriteCoils a vs) (xchg T)).
Proof. exact src_WriteCoils_ok. Qed.
Print Assumptions c02t_WriteCoils.

Theorem c02t_WriteRegister :
  forall (base : fenv) (fuel : nat) (T : pdu -> treply) (cfg : ccfg) (tt a v : N),
  transport_hyp base T ->
  a < 65536 ->
  v < 65536 ->
  call_with src_pure base fuel "ModbusClient.WriteRegister" (mc_fields cfg tt ++ [VN a; VN v]) =
  out_err (mc_fields cfg tt) (call_out cfg (OpWriteReg a v) (xchg T)).
Proof. exact src_WriteRegister_ok. Qed.
Print Assumptions c02t_WriteRegister.

Theorem c02t_WriteRegisters :
  forall (base : fenv) (fuel : nat) (T : pdu -> treply) (cfg : ccfg) (tt a : N) (vs : list N),
  transport_hyp base T ->
  a < 65536 ->
  N.of_nat (Datatypes.length vs) < 2 ^ 59 ->
  call_with src_pure base fuel "ModbusClient.WriteRegisters" (mc_fields cfg tt ++ [VN a; vbytes vs]) =
  out_err (mc_fields cfg tt) (call_out cfg (OpWriteRegs 1 a vs) (xchg T)).
Proof. exact src_WriteRegisters_ok. Qed.
Print Assumptions c02t_WriteRegisters.

Theorem c02t_WriteUint32s :
  forall (base : fenv) (fuel : nat) (T : pdu -> treply) (cfg : ccfg) (tt a : N) (vs : list N),
  transport_hyp base T ->
  a < 65536 ->
  N.of_nat (Datatypes.length vs) < 2 ^ 59 ->
  call_with src_pure base fuel "ModbusClient.WriteUint32s" (mc_fields cfg tt ++ [VN a; vbytes vs]) =
  out_err (mc_fields cfg tt) (call_out cfg (OpWriteRegs 2 a vs) (xchg T)).
Proof. exact src_WriteUint32s_ok. Qed.
Print Assumptions c02t_WriteUint32s.

Theorem c02t_WriteUint32 :
  forall (base : fenv) (fuel : nat) (T : pdu -> treply) (cfg : ccfg) (tt a v : N),
  transport_hyp base T ->
  a < 65536 ->
  call_with src_pure base fuel "ModbusClient.WriteUint32" (mc_fields cfg tt ++ [VN a; VN v]) =
  out_err (mc_fields cfg tt) (call_out cfg (OpWriteRegs 2 a [v]) (xchg T)).
Proof. exact src_WriteUint32_ok. Qed.
Print Assumptions c02t_WriteUint32.

Theorem c02t_WriteFloat32s :
  forall (base : fenv) (fuel : nat) (T : pdu -> treply) (cfg : ccfg) (tt a : N) (vs : list N),
  transport_hyp base T ->
  a < 65536 ->
  N.of_nat (Datatypes.length vs) < 2 ^ 59 ->
  call_with src_pure base fuel "ModbusClient.WriteFloat32s" (mc_fields cfg tt ++ [VN a; vbytes vs]) =
  out_err (mc_fields cfg tt) (call_out cfg (OpWriteRegs 2 a vs) (xchg T)).
Proof. exact src_WriteFloat32s_ok. Qed.
Print Assumptions c02t_WriteFloat32s.

Theorem c02t_WriteFloat32 :
  forall (base : fenv) (fuel : nat) (T : pdu -> treply) (cfg : ccfg) (tt a v : N),
  transport_hyp base T ->
  a < 65536 ->
  call_with src_pure base fuel "ModbusClient.WriteFloat32" (mc_fields cfg tt ++ [VN a; VN v]) =
  out_err (mc_fields cfg tt) (call_out cfg (OpWriteRegs 2 a [v]) (xchg T)).
Proof. exact src_WriteFloat32_ok. Qed.
Print Assumptions c02t_WriteFloat32.

Theorem c02t_WriteUint64s :
  forall (base : fenv) (fuel : nat) (T : pdu -> treply) (cfg : ccfg) (tt a : N) (vs : list N),
  transport_hyp base T ->
  a < 65536 ->
  N.of_nat (Datatypes.length vs) < 2 ^ 59 ->
  call_with src_pure base fuel "ModbusClient.WriteUint64s" (mc_fields cfg tt ++ [VN a; vbytes vs]) =
  out_err (mc_fields cfg tt) (call_out cfg (OpWriteRegs 4 a vs) (xchg T)).
Proof. exact src_WriteUint64s_ok. Qed.
Print Assumptions c02t_WriteUint64s.

Theorem c02t_WriteUint64 :
  forall (base : fenv) (fuel : nat) (T : pdu -> treply) (cfg : ccfg) (tt a v : N),
  transport_hyp base T ->
  a < 65536 ->
  call_with src_pure base fuel "ModbusClient.WriteUint64" (mc_fields cfg tt ++ [VN a; VN v]) =
  out_err (mc_fields cfg tt) (call_out cfg (OpWriteRegs 4 a [v]) (xchg T)).
Proof. exact src_WriteUint64_ok. Qed.
Print Assumptions c02t_WriteUint64.

Theorem c02t_WriteFloat64s :
  forall (base : fenv) (fuel : nat) (T : pdu -> treply) (cfg : ccfg) (tt a : N) (vs : list N),
  transport_hyp base T ->
  a < 65536 ->
  N.of_nat (Datatypes.length vs) < 2 ^ 59 ->
  call_with src_pure base fuel "ModbusClient.WriteFloat64s" (mc_fields cfg tt ++ [VN a; vbytes vs]) =
  out_err (mc_fields cfg tt) (call_out cfg (OpWriteRegs 4 a vs) (xchg T)).
Proof. exact src_WriteFloat64s_ok. Qed.
Print Assumptions c02t_WriteFloat64s.

Theorem c02t_WriteFloat64 :
  forall (base : fenv) (fuel : nat) (T : pdu -> treply) (cfg : ccfg) (tt a v : N),
  transport_hyp base T ->
  a < 65536 ->
  call_with src_pure base fuel "ModbusClient.WriteFloat64" (mc_fields cfg tt ++ [VN a; VN v]) =
  out_err (mc_fields cfg tt) (call_out cfg (OpWriteRegs 4 a [v]) (xchg T)).
Proof. exact src_WriteFloat64_ok. Qed.
Print Assumptions c02t_WriteFloat64.

Theorem c02t_call_out_client_call :
  forall (fr : framing) (cfg : ccfg) (txn : N) (o : op) (e : send) (s : list N),
  call_out cfg o (xchg (model_transport fr txn e s)) = sout_of (cr_res (client_call fr cfg txn o e s)).
Proof. exact call_out_client_call. Qed.
Print Assumptions c02t_call_out_client_call.

Theorem c02t_model_transport_hyp :
  forall (fr : framing) (txn : N) (e : send) (s : list N),
  bytesb s = true -> transport_hyp (oracle_of (model_transport fr txn e s)) (model_transport fr txn e s).
Proof. exact model_transport_hyp. Qed.
Print Assumptions c02t_model_transport_hyp.

Theorem c02t_WriteCoil_model :
  forall (fr : framing) (cfg : ccfg) (tt txn : N) (e : send) (s : list N) (fuel : nat) 
    (a : N) (v : bool),
  bytesb s = true ->
  a < 65536 ->
  call_with src_pure (oracle_of (model_transport fr txn e s)) fuel "ModbusClient.WriteCoil"
    (mc_fields cfg tt ++ [VN a; VB v]) =
  out_err (mc_fields cfg tt) (sout_of (cr_res (client_call fr cfg txn (OpWriteCoil a v) e s))).
Proof. exact src_WriteCoil_model. Qed.
Print Assumptions c02t_WriteCoil_model.

Theorem c02t_ReadRegisters_model :
  forall (fr : framing) (cfg : ccfg) (tt txn : N) (e : send) (s : list N) (fuel : nat) 
    (a q rtn : N) (rt : regtype),
  bytesb s = true ->
  a < 65536 ->
  q < 65536 ->
  regtype_sel rt rtn ->
  (300 < fuel)%nat ->
  call_with src_pure (oracle_of (model_transport fr txn e s)) fuel "ModbusClient.ReadRegisters"
    (mc_fields cfg tt ++ [VN a; VN q; VN rtn]) =
  out_vals (mc_fields cfg tt) (sout_of (cr_res (client_call fr cfg txn (OpReadRegs 1 a q rt) e s))).
Proof. exact src_ReadRegisters_model. Qed.
Print Assumptions c02t_ReadRegisters_model.

Theorem c02t_model_transport_wf :
  forall (fr : framing) (txn : N) (e : send) (s : list N) (req : pdu),
  bytesb s = true -> treply_wf (model_transport fr txn e s req).
Proof. exact model_transport_wf. Qed.
Print Assumptions c02t_model_transport_wf.
