(* C15 (continued) - the role is that of the client leaf certificate of THAT
   session, whether the TLS session was negotiated by a full handshake or
   resumed from an earlier one: clients that keep a session cache.
   Only statements here; proofs live in Proofs/RoleResumeP.v.

   tls_serve_cached hsr c cs conns (Model/RoleResume.v) is what one server
   object with configuration c hands to the handlers of the connections
   conns, in the order they are accepted, cs being what the session caches of
   the clients hold at the start: None = the connection is refused (no
   handler invocation), Some (resumed, role) = ConnectionState.DidResume of
   that session and the ClientRole of every invocation of it.
   hsr is Go's crypto/tls with session resumption (an oracle, as in C14);
   tls_resume_documented is what its documentation says about a completed
   server-side handshake: a full one authenticates the presented chain, a
   resumed one restores version and peer certificates of the session the
   offered ticket was issued on.
   per_identity ident conns: one cache per client identity - the connections
   that use cache k present the chain ident k. *)
From Modbus Require Import Base.Bytes Model.Utf8 Model.Der Model.Role Model.TlsPolicy Model.RoleSeq
  Model.RoleResume Spec.RoleSpec Proofs.RoleSeqP Proofs.RoleResumeP.

(* `resumed` does not enter the role: startTLS computes it from the connection state alone *)
Theorem c15_resumed_not_in_role : forall b b' s,
  tls_role_of_state (trs_state (mk_tls_rsession b s)) =
  tls_role_of_state (trs_state (mk_tls_rsession b' s)).
Proof. exact role_of_state_resumed_irrelevant. Qed.

Theorem c15_resume_role_of_state : forall hsr c peer offer,
  option_map snd (tls_start_tls_r hsr c peer offer) =
  match hsr (tls_policy_of_server c) peer offer with
  | Some rs => tls_role_of_state (trs_state rs)
  | None => None
  end.
Proof. exact start_tls_r_role. Qed.

(* the role of a served session is extract_role of the leaf of the client of
   that very connection (to which c15_role_sound .. c15_total of C15.v apply),
   resumed or not, whatever the other clients did before *)
Theorem c15_resume_role_of_leaf : forall hsr verifies now ident c conns i resumed role,
  tls_resume_documented hsr verifies now ->
  per_identity ident conns ->
  nth_error (tls_serve_cached hsr c [] conns) i = Some (Some (resumed, role)) ->
  exists x leaf more,
    nth_error conns i = Some x /\ tpe_chain (trc_peer x) = leaf :: more /\
    role = extract_role (tlc_exts leaf).
Proof. exact serve_fresh_leaf. Qed.

(* a non-empty role is stated by the leaf of that very session *)
Theorem c15_resume_role_sound : forall hsr verifies now ident c conns i resumed role,
  tls_resume_documented hsr verifies now ->
  per_identity ident conns ->
  nth_error (tls_serve_cached hsr c [] conns) i = Some (Some (resumed, role)) -> role <> [] ->
  exists x leaf more,
    nth_error conns i = Some x /\ tpe_chain (trc_peer x) = leaf :: more /\
    (all_bytes (tlc_exts leaf) = true -> states_role (tlc_exts leaf) role).
Proof. exact serve_fresh_states. Qed.

(* a served session whose leaf states r has role r - on a resumed session too *)
Theorem c15_resume_role_complete : forall hsr verifies now ident c conns i x leaf more r resumed role,
  tls_resume_documented hsr verifies now ->
  per_identity ident conns ->
  nth_error conns i = Some x -> tpe_chain (trc_peer x) = leaf :: more ->
  states_role (tlc_exts leaf) r -> lenN r < 2 ^ 31 ->
  nth_error (tls_serve_cached hsr c [] conns) i = Some (Some (resumed, role)) ->
  role = r.
Proof. exact serve_fresh_complete. Qed.

(* a server that resumes and one that does not (any two TLS stacks that behave
   as documented): a connection served by both gets the same role from both *)
Theorem c15_resume_role_independent :
  forall hsr1 hsr2 verifies1 verifies2 now1 now2 ident c conns i b1 b2 role1 role2,
  tls_resume_documented hsr1 verifies1 now1 ->
  tls_resume_documented hsr2 verifies2 now2 ->
  per_identity ident conns ->
  nth_error (tls_serve_cached hsr1 c [] conns) i = Some (Some (b1, role1)) ->
  nth_error (tls_serve_cached hsr2 c [] conns) i = Some (Some (b2, role2)) ->
  role1 = role2.
Proof. exact serve_cached_role_independent. Qed.

(* with a TLS stack that never resumes the server is that of C15b (Model/RoleSeq.v) *)
Theorem c15_resume_never_is_sessions : forall hs c cs conns,
  tls_roles_only (tls_serve_cached (tls_never_resumes hs) c cs conns) =
  tls_serve_sessions hs c (map trc_peer conns).
Proof. exact serve_cached_never_resumes. Qed.

Theorem c15_resume_never_documented : forall hs verifies now,
  tls_srv_documented hs verifies now ->
  tls_resume_documented (tls_never_resumes hs) verifies now.
Proof. exact never_resumes_documented. Qed.

(* non-vacuity: an oracle that resumes whenever the peer offers a session of
   the version it asks for, and otherwise completes the full handshake of
   every TLS peer that presents a chain, at the single version it offers *)
Definition c15c_hsr (pol : tls_policy) (peer : tls_peer) (offer : option tls_session) : option tls_rsession :=
  if tpe_speaks_tls peer then
    match tpe_versions peer with
    | [v] =>
        if tls_version_geb v (tpo_min_version pol) then
          match offer with
          | Some t =>
              if tls_version_code (tss_version t) =? tls_version_code v
              then Some (mk_tls_rsession true (mk_tls_session v (tss_peer_certs t)))
              else match tpe_chain peer with
                   | _ :: _ => Some (mk_tls_rsession false (mk_tls_session v (tpe_chain peer)))
                   | [] => None
                   end
          | None =>
              match tpe_chain peer with
              | _ :: _ => Some (mk_tls_rsession false (mk_tls_session v (tpe_chain peer)))
              | [] => None
              end
          end
        else None
    | _ => None
    end
  else None.

Example c15c_ex_documented : tls_resume_documented c15c_hsr (fun _ _ _ _ _ => True) 0.
Proof.
  intros pol peer offer rs. unfold c15c_hsr.
  destruct (tpe_speaks_tls peer) eqn:Et; [|discriminate].
  destruct (tpe_versions peer) as [|v [|]] eqn:Ev; try discriminate.
  destruct (tls_version_geb v (tpo_min_version pol)) eqn:Eg; [|discriminate].
  assert (Hfull : match tpe_chain peer with
                  | _ :: _ => Some (mk_tls_rsession false (mk_tls_session v (tpe_chain peer)))
                  | [] => None
                  end = Some rs ->
                  true = true /\ In (tss_version (trs_state rs)) [v] /\
                  tls_version_geb (tss_version (trs_state rs)) (tpo_min_version pol) = true /\
                  (trs_resumed rs = false -> tpo_client_auth pol = TlsRequireAndVerify ->
                   tss_peer_certs (trs_state rs) = tpe_chain peer /\ tpe_chain peer <> [] /\ True) /\
                  (trs_resumed rs = true ->
                   exists t, offer = Some t /\ tss_version (trs_state rs) = tss_version t /\
                     tss_peer_certs (trs_state rs) = tss_peer_certs t)).
  { destruct (tpe_chain peer) as [|leaf more] eqn:Ec; [discriminate|].
    intros [= <-]. cbn. repeat split; auto; discriminate. }
  destruct offer as [t|]; [|exact Hfull].
  destruct (tls_version_code (tss_version t) =? tls_version_code v) eqn:Ecode; [|exact Hfull].
  intros [= <-]. cbn. apply N.eqb_eq in Ecode.
  assert (Hv : tss_version t = v) by (destruct (tss_version t), v; cbn in Ecode; congruence).
  repeat split; auto; try discriminate.
  intros _. exists t. auto.
Qed.

Definition c15c_conf : tls_srv_conf :=
  mk_tls_srv_conf [] 0 0 (Some (mk_tls_cert 2 [])) (Some [mk_tls_cert 1 []]).
(* client A: role "op"; client B: a PrintableString (no role); client C: role "vi" *)
Definition c15c_A (v : tls_version) (k : option N) : tls_rconn :=
  mk_tls_rconn k (mk_tls_peer true [mk_tls_cert 7 [(true, [0x0c; 2; 0x6f; 0x70])]] [v]).
Definition c15c_B (v : tls_version) (k : option N) : tls_rconn :=
  mk_tls_rconn k (mk_tls_peer true [mk_tls_cert 8 [(true, [0x13; 2; 0x6f; 0x70])]] [v]).
Definition c15c_C (v : tls_version) (k : option N) : tls_rconn :=
  mk_tls_rconn k (mk_tls_peer true [mk_tls_cert 9 [(true, [0x0c; 2; 0x76; 0x69])]] [v]).

Definition c15c_ident (k : N) : list tls_cert :=
  if k =? 0 then [mk_tls_cert 7 [(true, [0x0c; 2; 0x6f; 0x70])]]
  else if k =? 1 then [mk_tls_cert 8 [(true, [0x13; 2; 0x6f; 0x70])]]
  else [mk_tls_cert 9 [(true, [0x0c; 2; 0x76; 0x69])]].

Definition c15c_conns : list tls_rconn :=
  [ c15c_A TLS13 (Some 0); c15c_A TLS13 (Some 0); c15c_B TLS12 (Some 1); c15c_A TLS13 (Some 0);
    c15c_C TLS13 (Some 2); c15c_B TLS12 (Some 1); c15c_A TLS12 (Some 0); c15c_A TLS13 None;
    c15c_C TLS11 (Some 2); c15c_C TLS13 (Some 2) ].

Example c15c_ex_per_identity : per_identity c15c_ident c15c_conns.
Proof.
  intros x k Hin Hk. cbn in Hin.
  repeat (destruct Hin as [<-|Hin]; [cbn in Hk; try discriminate; injection Hk as <-; reflexivity|]).
  destruct Hin.
Qed.

(* A, A again (resumed), B, A (resumed), C, B (resumed), A at another version
   (full), A without its cache (full), C at TLS 1.1 (refused), C (resumed):
   the role is that of the client in every served session *)
Example c15c_ex_sequence :
  tls_serve_cached c15c_hsr c15c_conf [] c15c_conns
  = [ Some (false, [0x6f; 0x70]); Some (true, [0x6f; 0x70]); Some (false, []); Some (true, [0x6f; 0x70]);
      Some (false, [0x76; 0x69]); Some (true, []); Some (false, [0x6f; 0x70]); Some (false, [0x6f; 0x70]);
      None; Some (true, [0x76; 0x69]) ].
Proof. reflexivity. Qed.

Print Assumptions c15_resumed_not_in_role.
Print Assumptions c15_resume_role_of_state.
Print Assumptions c15_resume_role_of_leaf.
Print Assumptions c15_resume_role_sound.
Print Assumptions c15_resume_role_complete.
Print Assumptions c15_resume_role_independent.
Print Assumptions c15_resume_never_is_sessions.
Print Assumptions c15_resume_never_documented.
