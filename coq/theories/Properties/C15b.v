(* C15 (continued) - the role is that of the client leaf certificate of THAT
   session: sequences of TLS sessions on one running server.
   Only statements here; proofs live in Proofs/RoleSeqP.v.

   tls_serve_sessions hs c peers (Model/RoleSeq.v) is what one server object
   with configuration c hands to the handlers of the connections peers, in
   the order they are accepted: None = the connection is refused (no handler
   invocation), Some role = the ClientRole of every invocation of that session.
   hs is Go's crypto/tls (an oracle, as in C14); tls_srv_documented is what
   its documentation says about a completed server-side handshake. *)
From Modbus Require Import Base.Bytes Model.Utf8 Model.Der Model.Role Model.TlsPolicy Model.RoleSeq
  Spec.RoleSpec Proofs.RoleSeqP.

(* every session is decided on its own: what the server answers to a
   connection does not depend on the connections accepted before or after it *)
Theorem c15_sessions_independent : forall hs c earlier peer later,
  nth_error (tls_serve_sessions hs c (earlier ++ peer :: later)) (length earlier) =
  nth_error (tls_serve_sessions hs c [peer]) 0.
Proof. exact serve_sessions_alone. Qed.

Theorem c15_sessions_pointwise : forall hs c peers i,
  nth_error (tls_serve_sessions hs c peers) i = option_map (tls_start_tls hs c) (nth_error peers i).
Proof. exact serve_sessions_nth. Qed.

(* the role of a served session is extract_role of the leaf presented on
   that connection (to which c15_role_sound .. c15_total of C15.v apply) *)
Theorem c15_sessions_role_of_leaf : forall hs verifies now c peers i role,
  tls_srv_documented hs verifies now ->
  nth_error (tls_serve_sessions hs c peers) i = Some (Some role) ->
  exists peer leaf more,
    nth_error peers i = Some peer /\ tpe_chain peer = leaf :: more /\
    role = extract_role (tlc_exts leaf).
Proof. exact serve_sessions_leaf. Qed.

(* a non-empty role is stated by the leaf of that very session *)
Theorem c15_sessions_role_sound : forall hs verifies now c peers i role,
  tls_srv_documented hs verifies now ->
  nth_error (tls_serve_sessions hs c peers) i = Some (Some role) -> role <> [] ->
  exists peer leaf more,
    nth_error peers i = Some peer /\ tpe_chain peer = leaf :: more /\
    (all_bytes (tlc_exts leaf) = true -> states_role (tlc_exts leaf) role).
Proof. exact serve_sessions_states. Qed.

(* a served session whose leaf states r has role r, whatever certificates the
   other sessions of the same server presented *)
Theorem c15_sessions_role_complete : forall hs verifies now c earlier peer later leaf more r role,
  tls_srv_documented hs verifies now ->
  tpe_chain peer = leaf :: more -> states_role (tlc_exts leaf) r -> lenN r < 2 ^ 31 ->
  nth_error (tls_serve_sessions hs c (earlier ++ peer :: later)) (length earlier) = Some (Some role) ->
  role = r.
Proof. exact serve_sessions_complete. Qed.

(* non-vacuity: an oracle that completes the handshake of every TLS peer that
   presents a chain, at TLS 1.3; it satisfies tls_srv_documented when every
   chain verifies *)
Definition c15b_hs (pol : tls_policy) (peer : tls_peer) : option tls_session :=
  if tpe_speaks_tls peer then
    match tpe_chain peer, tpe_versions peer with
    | _ :: _, [TLS13] => Some (mk_tls_session TLS13 (tpe_chain peer))
    | _, _ => None
    end
  else None.

Example c15b_ex_documented : tls_srv_documented c15b_hs (fun _ _ _ _ _ => True) 0.
Proof.
  intros pol peer sess. unfold c15b_hs.
  destruct (tpe_speaks_tls peer) eqn:Et; [|discriminate].
  destruct (tpe_chain peer) as [|leaf more] eqn:Ec; [discriminate|].
  destruct (tpe_versions peer) as [|[] [|]] eqn:Ev; try discriminate.
  intros [= <-]. cbn. repeat split; auto; try discriminate.
  destruct (tpo_min_version pol); reflexivity.
Qed.

Definition c15b_conf : tls_srv_conf :=
  mk_tls_srv_conf [] 0 0 (Some (mk_tls_cert 2 [])) (Some [mk_tls_cert 1 []]).
Definition c15b_peer (exts : list cert_ext) : tls_peer :=
  mk_tls_peer true [mk_tls_cert 7 exts] [TLS13].

(* five connections presenting certificates with the same identity (7) whose
   role extension differs, then a peer without certificate: operator, none,
   viewer, PrintableString, operator again, refused *)
Example c15b_ex_sequence :
  tls_serve_sessions c15b_hs c15b_conf
    [ c15b_peer [(true, [0x0c; 2; 0x6f; 0x70])];
      c15b_peer [(false, [1; 2])];
      c15b_peer [(true, [0x0c; 2; 0x76; 0x69])];
      c15b_peer [(true, [0x13; 2; 0x6f; 0x70])];
      c15b_peer [(true, [0x0c; 2; 0x6f; 0x70])];
      mk_tls_peer true [] [TLS13] ]
  = [Some [0x6f; 0x70]; Some []; Some [0x76; 0x69]; Some []; Some [0x6f; 0x70]; None].
Proof. reflexivity. Qed.

Print Assumptions c15_sessions_independent.
Print Assumptions c15_sessions_pointwise.
Print Assumptions c15_sessions_role_of_leaf.
Print Assumptions c15_sessions_role_sound.
Print Assumptions c15_sessions_role_complete.
