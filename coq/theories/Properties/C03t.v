(* C03 / C04 / C13, source level: ModbusServer.handleTransport AS TRANSLATED
   FROM THE GO SOURCE ON THIS RUN (Gen/SrcPure.v), run on the whole translated
   program with the transport and the user's handler as external functions
   over an arbitrary outside world, is the model's server loop: read a request
   (a read error ends the session), process it with [server_process] - the
   function C03.v is about - over the world's handler, write the response or,
   for a protocol error, close the transport and return. Only statements,
   closed by [exact]. *)
From Coq Require Import List NArith String.
Import ListNotations.
From Modbus Require Import Base.Bytes Model.GoLite Gen.SrcPure Model.Wire Model.Server.
From Modbus Require Import Proofs.GoLiteLinkP Proofs.SrcCrcP Proofs.SrcMiscP Proofs.SrcClientP Proofs.SrcServerP.
From Modbus Require Proofs.SrcServerLinkP.
Open Scope string_scope.
Open Scope N_scope.

(* one iteration of the translated loop, for EVERY request the transport may deliver and every state of the locals *)
Theorem c03t_iteration : forall fe fuel W started tt ca cr w rest req,
  world_hyp fe W -> srv_callee_hyp fe -> List.length rest = 18%nat -> snd (w_read W w) = RdOk req ->
  srv_iter_spec fe fuel W started tt ca cr w rest req.
Proof. exact SrcServerLinkP.srv_iteration. Qed.
Print Assumptions c03t_iteration.

(* the whole function, linked: every external function is a function of the world *)
Theorem c03t_handleTransport : forall base fuel W started tt ca cr w,
  world_hyp base W -> (2000 < fuel)%nat ->
  call_with src_pure base fuel "ModbusServer.handleTransport" [started; tt; VN ca; VN cr; w] =
  match srv_loop W ca cr fuel w with
  | Some w' => GoLite.Ok [started; tt; w']
  | None => GoLite.OutOfFuel
  end.
Proof. exact SrcServerLinkP.src_handleTransport_ok. Qed.
Print Assumptions c03t_handleTransport.

(* what one round of [srv_loop] is: the model's server_process over the world's handler *)
Theorem c03t_request_is_server_process : forall W ca cr w req,
  srv_request W ca cr w req =
  let '(w1, _, act) := server_process (model_handler W ca cr) w req in
  match act with
  | Respond res => (fst (w_write W w1 res), true)
  | CloseLink => (fst (w_close W w1), false)
  end.
Proof. reflexivity. Qed.
Print Assumptions c03t_request_is_server_process.
