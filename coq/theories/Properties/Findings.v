(* Refutations, by concrete witnesses, of the full statements of C01 and C02
   for the PINNED upstream tree (findings F1, F2, F3; repaired by fix: commits,
   see known_findings.json). The theorems of Properties/C01.v and C02.v are
   about the repaired tree. (F4: Properties/C18.v c18_pinned_refuted; F8:
   Properties/C06b.v c06_recovery_refuted.) *)
From Modbus Require Import Base.Bytes Model.Encoding Model.Wire Model.Client Model.ClientPinned
  Spec.ModbusSpec Spec.ClientSpec.

Definition f_cfg := mkcfg 1 BigE HighFirst.

(* F2: ReadUint32s(0, 32769) is outside protocol limits (65538 registers) yet
   a request for 2 registers was built and transmitted *)
Theorem f2_pinned_refuted :
  valid_op (OpReadRegs 2 0 32769 Holding) = false /\
  pinned_req_read_regs_typed f_cfg 2 0 32769 Holding = Ok (mkpdu 1 3 [0; 0; 0; 2]) /\
  client_request f_cfg (OpReadRegs 2 0 32769 Holding) = Err EParams.
Proof. vm_compute. repeat split; reflexivity. Qed.

(* F3: WriteCoils(5, 65537 coils) is outside protocol limits yet a request
   announcing ONE coil and carrying 8193 data bytes was built and transmitted *)
Theorem f3_pinned_refuted :
  valid_op (OpWriteCoils 5 (repeat false (N.to_nat 65537))) = false /\
  (exists p, pinned_req_write_coils f_cfg 5 (repeat false (N.to_nat 65537)) = Ok p /\
             firstn 5 (p_payload p) = [0; 5; 0; 1; 1] /\ lenN (p_payload p) = 8198) /\
  client_request f_cfg (OpWriteCoils 5 (repeat false (N.to_nat 65537))) = Err EParams.
Proof.
  split; [vm_compute; reflexivity|]. split.
  - eexists. split; [vm_compute; reflexivity|]. split; vm_compute; reflexivity.
  - vm_compute. reflexivity.
Qed.

(* F1: WriteCoil(7, false) accepted a reply echoing FF 00, which does not
   answer the request; the repaired validation refuses it *)
Theorem f1_pinned_refuted :
  let req := mkpdu 1 5 [0; 7; 0; 0] in
  let res := mkpdu 1 5 [0; 7; 0xff; 0] in
  pinned_validate_write_coil 7 false req res = Ok VUnit /\
  ~ answers f_cfg (OpWriteCoil 7 false) res VUnit /\
  client_validate f_cfg (OpWriteCoil 7 false) req res = Err EProtocol.
Proof.
  cbn zeta. split; [vm_compute; reflexivity|]. split; [|vm_compute; reflexivity].
  intros (_ & _ & H & _). vm_compute in H. discriminate H.
Qed.

Print Assumptions f1_pinned_refuted.
Print Assumptions f2_pinned_refuted.
Print Assumptions f3_pinned_refuted.
