(* C15 - The client role is taken faithfully from the certificate.
   Only statements here; proofs live in Proofs/RoleP.v, DerP.v, Utf8P.v, RoleSpecP.v.

   A certificate is its list of extensions, each (has the Modbus Role OID, value
   octets): any number, any order, any octet strings.  role_values exts are the
   values of the role extensions in certificate order, so
   "role_values exts = [v]" reads "exactly one role extension, with value v"
   (c15_exactly_one).  2^31 is the bound Go's encoding/asn1 puts on a length
   (parseTagAndLength refuses to shift a length >= 2^23). *)
From Modbus Require Import Base.Bytes Model.Utf8 Model.Der Model.Role Spec.RoleSpec
  Proofs.Utf8P Proofs.RoleSpecP Proofs.DerP Proofs.RoleP.

(* T1: a non-empty role comes from exactly one role extension whose value is
   precisely the DER UTF8String of that role, and the role is valid UTF-8 *)
Theorem c15_role_sound : forall exts r, all_bytes exts = true ->
  extract_role exts = r -> r <> [] ->
  role_values exts = [der_utf8string r] /\ utf8_valid r = true /\ lenN r < 2 ^ 31.
Proof. exact role_sound. Qed.

(* ... in the vocabulary of the specification *)
Theorem c15_role_sound_spec : forall exts r, all_bytes exts = true ->
  extract_role exts = r -> r <> [] -> states_role exts r.
Proof. exact role_sound_spec. Qed.

(* T2: exactly one role extension with a well-formed UTF8String value: the
   handlers see that string *)
Theorem c15_role_complete : forall exts r, role_values exts = [der_utf8string r] ->
  utf8_valid r = true -> lenN r < 2 ^ 31 -> extract_role exts = r.
Proof. exact role_complete. Qed.

Theorem c15_role_complete_spec : forall exts r, states_role exts r -> lenN r < 2 ^ 31 ->
  extract_role exts = r.
Proof. exact role_complete_spec. Qed.

(* T3: everything else gives the empty role *)
Theorem c15_otherwise_empty : forall exts, all_bytes exts = true ->
  (forall r, role_values exts = [der_utf8string r] -> utf8_valid r = true -> lenN r < 2 ^ 31 -> r = []) ->
  extract_role exts = [].
Proof. exact role_otherwise. Qed.
Theorem c15_absent : forall exts, role_values exts = [] -> extract_role exts = [].
Proof. exact role_absent. Qed.
Theorem c15_duplicated : forall exts, (2 <= length (role_values exts))%nat -> extract_role exts = [].
Proof. exact role_duplicated. Qed.
(* all 255 other identifier octets, PrintableString, IA5String, ... included *)
Theorem c15_other_tag : forall exts v, role_values exts = [v] -> hd 0 v <> 12 -> extract_role exts = [].
Proof. exact role_other_tag. Qed.
Theorem c15_too_short : forall exts v, role_values exts = [v] -> (length v < 2)%nat -> extract_role exts = [].
Proof. exact role_too_short. Qed.
Theorem c15_trailing_bytes : forall exts s x t, role_values exts = [der_utf8string s ++ x :: t] ->
  lenN s < 2 ^ 31 -> extract_role exts = [].
Proof. exact role_trailing. Qed.
Theorem c15_invalid_utf8 : forall exts s, role_values exts = [der_utf8string s] ->
  utf8_valid s = false -> lenN s < 2 ^ 31 -> extract_role exts = [].
Proof. exact role_invalid_utf8. Qed.
Theorem c15_truncated : forall exts n s, role_values exts = [12 :: der_len n ++ s] ->
  lenN s < n -> n < 2 ^ 31 -> extract_role exts = [].
Proof. exact role_truncated. Qed.
Theorem c15_truncated_length : forall exts b0 b1 t, role_values exts = [b0 :: b1 :: t] -> 128 <= b1 ->
  (length t < N.to_nat (b1 mod 128))%nat -> extract_role exts = [].
Proof. exact role_truncated_length. Qed.
Theorem c15_indefinite_length : forall exts b0 t, role_values exts = [b0 :: 0x80 :: t] ->
  extract_role exts = [].
Proof. exact role_indefinite. Qed.
Theorem c15_nonminimal_length : forall exts b0 b t, role_values exts = [b0 :: 0x81 :: b :: t] -> b < 128 ->
  extract_role exts = [].
Proof. exact role_nonminimal. Qed.
Theorem c15_leading_zero_length : forall exts b0 b1 t, role_values exts = [b0 :: b1 :: 0 :: t] ->
  128 <= b1 -> extract_role exts = [].
Proof. exact role_leading_zero. Qed.
Theorem c15_length_too_long : forall exts b0 b1 t, role_values exts = [b0 :: b1 :: t] ->
  0x85 <= b1 < 256 -> extract_role exts = [].
Proof. exact role_length_too_long. Qed.

(* T4: role extraction is total: the run never ends in an out-of-range index
   or slice (DPanic), whatever the extension contents (not even octets) *)
Theorem c15_total : forall exts, extract_role_run exts = DOk (extract_role exts).
Proof. exact extract_role_total. Qed.
Theorem c15_decoder_no_panic : forall b1 t, unmarshal_utf8string (12 :: b1 :: t) <> DPanic.
Proof. exact unmarshal_no_panic. Qed.

(* T5: the validity test is UTF-8 well-formedness *)
Theorem c15_utf8_valid_iff : forall bs, utf8_valid bs = true <-> well_formed_utf8 bs.
Proof. exact utf8_valid_iff. Qed.
Theorem c15_utf8_encode_bytes : forall cps, forallb is_scalar cps = true -> bytesb (utf8_encode cps) = true.
Proof. exact encode_bytes. Qed.
Theorem c15_utf8_encode_injective : forall cps1 cps2,
  forallb is_scalar cps1 = true -> forallb is_scalar cps2 = true ->
  utf8_encode cps1 = utf8_encode cps2 -> cps1 = cps2.
Proof. exact encode_inj. Qed.

(* T6: plain TCP sessions have the empty role; TLS sessions the extracted one *)
Theorem c15_plain_tcp : forall exts, session_role false exts = [].
Proof. exact plain_tcp_role. Qed.
Theorem c15_tls : forall exts, session_role true exts = extract_role exts.
Proof. exact tls_role. Qed.

(* reading of role_values exts = [v] *)
Theorem c15_exactly_one : forall exts v, role_values exts = [v] <->
  exists pre post, exts = pre ++ (true, v) :: post /\
                   forallb (fun e => negb (fst e)) pre = true /\
                   forallb (fun e => negb (fst e)) post = true.
Proof. exact role_values_one. Qed.

(* closed forms of the DER length, for reading der_utf8string *)
Theorem c15_der_len_forms : forall n,
  (n < 128 -> der_len n = [n]) /\
  (128 <= n < 256 -> der_len n = [0x81; n]) /\
  (256 <= n < 65536 -> der_len n = [0x82; n / 256; n mod 256]) /\
  (65536 <= n < 16777216 -> der_len n = [0x83; n / 65536; (n / 256) mod 256; n mod 256]) /\
  (16777216 <= n < 4294967296 ->
   der_len n = [0x84; n / 16777216; (n / 65536) mod 256; (n / 256) mod 256; n mod 256]).
Proof. exact der_len_forms. Qed.

(* non-vacuity: concrete instances *)
Example c15_ex_role :
  extract_role [(false, [1; 2]); (true, [0x0c; 2; 0x41; 0x42]); (false, [])] = [0x41; 0x42].
Proof. reflexivity. Qed.
Example c15_ex_states : states_role [(false, [1; 2]); (true, [0x0c; 2; 0x41; 0x42])] [0x41; 0x42].
Proof. split; [reflexivity|]. exists [0x41; 0x42]. split; reflexivity. Qed.
Example c15_ex_trailing : extract_role [(true, [0x0c; 1; 0x41; 0])] = [].
Proof. reflexivity. Qed.
Example c15_ex_duplicate :
  extract_role [(true, [0x0c; 1; 0x41]); (false, [5]); (true, [0x0c; 1; 0x41])] = [].
Proof. reflexivity. Qed.
Example c15_ex_second_bad_first_good :
  extract_role [(true, [0x0c; 1; 0x41]); (true, [])] = [].
Proof. reflexivity. Qed.
Example c15_ex_printable : extract_role [(true, [0x13; 1; 0x41])] = [].
Proof. reflexivity. Qed.
Example c15_ex_long_form :
  extract_role [(true, der_utf8string (repeat 0x61 300))] = repeat 0x61 300 /\
  firstn 4 (der_utf8string (repeat 0x61 300)) = [0x0c; 0x82; 1; 44].
Proof. split; vm_compute; reflexivity. Qed.
Example c15_ex_nonminimal : extract_role [(true, [0x0c; 0x81; 1; 0x41])] = [].
Proof. reflexivity. Qed.
Example c15_ex_euro : utf8_encode [0x20AC] = [0xE2; 0x82; 0xAC] /\ utf8_valid [0xE2; 0x82; 0xAC] = true.
Proof. split; reflexivity. Qed.
Example c15_ex_bad_utf8 :
  utf8_valid [0xC0; 0x80] = false /\ utf8_valid [0xED; 0xA0; 0x80] = false /\
  utf8_valid [0xF4; 0x90; 0x80; 0x80] = false /\ utf8_valid [0xE2; 0x82] = false /\
  extract_role [(true, [0x0c; 2; 0xC0; 0x80])] = [].
Proof. repeat split; reflexivity. Qed.
Example c15_ex_empty_string : extract_role [(true, [0x0c; 0])] = [].
Proof. reflexivity. Qed.

Print Assumptions c15_role_sound.
Print Assumptions c15_role_sound_spec.
Print Assumptions c15_role_complete.
Print Assumptions c15_role_complete_spec.
Print Assumptions c15_otherwise_empty.
Print Assumptions c15_absent.
Print Assumptions c15_duplicated.
Print Assumptions c15_other_tag.
Print Assumptions c15_too_short.
Print Assumptions c15_trailing_bytes.
Print Assumptions c15_invalid_utf8.
Print Assumptions c15_truncated.
Print Assumptions c15_truncated_length.
Print Assumptions c15_indefinite_length.
Print Assumptions c15_nonminimal_length.
Print Assumptions c15_leading_zero_length.
Print Assumptions c15_length_too_long.
Print Assumptions c15_total.
Print Assumptions c15_decoder_no_panic.
Print Assumptions c15_utf8_valid_iff.
Print Assumptions c15_utf8_encode_bytes.
Print Assumptions c15_utf8_encode_injective.
Print Assumptions c15_plain_tcp.
Print Assumptions c15_tls.
Print Assumptions c15_exactly_one.
Print Assumptions c15_der_len_forms.
