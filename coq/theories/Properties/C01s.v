(* C01, source level: the frame assembly functions of the two transports and
   the register-total helper of the client, AS TRANSLATED FROM THE GO SOURCE ON
   THIS RUN (Gen/SrcPure.v), compute the model's frames (about which C01.v
   proves that they are the Modbus encoding) for every transaction id, unit
   id, function code and payload. Only statements, closed by [exact].
   [call_with src_pure no_fns] runs a function of the translated program with no
   external functions under it. *)
From Coq Require Import List NArith String.
Import ListNotations.
From Modbus Require Import Base.Bytes Model.GoLite Gen.SrcPure Model.Wire Model.Client.
From Modbus Require Import Proofs.GoLiteLinkP Proofs.SrcMiscP.
Open Scope string_scope.
Open Scope N_scope.

(* rtuTransport.assembleRTUFrame: unit, function code, payload, CRC (low byte first) *)
Theorem c01s_assemble_rtu : forall fuel unit fc payload,
  bytesb (unit :: fc :: payload) = true ->
  call_with src_pure no_fns fuel "rtuTransport.assembleRTUFrame" [VN unit; VN fc; vbytes payload] =
  GoLite.Ok [vbytes (assemble_rtu (mkpdu unit fc payload))].
Proof. exact (src_assembleRTUFrame_ok no_fns). Qed.
Print Assumptions c01s_assemble_rtu.

(* tcpTransport.assembleMBAPFrame: transaction id, protocol id 0, length, unit, function code, payload *)
Theorem c01s_assemble_mbap : forall fuel txn unit fc payload,
  N.of_nat (List.length payload) < 2 ^ 62 ->
  call_with src_pure no_fns fuel "tcpTransport.assembleMBAPFrame" [VN txn; VN unit; VN fc; vbytes payload] =
  GoLite.Ok [vbytes (assemble_mbap txn (mkpdu unit fc payload))].
Proof. exact (src_assembleMBAPFrame_ok no_fns). Qed.
Print Assumptions c01s_assemble_mbap.

(* registerCount: the register total of a multi-register read saturates instead of wrapping *)
Theorem c01s_register_count : forall fuel q w, q < 65536 -> w < 65536 ->
  call_with src_pure no_fns fuel "registerCount" [VN q; VN w] = GoLite.Ok [VN (register_count q w)].
Proof. exact (src_registerCount_ok no_fns). Qed.
Print Assumptions c01s_register_count.

Example c01s_check_mbap :
  call_with src_pure no_fns 0 "tcpTransport.assembleMBAPFrame" [VN 0x1234; VN 17; VN 3; vbytes [0; 5; 0; 2]] =
  GoLite.Ok [vbytes [0x12; 0x34; 0; 0; 0; 6; 17; 3; 0; 5; 0; 2]].
Proof. vm_compute. reflexivity. Qed.
