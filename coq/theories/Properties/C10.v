(* C10 - Stop and Start are clean, repeatable and race-free (lifecycle part;
   the lock-discipline clause is in C10b.v when the lock skeleton is built).
   Statements only; proofs in Proofs/SlotsP.v. *)
From Coq Require Import List Arith Bool.
Import ListNotations.
From Modbus Require Import Model.Slots Proofs.SlotsP.

(* T1: when Stop returns the listener is closed and every connection in the
   active list has been closed *)
Theorem c10_stop_closes_all : forall s, started s = true ->
  let s' := step s Stop in
  started s' = false /\ listening s' = false /\ acceptors s' = 0 /\
  (forall c, In c (clients s) -> closed s' c = true).
Proof. exact stop_closes_all. Qed.

(* T2: in every reachable state in which the server is stopped, no request of
   any connection can reach a handler - for every interleaving that led there *)
Theorem c10_stopped_serves_nothing : forall m tr c,
  let s := run (init m) tr in
  started s = false -> listening s = false /\ acceptors s = 0 /\ enabled s (Req c) = false.
Proof. exact stopped_serves_nothing. Qed.

(* ... including a connection that was being accepted while Stop ran *)
Theorem c10_taken_during_stop_rejected : forall s c, Inv s -> stat s c = Taken -> started s = true ->
  let s' := step (step s Stop) (Enrol c) in
  stat s' c = Rejected /\ closed s' c = true.
Proof. exact taken_during_stop_rejected. Qed.

(* T3: repeated Start / Stop are no-ops; Stop then Start serves again *)
Theorem c10_start_idempotent : forall s, step (step s Start) Start = step s Start.
Proof. exact start_idempotent. Qed.
Theorem c10_stop_idempotent : forall s, step (step s Stop) Stop = step s Stop.
Proof. exact stop_idempotent. Qed.
Theorem c10_stop_start : forall s, started s = true ->
  let s' := step (step s Stop) Start in
  started s' = true /\ listening s' = true /\ acceptors s' = 1.
Proof. exact stop_start_serves_again. Qed.

(* T4: no server goroutine outlives Stop: each has an exit path of at most
   two steps and terminal connections have no step left *)
Theorem c10_session_winds_down : forall s c, Inv s -> started s = false -> stat s c = Serving ->
  enabled s (End c ClosedByStop) = true /\
  let s1 := step s (End c ClosedByStop) in
  enabled s1 (Remove c) = true /\ stat (step s1 (Remove c)) c = Removed.
Proof. exact stopped_session_winds_down. Qed.
Theorem c10_terminal_no_step : forall s c,
  stat s c = Rejected \/ stat s c = Removed \/ stat s c = Dropped ->
  enabled s (Take c) = false /\ enabled s (Enrol c) = false /\ enabled s (Req c) = false /\
  (forall w, enabled s (End c w) = false) /\ enabled s (Remove c) = false /\ enabled s (Arrive c) = false.
Proof. exact terminal_has_no_step. Qed.
Theorem c10_acceptor_exits : forall s, 0 < zombies s ->
  enabled s AcceptExit = true /\ zombies (step s AcceptExit) = pred (zombies s).
Proof. exact zombie_exits. Qed.

Example c10_ex :
  let tr := [Start; Arrive 1; Take 1; Enrol 1; Arrive 2; Take 2; Stop; Enrol 2; Start; Start] in
  let s := run (init 4) tr in
  stat s 2 = Rejected /\ closed s 1 = true /\ started s = true /\ acceptors s = 1 /\ zombies s = 1.
Proof. vm_compute. repeat split; reflexivity. Qed.

Print Assumptions c10_stop_closes_all.
Print Assumptions c10_stopped_serves_nothing.
Print Assumptions c10_taken_during_stop_rejected.
Print Assumptions c10_start_idempotent.
Print Assumptions c10_stop_idempotent.
Print Assumptions c10_stop_start.
Print Assumptions c10_session_winds_down.
Print Assumptions c10_terminal_no_step.
Print Assumptions c10_acceptor_exits.
