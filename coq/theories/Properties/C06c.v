(* C06 - the recovery clause in time. The tail of a corrupted reply may reach
   the client after the reply has been rejected (a flipped byte count makes
   the frame look shorter than it is; bytes paced at line speed): the client
   keeps the line quiet for 256 character times and flushes afterwards, so
   everything that arrives until the end of the flush window is discarded and
   the next exchange with a well-behaved device succeeds.
   Times are integer nanoseconds; the peer's bytes carry their arrival
   instants (Model/Timed.v, Model/TimedSession.v). Statements only; proofs in
   Proofs/TimedRecoveryP.v. *)
From Modbus Require Import Base.Bytes Model.Crc Model.Encoding Model.Wire Model.Client
  Model.Timed Model.TimedSession Spec.ModbusSpec Spec.ClientSpec Spec.TimedSpec
  Proofs.TimedP Proofs.TimedRecoveryP.

(* T9 (net.Conn links): the reply is rejected at t3 with an error that
   triggers the re-synchronisation (bad CRC, protocol error, short frame).
   Whatever else the peer sent that arrives until the end of the flush window
   (t3 + 256 t1 + 500 us; at most 1024 bytes) is discarded; what arrives
   after the window is left on the line untouched; the exchange ends inside
   the window. *)
Theorem c06_timed_flush : forall k la t0 nreq s x t3 tail later,
  tm_gran k = 0%Z -> (0 <= tm_t1 k)%Z ->
  tm_read_rtu 0 (t0 + tm_timeout k) None (tm_rtu_now2 k la t0 nreq) s = (Err x, t3, tail ++ later) ->
  tm_resync x = true -> (length tail <= 1024)%nat ->
  Forall (fun p => (fst p <= tm_flush_end k t3)%Z) tail -> tm_head_after (tm_flush_end k t3) later ->
  exists t4, rtu_exchange_t k la t0 nreq None s = (Err x, t4, later) /\
             (tm_flush_start k t3 <= t4 <= tm_flush_end k t3)%Z.
Proof. exact rtu_exchange_flush0. Qed.

(* the same behind the serial wrapper (or any link with a poll granularity):
   what had arrived when the quiet period ended is discarded *)
Theorem c06_timed_flush_any_link : forall k la t0 nreq s x t3 tail,
  (0 <= tm_gran k)%Z -> (0 <= tm_t1 k)%Z ->
  tm_read_rtu (tm_gran k) (t0 + tm_timeout k) None (tm_rtu_now2 k la t0 nreq) s = (Err x, t3, tail) ->
  tm_resync x = true -> (length tail <= 1024)%nat ->
  Forall (fun p => (fst p <= tm_flush_start k t3)%Z) tail ->
  exists t4, rtu_exchange_t k la t0 nreq None s = (Err x, t4, []) /\
             (tm_flush_start k t3 <= t4 <= tm_flush_end k t3 + tm_gran k)%Z.
Proof. exact rtu_exchange_flush_arrived. Qed.

(* T10: two calls in a row. Call 1 (entered gap1 after `now`) is rejected at
   t3 as above; the rest of what the peer sent for exchange 1 (tail) arrives
   until the end of the flush window; the valid reply to call 2 (pre) starts
   arriving after the window and is complete by the deadline of call 2, which
   is entered gap2 after call 1 returned; anything may follow (post). Then
   the session is: call 1 fails with that error, call 2 returns the values of
   its reply. *)
Theorem c06_timed_recovery : forall k cfg o1 req1 o2 la now gap1 gap2 s x t3 tail pre post res2 vs2,
  tm_conf_wf k -> tm_gran k = 0%Z -> cfg_wf cfg ->
  client_request cfg o1 = Ok req1 ->
  op_wf o2 -> valid_op o2 = true ->
  let t0 := (now + Z.max 0 gap1)%Z in
  tm_read_rtu 0 (t0 + tm_timeout k) None
    (tm_rtu_now2 k la t0 (Z.of_nat (length (assemble_rtu req1)))) s = (Err x, t3, tail ++ pre ++ post) ->
  tm_resync x = true -> (length tail <= 1024)%nat ->
  Forall (fun p => (fst p <= tm_flush_end k t3)%Z) tail ->
  tm_head_after (tm_flush_end k t3) (pre ++ post) ->
  bytesb (p_payload res2) = true -> answers cfg o2 res2 vs2 ->
  map snd pre = spec_frame FRtu 0 res2 ->
  (forall t4, (tm_flush_start k t3 <= t4 <= tm_flush_end k t3)%Z ->
     let t02 := (t4 + Z.max 0 gap2)%Z in
     (tm_rtu_read_start k t4 t02 (tm_req_len cfg o2) <= t02 + tm_timeout k)%Z /\
     Forall (fun p => (fst p <= t02 + tm_timeout k)%Z) pre) ->
  exists t4 t5,
    (tm_flush_start k t3 <= t4 <= tm_flush_end k t3)%Z /\
    tm_rtu_session k cfg None la now s [(o1, gap1); (o2, gap2)] = [(Err x, t4); (Ok vs2, t5)].
Proof. exact timed_recovery. Qed.

(* ------------------------------------------------------------ non-vacuity *)

(* 19200 bps, timeout 1 s, unit 1; read 2 holding registers at 0x10. The reply
   01 03 04 12 34 56 78 <crc> with its byte count flipped 04 -> 00 looks like
   a 5-byte frame with a wrong CRC: rejected when 5 bytes are there; its last
   4 bytes arrive 20 ms later, inside the 146.7 ms quiet period. *)
Definition c06c_k : tm_conf := mk_tm_conf 1000000000 572916 1750000 0.
Definition c06c_cfg : ccfg := mkcfg 1 BigE HighFirst.
Definition c06c_o : op := OpReadRegs 1 0x10 2 Holding.
Definition c06c_good : list N := assemble_rtu (mkpdu 1 3 [4; 0x12; 0x34; 0x56; 0x78]).
Definition c06c_bad : list N := [1; 3; 0] ++ skipn 3 c06c_good.
Definition c06c_at (t : Z) (l : list N) : list (Z * N) := map (fun b => (t, b)) l.
Definition c06c_stream (t_tail t_reply2 : Z) : list (Z * N) :=
  c06c_at 9000000 (firstn 5 c06c_bad) ++ c06c_at t_tail (skipn 5 c06c_bad) ++ c06c_at t_reply2 c06c_good.
Definition c06c_run (t_tail t_reply2 : Z) :=
  tm_rtu_session c06c_k c06c_cfg None (-1000000000000)%Z 0%Z (c06c_stream t_tail t_reply2)
    [(c06c_o, 0%Z); (c06c_o, 0%Z)].

(* the tail 20 ms after the head, reply 2 at 400 ms: rejected, flushed, recovered;
   call 1 returns at t3 + 256 t1 + 500 us *)
Example c06c_ex_recovers :
  c06c_run 29000000 400000000 =
  [(Err EBadCRC, (9000000 + 256 * 572916 + 500000)%Z); (Ok (VNums [0x1234; 0x5678]), 400000000%Z)].
Proof. vm_compute. reflexivity. Qed.

(* the hypothesis matters: a tail that arrives after the flush window (here at
   200 ms) is still on the line when call 2 reads, and call 2 fails *)
Example c06c_ex_late_tail :
  map fst (c06c_run 200000000 400000000) = [Err EBadCRC; Err EProtocol].
Proof. vm_compute. reflexivity. Qed.

(* the example meets the hypotheses of c06_timed_recovery *)
Example c06c_ex_hyps :
  tm_conf_wf c06c_k /\ cfg_wf c06c_cfg /\ op_wf c06c_o /\ valid_op c06c_o = true /\
  client_request c06c_cfg c06c_o = Ok (spec_pdu c06c_cfg c06c_o) /\
  tm_read_rtu 0 (0 + tm_timeout c06c_k) None
    (tm_rtu_now2 c06c_k (-1000000000000) 0 (Z.of_nat (length (assemble_rtu (spec_pdu c06c_cfg c06c_o)))))
    (c06c_stream 29000000 400000000)
  = (Err EBadCRC, 9000000%Z, c06c_at 29000000 (skipn 5 c06c_bad) ++ c06c_at 400000000 c06c_good ++ []) /\
  tm_resync EBadCRC = true /\
  Forall (fun p => (fst p <= tm_flush_end c06c_k 9000000)%Z) (c06c_at 29000000 (skipn 5 c06c_bad)) /\
  tm_head_after (tm_flush_end c06c_k 9000000) (c06c_at 400000000 c06c_good ++ []) /\
  answers c06c_cfg c06c_o (mkpdu 1 3 [4; 0x12; 0x34; 0x56; 0x78]) (VNums [0x1234; 0x5678]) /\
  map snd (c06c_at 400000000 c06c_good) = spec_frame FRtu 0 (mkpdu 1 3 [4; 0x12; 0x34; 0x56; 0x78]).
Proof.
  split; [unfold tm_conf_wf, c06c_k; cbn; lia|].
  split; [vm_compute; reflexivity|].
  split; [vm_compute; repeat split; (reflexivity || lia || discriminate)|].
  split; [vm_compute; reflexivity|].
  split; [vm_compute; reflexivity|].
  split; [vm_compute; reflexivity|].
  split; [reflexivity|].
  split; [repeat constructor; vm_compute; discriminate|].
  split; [vm_compute; reflexivity|].
  split; [|vm_compute; reflexivity].
  split; [reflexivity|]. split; [reflexivity|]. exists [0x1234; 0x5678].
  split; [reflexivity|]. split; [reflexivity|]. split; [|reflexivity].
  repeat constructor.
Qed.

Print Assumptions c06_timed_flush.
Print Assumptions c06_timed_flush_any_link.
Print Assumptions c06_timed_recovery.
