(* C01 / C02 / C05, source level, END TO END: the translated methods of client.go
   run ON TOP OF the translated tcpTransport.ExecuteRequest (the external
   function transport.ExecuteRequest of 13.9 instantiated by the run of the
   translated transport on a peer byte stream) return what the model's
   client_call returns - the function C01.v and C02.v are about - up to the one
   distinction the model does not make: io.EOF / io.ErrUnexpectedEOF / other
   i/o errors, which the public methods pass through unchanged, are one class
   (sout_norm). Only statements, closed by [exact]. *)
From Coq Require Import List NArith String.
Import ListNotations.
From Modbus Require Import Base.Bytes.
From Modbus Require Import Model.GoLite.
From Modbus Require Import Gen.SrcPure.
From Modbus Require Import Model.Wire.
From Modbus Require Import Model.Client.
From Modbus Require Import Model.Transport.
From Modbus Require Import Proofs.GoLiteLinkP.
From Modbus Require Import Proofs.SrcCrcP.
From Modbus Require Import Proofs.SrcMiscP.
From Modbus Require Import Proofs.SrcClientP.
From Modbus Require Import Proofs.SrcTransportP.
From Modbus Require Import Proofs.SrcClientLinkP.
From Modbus Require Import Proofs.SrcTransportWorldsP.
From Modbus Require Import Proofs.SrcStackP.
Open Scope string_scope.
Open Scope N_scope.

Theorem c01t_reply_well_formed :
  forall (fuel : nat) (tmo last : N) (e : send) (s : list N) (req : pdu),
       treply_wf (src_tcp_reply fuel tmo last e s req).
Proof. exact src_tcp_reply_wf_all. Qed.
Print Assumptions c01t_reply_well_formed.

Theorem c01t_translated_transport_is_model_transport :
  forall (tmo last : N) (e : send) (s : list N) (req : pdu),
       bytesb s = true ->
       pdu_ok req ->
       last < 65536 ->
       reply_rel (src_tcp_reply (S (Datatypes.length s)) tmo last e s req)
         (model_transport FMbap last e s req).
Proof. exact src_tcp_reply_model. Qed.
Print Assumptions c01t_translated_transport_is_model_transport.

Theorem c01t_requests_are_frames :
  forall (cfg : ccfg) (o : op) (req : pdu),
       ClientSpec.op_wf o -> ClientSpec.cfg_wf cfg -> client_request cfg o = MOk req -> pdu_ok req.
Proof. exact client_request_pdu_ok. Qed.
Print Assumptions c01t_requests_are_frames.

Theorem c01t_call_out_stack :
  forall (cfg : ccfg) (o : op) (tmo last : N) (e : send) (s : list N),
       bytesb s = true ->
       last < 65536 ->
       ClientSpec.op_wf o ->
       ClientSpec.cfg_wf cfg ->
       sout_norm (call_out cfg o (xchg (src_tcp_reply (S (Datatypes.length s)) tmo last e s))) =
       sout_of (cr_res (client_call FMbap cfg last o e s)).
Proof. exact call_out_stack_wf. Qed.
Print Assumptions c01t_call_out_stack.

Theorem c01t_WriteCoil_stack :
  forall (cfg : ccfg) (tt tmo last : N) (e : send) (s : list N) (fuel : nat) (a : N) (v : bool),
       bytesb s = true ->
       last < 65536 ->
       ClientSpec.cfg_wf cfg ->
       a < 65536 ->
       exists X : sout,
         call_with src_pure (oracle_of (src_tcp_reply (S (Datatypes.length s)) tmo last e s)) fuel
           "ModbusClient.WriteCoil" (mc_fields cfg tt ++ [VN a; VB v]) = out_err (mc_fields cfg tt) X /\
         sout_norm X = sout_of (cr_res (client_call FMbap cfg last (OpWriteCoil a v) e s)).
Proof. exact src_WriteCoil_stack. Qed.
Print Assumptions c01t_WriteCoil_stack.

Theorem c01t_ReadRegisters_stack :
  forall (cfg : ccfg) (tt tmo last : N) (e : send) (s : list N) (fuel : nat) 
         (a q rtn : N) (rt : regtype),
       bytesb s = true ->
       last < 65536 ->
       ClientSpec.cfg_wf cfg ->
       a < 65536 ->
       q < 65536 ->
       regtype_sel rt rtn ->
       (300 < fuel)%nat ->
       exists X : sout,
         call_with src_pure (oracle_of (src_tcp_reply (S (Datatypes.length s)) tmo last e s)) fuel
           "ModbusClient.ReadRegisters" (mc_fields cfg tt ++ [VN a; VN q; VN rtn]) =
         out_vals (mc_fields cfg tt) X /\
         sout_norm X = sout_of (cr_res (client_call FMbap cfg last (OpReadRegs 1 a q rt) e s)).
Proof. exact src_ReadRegisters_stack. Qed.
Print Assumptions c01t_ReadRegisters_stack.

