(* C15 (continued) - "plain TCP sessions always have an empty role", and TLS
   sessions the role of their own leaf, in histories of ONE process that runs
   a tcp+tls server and a plain tcp server side by side (sessions following
   each other and overlapping on the two servers).
   Only statements here; proofs live in Proofs/RoleMixP.v.

   mix_serve_sessions hs srvs conns (Model/RoleMix.v): srvs are the server
   objects of the process (their configurations), conns the accepted
   connections in order, each one (index of the server object that accepted
   it, its peer).  Entry i of the result: None = connection i never reaches a
   handler, Some role = the ClientRole of every handler invocation of session
   i.  hs is Go's crypto/tls (an oracle, as in C14); tls_srv_documented is
   what its documentation says about a completed server-side handshake. *)
From Modbus Require Import Base.Bytes Model.Utf8 Model.Der Model.Role Model.Config Model.TlsPolicy
  Model.RoleSeq Model.RoleMix Spec.RoleSpec Spec.ConfigSpec Proofs.RoleMixP.
From Coq Require String.
Import String.StringSyntax.

(* every session is decided on its own: what a connection gets does not
   depend on the connections accepted before or after it, on the same server
   object or on another one of the process *)
Theorem c15_mix_independent : forall hs srvs earlier x later,
  nth_error (mix_serve_sessions hs srvs (earlier ++ x :: later)) (length earlier) =
  nth_error (mix_serve_sessions hs srvs [x]) 0.
Proof. exact mix_serve_alone. Qed.

(* a session accepted by a plain tcp server has the empty role, whatever TLS
   sessions (with whatever roles) the process served before, serves at the
   same time, or serves later *)
Theorem c15_mix_plain_empty : forall hs srvs k c eff earlier peer later,
  nth_error srvs k = Some c ->
  tls_new_server c = CfgOk eff -> se_transport eff = TTcp ->
  nth_error (mix_serve_sessions hs srvs (earlier ++ (k, peer) :: later)) (length earlier) = Some (Some []).
Proof. exact mix_plain_empty. Qed.

(* a session accepted by a tcp+tls server gets what it would get as the only
   session of a process running that server alone *)
Theorem c15_mix_tls_alone : forall hs srvs k c eff earlier peer later,
  nth_error srvs k = Some c ->
  tls_new_server c = CfgOk eff -> se_transport eff = TTcpOverTls ->
  nth_error (mix_serve_sessions hs srvs (earlier ++ (k, peer) :: later)) (length earlier) =
  nth_error (tls_serve_sessions hs c [peer]) 0.
Proof. exact mix_tls_alone. Qed.

(* per server object: the sessions of a tcp+tls server, taken out of the mixed
   history, are served as by tls_serve_sessions (Properties/C15b.v); those of
   a plain tcp server all have the empty role *)
Theorem c15_mix_tls_part : forall hs srvs k c eff conns,
  nth_error srvs k = Some c ->
  tls_new_server c = CfgOk eff -> se_transport eff = TTcpOverTls ->
  mix_part_of k conns (mix_serve_sessions hs srvs conns) = tls_serve_sessions hs c (mix_conns_of k conns).
Proof. exact mix_part_tls. Qed.

Theorem c15_mix_plain_part : forall hs srvs k c eff conns,
  nth_error srvs k = Some c ->
  tls_new_server c = CfgOk eff -> se_transport eff = TTcp ->
  mix_part_of k conns (mix_serve_sessions hs srvs conns) = map (fun _ => Some []) (mix_conns_of k conns).
Proof. exact mix_part_plain. Qed.

(* where a role comes from: the empty role of a plain tcp session, or
   extract_role of the leaf presented on THAT connection (to which
   c15_role_sound .. c15_total of C15.v apply) *)
Theorem c15_mix_role_origin : forall hs verifies now srvs conns i role,
  tls_srv_documented hs verifies now ->
  nth_error (mix_serve_sessions hs srvs conns) i = Some (Some role) ->
  exists k peer c eff,
    nth_error conns i = Some (k, peer) /\ nth_error srvs k = Some c /\ tls_new_server c = CfgOk eff /\
    ((se_transport eff = TTcp /\ role = []) \/
     (se_transport eff = TTcpOverTls /\
      exists leaf more, tpe_chain peer = leaf :: more /\ role = extract_role (tlc_exts leaf))).
Proof. exact mix_role_origin. Qed.

(* a non-empty role is seen by TLS sessions only, and is stated by the leaf of
   that very session *)
Theorem c15_mix_role_sound : forall hs verifies now srvs conns i role,
  tls_srv_documented hs verifies now ->
  nth_error (mix_serve_sessions hs srvs conns) i = Some (Some role) -> role <> [] ->
  exists k peer c eff leaf more,
    nth_error conns i = Some (k, peer) /\ nth_error srvs k = Some c /\ tls_new_server c = CfgOk eff /\
    se_transport eff = TTcpOverTls /\ tpe_chain peer = leaf :: more /\
    (all_bytes (tlc_exts leaf) = true -> states_role (tlc_exts leaf) role).
Proof. exact mix_role_sound. Qed.

(* a served TLS session whose leaf states r has role r, whatever the other
   sessions of the process were *)
Theorem c15_mix_role_complete : forall hs verifies now srvs k c eff earlier peer later leaf more r role,
  tls_srv_documented hs verifies now ->
  nth_error srvs k = Some c ->
  tls_new_server c = CfgOk eff -> se_transport eff = TTcpOverTls ->
  tpe_chain peer = leaf :: more -> states_role (tlc_exts leaf) r -> lenN r < 2 ^ 31 ->
  nth_error (mix_serve_sessions hs srvs (earlier ++ (k, peer) :: later)) (length earlier) = Some (Some role) ->
  role = r.
Proof. exact mix_role_complete. Qed.

(* non-vacuity: the oracle of C15b (completes the handshake of every TLS peer
   that presents a chain, at TLS 1.3; c15b_ex_documented), a process with a
   tcp+tls server (object 0) and a plain tcp server (object 1) *)
Definition c15d_hs (pol : tls_policy) (peer : tls_peer) : option tls_session :=
  if tpe_speaks_tls peer then
    match tpe_chain peer, tpe_versions peer with
    | _ :: _, [TLS13] => Some (mk_tls_session TLS13 (tpe_chain peer))
    | _, _ => None
    end
  else None.

Example c15d_ex_documented : tls_srv_documented c15d_hs (fun _ _ _ _ _ => True) 0.
Proof.
  intros pol peer sess. unfold c15d_hs.
  destruct (tpe_speaks_tls peer) eqn:Et; [|discriminate].
  destruct (tpe_chain peer) as [|leaf more] eqn:Ec; [discriminate|].
  destruct (tpe_versions peer) as [|[] [|]] eqn:Ev; try discriminate.
  intros [= <-]. cbn. repeat split; auto; try discriminate.
  destruct (tpo_min_version pol); reflexivity.
Qed.

Definition c15d_srvs : list tls_srv_conf :=
  [ mk_tls_srv_conf (str "tcp+tls://0.0.0.0:802") 0 0 (Some (mk_tls_cert 2 [])) (Some [mk_tls_cert 1 []]);
    mk_tls_srv_conf (str "tcp://0.0.0.0:502") 0 0 None None ].

Example c15d_ex_servers :
  map (fun c => match tls_new_server c with CfgOk eff => Some (se_transport eff) | CfgErr _ => None end) c15d_srvs
  = [Some TTcpOverTls; Some TTcp].
Proof. vm_compute. reflexivity. Qed.

Definition c15d_tls (exts : list cert_ext) : nat * tls_peer := (0%nat, mk_tls_peer true [mk_tls_cert 7 exts] [TLS13]).
Definition c15d_plain : nat * tls_peer := (1%nat, mk_tls_peer false [] []).

(* plain, operator, plain, viewer, plain, no role, a TLS peer without
   certificate (refused), plain, operator again, plain *)
Example c15d_ex_history :
  mix_serve_sessions c15d_hs c15d_srvs
    [ c15d_plain;
      c15d_tls [(true, [0x0c; 2; 0x6f; 0x70])];
      c15d_plain;
      c15d_tls [(true, [0x0c; 2; 0x76; 0x69])];
      c15d_plain;
      c15d_tls [(false, [1; 2])];
      (0%nat, mk_tls_peer true [] [TLS13]);
      c15d_plain;
      c15d_tls [(true, [0x0c; 2; 0x6f; 0x70])];
      c15d_plain ]
  = [Some []; Some [0x6f; 0x70]; Some []; Some [0x76; 0x69]; Some []; Some []; None; Some [];
     Some [0x6f; 0x70]; Some []].
Proof. vm_compute. reflexivity. Qed.

Print Assumptions c15_mix_independent.
Print Assumptions c15_mix_plain_empty.
Print Assumptions c15_mix_tls_alone.
Print Assumptions c15_mix_tls_part.
Print Assumptions c15_mix_plain_part.
Print Assumptions c15_mix_role_origin.
Print Assumptions c15_mix_role_sound.
Print Assumptions c15_mix_role_complete.
