(* C10 (lock-discipline clause) - "... and none of this involves a data race":
   the accesses of Start, Stop, acceptTCPClients and handleTCPClient to the
   shared server state (started, tcpListener, tcpClients) are protected by
   ms.lock. Same generic theorems as C08 (Proofs/ConcP.v), instantiated to the
   lock skeleton GENERATED from server.go (Gen/ServerLocks.v). *)
From Coq Require Import List Bool String Arith.
Import ListNotations.
From Modbus Require Import Model.Conc Proofs.ConcP Proofs.GenLocksP Gen.ServerLocks.
Local Open Scope string_scope.
Local Open Scope list_scope.

(* the generated table passes the structured discipline check *)
Theorem c10b_table_wb : cc_table_wb server_programs cc_fuel server_entries = true.
Proof. exact server_programs_wb. Qed.

(* any number of goroutines running Start / Stop / the accept loop / sessions,
   any interleaving: at most one of them holds ms.lock *)
Theorem c10b_mutual_exclusion : forall prog ps evs c,
  cc_runs_table server_programs server_entries prog ps ->
  cc_exec (cc_init ps) evs c -> cc_mutex c.
Proof. exact (tb_mutex _ _ server_programs_wb). Qed.

(* every read / write of started, tcpListener, tcpClients is made by the
   goroutine that holds ms.lock *)
Theorem c10b_access_under_lock : forall prog ps e1 i a e2 c,
  cc_runs_table server_programs server_entries prog ps ->
  cc_exec (cc_init ps) (e1 ++ (i, a) :: e2) c -> cc_is_access a = true ->
  exists c1, cc_exec (cc_init ps) e1 c1 /\ cc_holds c1 i = true /\
             forall j, cc_holds c1 j = true -> j = i.
Proof. exact (tb_access_by_holder _ _ server_programs_wb). Qed.

(* conflicting accesses of different goroutines are ordered by an Unlock of
   the first and a later Lock of the second: no data race on these fields *)
Theorem c10b_no_data_race : forall prog ps e1 i a1 mid j a2 e2 c,
  cc_runs_table server_programs server_entries prog ps ->
  cc_exec (cc_init ps) (e1 ++ (i, a1) :: mid ++ (j, a2) :: e2) c ->
  i <> j -> cc_conflict a1 a2 = true ->
  exists m1 m2 m3, mid = m1 ++ (i, AUnlock) :: m2 ++ (j, ALock) :: m3.
Proof. exact (tb_no_race _ _ server_programs_wb). Qed.

(* the four entry points are exactly the lifecycle calls and the goroutines
   they start; the tracked fields are the shared lifecycle state *)
Example c10b_ex_entries :
  server_entries = ["Start"; "Stop"; "acceptTCPClients"; "handleTCPClient"] /\
  server_fields = ["started"; "tcpListener"; "tcpClients"].
Proof. split; reflexivity. Qed.

(* the accept goroutine gets its listener as an argument: it does not touch
   ms.tcpListener at all, while Start writes it (under the lock) *)
Example c10b_ex_accept_listener :
  cc_method_mentions server_programs "acceptTCPClients" (ARd "tcpListener") = false /\
  cc_method_mentions server_programs "acceptTCPClients" (AWr "tcpListener") = false /\
  cc_method_mentions server_programs "Start" (AWr "tcpListener") = true.
Proof. vm_compute. repeat split; reflexivity. Qed.

(* a path of the generated table: Start, then the accept loop enrols one
   connection, then its session ends *)
Example c10b_ex_path :
  exists p, cc_thread_path server_programs ["Start"; "acceptTCPClients"; "handleTCPClient"] p /\
            In (AWr "tcpListener") p.
Proof.
  destruct (cc_fp_thread server_programs cc_fuel ["Start"; "acceptTCPClients"; "handleTCPClient"]) as [p|] eqn:E;
    [|vm_compute in E; discriminate].
  exists p. split; [apply (cc_fp_thread_path _ cc_fuel), E|].
  vm_compute in E. inversion E. cbn. tauto.
Qed.

Print Assumptions c10b_table_wb.
Print Assumptions c10b_mutual_exclusion.
Print Assumptions c10b_access_under_lock.
Print Assumptions c10b_no_data_race.
