(* C19, serial clients: the delays of a client opened on a serial device do
   not depend on the character framing of the line. Only statements here;
   proofs live in Proofs/TimingLineP.v. *)
From Modbus Require Import Base.Bytes Model.Timing Model.TimingLine Spec.TimingSpec Proofs.TimingLineP.
Local Open Scope Z_scope.

(* for every speed and EVERY line settings (data bits, parity, stop bits) the
   character time of the opened client is eleven bit times and its
   inter-frame delay is 3.5 of those characters below 19200 bps, 1750 us from
   19200 bps upward (the declarative rules of Spec/TimingSpec.v) *)
Theorem c19b_open_spec : forall c, 1 <= lc_speed c -> lc_speed c <= 10000000 ->
  char_time_ok (lc_speed c) (open_t1 c) /\ t35_ok (lc_speed c) (open_t1 c) (open_t35 c).
Proof. exact open_timing_spec. Qed.

Theorem c19b_open_okb : forall c, 1 <= lc_speed c -> lc_speed c <= 10000000 ->
  timing_okb (lc_speed c) (open_t1 c) (open_t35 c) = true.
Proof. exact open_timing_okb. Qed.

(* two configurations with the same speed have the same delays ... *)
Theorem c19b_speed_only : forall c c', lc_speed c = lc_speed c' ->
  open_t1 c = open_t1 c' /\ open_t35 c = open_t35 c'.
Proof. exact open_timing_speed_only. Qed.

(* ... namely those of Model/Timing.v, whatever the framing *)
Theorem c19b_any_framing : forall r d p s d' p' s',
  open_t1 (mk_line_cfg r d p s) = open_t1 (mk_line_cfg r d' p' s') /\
  open_t35 (mk_line_cfg r d p s) = open_t35 (mk_line_cfg r d' p' s') /\
  open_t1 (mk_line_cfg r d p s) = char_time r /\ open_t35 (mk_line_cfg r d p s) = t35 r.
Proof. exact open_timing_any_framing. Qed.

(* the predicate of the correspondence check is the property's inequality *)
Theorem c19b_silence_okb : forall c gap, silence_okb c gap = true <-> t35 (lc_speed c) <= gap.
Proof. exact silence_okb_iff. Qed.

(* every history of exchanges of such a client keeps the silence ... *)
Theorem c19b_silence : forall c xs s i j e1 e2 f,
  1 <= lc_speed c -> lc_speed c <= 10000000 -> Forall admissible xs -> (i < j)%nat ->
  nth_error (run (open_t1 c) (open_t35 c) s xs) i = Some e1 ->
  nth_error (run (open_t1 c) (open_t35 c) s xs) j = Some e2 ->
  frame_end e1 = Some f -> f + open_t35 c <= ev_tx_start e2.
Proof. exact open_silence. Qed.

(* ... so the one-sided measurement (an instant not later than the end of
   the received frame, an instant not earlier than the start of the next
   transmission) can never fail the model *)
Theorem c19b_measurement_sound : forall c xs s i j e1 e2 f before arrive,
  1 <= lc_speed c -> lc_speed c <= 10000000 -> Forall admissible xs -> (i < j)%nat ->
  nth_error (run (open_t1 c) (open_t35 c) s xs) i = Some e1 ->
  nth_error (run (open_t1 c) (open_t35 c) s xs) j = Some e2 ->
  frame_end e1 = Some f -> before <= f -> ev_tx_start e2 <= arrive ->
  silence_okb c (arrive - before) = true.
Proof. exact open_measurement_sound. Qed.

(* the framing matters: below 19200 bps, delays derived from the real length
   of a character shorter than eleven bits are strictly shorter than the
   specified ones, and a silence of that length is refused *)
Theorem c19b_short_characters : forall c, 1 <= lc_speed c -> lc_speed c < 19200 ->
  0 <= line_char_bits c -> line_char_bits c < 11 ->
  framed_char_time c < open_t1 c /\ framed_t35 c < open_t35 c /\
  silence_okb c (framed_t35 c) = false.
Proof. exact framed_short. Qed.

(* non-vacuity: line settings of 9, 10, 11 and 12 bits per character *)
Example c19b_ex_bits :
  map line_char_bits [mk_line_cfg 300 7 0 1; mk_line_cfg 300 8 0 1; mk_line_cfg 300 7 1 0;
                      mk_line_cfg 300 8 0 0; mk_line_cfg 300 8 2 0; mk_line_cfg 300 8 1 2]
  = [9; 10; 10; 11; 11; 12].
Proof. reflexivity. Qed.
Example c19b_ex_300 :
  open_t1 (mk_line_cfg 300 8 0 1) = 36666666 /\ open_t35 (mk_line_cfg 300 8 0 1) = 128333331 /\
  framed_t35 (mk_line_cfg 300 8 0 1) = 116666665 /\
  silence_okb (mk_line_cfg 300 8 0 1) 128333331 = true /\
  silence_okb (mk_line_cfg 300 8 0 1) 128333330 = false.
Proof. repeat split; reflexivity. Qed.

Print Assumptions c19b_open_spec.
Print Assumptions c19b_open_okb.
Print Assumptions c19b_speed_only.
Print Assumptions c19b_any_framing.
Print Assumptions c19b_silence_okb.
Print Assumptions c19b_silence.
Print Assumptions c19b_measurement_sound.
Print Assumptions c19b_short_characters.
