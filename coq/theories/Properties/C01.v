(* C01 - Client emits exactly the spec-conformant request, or rejects locally.
   Statements only; proofs in Proofs/ClientReqP.v. *)
From Modbus Require Import Base.Bytes Model.Crc Model.Encoding Model.Wire Model.Client
  Spec.ModbusSpec Spec.ClientSpec Proofs.ClientReqP.

(* T1/T2: the request PDU is the specified one exactly when the arguments are
   within protocol limits; otherwise the call is rejected locally. Every
   address, quantity, slice length (also >= 65536), value, unit id, byte order
   and word order. *)
Theorem c01_request_exact : forall cfg o, op_wf o ->
  client_request cfg o = if valid_op o then Ok (spec_pdu cfg o) else Err EParams.
Proof. exact client_request_exact. Qed.

(* T3/T4: exactly one frame is written - MBAP header or RTU CRC around the
   specified PDU - or not a single byte *)
Theorem c01_transmit : forall fr cfg txn o e s,
  op_wf o -> cfg_wf cfg -> txn < 65536 ->
  let r := client_call fr cfg txn o e s in
  (valid_op o = true -> cr_writes r = [spec_frame fr (u16 (txn + 1)) (spec_pdu cfg o)]) /\
  (valid_op o = false -> cr_writes r = [] /\ cr_res r = Err EParams /\ cr_rest r = s).
Proof. exact client_transmit. Qed.

(* non-vacuity *)
Example c01_ex_valid :
  valid_op (OpReadRegs 2 0xfffc 2 Holding) = true /\
  valid_op (OpReadRegs 2 0 32769 Holding) = false /\
  valid_op (OpWriteCoils 5 (repeat false 1969)) = false.
Proof. vm_compute. repeat split; reflexivity. Qed.

Print Assumptions c01_request_exact.
Print Assumptions c01_transmit.
