(* C10 - Stop and Start are clean, repeatable and race-free: plain tcp servers
   at their connection limit. "When Stop returns every client connection has
   been closed" is about EVERY connection the server has accepted: the
   members of the active list and the connections it has turned away (list
   full, or accepted while Stop ran), whatever their peers have done on them
   - nothing, the first bytes of a request, whole requests (Model/TurnAway.v).
   In a stopped state all of them are closed, no handler runs, the server
   writes nothing on any of them, and no goroutine is left on their behalf.
   Statements only; proofs in Proofs/TurnAwayP.v. *)
From Coq Require Import List Arith Bool.
Import ListNotations.
From Modbus Require Import Model.Slots Model.TurnAway Proofs.SlotsP Proofs.TurnAwayP.

(* when Stop returns the listener is closed and every connection accepted so
   far - served or turned away, no hypothesis on what its peer has sent - has
   been closed and is not live; the peers' bytes, the handler counter and the
   responses written are untouched *)
Theorem c10e_stop_closes_every_accepted : forall m tr,
  let b := ta_run (ta_init m) tr in
  started (ta_srv b) = true ->
  let b' := ta_step b (ASrv Stop) in
  started (ta_srv b') = false /\ listening (ta_srv b') = false /\ acceptors (ta_srv b') = 0 /\
  ta_part b' = ta_part b /\ ta_calls b' = ta_calls b /\ ta_wrote b' = ta_wrote b /\
  (forall c, ta_accepted b c = true -> ta_peer_closed b' c = true /\ ta_live b' c = false).
Proof. exact ta_stop_closes_every_accepted. Qed.

(* in every reachable stopped state - for every interleaving of server steps
   and peer steps that led there - every accepted connection is closed *)
Theorem c10e_stopped_all_closed : forall m tr c,
  let b := ta_run (ta_init m) tr in
  started (ta_srv b) = false -> ta_accepted b c = true ->
  ta_peer_closed b c = true /\ ta_live b c = false.
Proof. exact ta_stopped_all_closed. Qed.

(* a handler runs and a response is written only in the Req step of a live
   connection *)
Theorem c10e_write_needs_live : forall b l,
  (ta_calls (ta_step b l) = ta_calls b /\ ta_wrote (ta_step b l) = ta_wrote b) \/
  (exists c, l = ASrv (Req c) /\ ta_live b c = true /\
             ta_calls (ta_step b l) = S (ta_calls b) /\
             ta_wrote (ta_step b l) = upd (ta_wrote b) c (S (ta_wrote b c))).
Proof. exact ta_write_needs_live. Qed.

(* between a Stop and the next Start no handler runs and the server writes
   nothing on any connection, whatever the peers send and the goroutines do *)
Theorem c10e_silent_while_stopped : forall m tr tr',
  let b := ta_run (ta_init m) tr in
  started (ta_srv b) = false -> (forall l, In l tr' -> l <> ASrv Start) ->
  ta_calls (ta_run b tr') = ta_calls b /\ ta_wrote (ta_run b tr') = ta_wrote b /\
  started (ta_srv (ta_run b tr')) = false.
Proof. exact ta_silent_while_stopped. Qed.

(* a connection that has been turned away is closed, has never been answered,
   is not live, has no session goroutine and is not on the active list - in
   every reachable state, stopped or not *)
Theorem c10e_turned_away_is_over : forall m tr c,
  let b := ta_run (ta_init m) tr in
  ta_turned_away b c = true ->
  ta_peer_closed b c = true /\ ta_wrote b c = 0 /\ ta_live b c = false /\
  ta_session_goroutine b c = false /\ ~ In c (clients (ta_srv b)).
Proof. exact ta_turned_away_is_over. Qed.

(* arriving at a full list: turned away and closed in the admission step *)
Theorem c10e_full_list_turns_away : forall b c, Inv (ta_srv b) -> stat (ta_srv b) c = Taken ->
  maxc (ta_srv b) <= length (clients (ta_srv b)) ->
  let b' := ta_step b (ASrv (Enrol c)) in
  ta_turned_away b' c = true /\ ta_peer_closed b' c = true /\
  clients (ta_srv b') = clients (ta_srv b).
Proof. exact ta_full_list_turns_away. Qed.

(* ... and so is a connection that was being accepted while Stop ran *)
Theorem c10e_taken_during_stop : forall b c, Inv (ta_srv b) -> stat (ta_srv b) c = Taken ->
  started (ta_srv b) = true ->
  let b' := ta_step (ta_step b (ASrv Stop)) (ASrv (Enrol c)) in
  ta_turned_away b' c = true /\ ta_peer_closed b' c = true /\ ta_live b' c = false.
Proof. exact ta_taken_during_stop. Qed.

(* the live session goroutines are exactly the members of the active list *)
Theorem c10e_sessions_are_clients : forall m tr,
  let b := ta_run (ta_init m) tr in
  ta_sessions b = length (clients (ta_srv b)) /\ NoDup (clients (ta_srv b)) /\
  (forall c, ta_session_goroutine b c = true <-> In c (clients (ta_srv b))).
Proof. exact ta_sessions_are_clients. Qed.

(* no session goroutine outlives Stop: it ends and removes its connection in two steps *)
Theorem c10e_session_winds_down : forall b c, Inv (ta_srv b) -> started (ta_srv b) = false ->
  stat (ta_srv b) c = Serving ->
  let b1 := ta_step b (ASrv (End c ClosedByStop)) in
  let b2 := ta_step b1 (ASrv (Remove c)) in
  enabled (ta_srv b) (End c ClosedByStop) = true /\ enabled (ta_srv b1) (Remove c) = true /\
  stat (ta_srv b2) c = Removed /\ ta_session_goroutine b2 c = false /\ ~ In c (clients (ta_srv b2)).
Proof. exact ta_session_winds_down. Qed.

(* once they have wound down a stopped server has no goroutine left - however
   many connections it has turned away *)
Theorem c10e_stopped_no_goroutine : forall m tr,
  let b := ta_run (ta_init m) tr in
  started (ta_srv b) = false -> clients (ta_srv b) = [] -> zombies (ta_srv b) = 0 ->
  ta_goroutines b = 0.
Proof. exact ta_stopped_no_goroutine. Qed.

(* Start after Stop serves again; repeated Start / Stop are no-ops on the whole state *)
Theorem c10e_stop_start : forall b, started (ta_srv b) = true ->
  let b' := ta_step (ta_step b (ASrv Stop)) (ASrv Start) in
  started (ta_srv b') = true /\ listening (ta_srv b') = true /\ acceptors (ta_srv b') = 1.
Proof. exact ta_stop_start. Qed.
Theorem c10e_stop_idempotent : forall b,
  ta_step (ta_step b (ASrv Stop)) (ASrv Stop) = ta_step b (ASrv Stop).
Proof. exact ta_stop_idempotent. Qed.
Theorem c10e_start_idempotent : forall b,
  ta_step (ta_step b (ASrv Start)) (ASrv Start) = ta_step b (ASrv Start).
Proof. exact ta_start_idempotent. Qed.

(* the server component of every reachable state is reachable in Slots.v *)
Theorem c10e_reach_proj : forall m tr, exists tr', ta_srv (ta_run (ta_init m) tr) = run (init m) tr'.
Proof. exact ta_reach_proj. Qed.
Theorem c10e_reachable_inv : forall m tr, Inv (ta_srv (ta_run (ta_init m) tr)).
Proof. exact ta_reachable_inv. Qed.

(* the hypotheses are satisfiable: a server with one slot; connection 1 is
   served and in the middle of a request, 2 is turned away and silent, 3 is
   turned away and has sent the first bytes of a request, 4 is turned away and
   has sent a whole request, 5 is being accepted when Stop runs. All are closed
   after Stop (5 after its admission step), requests on them reach no handler
   and are not answered, the goroutines wind down, and after Start a new
   connection is served *)
Definition c10e_arrive (c : conn) : list ta_label := [ASrv (Arrive c); ASrv (Take c); ASrv (Enrol c)].
Example c10e_ex :
  let tr := [ASrv Start] ++ c10e_arrive 1 ++ [ASrv (Req 1); APart 1] ++ c10e_arrive 2 ++
            c10e_arrive 3 ++ [APart 3] ++ c10e_arrive 4 ++ [ASrv (Req 4)] ++
            [ASrv (Arrive 5); ASrv (Take 5)] in
  let b := ta_run (ta_init 1) tr in
  clients (ta_srv b) = [1] /\ ta_calls b = 1 /\ ta_wrote b 1 = 1 /\ ta_wrote b 4 = 0 /\
  map (ta_turned_away b) [1; 2; 3; 4; 5] = [false; true; true; true; false] /\
  map (ta_accepted b) [1; 2; 3; 4; 5] = [true; true; true; true; false] /\
  ta_goroutines b = 2 /\
  let b' := ta_run b [ASrv Stop; ASrv (Enrol 5)] in
  forallb (ta_peer_closed b') [1; 2; 3; 4; 5] = true /\ ta_turned_away b' 5 = true /\
  let b2 := ta_run b' [ASrv (Req 1); ASrv (Req 2); ASrv (Req 3); ASrv (Req 4); ASrv (Req 5);
                       ASrv (End 1 ClosedByStop); ASrv (Remove 1); ASrv AcceptExit] in
  ta_calls b2 = 1 /\ map (ta_wrote b2) [1; 2; 3; 4; 5] = [1; 0; 0; 0; 0] /\
  ta_goroutines b2 = 0 /\ clients (ta_srv b2) = [] /\
  let b3 := ta_run b2 ([ASrv Start] ++ c10e_arrive 6 ++ [ASrv (Req 6)]) in
  ta_calls b3 = 2 /\ ta_wrote b3 6 = 1 /\ ta_goroutines b3 = 2.
Proof. vm_compute. repeat split; reflexivity. Qed.

Print Assumptions c10e_stop_closes_every_accepted.
Print Assumptions c10e_stopped_all_closed.
Print Assumptions c10e_write_needs_live.
Print Assumptions c10e_silent_while_stopped.
Print Assumptions c10e_turned_away_is_over.
Print Assumptions c10e_full_list_turns_away.
Print Assumptions c10e_taken_during_stop.
Print Assumptions c10e_sessions_are_clients.
Print Assumptions c10e_session_winds_down.
Print Assumptions c10e_stopped_no_goroutine.
Print Assumptions c10e_stop_start.
Print Assumptions c10e_stop_idempotent.
Print Assumptions c10e_start_idempotent.
Print Assumptions c10e_reach_proj.
Print Assumptions c10e_reachable_inv.
