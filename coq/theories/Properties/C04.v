(* C04 - Typed values survive the client-server round trip in the documented
   layout. Statements only; proofs in Proofs/E2EP.v. The register file is
   Spec/RegFile.v (written from the README layout), the composition of the
   client model, the MBAP framing, the server model and the memory-backed
   handler is Model/E2E.v. *)
From Modbus Require Import Base.Bytes Base.Cells Model.Encoding Model.Wire Model.Client Model.Server
  Spec.ModbusSpec Spec.ClientSpec Spec.ServerSpec Spec.ServerSessionSpec Spec.RegFile Model.E2E
  Proofs.E2EP.

(* T1, refinement of one step. For every configuration (unit id below 256,
   either byte order, either word order), every memory holding 16-bit
   registers, every transaction counter, every operation of a history (a
   typed call with arguments of its Go types, SetUnitId, SetEncoding with any
   selectors) and every failure policy of the handler (Modbus errors are
   documented ones): the composition and the register file agree on the new
   configuration and memory, on what the caller sees and on the handler
   invocations; and the invariant (e2e_wf: registers below 65536, counter
   below 65536, no unread response bytes) is preserved. *)
Theorem c04_step : forall fail s x, e2e_wf s -> rf_op_wf x -> rf_fail_wf fail ->
  (e2e_view (fst (e2e_step fail s x)), snd (e2e_step fail s x)) = rf_step fail (e2e_view s) x /\
  e2e_wf (fst (e2e_step fail s x)).
Proof. exact e2e_step_refines. Qed.

(* T2, histories: every finite sequence of operations, each under its own
   failure policy *)
Theorem c04_history : forall h s, e2e_wf s -> rf_history_wf h ->
  (e2e_view (fst (e2e_run s h)), snd (e2e_run s h)) = rf_run (e2e_view s) h /\
  e2e_wf (fst (e2e_run s h)).
Proof. exact e2e_run_refines. Qed.

(* the server side of a step is one turn of the session loop server_run on
   the frame the client wrote *)
Theorem c04_serve_is_session : forall fail m t p, t < 65536 -> pdu_wf p ->
  server_run (e2e_mem_handler fail) m Stall (spec_mbap t p ++ []) =
  (let '(_, calls, reply, e) := e2e_serve fail m (spec_mbap t p ++ []) in
   map EvCall calls ++
   match e with
   | Stall => [EvResp reply; EvClosed]
   | _ => [EvClosed]
   end).
Proof. exact e2e_serve_session. Qed.

(* T3, write then read: the written values come back bit for bit, for every
   width (w = 1, 2, 4 registers per value: 16/32/64-bit integers and the
   32/64-bit floats, which are their bit patterns, NaN payloads included),
   every encoding, every unit id, every in-range address and count *)
Theorem c04_write_read_regs : forall s w a vs, e2e_wf s -> op_wf (OpWriteRegs w a vs) ->
  valid_op (OpWriteRegs w a vs) = true ->
  fst (snd (e2e_step rf_nofail (fst (e2e_step rf_nofail s (RfCall (OpWriteRegs w a vs))))
              (RfCall (OpReadRegs w a (lenN vs) Holding)))) = Ok (VNums vs).
Proof. exact e2e_write_read_regs. Qed.

Theorem c04_write_read_reg : forall s a v, e2e_wf s -> op_wf (OpWriteReg a v) ->
  fst (snd (e2e_step rf_nofail (fst (e2e_step rf_nofail s (RfCall (OpWriteReg a v))))
              (RfCall (OpReadRegs 1 a 1 Holding)))) = Ok (VNums [v]).
Proof. exact e2e_write_read_reg. Qed.

Theorem c04_write_read_coils : forall s a vs, e2e_wf s -> op_wf (OpWriteCoils a vs) ->
  valid_op (OpWriteCoils a vs) = true ->
  fst (snd (e2e_step rf_nofail (fst (e2e_step rf_nofail s (RfCall (OpWriteCoils a vs))))
              (RfCall (OpReadBools false a (lenN vs))))) = Ok (VBools vs).
Proof. exact e2e_write_read_coils. Qed.

Theorem c04_write_read_coil : forall s a v, e2e_wf s -> op_wf (OpWriteCoil a v) ->
  fst (snd (e2e_step rf_nofail (fst (e2e_step rf_nofail s (RfCall (OpWriteCoil a v))))
              (RfCall (OpReadBools false a 1)))) = Ok (VBools [v]).
Proof. exact e2e_write_read_coil. Qed.

(* bytes, raw or observing the byte order, odd lengths included *)
Theorem c04_write_read_bytes : forall s raw a bs, e2e_wf s -> op_wf (OpWriteBytes raw a bs) ->
  valid_op (OpWriteBytes raw a bs) = true ->
  fst (snd (e2e_step rf_nofail (fst (e2e_step rf_nofail s (RfCall (OpWriteBytes raw a bs))))
              (RfCall (OpReadBytes raw a (lenN bs) Holding)))) = Ok (VBytes bs).
Proof. exact e2e_write_read_bytes. Qed.

(* T3, a read decodes exactly the registers the register file names: value i
   comes from the registers a + i*w ... a + i*w + w - 1 of the addressed table,
   and the handler sees one read of q*w registers at a *)
Theorem c04_read_regs : forall s w a q rt, e2e_wf s -> op_wf (OpReadRegs w a q rt) ->
  valid_op (OpReadRegs w a q rt) = true ->
  snd (e2e_step rf_nofail s (RfCall (OpReadRegs w a q rt))) =
  (Ok (VNums (map (fun i => rf_regs_value (e2e_cfg s)
                              (cells_load (rf_table (e2e_mem s) rt) (a + N.of_nat i * w) w))
                  (seq 0 (N.to_nat q)))),
   [mkhreq (rf_kind rt) (c_unit (e2e_cfg s)) a (q * w) false [] []]).
Proof. exact e2e_read_regs. Qed.

(* a handler failure surfaces as itself (a Modbus error) or as
   server-device-failure (anything else); the memory is untouched *)
Theorem c04_failure : forall fail s o code, e2e_wf s -> op_wf o -> rf_fail_wf fail ->
  valid_op o = true -> rf_failure (fail (rf_request (e2e_cfg s) o)) = Some code ->
  snd (e2e_step fail s (RfCall o)) = (Err (EExc code), [rf_request (e2e_cfg s) o]) /\
  e2e_view (fst (e2e_step fail s (RfCall o))) = e2e_view s.
Proof. exact e2e_failure_surfaces. Qed.

(* the register image of the register file, spelled out for the four
   encodings: most significant word first unless low-word-first, every
   register byte-swapped for little-endian *)
Theorem c04_layout32 : forall u v, v < 2 ^ 32 ->
  rf_value_regs (mkcfg u BigE HighFirst) 2 v = [v / 65536; v mod 65536] /\
  rf_value_regs (mkcfg u BigE LowFirst) 2 v = [v mod 65536; v / 65536] /\
  rf_value_regs (mkcfg u LittleE HighFirst) 2 v = [rf_swap16 (v / 65536); rf_swap16 (v mod 65536)] /\
  rf_value_regs (mkcfg u LittleE LowFirst) 2 v = [rf_swap16 (v mod 65536); rf_swap16 (v / 65536)].
Proof. exact layout32. Qed.

Theorem c04_layout64 : forall u v, v < 2 ^ 64 ->
  let w3 := v / 2 ^ 48 in let w2 := (v / 2 ^ 32) mod 65536 in
  let w1 := (v / 2 ^ 16) mod 65536 in let w0 := v mod 65536 in
  rf_value_regs (mkcfg u BigE HighFirst) 4 v = [w3; w2; w1; w0] /\
  rf_value_regs (mkcfg u BigE LowFirst) 4 v = [w0; w1; w2; w3] /\
  rf_value_regs (mkcfg u LittleE HighFirst) 4 v = map rf_swap16 [w3; w2; w1; w0] /\
  rf_value_regs (mkcfg u LittleE LowFirst) 4 v = map rf_swap16 [w0; w1; w2; w3].
Proof. exact layout64. Qed.

(* ---- non-vacuity: a well-formed initial state and a concrete history *)
Definition c04_mem0 : rfmem :=
  mkrfmem (fun _ => false) (fun k => k mod 3 =? 0) (fun _ => 0) (fun k => (k * 31 + 5) mod 65536).
Definition c04_s0 : e2e_state := mke2e (mkcfg 1 BigE HighFirst) c04_mem0 0 [].

Example c04_s0_wf : e2e_wf c04_s0.
Proof.
  unfold e2e_wf, cfg_wf, rfmem_wf. cbn [c04_s0 e2e_cfg e2e_mem e2e_txn e2e_left c04_mem0 rf_holding rf_input c_unit].
  repeat split; try reflexivity. apply N.mod_lt. discriminate.
Qed.

Definition c04_fail_busy : hreq -> option herr := fun _ => Some (HModbus 6).
Definition c04_fail_other : hreq -> option herr := fun _ => Some HOther.

Definition c04_history1 : list ((hreq -> option herr) * rf_op) :=
  [ (rf_nofail, RfSetEnc 2 2);                                 (* little-endian, low word first *)
    (rf_nofail, RfSetUnit 17);
    (rf_nofail, RfCall (OpWriteRegs 2 0xfffe [0x7fc00001]));    (* a float32 NaN with a payload *)
    (rf_nofail, RfCall (OpReadRegs 2 0xfffe 1 Holding));
    (rf_nofail, RfCall (OpReadRegs 1 0xfffe 2 Holding));        (* the two registers, as 16-bit values *)
    (rf_nofail, RfSetEnc 1 1);
    (rf_nofail, RfCall (OpReadRegs 1 0xfffe 2 Holding));        (* the raw register contents *)
    (rf_nofail, RfCall (OpReadBytes true 0xfffe 3 Holding));
    (c04_fail_busy, RfCall (OpWriteCoils 5 [true; false; true]));
    (rf_nofail, RfCall (OpReadBools false 5 3));
    (c04_fail_other, RfCall (OpReadBools true 0 4));
    (rf_nofail, RfCall (OpWriteCoils 5 [true; false; true]));
    (rf_nofail, RfCall (OpReadBools false 4 5));
    (rf_nofail, RfCall (OpReadRegs 2 0xffff 1 Holding));        (* past 0xffff: rejected locally *)
    (rf_nofail, RfSetEnc 3 1) ].                                (* unknown selector: refused *)

Example c04_history1_wf : rf_history_wf c04_history1.
Proof.
  assert (Hbusy : rf_fail_wf c04_fail_busy) by (intros r code H; injection H as <-; reflexivity).
  assert (Hother : rf_fail_wf c04_fail_other) by (intros r code H; discriminate H).
  pose proof rf_nofail_wf as Hno.
  unfold rf_history_wf, c04_history1.
  repeat (apply Forall_cons; [split; [assumption|cbn [snd rf_op_wf op_wf]]|]); try apply Forall_nil;
    try exact I; try reflexivity;
    try (repeat split; try reflexivity; auto; fail);
    try (repeat split; try reflexivity; auto;
         apply Forall_cons; [vm_compute; reflexivity|apply Forall_nil]).
Qed.

Example c04_history1_run :
  snd (e2e_run c04_s0 c04_history1) =
  [ (Ok VUnit, []); (Ok VUnit, []);
    (Ok VUnit, [mkhreq HHolding 17 0xfffe 2 true [] [0x0100; 0xc07f]]);
    (Ok (VNums [0x7fc00001]), [mkhreq HHolding 17 0xfffe 2 false [] []]);
    (Ok (VNums [0x0001; 0x7fc0]), [mkhreq HHolding 17 0xfffe 2 false [] []]);
    (Ok VUnit, []);
    (Ok (VNums [0x0100; 0xc07f]), [mkhreq HHolding 17 0xfffe 2 false [] []]);
    (Ok (VBytes [0x01; 0x00; 0xc0]), [mkhreq HHolding 17 0xfffe 2 false [] []]);
    (Err (EExc 6), [mkhreq HCoils 17 5 3 true [true; false; true] []]);
    (Ok (VBools [false; false; false]), [mkhreq HCoils 17 5 3 false [] []]);
    (Err (EExc 4), [mkhreq HDiscrete 17 0 4 false [] []]);
    (Ok VUnit, [mkhreq HCoils 17 5 3 true [true; false; true] []]);
    (Ok (VBools [false; true; false; true; false]), [mkhreq HCoils 17 4 5 false [] []]);
    (Err EParams, []);
    (Err EParams, []) ].
Proof. vm_compute. reflexivity. Qed.

Print Assumptions c04_step.
Print Assumptions c04_history.
Print Assumptions c04_serve_is_session.
Print Assumptions c04_write_read_regs.
Print Assumptions c04_write_read_reg.
Print Assumptions c04_write_read_coils.
Print Assumptions c04_write_read_coil.
Print Assumptions c04_write_read_bytes.
Print Assumptions c04_read_regs.
Print Assumptions c04_failure.
Print Assumptions c04_layout32.
Print Assumptions c04_layout64.
