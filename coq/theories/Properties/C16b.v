(* C16 (continued) - the documented defaults are the ENFORCED ones.
   C16.v states what NewClient keeps in the configuration; here the client is
   opened (Model/Opened.v: Open() hands the kept timeout and speed to the
   transport of Model/Timed.v) and a request is made to a peer that never
   answers. Only statements here; proofs live in Proofs/OpenedP.v.
   Quantified over ALL URLs, speeds, timeouts >= 0 (0 = unset), requests and
   states of the inter-frame timer. *)
From Modbus Require Import Base.Bytes Model.Wire Model.Client Model.Config Model.Timing
  Model.Timed Model.Opened
  Spec.ClientSpec Spec.TimedSpec Spec.ConfigSpec Spec.OpenedSpec Proofs.OpenedP.
From Coq Require String.
Import String.StringSyntax.

(* T7: whatever the scheme and the speed, a silent peer is reported as
   request-timed-out, never before t0 + documented timeout and never after
   the documented ceiling (MBAP: t0 + timeout; RTU: not before the request has
   left the wire, plus one 10 ms poll on a serial port) *)
Theorem c16_enforced_timeout : forall c s rest la o t0,
  url_scheme (cc_url c) s rest -> client_creds_ok s c ->
  op_wf o -> valid_op o = true -> (0 <= cc_timeout c)%Z ->
  exists r, silent_call c la o t0 = CfgOk r /\
    tmc_res r = Err ETimeout /\
    (t0 + documented_timeout s c <= tmc_finish r <= silent_ceiling s c la t0 o)%Z.
Proof. exact silent_call_documented. Qed.
Print Assumptions c16_enforced_timeout.

(* the documented numbers: the caller's timeout, else 1 s, 300 ms for rtu *)
Theorem c16_documented_timeout_values : forall s c,
  (cc_timeout c <> 0%Z -> documented_timeout s c = cc_timeout c) /\
  (cc_timeout c = 0%Z ->
   documented_timeout s c = match s with SRtu => 300000000%Z | _ => 1000000000%Z end).
Proof. exact documented_timeout_values. Qed.
Print Assumptions c16_documented_timeout_values.

(* tcp, tcp+tls, udp: exactly at t0 + documented timeout; the speed field has
   no influence *)
Theorem c16_enforced_timeout_mbap : forall c s rest la o t0,
  url_scheme (cc_url c) s rest -> client_creds_ok s c -> rtu_scheme s = false ->
  op_wf o -> valid_op o = true -> (0 <= cc_timeout c)%Z ->
  exists r, silent_call c la o t0 = CfgOk r /\
    tmc_res r = Err ETimeout /\ tmc_finish r = (t0 + documented_timeout s c)%Z.
Proof. exact silent_call_mbap_exact. Qed.
Print Assumptions c16_enforced_timeout_mbap.

(* rtuovertcp, rtuoverudp: exactly at t0 + documented timeout as soon as the
   request (n characters and t3.5 at the documented speed) fits in it - the
   speed does not stretch the timeout *)
Theorem c16_enforced_timeout_rtu_net : forall c s rest la o t0,
  url_scheme (cc_url c) s rest -> (s = SRtuOverTcp \/ s = SRtuOverUdp) ->
  op_wf o -> valid_op o = true -> (0 <= cc_timeout c)%Z ->
  let v := documented_speed s c in
  (la + t35 v <= t0)%Z ->
  (tm_req_len new_client_cfg o * char_time v + t35 v <= documented_timeout s c)%Z ->
  exists r, silent_call c la o t0 = CfgOk r /\
    tmc_res r = Err ETimeout /\ tmc_finish r = (t0 + documented_timeout s c)%Z.
Proof. exact silent_call_rtu_net_exact. Qed.
Print Assumptions c16_enforced_timeout_rtu_net.

(* ---------------------------------------------------------------- examples *)

Definition conf_of (u : list N) (speed : N) (timeout : Z) : client_conf :=
  mkcc u speed 0 0 0 timeout false false.

Definition read_one : op := OpReadRegs 1 0 1 Holding.
Definition fresh : Z := (-1000000000000000)%Z.

Definition finish_of (r : cfg_result tm_call) : option (result values * Z) :=
  match r with CfgOk x => Some (tmc_res x, tmc_finish x) | CfgErr _ => None end.

(* rtuovertcp at 1200 bps, nothing else set: 1 s, not the 2.38 s a 256-byte
   frame would take *)
Example ex_rtuovertcp_1200 :
  finish_of (silent_call (conf_of (str "rtuovertcp://h:1") 1200 0) fresh read_one 0)
  = Some (Err ETimeout, 1000000000%Z).
Proof. vm_compute. reflexivity. Qed.

(* rtu at 4800 bps: 300 ms, noticed by the 10 ms poll that ends at 306.4 ms *)
Example ex_rtu_4800 :
  finish_of (silent_call (conf_of (str "rtu:///dev/ttyS0") 4800 0) fresh read_one 0)
  = Some (Err ETimeout, 306354159%Z).
Proof. vm_compute. reflexivity. Qed.

(* 300 bps with a 150 ms timeout: the transport starts listening only when
   the request has left the wire (8 characters and t3.5 = 421.6 ms) *)
Example ex_rtuoverudp_300_150ms :
  finish_of (silent_call (conf_of (str "rtuoverudp://h:1") 300 150000000) fresh read_one 0)
  = Some (Err ETimeout, 421666659%Z).
Proof. vm_compute. reflexivity. Qed.

Example ex_udp_default :
  finish_of (silent_call (conf_of (str "udp://h:1") 1200 0) fresh read_one 0)
  = Some (Err ETimeout, 1000000000%Z).
Proof. vm_compute. reflexivity. Qed.

(* the hypotheses of the exact RTU statement are satisfiable at 1200 bps *)
Example ex_rtu_net_hyp :
  let c := conf_of (str "rtuovertcp://h:1") 1200 0 in
  let v := documented_speed SRtuOverTcp c in
  (fresh + t35 v <= 0)%Z /\
  (tm_req_len new_client_cfg read_one * char_time v + t35 v <= documented_timeout SRtuOverTcp c)%Z.
Proof. vm_compute. split; discriminate. Qed.
