(* Extraction of the executable model to OCaml. ExtrOcamlBasic only: bool,
   option, list, prod, unit, sumbool map to OCaml's; nat, positive, N, Z stay
   Coq's inductives. No Extract Constant / Extract Inductive of our own. *)
From Coq Require Extraction.
From Coq Require ExtrOcamlBasic.
From Modbus Require Import Base.Bytes Model.Crc Model.Encoding Spec.ModbusSpec.

Extraction Language OCaml.

Extraction "model.ml"
  N.add N.mul N.sub N.div N.modulo N.eqb N.ltb N.leb N.of_nat N.to_nat N.lxor N.land
  N.shiftr N.shiftl N.testbit N.succ N.double N.succ_double
  Z.add Z.mul Z.sub Z.div Z.modulo Z.eqb Z.ltb Z.leb Z.of_N Z.to_N Z.opp Z.quot Z.rem
  list_eqb slice
  crc_step crc_from crc16 crc_value crc_bytes crc_is_equal
  u16_to_bytes u16s_to_bytes bytes_to_u16 bytes_to_u16s u32_to_bytes bytes_to_u32s
  u64_to_bytes bytes_to_u64s encode_bools decode_bools
  step_ref crc_ref spec_bytes spec_coil_bytes.
