(* Replies that reach the client in pieces. No proofs here.

   Model/Timing.v treats readRTUFrame as one step (x_read, x_rx). On a real
   line, and even more behind an rtuovertcp gateway, a well-formed reply
   arrives as a sequence of reads of the link: the 3-byte header, then the
   rest of the frame, possibly byte by byte, with pauses of any length in
   between (inter-character gaps, a gateway that segments, a device slower
   than the configured rate). This file refines the Heard case of the
   send-time machine accordingly and makes the value given to
   rt.lastActivity after such a reply a component of the model, a [policy],
   so that the property can be stated as a condition on it: the instant
   recorded as the end of the received frame must not be earlier than the
   return of the read that consumed its last byte.

   [plan_gap]/[slow_silence_okb] run the machine on the delivery plan of a
   correspondence case (scenario silenceslow) and give the silence a client
   must at least have kept after a reply delivered along that plan. *)
From Modbus Require Import Base.Bytes Model.Timing.
Local Open Scope Z_scope.

(* one read of the link that returned bytes of the reply *)
Record piece := mk_piece {
  pc_len : Z;      (* bytes it returned *)
  pc_dur : Z;      (* how long the read took: the pause before these bytes came, 0 when they were buffered *)
  pc_early : Z     (* how long before the read returned its last byte had arrived *)
}.

Definition piece_ok (p : piece) : Prop := 1 <= pc_len p /\ 0 <= pc_dur p /\ 0 <= pc_early p.

(* readRTUFrame called .. return of the read that consumed the last byte *)
Definition pieces_span (ps : list piece) : Z := fold_right (fun p a => pc_dur p + a) 0 ps.

(* length of the frame *)
Definition pieces_len (ps : list piece) : Z := fold_right (fun p a => pc_len p + a) 0 ps.

(* how long before that return the last byte of the frame had arrived *)
Definition pieces_early (ps : list piece) : Z := pc_early (last ps (mk_piece 0 0 0)).

(* readRTUFrame called .. return of the read that completed the 3-byte header
   ([got] bytes of it were read before) *)
Fixpoint header_span (got : Z) (ps : list piece) : Z :=
  match ps with
  | [] => 0
  | p :: ps' => pc_dur p + (if 3 <=? got + pc_len p then 0 else header_span (got + pc_len p) ps')
  end.

(* what the code can know about the reception of one frame when it stamps *)
Record rtrace := mk_rtrace {
  rt_call : Z;     (* readRTUFrame was called *)
  rt_header : Z;   (* the header was complete *)
  rt_need : Z;     (* bytes the header announces after itself (rest of the payload + CRC) *)
  rt_last : Z;     (* the read that consumed the last byte returned *)
  rt_now : Z       (* time.Now() at the end of ExecuteRequest (line 106) *)
}.

Definition trace_ok (tr : rtrace) : Prop :=
  rt_call tr <= rt_header tr /\ rt_header tr <= rt_last tr /\ rt_last tr <= rt_now tr.

(* the value given to rt.lastActivity after a frame was heard, as a function
   of the character time and of the reception *)
Definition policy := Z -> rtrace -> Z.

(* rtu_transport.go:105-107: rt.lastActivity = time.Now() *)
Definition stamp_now : policy := fun _ tr => rt_now tr.
(* the earliest instant the property allows *)
Definition stamp_last_read : policy := fun _ tr => rt_last tr.
(* an estimate made from the header: the rest of the frame at line rate *)
Definition stamp_estimate : policy := fun t1 tr => rt_header tr + rt_need tr * t1.

(* the condition of the property on a policy *)
Definition sound_policy (pol : policy) : Prop :=
  forall t1 tr, 0 <= t1 -> trace_ok tr -> rt_last tr <= pol t1 tr.

(* rtuTransport.ExecuteRequest, timing only, the reply read as [ps]. For a
   frame that was heard x_read is what follows the last read (CRC check, or
   the re-sync sleep and flush) and x_rx is not used; the other outcomes are
   those of Model/Timing.v *)
Definition exchange_p (pol : policy) (t1 t35 : Z) (s : tstate) (x : xchg) (ps : list piece) : tstate * event :=
  let now0 := clock s + x_enter x in
  let t := now0 - (last_activity s + t35) in
  let ts := (if t <? 0 then sleep now0 (- t) 0 else now0) + x_sleep1 x in
  let tx_start := ts + x_write x in
  let now1 := tx_start + x_written x in
  match x_out x with
  | Heard =>
      let la1 := ts + x_n x * t1 in
      let now2 := sleep now1 (la1 + t35 - now1) (x_sleep2 x) in
      let last := now2 + pieces_span ps in
      let now3 := last + x_read x + x_stamp x in
      let tr := mk_rtrace now2 (now2 + header_span 0 ps) (pieces_len ps - 3) last now3 in
      (mk_tstate now3 (pol t1 tr), mk_event Heard tx_start la1 (last - pieces_early ps))
  | _ => exchange t1 t35 s x
  end.

Fixpoint run_p (pol : policy) (t1 t35 : Z) (s : tstate) (xs : list (xchg * list piece)) : list event :=
  match xs with
  | [] => []
  | (x, ps) :: xs' => let (s', e) := exchange_p pol t1 t35 s x ps in e :: run_p pol t1 t35 s' xs'
  end.

(* the same exchange for Model/Timing.v: the reads taken together *)
Definition flat (x : xchg) (ps : list piece) : xchg :=
  match x_out x with
  | Heard => mk_xchg (x_n x) Heard (x_enter x) (x_sleep1 x) (x_write x) (x_written x) (x_sleep2 x)
               (pieces_span ps + x_read x) (pieces_early ps + x_read x) (x_stamp x)
  | _ => x
  end.

(* ------------------------------------------- delivery plans of the check *)

(* a reply handed to the line in segments: (length, pause before it in ns).
   Every segment is taken by a read that returns as soon as it is there *)
Definition plan_reads (segs : list (Z * Z)) : list piece :=
  map (fun sp => mk_piece (fst sp) (snd sp) 0) segs.

Definition plan_ok (segs : list (Z * Z)) : Prop :=
  Forall (fun sp => 1 <= fst sp /\ 0 <= snd sp) segs.

(* an exchange of an n-byte request in which nothing but the line takes time *)
Definition quiet_xchg (n : Z) : xchg := mk_xchg n Heard 0 0 0 0 0 0 0 0.

(* two back-to-back exchanges at [rate], both replies delivered along [segs]:
   the silence between the arrival of the last byte of the first reply and
   the start of the second request *)
Definition plan_gap (pol : policy) (rate n : Z) (segs : list (Z * Z)) : Z :=
  let ps := plan_reads segs in
  match run_p pol (char_time rate) (t35 rate) (mk_tstate 0 (- t35 rate))
              [(quiet_xchg n, ps); (quiet_xchg n, ps)] with
  | e1 :: e2 :: _ => ev_tx_start e2 - ev_rx_end e1
  | _ => 0
  end.

(* predicate of the correspondence check on a measured silence: not shorter
   than what the model keeps when nothing but the line takes time *)
Definition slow_silence_okb (rate n : Z) (segs : list (Z * Z)) (gap : Z) : bool :=
  plan_gap stamp_now rate n segs <=? gap.
