(* Lock-discipline model for a mutex-protected Go object shared between
   goroutines (client.go: ModbusClient.lock; server.go: ModbusServer.lock).

   - sprog: the structured lock skeleton of one method, as emitted by the
     extractor harness/cmd/locksum into Gen/ClientLocks.v / Gen/ServerLocks.v;
   - cc_path: the flat action sequences a method can execute (calls of other
     methods of the same receiver inlined, a deferred Unlock appended to every
     exit of the method that declared it);
   - cc_wbs / cc_table_wb: the sequential, structured discipline check that is
     run by vm_compute over the generated tables;
   - cc_swb: the same discipline on a flat sequence;
   - cc_stepf / cc_run: the interleaving semantics of any number of threads.
   No proofs here (Proofs/ConcP.v). Nothing in this file is extracted. *)
From Coq Require Import List Bool String Arith.
Import ListNotations.

(* ------------------------------------------------------------------ actions *)

Inductive cact :=
| ALock                      (* mc.lock.Lock() *)
| AUnlock                    (* mc.lock.Unlock() *)
| ARd (f : string)           (* read of the shared field mc.f *)
| AWr (f : string)           (* write of the shared field mc.f *)
| ATx                        (* one whole request frame handed to the socket in one Write call *)
| ARx                        (* the reply read *)
| ACloseT                    (* mc.transport.Close() *)
| AXchg                      (* structured only: mc.transport.ExecuteRequest(...) = ATx then ARx *)
| ACall (m : string)         (* structured only: call of another method of the same receiver *)
| ARet                       (* structured only: return statement *)
| ABrk                       (* structured only: break out of the innermost loop / switch *)
| ACont                      (* structured only: continue the innermost loop *)
| AWait (w : string)         (* an operation that can wait for a peer or for another goroutine: Accept, a
                                read or write on a connection, a handshake, a handler call, a sleep, a
                                channel operation. Emitted for the server only (the client holds its
                                mutex across the exchange by design: AXchg) *)
| AIrregular (why : string). (* something the extractor refuses to interpret *)

(* accesses to state protected by the mutex: the tracked fields and the
   transport object (its transaction counter / last-activity time rely on the
   caller's mutex) *)
Definition cc_is_access (a : cact) : bool :=
  match a with
  | ARd _ | AWr _ | ATx | ARx | ACloseT => true
  | _ => false
  end.

Inductive sprog :=
| SAct (a : cact)
| SSeq (l : list sprog)
| SIf (branches : list sprog)   (* non-deterministic choice of one branch *)
| SSwitch (branches : list sprog) (* the same, for a switch / select that contains a break of its own *)
| SLoop (body : sprog).         (* zero or more iterations *)

Record cmethod := mk_cmethod {
  cm_name : string;
  cm_deferred : bool;           (* the method contains `defer mc.lock.Unlock()` *)
  cm_body : sprog
}.

Definition ctable := list cmethod.

Fixpoint cc_find (tb : ctable) (m : string) : option cmethod :=
  match tb with
  | [] => None
  | cm :: t => if String.eqb (cm_name cm) m then Some cm else cc_find t m
  end.

(* ------------------------------------------------------------ flat paths *)

Inductive pout := PFall | PRet | PBrk | PCont.

(* what a deferred unlock contributes at the exit of its method *)
Definition cc_exit (cm : cmethod) : list cact :=
  if cm_deferred cm then [AUnlock] else [].

(* the flat action of a structured leaf that is neither a call nor control flow *)
Definition cc_leaf (a : cact) : option (list cact) :=
  match a with
  | ACall _ | ARet | ABrk | ACont => None
  | AXchg => Some [ATx; ARx]
  | a => Some [a]
  end.

Inductive cc_path (tb : ctable) : sprog -> list cact -> pout -> Prop :=
| cp_leaf : forall a p, cc_leaf a = Some p -> cc_path tb (SAct a) p PFall
| cp_ret : cc_path tb (SAct ARet) [] PRet
| cp_brk : cc_path tb (SAct ABrk) [] PBrk
| cp_cont : cc_path tb (SAct ACont) [] PCont
| cp_call : forall m cm p o,
    cc_find tb m = Some cm -> cc_path tb (cm_body cm) p o ->
    cc_path tb (SAct (ACall m)) (p ++ cc_exit cm) PFall
| cp_seq_nil : cc_path tb (SSeq []) [] PFall
| cp_seq_fall : forall s l p1 p2 o,
    cc_path tb s p1 PFall -> cc_path tb (SSeq l) p2 o ->
    cc_path tb (SSeq (s :: l)) (p1 ++ p2) o
| cp_seq_stop : forall s l p1 o,
    cc_path tb s p1 o -> o <> PFall -> cc_path tb (SSeq (s :: l)) p1 o
| cp_if : forall bs b p o, In b bs -> cc_path tb b p o -> cc_path tb (SIf bs) p o
| cp_switch : forall bs b p o, In b bs -> cc_path tb b p o -> o <> PBrk -> cc_path tb (SSwitch bs) p o
| cp_switch_brk : forall bs b p, In b bs -> cc_path tb b p PBrk -> cc_path tb (SSwitch bs) p PFall
| cp_loop_exit : forall b, cc_path tb (SLoop b) [] PFall
| cp_loop_iter : forall b p1 p2 o o1,
    cc_path tb b p1 o1 -> (o1 = PFall \/ o1 = PCont) -> cc_path tb (SLoop b) p2 o ->
    cc_path tb (SLoop b) (p1 ++ p2) o
| cp_loop_brk : forall b p1, cc_path tb b p1 PBrk -> cc_path tb (SLoop b) p1 PFall
| cp_loop_ret : forall b p1, cc_path tb b p1 PRet -> cc_path tb (SLoop b) p1 PRet.

(* the flat sequences of one public call: the method is entered, runs to one
   of its exits, the deferred unlock (if any) runs *)
Definition cc_entry_path (tb : ctable) (m : string) (p : list cact) : Prop :=
  cc_path tb (SAct (ACall m)) p PFall.

(* a goroutine performs a list of public calls one after the other *)
Definition cc_thread_path (tb : ctable) (ms : list string) (p : list cact) : Prop :=
  exists ps, Forall2 (cc_entry_path tb) ms ps /\ p = List.concat ps.

(* an executable witness: in every choice the first branch that falls through
   (else the first branch), no loop iteration *)
Section FirstPath.
  Variable f : sprog -> option (list cact * pout).
  Fixpoint cc_fp_seq (l : list sprog) : option (list cact * pout) :=
    match l with
    | [] => Some ([], PFall)
    | s :: t =>
        match f s with
        | Some (p1, PFall) =>
            match cc_fp_seq t with
            | Some (p2, o) => Some (p1 ++ p2, o)
            | None => None
            end
        | r => r
        end
    end.
  Fixpoint cc_fp_pick (bs : list sprog) : option (sprog * (list cact * pout)) :=
    match bs with
    | [] => None
    | b :: t =>
        match f b with
        | Some (p, PFall) => Some (b, (p, PFall))
        | Some r => match cc_fp_pick t with Some x => Some x | None => Some (b, r) end
        | None => cc_fp_pick t
        end
    end.
End FirstPath.

Fixpoint cc_fp_gen (callk : string -> option (list cact)) (sp : sprog) : option (list cact * pout) :=
  match sp with
  | SAct (ACall m) => match callk m with Some p => Some (p, PFall) | None => None end
  | SAct ARet => Some ([], PRet)
  | SAct ABrk => Some ([], PBrk)
  | SAct ACont => Some ([], PCont)
  | SAct a => match cc_leaf a with Some p => Some (p, PFall) | None => None end
  | SSeq l => cc_fp_seq (cc_fp_gen callk) l
  | SIf bs => match cc_fp_pick (cc_fp_gen callk) bs with Some (_, r) => Some r | None => None end
  | SSwitch bs =>
      match cc_fp_pick (cc_fp_gen callk) bs with
      | Some (_, (p, PBrk)) => Some (p, PFall)
      | Some (_, r) => Some r
      | None => None
      end
  | SLoop _ => Some ([], PFall)
  end.

Fixpoint cc_fp_call (tb : ctable) (fuel : nat) (m : string) : option (list cact) :=
  match fuel with
  | 0 => None
  | S n =>
      match cc_find tb m with
      | Some cm =>
          match cc_fp_gen (cc_fp_call tb n) (cm_body cm) with
          | Some (p, _) => Some (p ++ cc_exit cm)
          | None => None
          end
      | None => None
      end
  end.

(* the witness path of a list of public calls *)
Fixpoint cc_fp_thread (tb : ctable) (fuel : nat) (ms : list string) : option (list cact) :=
  match ms with
  | [] => Some []
  | m :: t =>
      match cc_fp_call tb fuel m, cc_fp_thread tb fuel t with
      | Some p, Some q => Some (p ++ q)
      | _, _ => None
      end
  end.

(* ------------------------------------------- sequential discipline, flat *)

(* the effect of one flat action on "this thread holds the mutex";
   None = the discipline is broken *)
Definition cc_act_held (a : cact) (h : bool) : option bool :=
  match a with
  | ALock => if h then None else Some true        (* Lock while holding: self-deadlock *)
  | AUnlock => if h then Some false else None     (* Unlock of a mutex this thread does not hold *)
  | ARd _ | AWr _ | ATx | ARx | ACloseT => if h then Some true else None
  | AWait _ => if h then None else Some false     (* waiting for a peer while holding the mutex *)
  | _ => None                                     (* AIrregular, structured-only actions *)
  end.

Fixpoint cc_swb (h : bool) (p : list cact) : option bool :=
  match p with
  | [] => Some h
  | a :: r => match cc_act_held a h with Some h' => cc_swb h' r | None => None end
  end.

(* sequentially well bracketed: starts and ends without the mutex *)
Definition cc_flat_wb (p : list cact) : Prop := cc_swb false p = Some false.

(* every ATx is immediately followed by its ARx and no ARx occurs otherwise *)
Fixpoint cc_txrx_ok (p : list cact) : bool :=
  match p with
  | [] => true
  | ATx :: r => match r with ARx :: r' => cc_txrx_ok r' | _ => false end
  | ARx :: _ => false
  | _ :: r => cc_txrx_ok r
  end.

(* ------------------------------------- sequential discipline, structured *)

(* result of the structured check: None = fail; Some None = every path leaves
   by return / break / continue (checked where it leaves); Some (Some h) =
   falls through holding (h = true) or not holding the mutex *)
Definition cc_res := option (option bool).

Definition cc_merge (a b : option bool) : cc_res :=
  match a, b with
  | None, x => Some x
  | x, None => Some x
  | Some h1, Some h2 => if Bool.eqb h1 h2 then Some (Some h1) else None
  end.

Section Combinators.
  Variable f : bool -> sprog -> cc_res.
  (* statements one after the other *)
  Fixpoint cc_seq_wbs (h : bool) (l : list sprog) : cc_res :=
    match l with
    | [] => Some (Some h)
    | s :: t =>
        match f h s with
        | None => None
        | Some None => Some None      (* the rest is unreachable *)
        | Some (Some h') => cc_seq_wbs h' t
        end
    end.
  (* alternatives: the branches that fall through must agree *)
  Fixpoint cc_alt_wbs (h : bool) (acc : option bool) (bs : list sprog) : cc_res :=
    match bs with
    | [] => Some acc
    | b :: t =>
        match f h b with
        | None => None
        | Some r =>
            match cc_merge acc r with
            | None => None
            | Some acc' => cc_alt_wbs h acc' t
            end
        end
    end.
End Combinators.

(* callk h m: the call handler: held flag after calling m while held = h
   rh: the held flag required at every return of the current method
   bh: the held flag required at a break (= the flag at the entry of the innermost loop / breakable switch)
   lh: the held flag required at a continue (= the flag at the head of the innermost enclosing loop)
   h : the held flag before sp *)
Fixpoint cc_wbs (callk : bool -> string -> option bool) (rh : bool) (bh lh : option bool)
         (h : bool) (sp : sprog) : cc_res :=
  match sp with
  | SAct (ACall m) => match callk h m with Some h' => Some (Some h') | None => None end
  | SAct ARet => if Bool.eqb h rh then Some None else None
  | SAct ABrk =>
      match bh with
      | Some h0 => if Bool.eqb h h0 then Some None else None
      | None => None
      end
  | SAct ACont =>
      match lh with
      | Some h0 => if Bool.eqb h h0 then Some None else None
      | None => None
      end
  | SAct AXchg => if h then Some (Some true) else None
  | SAct ATx | SAct ARx => None           (* only as the pair produced by AXchg *)
  | SAct a => match cc_act_held a h with Some h' => Some (Some h') | None => None end
  | SSeq l => cc_seq_wbs (fun h s => cc_wbs callk rh bh lh h s) h l
  | SIf bs => cc_alt_wbs (fun h s => cc_wbs callk rh bh lh h s) h None bs
  | SSwitch bs =>
      (* a break leaves the switch with the flag it was entered with: the
         branches that fall through must agree with that *)
      cc_alt_wbs (fun h0 s => cc_wbs callk rh (Some h) lh h0 s) h (Some h) bs
  | SLoop b =>
      match cc_wbs callk rh (Some h) (Some h) h b with
      | None => None
      | Some None => Some (Some h)
      | Some (Some h') => if Bool.eqb h' h then Some (Some h) else None
      end
  end.

(* a method entered with held flag h0: a deferred unlock needs h0 = false and
   every exit holding the mutex; a method without one must give the mutex back
   in the state it got it. Either way the call leaves the held flag unchanged. *)
Definition cc_wb_method (callk : bool -> string -> option bool) (h0 : bool) (cm : cmethod) : option bool :=
  if cm_deferred cm && h0 then None
  else
    let rh := if cm_deferred cm then true else h0 in
    match cc_wbs callk rh None None h0 (cm_body cm) with
    | None => None
    | Some None => Some h0
    | Some (Some h') => if Bool.eqb h' rh then Some h0 else None
    end.

Fixpoint cc_wb_call (tb : ctable) (fuel : nat) (h : bool) (m : string) : option bool :=
  match fuel with
  | 0 => None
  | S n =>
      match cc_find tb m with
      | Some cm => cc_wb_method (cc_wb_call tb n) h cm
      | None => None
      end
  end.

Fixpoint cc_no_irregular (sp : sprog) : bool :=
  match sp with
  | SAct (AIrregular _) => false
  | SAct _ => true
  | SSeq l => forallb cc_no_irregular l
  | SIf l => forallb cc_no_irregular l
  | SSwitch l => forallb cc_no_irregular l
  | SLoop b => cc_no_irregular b
  end.

(* a public entry point is well bracketed when called without the mutex *)
Definition cc_wb_entry (tb : ctable) (fuel : nat) (m : string) : bool :=
  match cc_wb_call tb fuel false m with Some false => true | _ => false end.

(* the check run over a generated table: every entry point is well bracketed
   and no method of the table (reachable or not) contains an irregular use *)
Definition cc_table_wb (tb : ctable) (fuel : nat) (entries : list string) : bool :=
  forallb (cc_wb_entry tb fuel) entries && forallb (fun cm => cc_no_irregular (cm_body cm)) tb.

(* ------------------------------------------------ interleaving semantics *)

Record cthread := mk_cthread {
  ct_rem : list cact;      (* flat actions still to execute *)
  ct_holds : bool          (* this thread holds the mutex *)
}.

Definition cconfig := list cthread.
Definition cevent := (nat * cact)%type.     (* thread index, action *)

Definition cc_init (ps : list (list cact)) : cconfig := map (fun p => mk_cthread p false) ps.

Definition cc_act_eqb (a b : cact) : bool :=
  match a, b with
  | ALock, ALock | AUnlock, AUnlock | ATx, ATx | ARx, ARx | ACloseT, ACloseT
  | AXchg, AXchg | ARet, ARet | ABrk, ABrk | ACont, ACont => true
  | ARd f, ARd g | AWr f, AWr g | ACall f, ACall g | AIrregular f, AIrregular g | AWait f, AWait g => String.eqb f g
  | _, _ => false
  end.

Fixpoint cc_upd (c : cconfig) (i : nat) (th : cthread) : cconfig :=
  match c, i with
  | [], _ => []
  | _ :: t, 0 => th :: t
  | x :: t, S j => x :: cc_upd t j th
  end.

(* the mutex is free when no thread holds it *)
Definition cc_free (c : cconfig) : bool := negb (existsb ct_holds c).

(* thread i holds the mutex *)
Definition cc_holds (c : cconfig) (i : nat) : bool :=
  match nth_error c i with Some t => ct_holds t | None => false end.

(* at most one thread holds the mutex *)
Definition cc_mutex (c : cconfig) : Prop :=
  forall i j, cc_holds c i = true -> cc_holds c j = true -> i = j.

(* new held flag of the thread that performs a *)
Definition cc_holds_after (a : cact) (h : bool) : bool :=
  match a with ALock => true | AUnlock => false | _ => h end.

(* one step: thread i executes its next action a. Lock is enabled only when the
   mutex is free; every other action is always enabled. (An Unlock by a thread
   that does not hold the mutex cannot happen for well-bracketed threads; the
   model lets it through without effect on the others.) *)
Definition cc_stepf (c : cconfig) (e : cevent) : option cconfig :=
  let (i, a) := e in
  match nth_error c i with
  | Some th =>
      match ct_rem th with
      | b :: r =>
          if cc_act_eqb a b && (match a with ALock => cc_free c | _ => true end)
          then Some (cc_upd c i (mk_cthread r (cc_holds_after a (ct_holds th))))
          else None
      | [] => None
      end
  | None => None
  end.

Fixpoint cc_run (c : cconfig) (evs : list cevent) : option cconfig :=
  match evs with
  | [] => Some c
  | e :: r => match cc_stepf c e with Some c' => cc_run c' r | None => None end
  end.

(* evs is an execution from c to c' *)
Definition cc_exec (c : cconfig) (evs : list cevent) (c' : cconfig) : Prop := cc_run c evs = Some c'.

(* the wire: who sent the k-th request / who consumed the k-th reply
   (replies are consumed in order: the k-th ARx takes the reply to the k-th ATx) *)
Fixpoint cc_txs (evs : list cevent) : list nat :=
  match evs with
  | [] => []
  | (i, ATx) :: r => i :: cc_txs r
  | _ :: r => cc_txs r
  end.

Fixpoint cc_rxs (evs : list cevent) : list nat :=
  match evs with
  | [] => []
  | (i, ARx) :: r => i :: cc_rxs r
  | _ :: r => cc_rxs r
  end.

Definition cc_field (a : cact) : option string :=
  match a with ARd f | AWr f => Some f | _ => None end.

Definition cc_is_write (a : cact) : bool := match a with AWr _ => true | _ => false end.

(* two accesses conflict in the sense of the Go memory model: same field, at least one write *)
Definition cc_conflict (a b : cact) : bool :=
  match cc_field a, cc_field b with
  | Some f, Some g => String.eqb f g && (cc_is_write a || cc_is_write b)
  | _, _ => false
  end.

(* goroutine k of prog makes the public calls prog[k] (each an entry point of
   the table), one after the other, and ps[k] is the flat sequence it executes *)
Definition cc_runs_table (tb : ctable) (entries : list string)
           (prog : list (list string)) (ps : list (list cact)) : Prop :=
  (forall ms, In ms prog -> forall m, In m ms -> In m entries) /\
  Forall2 (cc_thread_path tb) prog ps.

(* all actions occurring in a structured program (for syntactic side checks) *)
Fixpoint cc_acts (sp : sprog) : list cact :=
  match sp with
  | SAct a => [a]
  | SSeq l => flat_map cc_acts l
  | SIf l => flat_map cc_acts l
  | SSwitch l => flat_map cc_acts l
  | SLoop b => cc_acts b
  end.

Definition cc_method_mentions (tb : ctable) (m : string) (a : cact) : bool :=
  match cc_find tb m with
  | Some cm => existsb (cc_act_eqb a) (cc_acts (cm_body cm))
  | None => false
  end.
