(* What Open() makes of the effective configuration of an accepted client
   (client.go Open: newTCPTransport(sock, conf.Timeout, ...) for the MBAP
   schemes, newRTUTransport(link, conf.URL, conf.Speed, conf.Timeout, ...)
   for the RTU schemes, behind serialPortWrapper for rtu), expressed as the
   configuration of the timed exchange model (Model/Timed.v), and one public
   call of an opened client whose peer never answers. This ties the stored
   configuration of Model/Config.v (what NewClient keeps) to the response
   timeout the opened client ENFORCES. No proofs here. *)
From Modbus Require Import Base.Bytes Model.Encoding Model.Wire Model.Client
  Model.Config Model.Timing Model.Timed.

(* serial.go: the port is opened with Timeout: 10 * time.Millisecond; an empty
   poll lasts that long (the granularity g of Timed.tm_horizon) *)
Definition serial_poll_ns : Z := 10000000.

(* the framing of the transport Open() builds and its timing configuration:
   the response timeout is conf.Timeout as kept by NewClient, unchanged; the
   character time and the inter-frame delay derive from conf.Speed (RTU
   framing only) *)
Definition opened_link (e : client_eff) : framing * tm_conf :=
  let speed := Z.of_N (ce_speed e) in
  match wiring (ce_transport e) with
  | (sk, KRtu) =>
      (FRtu, mk_tm_conf (ce_timeout e) (char_time speed) (t35 speed)
                        (match sk with KSerial => serial_poll_ns | _ => 0%Z end))
  | (_, KMbap) => (FMbap, mk_tm_conf (ce_timeout e) 0 0 0)
  end.

(* unit id and encoding of the new client *)
Definition opened_cfg (e : client_eff) : ccfg :=
  mkcfg (ce_unit e)
        (if ce_endianness e =? 2 then LittleE else BigE)
        (if ce_word_order e =? 2 then LowFirst else HighFirst).

(* NewClient(c), Open(), then the public call o entered at t0 (rt.lastActivity
   = la, transaction counter 0) while the peer stays silent and keeps the link
   open: the outcome and the instant the call returns *)
Definition silent_call (c : client_conf) (la : Z) (o : op) (t0 : Z) : cfg_result tm_call :=
  match new_client c with
  | CfgOk e =>
      let '(fr, k) := opened_link e in
      CfgOk (tm_client_call fr k la (opened_cfg e) 0 o t0 None [])
  | CfgErr x => CfgErr x
  end.
