(* Modbus/TLS (tcp+tls): what the repository does AROUND Go's crypto/tls.
   Model only, no proofs.

   The TLS library is an ORACLE, not modelled cryptography: the two handshake
   functions and the certificate verification predicate are variables of the
   section below; what crypto/tls and crypto/x509 document about them is
   written down as two propositions (tls_srv_documented, tls_cli_documented)
   that the theorems of Proofs/TlsPolicyP.v take as explicit premises.

   Modelled from the repository:
     server.go NewServer (tcp+tls needs TLSServerCert and TLSClientCAs: through
       Model/Config.v new_server), handleTCPClient (startTLS first,
       handleTransport only when startTLS returned no error, the socket is
       closed in every case), startTLS (tls.Server with ClientAuth =
       RequireAndVerifyClientCert, ClientCAs, MinVersion = TLS 1.2; Handshake();
       PeerCertificates must be non-empty; role = extractRole of the leaf);
     client.go NewClient (tcp+tls needs TLSClientCert and TLSRootCAs: through
       Model/Config.v new_client), Open (tls.DialWithDialer with Certificates,
       RootCAs, MinVersion = TLS 1.2; forced Handshake(); the transport is
       created only when both returned no error).
   Not modelled: the 30 s / 15 s handshake deadlines, cipher suites, session
   resumption, MaxVersion (left at its zero value by the repository). *)
From Modbus Require Import Base.Bytes Model.Wire Model.Client Model.Server Model.Role Model.Config.

(* --------------------------------------------------------- vocabulary *)

Inductive tls_version := TLS10 | TLS11 | TLS12 | TLS13.

(* the wire codes: tls.VersionTLS10 .. tls.VersionTLS13 *)
Definition tls_version_code (v : tls_version) : N :=
  match v with TLS10 => 0x0301 | TLS11 => 0x0302 | TLS12 => 0x0303 | TLS13 => 0x0304 end.

(* a >= b *)
Definition tls_version_geb (a b : tls_version) : bool :=
  tls_version_code b <=? tls_version_code a.

(* tls.ClientAuthType *)
Inductive tls_client_auth :=
| TlsNoClientCert
| TlsRequestClientCert
| TlsRequireAnyClientCert
| TlsVerifyClientCertIfGiven
| TlsRequireAndVerify.

(* x509.ExtKeyUsage asked for by the verifier *)
Inductive tls_usage := TlsUsageClientAuth | TlsUsageServerAuth.

(* a certificate: an identity the verification oracle looks at, and the
   extension list extractRole looks at (Model/Role.v) *)
Record tls_cert := mk_tls_cert { tlc_id : N; tlc_exts : list cert_ext }.

(* tls.Config as far as the repository fills it in *)
Record tls_policy := mk_tls_policy {
  tpo_client_auth : tls_client_auth;        (* ClientAuth (server side) *)
  tpo_min_version : tls_version;            (* MinVersion *)
  tpo_own_cert : option tls_cert;           (* Certificates[0] *)
  tpo_pool : option (list tls_cert);        (* ClientCAs (server) / RootCAs (client) *)
  tpo_server_name : list N;                 (* client side: the name the certificate must be valid for *)
  tpo_skip_verify : bool                    (* InsecureSkipVerify *)
}.

(* the remote end of a connection attempt *)
Record tls_peer := mk_tls_peer {
  tpe_speaks_tls : bool;                    (* false: a plain-text peer (Modbus/TCP bytes, garbage) *)
  tpe_chain : list tls_cert;                (* the certificates it presents, leaf first; [] = none *)
  tpe_versions : list tls_version           (* the protocol versions it is willing to negotiate *)
}.

(* tls.ConnectionState of a completed handshake *)
Record tls_session := mk_tls_session {
  tss_version : tls_version;                (* Version *)
  tss_peer_certs : list tls_cert            (* PeerCertificates *)
}.

Definition tls_is_some {A} (o : option A) : bool :=
  match o with Some _ => true | None => false end.

(* ------------------------------------------------------ configurations *)

Record tls_srv_conf := mk_tls_srv_conf {
  tsv_url : list N;
  tsv_timeout : Z;
  tsv_max_clients : N;
  tsv_cert : option tls_cert;               (* TLSServerCert *)
  tsv_cas : option (list tls_cert)          (* TLSClientCAs *)
}.

Record tls_cli_conf := mk_tls_cli_conf {
  tcl_url : list N;
  tcl_timeout : Z;
  tcl_cert : option tls_cert;               (* TLSClientCert *)
  tcl_roots : option (list tls_cert)        (* TLSRootCAs *)
}.

(* the constructors are those of Model/Config.v: they only look at whether
   the two pointers are nil *)
Definition tsv_base (c : tls_srv_conf) : server_conf :=
  mksc (tsv_url c) (tsv_timeout c) (tsv_max_clients c)
       (tls_is_some (tsv_cert c)) (tls_is_some (tsv_cas c)).

Definition tcl_base (c : tls_cli_conf) : client_conf :=
  mkcc (tcl_url c) 0 0 0 0 (tcl_timeout c)
       (tls_is_some (tcl_cert c)) (tls_is_some (tcl_roots c)).

Definition tls_new_server (c : tls_srv_conf) : cfg_result server_eff := new_server (tsv_base c).
Definition tls_new_client (c : tls_cli_conf) : cfg_result client_eff := new_client (tcl_base c).

(* tls.DialWithDialer: `colonPos := strings.LastIndex(addr, ":"); if colonPos
   == -1 { colonPos = len(addr) }; hostname := addr[:colonPos]`, used as
   ServerName because the repository sets none *)
Fixpoint tls_cut_last_colon (s : list N) : option (list N) :=
  match s with
  | [] => None
  | c :: t =>
      match tls_cut_last_colon t with
      | Some p => Some (c :: p)
      | None => if c =? 58 then Some [] else None
      end
  end.

Definition tls_dial_host (addr : list N) : list N :=
  match tls_cut_last_colon addr with Some p => p | None => addr end.

(* startTLS: the tls.Config handed to tls.Server *)
Definition tls_policy_of_server (c : tls_srv_conf) : tls_policy :=
  {| tpo_client_auth := TlsRequireAndVerify;
     tpo_min_version := TLS12;
     tpo_own_cert := tsv_cert c;
     tpo_pool := tsv_cas c;
     tpo_server_name := [];
     tpo_skip_verify := false |}.

(* Open: the tls.Config handed to tls.DialWithDialer (ClientAuth is a
   server-side field: zero value) for the address kept by NewClient *)
Definition tls_policy_of_client (c : tls_cli_conf) : tls_policy :=
  {| tpo_client_auth := TlsNoClientCert;
     tpo_min_version := TLS12;
     tpo_own_cert := tcl_cert c;
     tpo_pool := tcl_roots c;
     tpo_server_name := tls_dial_host (snd (url_parts (tcl_url c)));
     tpo_skip_verify := false |}.

Definition tls_framing_of (t : tkind) : framing :=
  match snd (wiring t) with KMbap => FMbap | KRtu => FRtu end.

(* what Open leaves in mc.transport *)
Inductive tls_link :=
| TlsLinkPlain                          (* a transport without TLS *)
| TlsLinkSecure (sess : tls_session).   (* the MBAP transport inside the tunnel *)

Section Oracles.
  (* Go's crypto/tls, seen from the two call sites: tls.Server(..).Handshake()
     and tls.DialWithDialer(..) + Handshake() *)
  Variable tls_handshake_srv : tls_policy -> tls_peer -> option tls_session.
  Variable tls_handshake_cli : tls_policy -> tls_peer -> option tls_session.
  (* Go's crypto/x509 Certificate.Verify: pool, key usage, current time, host
     name ([] = none asked for), presented chain (leaf first) *)
  Variable tls_verifies : option (list tls_cert) -> tls_usage -> N -> list N -> list tls_cert -> Prop.
  Variable tls_now : N.

  (* crypto/tls, server side: Handshake() returns nil only with a TLS peer,
     at a version both ends allow; with ClientAuth =
     RequireAndVerifyClientCert only if the peer presented a certificate
     chain that verifies against ClientCAs for client authentication at the
     current time; PeerCertificates is then that chain, leaf first *)
  Definition tls_srv_documented : Prop :=
    forall pol peer sess, tls_handshake_srv pol peer = Some sess ->
      tpe_speaks_tls peer = true /\
      In (tss_version sess) (tpe_versions peer) /\
      tls_version_geb (tss_version sess) (tpo_min_version pol) = true /\
      (tpo_client_auth pol = TlsRequireAndVerify ->
       tss_peer_certs sess = tpe_chain peer /\ tpe_chain peer <> [] /\
       tls_verifies (tpo_pool pol) TlsUsageClientAuth tls_now [] (tpe_chain peer)).

  (* crypto/tls, client side: unless InsecureSkipVerify is set the handshake
     completes only if the server's chain verifies against RootCAs for server
     authentication, for ServerName, at the current time *)
  Definition tls_cli_documented : Prop :=
    forall pol peer sess, tls_handshake_cli pol peer = Some sess ->
      tpe_speaks_tls peer = true /\
      In (tss_version sess) (tpe_versions peer) /\
      tls_version_geb (tss_version sess) (tpo_min_version pol) = true /\
      (tpo_skip_verify pol = false ->
       tss_peer_certs sess = tpe_chain peer /\ tpe_chain peer <> [] /\
       tls_verifies (tpo_pool pol) TlsUsageServerAuth tls_now (tpo_server_name pol) (tpe_chain peer)).

  (* ------------------------------------------------------------ server *)

  (* startTLS: Some role when err == nil *)
  Definition tls_start_tls (c : tls_srv_conf) (peer : tls_peer) : option (list N) :=
    match tls_handshake_srv (tls_policy_of_server c) peer with
    | None => None                                   (* Handshake() failed *)
    | Some sess =>
        match tss_peer_certs sess with
        | [] => None                                 (* "no client certificate received" *)
        | leaf :: _ => Some (extract_role (tlc_exts leaf))
        end
    end.

  Section WithRoleHandler.
    (* the handler sees the role in every request object *)
    Context {St : Type} (h : list N -> handler St).

    (* handleTCPClient on a server object built by NewServer; s is what the
       peer sends as application data (inside the tunnel for tcp+tls) *)
    Definition tls_server_conn (c : tls_srv_conf) (peer : tls_peer) (st : St) (e : send) (s : list N)
      : list event :=
      match tls_new_server c with
      | CfgErr _ => []                               (* no server object *)
      | CfgOk eff =>
          match se_transport eff with
          | TTcp => server_run (h []) st e s
          | TTcpOverTls =>
              match tls_start_tls c peer with
              | Some role => server_run (h role) st e s
              | None => [EvClosed]                   (* warning logged, socket closed *)
              end
          | _ => [EvClosed]                          (* "unimplemented transport type": never built *)
          end
      end.
  End WithRoleHandler.

  (* ------------------------------------------------------------ client *)

  (* Open() on a client object with effective configuration eff *)
  Definition tls_client_open (c : tls_cli_conf) (eff : client_eff) (server : tls_peer) : option tls_link :=
    match ce_transport eff with
    | TTcpOverTls =>
        match tls_handshake_cli (tls_policy_of_client c) server with
        | Some sess => Some (TlsLinkSecure sess)
        | None => None                               (* err returned, mc.transport stays nil *)
        end
    | _ => Some TlsLinkPlain                         (* no TLS involved: Model/Config.v wiring *)
    end.

  (* everything the client writes on the connection for NewClient + Open +
     one call: nothing when the constructor or Open failed *)
  Definition tls_client_tx (c : tls_cli_conf) (server : tls_peer) (cfg : ccfg) (txn : N) (o : op)
                           (e : send) (s : list N) : list (list N) :=
    match tls_new_client c with
    | CfgErr _ => []
    | CfgOk eff =>
        match tls_client_open c eff server with
        | None => []
        | Some _ => cr_writes (client_call (tls_framing_of (ce_transport eff)) cfg txn o e s)
        end
    end.
End Oracles.
