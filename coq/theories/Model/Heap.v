(* Heap / slice model for C18 (aliasing). The value-level client model
   (Model/Client.v) passes lists around and therefore cannot express "the call
   wrote into the caller's backing array"; this file adds the missing layer:

   - a heap is a list of arrays; the identifier of an array is its index, the
     allocation counter is the length of the list; arrays are never freed
     (garbage collection is unobservable). Cells hold an N: a byte, a bool
     (0/1) or a 16/32/64-bit word (floats are their bit patterns);
   - a slice is Go's slice header (array, offset, len, cap);
   - make / index / slice expression / append / copy have Go's semantics:
     append writes IN PLACE into the same array when len + |xs| <= cap and
     allocates otherwise; the capacity of a grown slice is needed + gr needed
     for an arbitrary growth policy gr (every theorem is for all gr);
   - computations are functions heap -> outcome; an out-of-range index or
     slice expression is HpPanic, and the heap reached so far is kept, so the
     theorems also cover what a panicking call did before it panicked.

   The client calls follow client.go / tcp_transport.go / rtu_transport.go
   statement by statement as far as WHERE data lives is concerned (tree with
   fix F4, commit 3f9fcea); the pinned behaviour of writeBytes is kept as
   hp_write_bytes_pinned. No proofs here. *)
From Coq Require Import Arith.
From Modbus Require Import Base.Bytes Model.Crc Model.Encoding Model.Wire Model.Client.

(* ------------------------------------------------------------------ heap *)

Definition hp_heap := list (list N).

Record hslice := mkhs { hs_arr : nat; hs_off : nat; hs_len : nat; hs_cap : nat }.

(* the nil slice: no backing array (capacity 0: never read, never written) *)
Definition hs_nil : hslice := mkhs 0 0 0 0.

Definition hp_arr (h : hp_heap) (id : nat) : list N := nth id h [].

(* replace array id *)
Definition hp_upd (h : hp_heap) (id : nat) (a : list N) : hp_heap :=
  if (id <? length h)%nat then firstn id h ++ a :: skipn (S id) h else h.

(* overwrite the cells p .. p+|xs|-1 of an array *)
Definition arr_write (a : list N) (p : nat) (xs : list N) : list N :=
  firstn p a ++ xs ++ skipn (p + length xs) a.

(* the elements s[0], ..., s[len-1] *)
Definition h_read (s : hslice) (h : hp_heap) : list N :=
  firstn (hs_len s) (skipn (hs_off s) (hp_arr h (hs_arr s))).

(* store xs at s[p], s[p+1], ... (addresses relative to the slice's window) *)
Definition hp_store (s : hslice) (p : nat) (xs : list N) (h : hp_heap) : hp_heap :=
  hp_upd h (hs_arr s) (arr_write (hp_arr h (hs_arr s)) (hs_off s + p) xs).

(* ----------------------------------------------------------- computations *)

Inductive hp_out (A : Type) :=
| HpVal (a : A) (h : hp_heap)
| HpPanic (h : hp_heap).
Arguments HpVal {A} a h.
Arguments HpPanic {A} h.

Definition hpM (A : Type) := hp_heap -> hp_out A.

Definition hp_ret {A} (a : A) : hpM A := fun h => HpVal a h.
Definition hp_panic {A} : hpM A := fun h => HpPanic h.
Definition hp_bind {A B} (m : hpM A) (f : A -> hpM B) : hpM B :=
  fun h => match m h with HpVal a h' => f a h' | HpPanic h' => HpPanic h' end.

Notation "'hdo' x <- m ; k" := (hp_bind m (fun x => k))
  (at level 200, x name, m at level 100, k at level 200, right associativity).

Definition hp_heap_of {A} (o : hp_out A) : hp_heap :=
  match o with HpVal _ h => h | HpPanic h => h end.

(* reading a whole slice (the operand  s...  of append, a range loop over s
   whose body does not store, copy(dst, s), Write(s)) *)
Definition hp_load (s : hslice) : hpM (list N) := fun h => HpVal (h_read s h) h.

(* make([]T, n, c): a new zeroed array of c cells *)
Definition h_make (n c : nat) : hpM hslice :=
  fun h => if (c <? n)%nat then HpPanic h
           else HpVal (mkhs (length h) 0 n c) (h ++ [repeat 0 c]).

(* s[i] *)
Definition h_get (s : hslice) (i : nat) : hpM N :=
  fun h => if (i <? hs_len s)%nat then
             match nth_error (hp_arr h (hs_arr s)) (hs_off s + i) with
             | Some v => HpVal v h
             | None => HpPanic h
             end
           else HpPanic h.

(* s[i] = v *)
Definition h_set (s : hslice) (i : nat) (v : N) : hpM unit :=
  fun h => if (i <? hs_len s)%nat then HpVal tt (hp_store s i [v] h) else HpPanic h.

(* s[lo:hi]: bounds 0 <= lo <= hi <= cap(s) *)
Definition h_slice (s : hslice) (lo hi : nat) : hpM hslice :=
  if andb (lo <=? hi)%nat (hi <=? hs_cap s)%nat
  then hp_ret (mkhs (hs_arr s) (hs_off s + lo) (hi - lo) (hs_cap s - lo))
  else hp_panic.

(* append(s, xs...): nothing to append returns s itself; otherwise in place
   iff the elements fit the capacity, else a new array of capacity
   needed + gr needed receiving a copy of s followed by xs *)
Definition h_append (gr : nat -> nat) (s : hslice) (xs : list N) : hpM hslice :=
  fun h =>
    match xs with
    | [] => HpVal s h
    | _ =>
        let n := (hs_len s + length xs)%nat in
        if (n <=? hs_cap s)%nat
        then HpVal (mkhs (hs_arr s) (hs_off s) n (hs_cap s)) (hp_store s (hs_len s) xs h)
        else HpVal (mkhs (length h) 0 n (n + gr n))
                   (h ++ [h_read s h ++ xs ++ repeat 0 (gr n)])
    end.

(* copy(dst, xs) / io.ReadFull(conn, dst) / binary.PutUintN(dst, v): the first
   min(len dst, |xs|) elements are stored into dst; returns how many *)
Definition h_copy (dst : hslice) (xs : list N) : hpM nat :=
  fun h => let ys := firstn (hs_len dst) xs in HpVal (length ys) (hp_store dst 0 ys h).

(* ---------------------------------------------------------- encoding.go *)

(* uintNToBytes: out = make([]byte, n); binary.PutUintN(out, in); the word
   swap permutes out in place. bs is the final content (Model/Encoding.v) *)
Definition hp_fresh_bytes (bs : list N) : hpM hslice :=
  hdo out <- h_make (length bs) (length bs);
  hdo _ <- h_copy out bs;
  hp_ret out.

(* out = append(out, x) for each x, one append per element *)
Fixpoint hp_append_each (gr : nat -> nat) (out : hslice) (xs : list N) : hpM hslice :=
  match xs with
  | [] => hp_ret out
  | x :: t => hdo out' <- h_append gr out [x]; hp_append_each gr out' t
  end.

Definition hp_bool (x : N) : bool := negb (x =? 0).

(* encodeBools: out = make([]byte, byteCount); only out is stored to *)
Definition hp_encode_bools (values : hslice) : hpM hslice :=
  hdo vs <- hp_load values;
  hp_fresh_bytes (encode_bools (map hp_bool vs)).

(* ------------------------------------------------------------- client.go *)

Record hp_pdu := mkhq { hq_unit : N; hq_fc : N; hq_payload : hslice }.

Definition hp_swaps (cfg : ccfg) (raw : bool) : bool :=
  match raw, c_endian cfg with false, LittleE => true | _, _ => false end.

(* for i := 0; i < len(values); i += 2 { values[i], values[i+1] = values[i+1], values[i] }
   both operands are read (and bounds-checked) before the first store *)
Fixpoint hp_swap_loop (fuel : nat) (s : hslice) (i : nat) : hpM unit :=
  match fuel with
  | O => hp_ret tt
  | S f =>
      if (i <? hs_len s)%nat then
        hdo a <- h_get s i;
        hdo b <- h_get s (i + 1);
        hdo _ <- h_set s i b;
        hdo _ <- h_set s (i + 1) a;
        hp_swap_loop f s (i + 2)
      else hp_ret tt
  end.

(* writeBytes up to the call of writeRegisters (fix F4):
     values = append(make([]byte, 0, len(values) + 1), values...)
     if len(values) % 2 == 1 { values = append(values, 0x00) }
     if observeEndianness && little endian { swap loop } *)
Definition hp_write_bytes_prep (gr : nat -> nat) (cfg : ccfg) (raw : bool) (values : hslice)
  : hpM hslice :=
  hdo c0 <- h_make 0 (hs_len values + 1);
  hdo vs <- hp_load values;
  hdo v1 <- h_append gr c0 vs;
  hdo v2 <- (if Nat.odd (hs_len v1) then h_append gr v1 [0] else hp_ret v1);
  hdo _ <- (if hp_swaps cfg raw then hp_swap_loop (hs_len v2) v2 0 else hp_ret tt);
  hp_ret v2.

(* the pinned upstream writeBytes (before 3f9fcea): no copy, the pad byte is
   appended to and the swap done on the CALLER's slice (finding F4) *)
Definition hp_write_bytes_prep_pinned (gr : nat -> nat) (cfg : ccfg) (raw : bool) (values : hslice)
  : hpM hslice :=
  hdo v2 <- (if Nat.odd (hs_len values) then h_append gr values [0] else hp_ret values);
  hdo _ <- (if hp_swaps cfg raw then hp_swap_loop (hs_len v2) v2 0 else hp_ret tt);
  hp_ret v2.

(* writeRegisters(addr, values) up to executeRequest: the checks, then
     req.payload = uint16ToBytes(BIG_ENDIAN, addr)
     req.payload = append(req.payload, uint16ToBytes(BIG_ENDIAN, quantity)...)
     req.payload = append(req.payload, byte(payloadLength))
     req.payload = append(req.payload, values...) *)
Definition hp_write_registers (gr : nat -> nat) (cfg : ccfg) (a : N) (values : hslice)
  : hpM (result hp_pdu) :=
  let len := N.of_nat (hs_len values) in
  if 246 <? len then hp_ret (Err EParams)
  else
    let quantity := u16 len / 2 in
    if quantity =? 0 then hp_ret (Err EParams)
    else if 123 <? quantity then hp_ret (Err EParams)
    else if 65535 <? a + quantity - 1 then hp_ret (Err EParams)
    else
      hdo p0 <- hp_fresh_bytes (be16 a);
      hdo t1 <- hp_fresh_bytes (be16 quantity);
      hdo x1 <- hp_load t1;
      hdo p1 <- h_append gr p0 x1;
      hdo p2 <- h_append gr p1 [u8 (u16 len)];
      hdo vs <- hp_load values;
      hdo p3 <- h_append gr p2 vs;
      hp_ret (Ok (mkhq (c_unit cfg) 16 p3)).

(* for _, value := range values { payload = append(payload, uintNToBytes(..., value)...) }
   n iterations left, the next one reads values[i] *)
Fixpoint hp_encode_loop (gr : nat -> nat) (cfg : ccfg) (w : N) (values : hslice) (n i : nat)
  (payload : hslice) : hpM hslice :=
  match n with
  | O => hp_ret payload
  | S n' =>
      hdo v <- h_get values i;
      hdo b <- hp_fresh_bytes (enc_value cfg w v);
      hdo x <- hp_load b;
      hdo payload' <- h_append gr payload x;
      hp_encode_loop gr cfg w values n' (i + 1) payload'
  end.

(* WriteCoils up to executeRequest *)
Definition hp_write_coils (gr : nat -> nat) (cfg : ccfg) (a : N) (values : hslice)
  : hpM (result hp_pdu) :=
  let len := N.of_nat (hs_len values) in
  if 1968 <? len then hp_ret (Err EParams)
  else
    let quantity := u16 len in
    if quantity =? 0 then hp_ret (Err EParams)
    else if 1968 <? quantity then hp_ret (Err EParams)
    else if 65535 <? a + quantity - 1 then hp_ret (Err EParams)
    else
      hdo enc <- hp_encode_bools values;
      hdo p0 <- hp_fresh_bytes (be16 a);
      hdo t1 <- hp_fresh_bytes (be16 quantity);
      hdo x1 <- hp_load t1;
      hdo p1 <- h_append gr p0 x1;
      hdo p2 <- h_append gr p1 [u8 (N.of_nat (hs_len enc))];
      hdo ev <- hp_load enc;
      hdo p3 <- h_append gr p2 ev;
      hp_ret (Ok (mkhq (c_unit cfg) 15 p3)).

(* the calls: those taking a slice argument, and all the others *)
Inductive hp_op :=
| HpWriteBytes (raw : bool) (a : N) (s : hslice)    (* WriteBytes / WriteRawBytes *)
| HpWriteCoils (a : N) (s : hslice)
| HpWriteRegs (w : N) (a : N) (s : hslice)          (* WriteRegisters, WriteUint32s/Float32s, WriteUint64s/Float64s: w = 1, 2, 4 *)
| HpOther (o : op).                                 (* reads, single-value writes *)

(* the call as the value-level model sees it: the slice argument read at the
   time of the call *)
Definition hp_value_op (o : hp_op) (h : hp_heap) : op :=
  match o with
  | HpWriteBytes raw a s => OpWriteBytes raw a (h_read s h)
  | HpWriteCoils a s => OpWriteCoils a (map hp_bool (h_read s h))
  | HpWriteRegs w a s => OpWriteRegs w a (h_read s h)
  | HpOther o' => o'
  end.

(* pinned = true selects the pinned writeBytes *)
Definition hp_request (pinned : bool) (gr : nat -> nat) (cfg : ccfg) (o : hp_op)
  : hpM (result hp_pdu) :=
  match o with
  | HpWriteBytes raw a s =>
      hdo v <- (if pinned then hp_write_bytes_prep_pinned gr cfg raw s
                else hp_write_bytes_prep gr cfg raw s);
      hp_write_registers gr cfg a v
  | HpWriteCoils a s => hp_write_coils gr cfg a s
  | HpWriteRegs w a s =>
      (* var payload []byte: the nil slice *)
      hdo payload <- hp_encode_loop gr cfg w s (hs_len s) 0 hs_nil;
      hp_write_registers gr cfg a payload
  | HpOther o' =>
      (* no slice argument: the request payload is a new slice holding the
         bytes the value-level model computes *)
      match client_request cfg o' with
      | Ok req =>
          hdo p <- hp_fresh_bytes (p_payload req);
          hp_ret (Ok (mkhq (p_unit req) (p_fc req) p))
      | Err x => hp_ret (Err x)
      | Panic => hp_ret Panic
      | OutOfFuel => hp_ret OutOfFuel
      end
  end.

(* ------------------------------------------------------------ transports *)

(* assembleMBAPFrame / assembleRTUFrame *)
Definition hp_assemble (gr : nat -> nat) (fr : framing) (txn : N) (p : hp_pdu) : hpM hslice :=
  match fr with
  | FMbap =>
      hdo f0 <- hp_fresh_bytes (be16 txn);
      hdo f1 <- h_append gr f0 [0; 0];
      hdo t <- hp_fresh_bytes (be16 (u16 (2 + N.of_nat (hs_len (hq_payload p)))));
      hdo x <- hp_load t;
      hdo f2 <- h_append gr f1 x;
      hdo f3 <- h_append gr f2 [hq_unit p];
      hdo f4 <- h_append gr f3 [hq_fc p];
      hdo pl <- hp_load (hq_payload p);
      h_append gr f4 pl
  | FRtu =>
      hdo a1 <- h_append gr hs_nil [hq_unit p];
      hdo a2 <- h_append gr a1 [hq_fc p];
      hdo pl <- hp_load (hq_payload p);
      hdo a3 <- h_append gr a2 pl;
      hdo adu <- hp_load a3;
      hdo c <- hp_fresh_bytes (crc_bytes adu);      (* crc.value() *)
      hdo cv <- hp_load c;
      h_append gr a3 cv
  end.

(* the reception of the response res (the frame the value-level transport
   model accepts), as far as memory is concerned:
   readMBAPFrame: rxbuf = make([]byte, 7) for the header, then
     rxbuf = make([]byte, bytesNeeded); io.ReadFull; payload: rxbuf[1:]
   readRTUFrame: rxbuf = make([]byte, 256); io.ReadFull into rxbuf[0:3] and
     rxbuf[3:3+bytesNeeded]; payload: rxbuf[2:3+bytesNeeded-2]
   Buffers of frames that are skipped or rejected are garbage at once and
   are left out. *)
Definition hp_rx_buffer (fr : framing) (txn : N) (res : pdu) : hpM hslice :=
  match fr with
  | FMbap =>
      hdo hdr <- h_make 7 7;
      hdo _ <- h_copy hdr (firstn 7 (assemble_mbap txn res));
      let n := S (length (p_payload res)) in
      hdo rxbuf <- h_make n n;
      hdo _ <- h_copy rxbuf (p_fc res :: p_payload res);
      h_slice rxbuf 1 n
  | FRtu =>
      hdo rxbuf <- h_make 256 256;
      hdo _ <- h_copy rxbuf (assemble_rtu res);
      h_slice rxbuf 2 (2 + length (p_payload res))
  end.

(* what a successful call returns *)
Inductive hp_value :=
| HvUnit
| HvBools (s : hslice)
| HvNums (s : hslice)
| HvBytes (s : hslice).

(* where the returned data lives, once the reply has been validated *)
Definition hp_build_result (gr : nat -> nat) (cfg : ccfg) (o : op) (payload : hslice)
  : hpM (result hp_value) :=
  match o with
  | OpReadBools di a q =>
      (* decodeBools(quantity, res.payload[1:]): out = append(out, bit) *)
      hdo data <- h_slice payload 1 (hs_len payload);
      hdo bs <- hp_load data;
      match decode_bools (N.to_nat q) bs with
      | Some l =>
          hdo out <- hp_append_each gr hs_nil (map N.b2n l);
          hp_ret (Ok (HvBools out))
      | None => hp_panic
      end
  | OpReadRegs w a q rt =>
      (* bytes = res.payload[1:]; bytesToUintNs: out = append(out, value) *)
      hdo data <- h_slice payload 1 (hs_len payload);
      hdo bs <- hp_load data;
      match (if w =? 1 then bytes_to_u16s (c_endian cfg) bs
             else if w =? 2 then bytes_to_u32s (c_endian cfg) (c_word cfg) bs
             else bytes_to_u64s (c_endian cfg) (c_word cfg) bs) with
      | Some l =>
          hdo out <- hp_append_each gr hs_nil l;
          hp_ret (Ok (HvNums out))
      | None => hp_panic
      end
  | OpReadBytes raw a q rt =>
      (* values = res.payload[1:]; swap in place; values[0:len(values)-1] *)
      hdo values <- h_slice payload 1 (hs_len payload);
      hdo _ <- (if hp_swaps cfg raw then hp_swap_loop (hs_len values) values 0 else hp_ret tt);
      if q mod 2 =? 1 then
        (if (hs_len values =? 0)%nat then hp_panic
         else hdo v' <- h_slice values 0 (hs_len values - 1); hp_ret (Ok (HvBytes v')))
      else hp_ret (Ok (HvBytes values))
  | _ => hp_ret (Ok HvUnit)
  end.

(* from the accepted frame to the value returned to the caller *)
Definition hp_receive (gr : nat -> nat) (fr : framing) (cfg : ccfg) (txn : N) (o : op)
  (req res : pdu) : hpM (result hp_value) :=
  hdo payload <- hp_rx_buffer fr txn res;
  match unit_check req res with
  | Some x => hp_ret (Err x)
  | None =>
      hdo pv <- hp_load payload;
      match client_validate cfg o req (mkpdu (p_unit res) (p_fc res) pv) with
      | Ok _ => hp_build_result gr cfg o payload
      | Err x => hp_ret (Err x)
      | Panic => hp_ret Panic
      | OutOfFuel => hp_ret OutOfFuel
      end
  end.

Record hp_callres := mkhr {
  hr_res : result hp_value;
  hr_writes : list (list N);     (* the frames handed to Write *)
  hr_rest : list N;
  hr_txn : N
}.

(* one public call on heap h. A panic is caught here and reported as the
   result Panic, together with the heap it left behind. *)
Definition hp_call_gen (pinned : bool) (gr : nat -> nat) (fr : framing) (cfg : ccfg) (txn : N)
  (o : hp_op) (e : send) (s : list N) (h : hp_heap) : hp_callres * hp_heap :=
  let vo := hp_value_op o h in
  match hp_request pinned gr cfg o h with
  | HpPanic h1 => (mkhr Panic [] s txn, h1)
  | HpVal (Err x) h1 => (mkhr (Err x) [] s txn, h1)
  | HpVal Panic h1 => (mkhr Panic [] s txn, h1)
  | HpVal OutOfFuel h1 => (mkhr OutOfFuel [] s txn, h1)
  | HpVal (Ok req) h1 =>
      let txn' := match fr with FMbap => u16 (txn + 1) | FRtu => txn end in
      match hp_assemble gr fr txn' req h1 with
      | HpPanic h2 => (mkhr Panic [] s txn', h2)
      | HpVal frame h2 =>
          let sent := h_read frame h2 in                    (* Write(frame) *)
          let reqv := mkpdu (hq_unit req) (hq_fc req) (h_read (hq_payload req) h2) in
          let '(r, _, rest, _) := transport_exchange fr txn reqv e s in
          match r with
          | Ok res =>
              match hp_receive gr fr cfg txn' vo reqv res h2 with
              | HpVal v h3 => (mkhr v [sent] rest txn', h3)
              | HpPanic h3 => (mkhr Panic [sent] rest txn', h3)
              end
          | Err x => (mkhr (Err x) [sent] rest txn', h2)
          | Panic => (mkhr Panic [sent] rest txn', h2)
          | OutOfFuel => (mkhr OutOfFuel [sent] rest txn', h2)
          end
      end
  end.

Definition hp_call := hp_call_gen false.
Definition hp_call_pinned := hp_call_gen true.

(* ------------------------------------------------------------- histories *)

(* one client, one connection: heap, transaction counter, unread peer bytes,
   and every slice returned so far (newest first) *)
Record hp_client := mkhc {
  hc_heap : hp_heap;
  hc_txn : N;
  hc_left : list N;
  hc_results : list hslice
}.

Inductive hp_event :=
| HeAlloc (xs : list N)       (* the caller allocates an array (an argument to come) *)
| HeCall (cfg : ccfg) (o : hp_op) (e : send) (chunk : list N).
                              (* a call under the given settings; the peer sends chunk *)

Definition hv_slices (v : result hp_value) : list hslice :=
  match v with
  | Ok (HvBools s) | Ok (HvNums s) | Ok (HvBytes s) => [s]
  | _ => []
  end.

Definition hp_step (gr : nat -> nat) (fr : framing) (c : hp_client) (ev : hp_event) : hp_client :=
  match ev with
  | HeAlloc xs => mkhc (hc_heap c ++ [xs]) (hc_txn c) (hc_left c) (hc_results c)
  | HeCall cfg o e chunk =>
      let '(r, h') := hp_call gr fr cfg (hc_txn c) o e (hc_left c ++ chunk) (hc_heap c) in
      mkhc h' (hr_txn r) (hr_rest r) (hv_slices (hr_res r) ++ hc_results c)
  end.

Definition hp_run (gr : nat -> nat) (fr : framing) (c : hp_client) (evs : list hp_event)
  : hp_client := fold_left (hp_step gr fr) evs c.

(* a growth policy resembling Go's (double small slices), used by the
   extracted model; any other would do *)
Definition hp_gr_double (n : nat) : nat := if (n <? 256)%nat then n else (n / 4)%nat.
