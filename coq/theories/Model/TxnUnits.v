(* A history of exchanges on ONE client and ONE connection in which the
   application changes the unit id between requests (client.go: SetUnitId -
   one client and one MBAP connection used for several units, e.g. the serial
   devices behind a gateway).

   SetUnitId only replaces the unit id that the FOLLOWING requests are
   addressed to (mc.unitId). It does not touch the transport: the transaction
   counter (tt.lastTxnId) belongs to the connection, not to a unit - it keeps
   counting across unit changes - and the unread peer bytes stay where they
   are. So a step of such a history is either one call of Model/TxnHistory.v
   under the unit id currently set, or a unit change.

   No proofs here. *)
From Modbus Require Import Base.Bytes Model.Wire Model.Client Model.TxnHistory.

Inductive thu_step :=
| UCall (x : th_step)      (* one public call *)
| USetUnit (u : N).        (* SetUnitId(u) *)

(* only the unit id changes; byte and word order stay *)
Definition thu_set_unit (cfg : ccfg) (u : N) : ccfg :=
  mkcfg u (c_endian cfg) (c_word cfg).

(* state: the client's configuration and the connection state of
   Model/TxnHistory.v (counter, unread bytes, end of stream) *)
Definition histu_step (fr : framing) (cs : ccfg * th_state) (x : thu_step)
  : (ccfg * th_state) * option call_result :=
  match x with
  | UCall c => let '(st', r) := hist_step fr (fst cs) (snd cs) c in ((fst cs, st'), Some r)
  | USetUnit u => ((thu_set_unit (fst cs) u, snd cs), None)
  end.

(* per step: the outcome of the call, None for a unit change *)
Fixpoint histu_run (fr : framing) (cs : ccfg * th_state) (xs : list thu_step)
  : list (option call_result) :=
  match xs with
  | [] => []
  | x :: t => let '(cs', r) := histu_step fr cs x in r :: histu_run fr cs' t
  end.

Fixpoint histu_final (fr : framing) (cs : ccfg * th_state) (xs : list thu_step)
  : ccfg * th_state :=
  match xs with
  | [] => cs
  | x :: t => histu_final fr (fst (histu_step fr cs x)) t
  end.
