(* Model of the constructors and of the scheme-to-transport wiring:
   client.go NewClient / Open / SetEncoding, server.go NewServer,
   transport.go. Strings are byte lists. No proofs here. *)
From Modbus Require Import Base.Bytes.

(* ------------------------------------------------------------- strings *)

(* "://" *)
Definition url_sep : list N := [58; 47; 47].

(* strings.HasPrefix(s, p) *)
Fixpoint has_prefix (p s : list N) : bool :=
  match p, s with
  | [], _ => true
  | x :: p', y :: s' => andb (x =? y) (has_prefix p' s')
  | _ :: _, [] => false
  end.

(* strings.SplitN(u, "://", 2): cut at the FIRST (leftmost) occurrence of the
   separator; None stands for the one-element result (separator absent) *)
Fixpoint split_url (u : list N) : option (list N * list N) :=
  match u with
  | [] => None
  | c :: t =>
      if has_prefix url_sep u then Some ([], skipn 3 u)
      else match split_url t with
           | Some (a, b) => Some (c :: a, b)
           | None => None
           end
  end.

(* ------------------------------------------------------ transport kinds *)

(* transport.go:3-11 *)
Inductive tkind :=
| TRtu | TRtuOverTcp | TRtuOverUdp | TTcp | TTcpOverTls | TTcpOverUdp.

Definition tkind_code (t : tkind) : N :=
  match t with
  | TRtu => 1 | TRtuOverTcp => 2 | TRtuOverUdp => 3
  | TTcp => 4 | TTcpOverTls => 5 | TTcpOverUdp => 6
  end.

(* the case labels of the switch on the text before "://" *)
Definition nm_rtu : list N := [114; 116; 117].
Definition nm_rtuovertcp : list N := [114; 116; 117; 111; 118; 101; 114; 116; 99; 112].
Definition nm_rtuoverudp : list N := [114; 116; 117; 111; 118; 101; 114; 117; 100; 112].
Definition nm_tcp : list N := [116; 99; 112].
Definition nm_tcptls : list N := [116; 99; 112; 43; 116; 108; 115].
Definition nm_udp : list N := [117; 100; 112].

(* which case of `switch clientType` is taken (None: the default branch) *)
Definition kind_of_name (s : list N) : option tkind :=
  if list_eqb s nm_rtu then Some TRtu
  else if list_eqb s nm_rtuovertcp then Some TRtuOverTcp
  else if list_eqb s nm_rtuoverudp then Some TRtuOverUdp
  else if list_eqb s nm_tcp then Some TTcp
  else if list_eqb s nm_tcptls then Some TTcpOverTls
  else if list_eqb s nm_udp then Some TTcpOverUdp
  else None.

(* ------------------------------------------------------------- results *)

Inductive cfg_err :=
| EConfig               (* ErrConfigurationError *)
| EUnexpectedParams.    (* the unexpected-params error of SetEncoding *)

Inductive cfg_result (A : Type) :=
| CfgOk (a : A)
| CfgErr (e : cfg_err).
Arguments CfgOk {A} a.
Arguments CfgErr {A} e.

(* durations are int64 nanoseconds *)
Definition msec : Z := 1000000%Z.
Definition sec : Z := 1000000000%Z.

(* `if x == 0 { x = d }` *)
Definition dfl (x d : N) : N := if x =? 0 then d else x.
Definition dflz (x d : Z) : Z := if (x =? 0)%Z then d else x.

(* -------------------------------------------------------------- client *)

Record client_conf := mkcc {
  cc_url : list N;
  cc_speed : N;
  cc_data_bits : N;
  cc_parity : N;
  cc_stop_bits : N;
  cc_timeout : Z;
  cc_has_cert : bool;      (* TLSClientCert != nil *)
  cc_has_cas : bool        (* TLSRootCAs != nil *)
}.

(* what VerifClientConfig reads back *)
Record client_eff := mkce {
  ce_url : list N;
  ce_speed : N;
  ce_data_bits : N;
  ce_parity : N;
  ce_stop_bits : N;
  ce_timeout : Z;
  ce_unit : N;
  ce_endianness : N;
  ce_word_order : N;
  ce_transport : tkind
}.

(* the text before the first "://" and the URL kept in the object:
   `if len(splitURL) == 2 { clientType = splitURL[0]; conf.URL = splitURL[1] }` *)
Definition url_parts (u : list N) : list N * list N :=
  match split_url u with
  | Some (a, b) => (a, b)
  | None => ([], u)
  end.

(* NewClient *)
Definition new_client (c : client_conf) : cfg_result client_eff :=
  let '(ctype, url) := url_parts (cc_url c) in
  let mk speed data stop timeout t :=
    CfgOk (mkce url speed data (cc_parity c) stop timeout 1 1 1 t) in
  match kind_of_name ctype with
  | Some TRtu =>
      mk (dfl (cc_speed c) 19200)
         (dfl (cc_data_bits c) 8)
         (if cc_stop_bits c =? 0
          then (if cc_parity c =? 0 then 2 else 1)
          else cc_stop_bits c)
         (dflz (cc_timeout c) (300 * msec))
         TRtu
  | Some TRtuOverTcp =>
      mk (dfl (cc_speed c) 19200) (cc_data_bits c) (cc_stop_bits c)
         (dflz (cc_timeout c) (1 * sec)) TRtuOverTcp
  | Some TRtuOverUdp =>
      mk (dfl (cc_speed c) 19200) (cc_data_bits c) (cc_stop_bits c)
         (dflz (cc_timeout c) (1 * sec)) TRtuOverUdp
  | Some TTcp =>
      mk (cc_speed c) (cc_data_bits c) (cc_stop_bits c)
         (dflz (cc_timeout c) (1 * sec)) TTcp
  | Some TTcpOverTls =>
      if negb (cc_has_cert c) then CfgErr EConfig
      else if negb (cc_has_cas c) then CfgErr EConfig
      else mk (cc_speed c) (cc_data_bits c) (cc_stop_bits c)
              (dflz (cc_timeout c) (1 * sec)) TTcpOverTls
  | Some TTcpOverUdp =>
      mk (cc_speed c) (cc_data_bits c) (cc_stop_bits c)
         (dflz (cc_timeout c) (1 * sec)) TTcpOverUdp
  | None => CfgErr EConfig
  end.

(* -------------------------------------------------------------- wiring *)

Inductive sock_kind := KTcp | KTls | KUdp | KSerial.
Inductive frame_kind := KMbap | KRtu.

(* what Open() builds for each transport type: the socket it dials and the
   transport (newTCPTransport = MBAP framing, newRTUTransport = RTU framing
   with CRC) it puts on top *)
Definition wiring (t : tkind) : sock_kind * frame_kind :=
  match t with
  | TRtu => (KSerial, KRtu)
  | TRtuOverTcp => (KTcp, KRtu)
  | TRtuOverUdp => (KUdp, KRtu)
  | TTcp => (KTcp, KMbap)
  | TTcpOverTls => (KTls, KMbap)
  | TTcpOverUdp => (KUdp, KMbap)
  end.

(* -------------------------------------------------------------- server *)

Record server_conf := mksc {
  sc_url : list N;
  sc_timeout : Z;
  sc_max_clients : N;
  sc_has_cert : bool;      (* TLSServerCert != nil *)
  sc_has_cas : bool        (* TLSClientCAs != nil *)
}.

Record server_eff := mkse {
  se_url : list N;
  se_timeout : Z;
  se_max_clients : N;
  se_transport : tkind
}.

(* NewServer: the empty-URL test comes before the switch on the scheme *)
Definition new_server (c : server_conf) : cfg_result server_eff :=
  let '(stype, url) := url_parts (sc_url c) in
  match url with
  | [] => CfgErr EConfig
  | _ :: _ =>
      let mk t := CfgOk (mkse url (dflz (sc_timeout c) (120 * sec))
                              (dfl (sc_max_clients c) 10) t) in
      match kind_of_name stype with
      | Some TTcp => mk TTcp
      | Some TTcpOverTls =>
          if negb (sc_has_cert c) then CfgErr EConfig
          else if negb (sc_has_cas c) then CfgErr EConfig
          else mk TTcpOverTls
      | _ => CfgErr EConfig
      end
  end.

(* Start(): both server transports bind a TCP listener on the kept URL; the
   session layer speaks MBAP (inside TLS for tcp+tls) *)
Definition server_wiring (t : tkind) : option (sock_kind * frame_kind) :=
  match t with
  | TTcp => Some (KTcp, KMbap)
  | TTcpOverTls => Some (KTls, KMbap)
  | _ => None
  end.

(* --------------------------------------------------------- SetEncoding *)

Record enc_state := mkes { es_endianness : N; es_word_order : N }.

(* the state NewClient leaves: BIG_ENDIAN, HIGH_WORD_FIRST *)
Definition enc_init : enc_state := mkes 1 1.

(* SetEncoding: the new state and the returned error (None = nil). The byte
   order selector is tested first, then the word order selector. *)
Definition set_encoding (st : enc_state) (e w : N) : enc_state * option cfg_err :=
  if andb (negb (e =? 1)) (negb (e =? 2)) then (st, Some EUnexpectedParams)
  else if andb (negb (w =? 1)) (negb (w =? 2)) then (st, Some EUnexpectedParams)
  else (mkes e w, None).
