(* Model of encoding.go. Floats are their IEEE bit patterns (math.Float32bits
   etc. are the identity on bits), so the float codecs coincide with the
   integer ones. No proofs here. *)
From Modbus Require Import Base.Bytes.

Inductive endian := BigE | LittleE.
Inductive wordorder := HighFirst | LowFirst.

Definition endian_sel (e : endian) : N := match e with BigE => 1 | LittleE => 2 end.
Definition word_sel (w : wordorder) : N := match w with HighFirst => 1 | LowFirst => 2 end.

(* byte k (0 = least significant) of v *)
Definition byte_of (v : N) (k : N) : N := (v / 2 ^ (8 * k)) mod 256.

(* uint16ToBytes *)
Definition u16_to_bytes (e : endian) (v : N) : list N :=
  match e with
  | BigE => [byte_of v 1; byte_of v 0]
  | LittleE => [byte_of v 0; byte_of v 1]
  end.

(* uint16sToBytes *)
Definition u16s_to_bytes (e : endian) (vs : list N) : list N :=
  flat_map (u16_to_bytes e) vs.

(* bytesToUint16: binary.{Big,Little}Endian.Uint16 reads in[0], in[1] and
   panics (None) on a shorter slice *)
Definition bytes_to_u16 (e : endian) (l : list N) : option N :=
  match l with
  | a :: b :: _ =>
      Some (match e with BigE => a * 256 + b | LittleE => b * 256 + a end)
  | _ => None
  end.

(* bytesToUint16s: for i := 0; i < len(in); i += 2 { in[i:i+2] } *)
Fixpoint bytes_to_u16s (e : endian) (l : list N) : option (list N) :=
  match l with
  | [] => Some []
  | a :: b :: t =>
      match bytes_to_u16s e t with
      | Some r => Some ((match e with BigE => a * 256 + b | LittleE => b * 256 + a end) :: r)
      | None => None
      end
  | _ => None
  end.

Definition be_val (l : list N) : N := fold_left (fun acc b => acc * 256 + b) l 0.

(* uint32ToBytes *)
Definition u32_to_bytes (e : endian) (w : wordorder) (v : N) : list N :=
  let b k := byte_of v k in
  match e, w with
  | BigE, HighFirst => [b 3; b 2; b 1; b 0]
  | BigE, LowFirst => [b 1; b 0; b 3; b 2]
  | LittleE, LowFirst => [b 0; b 1; b 2; b 3]
  | LittleE, HighFirst => [b 2; b 3; b 0; b 1]
  end.

(* one iteration of bytesToUint32s on in[i..i+3] *)
Definition dec_u32 (e : endian) (w : wordorder) (a b c d : N) : N :=
  match e, w with
  | BigE, HighFirst => be_val [a; b; c; d]
  | BigE, LowFirst => be_val [c; d; a; b]
  | LittleE, LowFirst => be_val [d; c; b; a]
  | LittleE, HighFirst => be_val [b; a; d; c]
  end.

Fixpoint bytes_to_u32s (e : endian) (w : wordorder) (l : list N) : option (list N) :=
  match l with
  | [] => Some []
  | a :: b :: c :: d :: t =>
      match bytes_to_u32s e w t with
      | Some r => Some (dec_u32 e w a b c d :: r)
      | None => None
      end
  | _ => None
  end.

(* uint64ToBytes *)
Definition u64_to_bytes (e : endian) (w : wordorder) (v : N) : list N :=
  let b k := byte_of v k in
  match e, w with
  | BigE, HighFirst => [b 7; b 6; b 5; b 4; b 3; b 2; b 1; b 0]
  | BigE, LowFirst => [b 1; b 0; b 3; b 2; b 5; b 4; b 7; b 6]
  | LittleE, LowFirst => [b 0; b 1; b 2; b 3; b 4; b 5; b 6; b 7]
  | LittleE, HighFirst => [b 6; b 7; b 4; b 5; b 2; b 3; b 0; b 1]
  end.

Definition dec_u64 (e : endian) (w : wordorder) (i0 i1 i2 i3 i4 i5 i6 i7 : N) : N :=
  match e, w with
  | BigE, HighFirst => be_val [i0; i1; i2; i3; i4; i5; i6; i7]
  | BigE, LowFirst => be_val [i6; i7; i4; i5; i2; i3; i0; i1]
  | LittleE, LowFirst => be_val [i7; i6; i5; i4; i3; i2; i1; i0]
  | LittleE, HighFirst => be_val [i1; i0; i3; i2; i5; i4; i7; i6]
  end.

Fixpoint bytes_to_u64s (e : endian) (w : wordorder) (l : list N) : option (list N) :=
  match l with
  | [] => Some []
  | i0 :: i1 :: i2 :: i3 :: i4 :: i5 :: i6 :: i7 :: t =>
      match bytes_to_u64s e w t with
      | Some r => Some (dec_u64 e w i0 i1 i2 i3 i4 i5 i6 i7 :: r)
      | None => None
      end
  | _ => None
  end.

(* encodeBools: out[i/8] |= 1 << (i%8) *)
Definition bits_byte (l : list bool) : N :=
  fold_right (fun b acc => N.b2n b + 2 * acc) 0 l.

Fixpoint encode_bools_fuel (fuel : nat) (l : list bool) : list N :=
  match fuel with
  | O => []
  | S f =>
      match l with
      | [] => []
      | _ => bits_byte (firstn 8 l) :: encode_bools_fuel f (skipn 8 l)
      end
  end.

Definition encode_bools (l : list bool) : list N := encode_bools_fuel (length l) l.

(* decodeBools(quantity, in): in[i/8] panics (None) when out of range *)
Definition decode_bool_at (bs : list N) (i : nat) : option bool :=
  match nth_error bs (i / 8) with
  | Some b => Some (N.testbit b (N.of_nat (i mod 8)))
  | None => None
  end.

Fixpoint sequence {A} (l : list (option A)) : option (list A) :=
  match l with
  | [] => Some []
  | Some x :: t => match sequence t with Some r => Some (x :: r) | None => None end
  | None :: _ => None
  end.

Definition decode_bools (q : nat) (bs : list N) : option (list bool) :=
  sequence (map (decode_bool_at bs) (seq 0 q)).
