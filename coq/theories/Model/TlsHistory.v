(* Modbus/TLS (tcp+tls): ONE server object and the HISTORY of the connection
   attempts it takes, one after the other. Model only, no proofs.

   Model/TlsPolicy.v describes a single connection attempt (tls_server_conn).
   The property speaks of every peer a server invokes a handler for, hence of
   every attempt a server instance ever sees, whatever it saw before: a
   verifying client may have sent, along with its own chain, any further
   certificates (crypto/tls hands all of them to the application in
   ConnectionState.PeerCertificates, whether the verifier used them or not),
   and the next peer may hold a certificate that chains to one of those only.

   Modelled from the repository:
     server.go NewServer keeps the configuration (ms.conf); acceptTCPClients /
     handleTCPClient / startTLS build a NEW tls.Config for every accepted
     socket from ms.conf.TLSServerCert and ms.conf.TLSClientCAs, use
     connState.PeerCertificates[0] for the role and keep nothing else of the
     session: the server object an attempt leaves behind is the object it
     found. Hence the object below is its configuration, and the step function
     returns it unchanged; a server that remembered anything of a handshake
     would need a field here and a step function that writes it.
   The handler object is shared by all the connections of a server: what
   earlier sessions made of its state is not tracked, every attempt carries
   the state it finds (tat_state), so that statements about a history hold for
   whatever the earlier sessions did to the handler. *)
From Modbus Require Import Base.Bytes Model.Wire Model.Client Model.Server Model.Role Model.Config
  Model.TlsPolicy.

(* what NewServer returns, as far as TLS is concerned *)
Record tls_srv_obj := mk_tls_srv_obj {
  tso_conf : tls_srv_conf                   (* ms.conf *)
}.

Definition tls_new_obj (c : tls_srv_conf) : tls_srv_obj := mk_tls_srv_obj c.

(* the tls.Config startTLS builds on this object for the next accepted socket *)
Definition tls_policy_of_obj (o : tls_srv_obj) : tls_policy := tls_policy_of_server (tso_conf o).

(* one accepted socket: the remote end (with the chain it presents on THIS
   connection), the state the handler object is in, the application bytes the
   peer sends *)
Record tls_attempt (St : Type) := mk_tls_attempt {
  tat_peer : tls_peer;
  tat_state : St;
  tat_stream : list N
}.
Arguments mk_tls_attempt {St} _ _ _.
Arguments tat_peer {St} _.
Arguments tat_state {St} _.
Arguments tat_stream {St} _.

Section Oracles.
  (* Go's crypto/tls: tls.Server(..).Handshake() under a tls.Config *)
  Variable tls_handshake_srv : tls_policy -> tls_peer -> option tls_session.

  Section WithRoleHandler.
    Context {St : Type} (h : list N -> handler St).

    (* the reference: the attempt alone, on a server freshly built from
       configuration c (Model/TlsPolicy.v) *)
    Definition tls_attempt_alone (c : tls_srv_conf) (e : send) (a : tls_attempt St) : list event :=
      tls_server_conn tls_handshake_srv h c (tat_peer a) (tat_state a) e (tat_stream a).

    (* handleTCPClient for one accepted socket: the events of the connection
       and the server object afterwards *)
    Definition tls_obj_accept (o : tls_srv_obj) (e : send) (a : tls_attempt St) : tls_srv_obj * list event :=
      (o, tls_server_conn tls_handshake_srv h (tso_conf o) (tat_peer a) (tat_state a) e (tat_stream a)).

    (* the attempts of a history, in the order the server takes them; the
       result lists the events of every attempt in that order *)
    Fixpoint tls_obj_history (o : tls_srv_obj) (e : send) (l : list (tls_attempt St))
      : tls_srv_obj * list (list event) :=
      match l with
      | [] => (o, [])
      | a :: rest =>
          let (o1, evs) := tls_obj_accept o e a in
          let (o2, more) := tls_obj_history o1 e rest in
          (o2, evs :: more)
      end.

    (* NewServer + Start + the history *)
    Definition tls_server_history (c : tls_srv_conf) (e : send) (l : list (tls_attempt St)) : list (list event) :=
      snd (tls_obj_history (tls_new_obj c) e l).
  End WithRoleHandler.
End Oracles.
