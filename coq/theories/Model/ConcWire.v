(* The wire of one shared client as a (slow) device sees it (C08, scenario
   "concslow"): one event when a whole request frame has been handed to the
   socket, one event when the reply read of that request is over - the reply
   has been taken off the socket, or the i/o deadline armed for the exchange
   has passed (the caller has given up on it).

   cw_atomic is the executable check of "at most one request outstanding,
   every request followed by the end of ITS exchange before the next request":
   it is run by the model side on the event sequence the harness recorded on
   the real client. cw_proj reads the same events off an execution of the
   interleaving semantics of Model/Conc.v (thread index = who). No proofs here
   (Proofs/ConcWireP.v); cw_atomic is extracted. *)
From Coq Require Import List Bool Arith.
Import ListNotations.
From Modbus Require Import Model.Conc.

Inductive wev :=
| WReq (k : nat)      (* request k: one whole frame, one Write call *)
| WEnd (k : nat).     (* the reply read of request k is over *)

(* o = the request that is outstanding *)
Fixpoint cw_run (o : option nat) (l : list wev) : bool :=
  match l with
  | [] => true
  | WReq k :: r => match o with None => cw_run (Some k) r | Some _ => false end
  | WEnd k :: r => match o with Some j => Nat.eqb j k && cw_run None r | None => false end
  end.

Definition cw_atomic (l : list wev) : bool := cw_run None l.

(* the wire events of an execution of Model/Conc.v *)
Fixpoint cw_proj (evs : list cevent) : list wev :=
  match evs with
  | [] => []
  | (i, ATx) :: r => WReq i :: cw_proj r
  | (i, ARx) :: r => WEnd i :: cw_proj r
  | _ :: r => cw_proj r
  end.
