(* C18 across the life cycle of the client handle: the histories of
   Model/Heap.v (calls and caller allocations on ONE connection) extended by
   the calls on the same client that are not requests - Close() and Open().

   As far as memory is concerned (client.go: Open, Close; tcp_transport.go /
   rtu_transport.go / tls_utils.go / udp.go: Close):
   - Close() closes the socket of the current transport object. It has no
     slice argument and returns none; nothing the caller can reach is stored
     to: the heap is left as it is. The transport object stays in place, and
     every later call on it builds and checks its request (client.go), then
     fails at SetDeadline - before the transaction counter is touched, before
     anything is written or read (Model/Handle.v);
   - Open() dials a new connection and installs a NEW transport object
     (transaction counter 0, nothing unread, whatever the state of the previous
     one - open, closed, ended by the peer). Nothing the caller can reach is
     stored to either.
   The state of the peer's end of the current connection is kept too: once the
     peer has closed / reset the connection, it stays so until the next Open().

   No proofs here. *)
From Coq Require Import Arith.
From Modbus Require Import Base.Bytes Model.Crc Model.Encoding Model.Wire Model.Client Model.Heap.

Record hl_client := mkhl {
  hl_heap : hp_heap;
  hl_txn : N;                   (* transaction counter of the current transport *)
  hl_left : list N;             (* peer bytes received on the current connection, not yet read *)
  hl_end : send;                (* Stall: the peer keeps the connection; Closed / Reset: it ended it *)
  hl_closed : bool;             (* Close() was called on the current transport *)
  hl_results : list hslice      (* every slice returned so far, newest first *)
}.

Inductive hl_event :=
| HlAlloc (xs : list N)         (* the caller allocates an array (an argument to come) *)
| HlCall (cfg : ccfg) (o : hp_op) (e : send) (chunk : list N)
                                (* a request call; the peer sends chunk, then does e *)
| HlClose                       (* Close() *)
| HlOpen.                       (* Open(), successful *)

(* the client after its first Open(), on the caller's heap h *)
Definition hl_init (h : hp_heap) : hl_client := mkhl h 0 [] Stall false [].

(* the peer's end of the connection after one more call *)
Definition hl_end_after (old e : send) : send :=
  match old with Stall => e | _ => old end.

(* a request call on a handle whose transport was closed: the request is
   built (the allocations of the request builders happen), then the transport
   refuses: nothing transmitted, nothing read, counter as it was *)
Definition hl_call_closed (gr : nat -> nat) (cfg : ccfg) (txn : N) (o : hp_op) (left : list N)
  (h : hp_heap) : hp_callres * hp_heap :=
  match hp_request false gr cfg o h with
  | HpPanic h1 => (mkhr Panic [] left txn, h1)
  | HpVal (Ok _) h1 => (mkhr (Err EIO) [] left txn, h1)
  | HpVal (Err x) h1 => (mkhr (Err x) [] left txn, h1)
  | HpVal Panic h1 => (mkhr Panic [] left txn, h1)
  | HpVal OutOfFuel h1 => (mkhr OutOfFuel [] left txn, h1)
  end.

(* one event; for a request call also what the call returned / transmitted *)
Definition hl_step (gr : nat -> nat) (fr : framing) (c : hl_client) (ev : hl_event)
  : hl_client * option hp_callres :=
  match ev with
  | HlAlloc xs =>
      (mkhl (hl_heap c ++ [xs]) (hl_txn c) (hl_left c) (hl_end c) (hl_closed c) (hl_results c), None)
  | HlCall cfg o e chunk =>
      if hl_closed c then
        let '(r, h') := hl_call_closed gr cfg (hl_txn c) o (hl_left c) (hl_heap c) in
        (mkhl h' (hl_txn c) (hl_left c) (hl_end c) true (hl_results c), Some r)
      else
        let e' := hl_end_after (hl_end c) e in
        let '(r, h') := hp_call gr fr cfg (hl_txn c) o e' (hl_left c ++ chunk) (hl_heap c) in
        (mkhl h' (hr_txn r) (hr_rest r) e' false (hv_slices (hr_res r) ++ hl_results c), Some r)
  | HlClose =>
      (mkhl (hl_heap c) (hl_txn c) (hl_left c) (hl_end c) true (hl_results c), None)
  | HlOpen =>
      (mkhl (hl_heap c) 0 [] Stall false (hl_results c), None)
  end.

Definition hl_run (gr : nat -> nat) (fr : framing) (c : hl_client) (evs : list hl_event)
  : hl_client := fold_left (fun c ev => fst (hl_step gr fr c ev)) evs c.

(* a history of Model/Heap.v as a history of this model *)
Definition hl_of_event (ev : hp_event) : hl_event :=
  match ev with
  | HeAlloc xs => HlAlloc xs
  | HeCall cfg o e chunk => HlCall cfg o e chunk
  end.
