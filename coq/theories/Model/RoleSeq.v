(* One running ModbusServer (tcp+tls) and the TLS sessions it accepts one after
   the other.  Model only, no proofs.

   server.go acceptTCPClients / handleTCPClient: every accepted socket gets
   its own call of startTLS on the SAME server object,

     for { sock, err = ms.tcpListener.Accept() ... go ms.handleTCPClient(sock) }
     handleTCPClient: tlsSock, clientRole, err = ms.startTLS(sock)
                      if err == nil { ms.handleTransport(..., clientRole) }

   and startTLS reads ms.conf (TLSServerCert, TLSClientCAs) and the
   tls.ConnectionState of THAT socket only: role =
   extractRole(connState.PeerCertificates[0]).  The server object that is
   handed from one connection to the next is therefore its configuration, and
   no connection leaves anything behind in it: the recursion below carries c
   unchanged.  (A server that remembered something about earlier peers would
   need a state here, and the correspondence run of scenario tlsroleseq would
   disagree with this model.)

   The result has one entry per connection, in the order of the connections:
   None = startTLS returned an error (the connection is closed, no handler is
   ever invoked for it), Some role = the ClientRole every handler invocation
   of that session carries. *)
From Modbus Require Import Base.Bytes Model.Role Model.TlsPolicy.

Section Oracle.
  (* crypto/tls, server side (see Model/TlsPolicy.v) *)
  Variable tls_handshake_srv : tls_policy -> tls_peer -> option tls_session.

  Fixpoint tls_serve_sessions (c : tls_srv_conf) (peers : list tls_peer) : list (option (list N)) :=
    match peers with
    | [] => []
    | peer :: later => tls_start_tls tls_handshake_srv c peer :: tls_serve_sessions c later
    end.
End Oracle.
