(* PDUs, errors, byte streams and the two framings (tcp_transport.go,
   rtu_transport.go). No proofs here. *)
From Modbus Require Import Base.Bytes Model.Crc.

Record pdu := mkpdu { p_unit : N; p_fc : N; p_payload : list N }.

(* the error classes the properties distinguish *)
Inductive err :=
| ETimeout            (* ErrRequestTimedOut (i/o timeouts are mapped to it) *)
| EParams             (* the unexpected-parameters error *)
| EProtocol           (* ErrProtocolError *)
| EBadCRC
| EShortFrame
| EBadUnit
| EExc (code : N)     (* the documented error of a known exception code *)
| EExcUnknown (code : N)
| EUnknownProto       (* ErrUnknownProtocolId, internal to the TCP transport *)
| EIO.                (* any other i/o error: EOF, unexpected EOF *)

Inductive result (A : Type) :=
| Ok (a : A)
| Err (e : err)
| Panic               (* an out-of-range slice/index operation in the Go code *)
| OutOfFuel.          (* artefact of the fuelled loops; proved unreachable *)
Arguments Ok {A} a.
Arguments Err {A} e.
Arguments Panic {A}.
Arguments OutOfFuel {A}.

(* what the peer does once its scripted bytes are used up *)
Inductive send := Stall | Closed | Reset.   (* silence until the deadline | orderly close (EOF) | connection reset *)

(* io.ReadFull on a buffered stream *)
Inductive rf :=
| RFull (got rest : list N)
| RShort (got : list N).     (* fewer than n bytes available: all are consumed *)

Definition read_full (n : nat) (s : list N) : rf :=
  if Nat.leb n (length s) then RFull (firstn n s) (skipn n s) else RShort s.

(* error returned by io.ReadFull when the stream ends early *)
Definition short_err (e : send) : err :=
  match e with Stall => ETimeout | Closed => EIO | Reset => EIO end.

(* ------------------------------------------------------------------ MBAP *)

Definition max_tcp_frame : N := 260.
Definition mbap_header_len : N := 7.

(* assembleMBAPFrame *)
Definition assemble_mbap (txn : N) (p : pdu) : list N :=
  be16 txn ++ [0; 0] ++ be16 (u16 (2 + lenN (p_payload p))) ++ [p_unit p; p_fc p] ++ p_payload p.

Inductive frame_res :=
| FOk (p : pdu) (txn : N)
| FErr (e : err).

(* readMBAPFrame: header, length window, body, then the protocol id test *)
Definition read_mbap (e : send) (s : list N) : frame_res * list N :=
  match read_full 7 s with
  | RShort _ => (FErr (short_err e), [])
  | RFull hdr rest =>
      match hdr with
      | [t1; t0; p1; p0; l1; l0; unit] =>
          let txn := t1 * 256 + t0 in
          let proto := p1 * 256 + p0 in
          let len := l1 * 256 + l0 in
          (* bytesNeeded = len - 1; reject bytesNeeded + 7 > 260 and bytesNeeded <= 0 *)
          if (260 <? len - 1 + 7) then (FErr EProtocol, rest)
          else if (len <=? 1) then (FErr EProtocol, rest)
          else
            match read_full (N.to_nat (len - 1)) rest with
            | RShort _ => (FErr (short_err e), [])
            | RFull body rest' =>
                if negb (proto =? 0) then (FErr EUnknownProto, rest')
                else
                  match body with
                  | fc :: payload => (FOk (mkpdu unit fc payload) txn, rest')
                  | [] => (FErr EProtocol, rest')      (* unreachable: len - 1 >= 1 *)
                  end
            end
      | _ => (FErr EProtocol, rest)                    (* unreachable: 7 bytes *)
      end
  end.

(* readResponse: skip frames with a foreign protocol id or transaction id *)
Fixpoint mbap_read_response (fuel : nat) (e : send) (txn : N) (s : list N)
  : result pdu * list N :=
  match fuel with
  | O => (OutOfFuel, s)
  | S f =>
      match read_mbap e s with
      | (FErr EUnknownProto, s') => mbap_read_response f e txn s'
      | (FErr x, s') => (Err x, s')
      | (FOk p t, s') =>
          if t =? txn then (Ok p, s') else mbap_read_response f e txn s'
      end
  end.

(* ------------------------------------------------------------------ RTU *)

Definition max_rtu_frame : N := 256.

(* assembleRTUFrame *)
Definition assemble_rtu (p : pdu) : list N :=
  let adu := [p_unit p; p_fc p] ++ p_payload p in
  adu ++ crc_bytes adu.

Definition mem (x : N) (l : list N) : bool := existsb (N.eqb x) l.

(* expectedResponseLenth *)
Definition expected_len (fc b2 : N) : option N :=
  if mem fc [3; 4; 1; 2] then Some b2
  else if mem fc [6; 16; 5; 15] then Some 3
  else if fc =? 22 then Some 5
  else if mem fc [0x83; 0x84; 0x81; 0x82; 0x86; 0x90; 0x85; 0x8f; 0x96] then Some 0
  else None.

(* readRTUFrame *)
Definition read_rtu (e : send) (s : list N) : result pdu * list N :=
  match read_full 3 s with
  | RShort got =>
      match got with
      | [] => (Err (short_err e), [])
      | _ => (Err EShortFrame, [])
      end
  | RFull hdr rest =>
      match hdr with
      | [unit; fc; b2] =>
          match expected_len fc b2 with
          | None => (Err EProtocol, rest)
          | Some n =>
              let need := n + 2 in
              if 256 <? 3 + need then (Err EProtocol, rest)
              else
                match read_full (N.to_nat need) rest with
                | RShort got =>
                    (* a timeout is returned as such even after a partial read;
                       EOF after a partial read becomes ErrUnexpectedEOF => short frame *)
                    match e, got with
                    | Stall, _ => (Err ETimeout, [])
                    | Reset, _ => (Err EIO, [])
                    | Closed, [] => (Err EIO, [])
                    | Closed, _ => (Err EShortFrame, [])
                    end
                | RFull body rest' =>
                    let data := firstn (N.to_nat n) body in
                    match skipn (N.to_nat n) body with
                    | [lo; hi] =>
                        if crc_is_equal (crc16 ([unit; fc; b2] ++ data)) lo hi
                        then (Ok (mkpdu unit fc (b2 :: data)), rest')
                        else (Err EBadCRC, rest')
                    | _ => (Panic, rest')                (* unreachable *)
                    end
                end
          end
      | _ => (Panic, rest)                               (* unreachable: 3 bytes *)
      end
  end.

(* ExecuteRequest's resynchronisation: on the three framing errors the link is
   flushed (discard: up to 1024 bytes of what is available) *)
Definition rtu_read_response (e : send) (s : list N) : result pdu * list N :=
  match read_rtu e s with
  | (Err EBadCRC, s') => (Err EBadCRC, skipn 1024 s')
  | (Err EProtocol, s') => (Err EProtocol, skipn 1024 s')
  | (Err EShortFrame, s') => (Err EShortFrame, skipn 1024 s')
  | r => r
  end.
