(* The scripted request handler used by the correspondence harness for the
   server scenarios (the Go side is scriptHandler in harness/cmd/implrun/wire.go):
   the n-th invocation behaves as the n-th entry of the script; data returned
   by a well-behaved invocation is a fixed pattern of the address. Defined in
   Coq so that the extracted model and the in-Coq replay use the same handler. *)
From Modbus Require Import Base.Bytes Model.Encoding Model.Wire Model.Server.

Inductive sh_beh :=
| ShOk          (* result of the right size *)
| ShShort       (* one item too few *)
| ShLong        (* one item too many *)
| ShNil         (* empty result, no error *)
| ShProto       (* ErrProtocolError (with a right-sized result) *)
| ShOther       (* some other error *)
| ShErr (code : N).   (* the modbus error of this exception code *)

Definition sh_pat_bool (addr i : N) : bool := ((addr + i) * 7 + i / 3) mod 3 =? 0.
Definition sh_pat_reg (addr i : N) : N := (addr * 31 + i * 17 + 5) mod 65536.

Definition sh_count (b : sh_beh) (qty : N) : N :=
  match b with
  | ShOk | ShProto => qty
  | ShShort => qty - 1
  | ShLong => qty + 1
  | _ => 0
  end.

Definition sh_err (b : sh_beh) : herr :=
  match b with
  | ShProto => HProtocol
  | ShOther => HOther
  | ShErr c => HModbus c
  | _ => HNone
  end.

Definition sh_indices (n : N) : list N := map N.of_nat (seq 0 (N.to_nat n)).

Definition sh_handler (script : list sh_beh) : handler nat :=
  fun st r =>
    let b := nth st script ShOk in
    let n := sh_count b (h_qty r) in
    let isbool := match h_kind r with HCoils | HDiscrete => true | _ => false end in
    let res :=
      if isbool
      then mkhres (map (sh_pat_bool (h_addr r)) (sh_indices n)) [] (sh_err b)
      else mkhres [] (map (sh_pat_reg (h_addr r)) (sh_indices n)) (sh_err b) in
    (S st, res).

Definition sh_run (script : list sh_beh) (e : send) (s : list N) : list event :=
  server_run (sh_handler script) O e s.
