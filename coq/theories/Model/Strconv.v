(* Model of Go's strconv.ParseUint(s, 0, bits) / strconv.ParseInt(s, 0, bits)
   (strconv/atoi.go, base argument 0 as used by cmd/modbus-cli.go) and of
   encoding/hex.DecodeString, as total functions over byte strings.
   Strings are lists of bytes. No proofs here. *)
From Modbus Require Import Base.Bytes.
From Coq Require String Ascii.

(* byte string of a Coq string literal; only used under Eval so that the
   extracted constants are plain lists *)
Definition sc_str (s : String.string) : list N :=
  map Ascii.N_of_ascii (String.list_ascii_of_string s).

Inductive sc_res :=
| ScOk (v : N)
| ScSyntax            (* ErrSyntax *)
| ScRange.            (* ErrRange *)

(* lower(c) = c | ('x' - 'X') *)
Definition sc_lower (c : N) : N := N.lor c 32.

(* the digit value switch of the ParseUint loop; None = the default branch *)
Definition sc_digit (c : N) : option N :=
  if (48 <=? c) && (c <=? 57) then Some (c - 48)
  else if (97 <=? sc_lower c) && (sc_lower c <=? 122) then Some (sc_lower c - 97 + 10)
  else None.

Definition sc_max_u64 : N := 18446744073709551615.

(* the digit loop (base0 is true: '_' is skipped and remembered). Returns the
   result and the underscores flag. n*base cannot wrap below the cutoff; n+d
   is computed in 64 bits as the code does. *)
Fixpoint sc_loop (base cutoff maxv : N) (s : list N) (n : N) (us : bool) : sc_res * bool :=
  match s with
  | [] => (ScOk n, us)
  | c :: t =>
      if c =? 95 then sc_loop base cutoff maxv t n true
      else
        match sc_digit c with
        | None => (ScSyntax, us)
        | Some d =>
            if base <=? d then (ScSyntax, us)
            else if cutoff <=? n then (ScRange, us)
            else
              let nb := n * base in
              let n1 := (nb + d) mod 18446744073709551616 in
              if (n1 <? nb) || (maxv <? n1) then (ScRange, us)
              else sc_loop base cutoff maxv t n1 us
        end
  end.

(* underscoreOK *)
Inductive sc_saw := SawStart | SawDigit | SawUnder | SawOther.

Fixpoint sc_uok_loop (hex : bool) (s : list N) (saw : sc_saw) : bool :=
  match s with
  | [] => match saw with SawUnder => false | _ => true end
  | c :: t =>
      if ((48 <=? c) && (c <=? 57)) || (hex && (97 <=? sc_lower c) && (sc_lower c <=? 102))
      then sc_uok_loop hex t SawDigit
      else if c =? 95 then
        match saw with SawDigit => sc_uok_loop hex t SawUnder | _ => false end
      else
        match saw with SawUnder => false | _ => sc_uok_loop hex t SawOther end
  end.

Definition sc_is_prefix_letter (c : N) : bool :=
  (sc_lower c =? 98) || (sc_lower c =? 111) || (sc_lower c =? 120).

Definition sc_underscore_ok (s : list N) : bool :=
  let s1 := match s with
            | c :: t => if (c =? 45) || (c =? 43) then t else s
            | [] => s
            end in
  match s1 with
  | c0 :: c1 :: t =>
      if (c0 =? 48) && sc_is_prefix_letter c1
      then sc_uok_loop (sc_lower c1 =? 120) t SawDigit
      else sc_uok_loop false s1 SawStart
  | _ => sc_uok_loop false s1 SawStart
  end.

(* base selection for base argument 0: (base, digits) *)
Definition sc_base_of (s : list N) : N * list N :=
  match s with
  | c0 :: rest =>
      if c0 =? 48 then
        match rest with
        | c1 :: ((_ :: _) as body) =>
            if sc_lower c1 =? 98 then (2, body)
            else if sc_lower c1 =? 111 then (8, body)
            else if sc_lower c1 =? 120 then (16, body)
            else (8, rest)
        | _ => (8, rest)
        end
      else (10, s)
  | [] => (10, s)
  end.

(* strconv.ParseUint(s, 0, bits), 1 <= bits <= 64 *)
Definition sc_parse_uint (bits : N) (s : list N) : sc_res :=
  match s with
  | [] => ScSyntax
  | _ =>
      let '(base, body) := sc_base_of s in
      let cutoff := sc_max_u64 / base + 1 in
      let maxv := 2 ^ bits - 1 in
      match sc_loop base cutoff maxv body 0 false with
      | (ScOk n, us) => if us && negb (sc_underscore_ok s) then ScSyntax else ScOk n
      | (r, _) => r
      end
  end.

Inductive sc_ires :=
| ScIOk (z : Z)
| ScISyntax
| ScIRange.

(* strconv.ParseInt(s, 0, bits), 1 <= bits <= 64 *)
Definition sc_parse_int (bits : N) (s : list N) : sc_ires :=
  match s with
  | [] => ScISyntax
  | c :: t =>
      let '(neg, body) :=
        if c =? 43 then (false, t) else if c =? 45 then (true, t) else (false, s) in
      match sc_parse_uint bits body with
      | ScSyntax => ScISyntax
      | r =>
          (* on a range error ParseUint returns maxVal and ParseInt goes on *)
          let un := match r with ScOk v => v | _ => 2 ^ bits - 1 end in
          let cutoff := 2 ^ (bits - 1) in
          if negb neg && (cutoff <=? un) then ScIRange
          else if neg && (cutoff <? un) then ScIRange
          else ScIOk (if neg then Z.opp (Z.of_N un) else Z.of_N un)
      end
  end.

(* encoding/hex: reverseHexTable *)
Definition sc_hexval (c : N) : option N :=
  if (48 <=? c) && (c <=? 57) then Some (c - 48)
  else if (97 <=? c) && (c <=? 102) then Some (c - 87)
  else if (65 <=? c) && (c <=? 70) then Some (c - 55)
  else None.

(* hex.DecodeString: None = any error (invalid byte, odd length) *)
Fixpoint sc_hex_decode (s : list N) : option (list N) :=
  match s with
  | [] => Some []
  | p :: q :: t =>
      match sc_hexval p, sc_hexval q with
      | Some a, Some b =>
          match sc_hex_decode t with
          | Some r => Some (a * 16 + b :: r)
          | None => None
          end
      | _, _ => None
      end
  | [_] => None
  end.
