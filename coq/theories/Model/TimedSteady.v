(* A LONG-LIVED connection to a peer that is alive: the calls of a polling
   application, one after the other on one connection that is never
   re-opened, as a session of Model/TimedWrite.v (tm_session_w). No proofs here.

   The peer reads every request and answers it with the valid reply; on the
   MBAP transports the reply carries the transaction id that the request
   carried. That id is the per-connection state of the transport
   (tt.lastTxnId, a 16-bit counter incremented before every request:
   tm_next_txn): over a long session it goes through all of its values and
   starts again. What the peer does with one request: *)
From Modbus Require Import Base.Bytes Model.Crc Model.Encoding Model.Wire Model.Client
  Model.Timed Model.TimedSession Model.TimedWrite.

Inductive tm_peer_act :=
| PaReply (d : Z)        (* the valid reply, complete d after the call was entered *)
| PaSilent               (* it reads the request and sends nothing *)
| PaForeign (off : N).   (* MBAP: first a well-formed frame with the id of the request + off
                            (mod 2^16) - a foreign id when off is not a multiple of 2^16 -,
                            then the reply, both at once *)

(* the frame a device sends for the reply PDU res to a request that carried id *)
Definition tm_reply_frame (fr : framing) (id : N) (res : pdu) : list N :=
  match fr with
  | FMbap => assemble_mbap id res
  | FRtu => assemble_rtu res
  end.

Definition tm_at (d : Z) (l : list N) : list (Z * N) := map (fun b => (d, b)) l.

(* the bytes the peer sends during the call that finds the counter at txn
   (times relative to the start of the call) *)
Definition tm_steady_stream (fr : framing) (txn : N) (res : pdu) (a : tm_peer_act) : list (Z * N) :=
  let id := u16 (txn + 1) in
  match a with
  | PaReply d => tm_at d (tm_reply_frame fr id res)
  | PaSilent => []
  | PaForeign off =>
      tm_at 0 (match fr with
               | FMbap => assemble_mbap (u16 (id + off)) res
               | FRtu => []
               end ++ tm_reply_frame fr id res)
  end.

(* the session: call i is (operation, its valid reply PDU, what the peer does) *)
Fixpoint tm_steady_calls (fr : framing) (cfg : ccfg) (txn : N) (l : list (op * pdu * tm_peer_act))
  : list (op * bool * list (Z * N)) :=
  match l with
  | [] => []
  | (o, res, a) :: l' =>
      (o, true, tm_steady_stream fr txn res a)
      :: tm_steady_calls fr cfg (tm_next_txn cfg o txn) l'
  end.

(* the transaction ids of the requests of the session, in order *)
Fixpoint tm_steady_ids (cfg : ccfg) (txn : N) (l : list (op * pdu * tm_peer_act)) : list N :=
  match l with
  | [] => []
  | (o, _, _) :: l' =>
      match client_request cfg o with
      | Ok _ => [u16 (txn + 1)]
      | _ => []     (* rejected locally: nothing is sent *)
      end ++ tm_steady_ids cfg (tm_next_txn cfg o txn) l'
  end.
