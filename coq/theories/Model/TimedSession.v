(* Several RTU client calls in a row on one link, in time: the state that
   rtuTransport.ExecuteRequest carries from one call to the next is
   rt.lastActivity and whatever the peer sent that has not been read; the
   peer's bytes come with their arrival instants (Model/Timed.v). Used for the
   timed form of the recovery clause of C06 (the tail of a corrupted reply
   arrives while the client keeps the line quiet) and run against the real
   client on scripted connections with real deadlines. No proofs here. *)
From Modbus Require Import Base.Bytes Model.Crc Model.Encoding Model.Wire Model.Client Model.Timed.

(* ts := time.Now() of rtu_transport.go:77, for a call entered at t0 *)
Definition tm_rtu_ts (k : tm_conf) (la t0 : Z) : Z :=
  let t := (t0 - (la + tm_t35 k))%Z in
  if (t <? 0)%Z then tm_sleep t0 (- t) else t0.

(* one public call on the RTU transport: the call of Model/Timed.v and the
   value of rt.lastActivity it leaves behind (rtu_transport.go:89, 104-107):
   the estimated end of the own transmission when nothing was heard
   (ErrRequestTimedOut), the instant the exchange ended otherwise; a call
   rejected locally does not reach the transport *)
Definition tm_rtu_call (k : tm_conf) (cfg : ccfg) (o : op) (la t0 : Z) (c : option Z)
  (s : list (Z * N)) : tm_call * Z :=
  let r := tm_client_call FRtu k la cfg 0 o t0 c s in
  match client_request cfg o with
  | Ok req =>
      let nreq := Z.of_nat (length (assemble_rtu req)) in
      match rtu_exchange_t k la t0 nreq c s with
      | (Err ETimeout, _, _) => (r, (tm_rtu_ts k la t0 + nreq * tm_t1 k)%Z)
      | _ => (r, tmc_finish r)
      end
  | _ => (r, la)
  end.

(* a session: call i is entered gap_i after call i-1 returned; the outcome and
   the return instant of every call *)
Fixpoint tm_rtu_session (k : tm_conf) (cfg : ccfg) (c : option Z) (la now : Z)
  (s : list (Z * N)) (calls : list (op * Z)) : list (result values * Z) :=
  match calls with
  | [] => []
  | (o, gap) :: cs =>
      let t0 := (now + Z.max 0 gap)%Z in
      let '(r, la') := tm_rtu_call k cfg o la t0 c s in
      (tmc_res r, tmc_finish r) :: tm_rtu_session k cfg c la' (tmc_finish r) (tmc_rest r) cs
  end.

(* the instant the re-synchronisation flush is entered after a reply rejected
   at t3, and the end of its 500 us window *)
Definition tm_flush_start (k : tm_conf) (t3 : Z) : Z := tm_sleep t3 (256 * tm_t1 k).
Definition tm_flush_end (k : tm_conf) (t3 : Z) : Z := (tm_flush_start k t3 + tm_flush_window)%Z.
