(* Timed model of a client call whose request Write may BLOCK, and of several
   such calls in a row on one connection (tcp_transport.go ExecuteRequest,
   rtu_transport.go ExecuteRequest). No proofs here.

   Model/Timed.v lets Write return at once ("kernel buffered"). That is what a
   link does as long as the peer reads, or as long as the buffers between the
   two ends still have room. A peer that keeps the connection open but has
   STOPPED READING lets the link take only `room` more bytes; a Write of more
   than that takes what fits and then blocks - until the write deadline, which
   both transports arm together with the read deadline, ONCE per request:
   SetDeadline(now + timeout). net.Conn.Write then fails with a deadline
   error (os.IsTimeout), the transport returns it as it is, and
   client.go:executeRequest turns it into ErrRequestTimedOut (class ETimeout).

   room is a count of bytes in Z; times are nanoseconds in Z as in Timed.v. *)
From Modbus Require Import Base.Bytes Model.Crc Model.Encoding Model.Wire Model.Client
  Model.Timed Model.TimedSession.

(* ---------------------------------------------------------- net.Conn.Write *)

Inductive tm_wr :=
| TmWrote (t : Z) (room' : Z)   (* all n bytes taken at once; what the link still takes afterwards *)
| TmWrBlocked (t : Z).          (* the link is full: deadline error at t; nothing more fits *)

(* does a Write of n bytes run into a full link?
   reads = true : the peer takes the bytes off the link as they come (the
                  case of Timed.v): never, and room is not used up;
   reads = false: the peer does not read, the bytes stay in the buffers:
                  they fit (n <= room) or they do not. *)
Definition tm_blocked (reads : bool) (room n : Z) : bool :=
  negb reads && (room <? n)%Z.

(* Write of n bytes entered at `now` against the write deadline D: at once
   when the bytes fit; else it blocks until the deadline (and fails at once
   when the deadline has already passed) *)
Definition tm_write (D now : Z) (reads : bool) (room n : Z) : tm_wr :=
  if tm_blocked reads room n then TmWrBlocked (Z.max now D)
  else TmWrote now (if reads then room else (room - n)%Z).

(* ------------------------------------------------------------- transports *)

(* tcpTransport.ExecuteRequest (tcp_transport.go:42-59) entered at t0:
   SetDeadline(t0 + timeout); lastTxnId++; Write (nreq bytes) - on error
   return it; readResponse. Result, return instant, unread peer bytes, room. *)
Definition mbap_exchange_w (timeout t0 : Z) (reads : bool) (room nreq : Z) (c : option Z)
  (txn : N) (s : list (Z * N)) : result pdu * Z * list (Z * N) * Z :=
  match tm_write (t0 + timeout) t0 reads room nreq with
  | TmWrote _ room' => (mbap_exchange_t timeout t0 c txn s, room')
  | TmWrBlocked t => (Err ETimeout, t, s, 0%Z)
  end.

(* rtuTransport.ExecuteRequest (rtu_transport.go:59-110) entered at t0:
   SetDeadline(t0 + timeout); the pre-send wait; ts := Now(); Write - on
   error return it (no post-write sleep, no flush, rt.lastActivity is left
   alone); else as Timed.rtu_exchange_t. *)
Definition rtu_exchange_w (k : tm_conf) (la t0 : Z) (reads : bool) (room nreq : Z) (c : option Z)
  (s : list (Z * N)) : result pdu * Z * list (Z * N) * Z :=
  match tm_write (t0 + tm_timeout k) (tm_rtu_ts k la t0) reads room nreq with
  | TmWrote _ room' => (rtu_exchange_t k la t0 nreq c s, room')
  | TmWrBlocked t => (Err ETimeout, t, s, 0%Z)
  end.

(* ----------------------------------------------------------------- client *)

(* the bytes the transport writes for the request PDU req (the MBAP header
   carries the transaction id of this call) *)
Definition tm_req_frame (fr : framing) (txn : N) (req : pdu) : list N :=
  match fr with
  | FMbap => assemble_mbap (u16 (txn + 1)) req
  | FRtu => assemble_rtu req
  end.

Record tm_wcall := mk_tm_wcall {
  tmw_call : tm_call;      (* outcome, return instant, unread peer bytes *)
  tmw_room : Z;            (* what the link still takes after the call *)
  tmw_blocked : bool       (* the request Write ran into the deadline *)
}.

(* Timed.tm_client_call with the blocking Write *)
Definition tm_client_call_w (fr : framing) (k : tm_conf) (la : Z) (cfg : ccfg) (txn : N) (o : op)
  (t0 : Z) (reads : bool) (room : Z) (c : option Z) (s : list (Z * N)) : tm_wcall :=
  match client_request cfg o with
  | Ok req =>
      let nreq := Z.of_nat (length (tm_req_frame fr txn req)) in
      let '(r, t, rest, room') :=
        match fr with
        | FMbap => mbap_exchange_w (tm_timeout k) t0 reads room nreq c (u16 (txn + 1)) s
        | FRtu => rtu_exchange_w k la t0 reads room nreq c s
        end in
      let blocked := tm_blocked reads room nreq in
      match r with
      | Ok res =>
          match unit_check req res with
          | Some x => mk_tm_wcall (mk_tm_call (Err x) t rest) room' blocked
          | None => mk_tm_wcall (mk_tm_call (client_validate cfg o req res) t rest) room' blocked
          end
      | Err x => mk_tm_wcall (mk_tm_call (Err x) t rest) room' blocked
      | Panic => mk_tm_wcall (mk_tm_call Panic t rest) room' blocked
      | OutOfFuel => mk_tm_wcall (mk_tm_call OutOfFuel t rest) room' blocked
      end
  | Err x => mk_tm_wcall (mk_tm_call (Err x) t0 s) room false
  | Panic => mk_tm_wcall (mk_tm_call Panic t0 s) room false
  | OutOfFuel => mk_tm_wcall (mk_tm_call OutOfFuel t0 s) room false
  end.

(* ---------------------------------------------------------------- session *)

(* what a call leaves behind in the transport:
   MBAP: tt.lastTxnId, incremented before the Write whatever comes of it;
   RTU : rt.lastActivity - untouched when the Write failed, else as
         TimedSession.tm_rtu_call (estimated end of the own transmission
         after a timeout, the instant the exchange ended otherwise). *)
Definition tm_next_txn (cfg : ccfg) (o : op) (txn : N) : N :=
  match client_request cfg o with Ok _ => u16 (txn + 1) | _ => txn end.

Definition tm_next_la (fr : framing) (k : tm_conf) (cfg : ccfg) (o : op) (la t0 : Z) (c : option Z)
  (s : list (Z * N)) (blocked : bool) : Z :=
  match fr with
  | FMbap => la
  | FRtu => if blocked then la else snd (tm_rtu_call k cfg o la t0 c s)
  end.

(* the peer's bytes of one call are given relative to the start of the call *)
Definition tm_shift (t0 : Z) (s : list (Z * N)) : list (Z * N) :=
  map (fun p => ((t0 + fst p)%Z, snd p)) s.

Record tm_wstep := mk_tm_wstep {
  tws_start : Z;            (* the instant the call was entered *)
  tws_res : result values;
  tws_finish : Z;           (* the instant it returned *)
  tws_room : Z;
  tws_blocked : bool
}.

(* Calls in a row on one connection that the peer never closes. Call i is
   (operation, does the peer read this request, the bytes the peer sends
   during this call with arrival times relative to its start); it is entered
   the instant call i-1 returned and first sees what call i-1 left unread. *)
Fixpoint tm_session_w (fr : framing) (k : tm_conf) (cfg : ccfg) (la : Z) (txn : N) (room now : Z)
  (rest : list (Z * N)) (calls : list (op * bool * list (Z * N))) : list tm_wstep :=
  match calls with
  | [] => []
  | (o, reads, s) :: cs =>
      let s' := rest ++ tm_shift now s in
      let w := tm_client_call_w fr k la cfg txn o now reads room None s' in
      let la' := tm_next_la fr k cfg o la now None s' (tmw_blocked w) in
      mk_tm_wstep now (tmc_res (tmw_call w)) (tmc_finish (tmw_call w)) (tmw_room w) (tmw_blocked w)
      :: tm_session_w fr k cfg la' (tm_next_txn cfg o txn) (tmw_room w) (tmc_finish (tmw_call w))
           (tmc_rest (tmw_call w)) cs
  end.
