(* A session of calls on ONE client / ONE RTU transport facing a well-behaved
   device (rtu_transport.go: ExecuteRequest, assembleRTUFrame; client.go).

   The transport keeps nothing between two requests that influences the bytes
   of the next frame: every step is one client_call of Model/Client.v under
   the configuration current at that step (SetUnitId / SetEncoding between
   calls). The device looks at every frame written during a call and answers
   with the given reply if and only if the frame passes the CRC test of
   Spec/RtuSeqSpec.v; a frame that fails it is dropped in silence. Bytes no
   call has read stay on the line for the next call. No proofs here. *)
From Modbus Require Import Base.Bytes Model.Wire Model.Client Spec.ModbusSpec Spec.RtuSeqSpec.

Inductive rs_step :=
| RsCall (o : op) (reply : list N)   (* a public call; what the device answers to a good frame *)
| RsCfg (c : ccfg).                  (* the client is reconfigured (unit id, byte / word order) *)

Definition rs_device (reply : list N) (frames : list (list N)) : list N :=
  flat_map (fun f => if ends_with_crcb f then reply else []) frames.

Fixpoint rtuseq_run (cfg : ccfg) (left : list N) (steps : list rs_step) : list call_result :=
  match steps with
  | [] => []
  | RsCfg c :: t => rtuseq_run c left t
  | RsCall o reply :: t =>
      let sent := cr_writes (client_call FRtu cfg 0 o Stall []) in
      let r := client_call FRtu cfg 0 o Stall (left ++ rs_device reply sent) in
      r :: rtuseq_run cfg (cr_rest r) t
  end.
