(* End-to-end composition (property C04): the client model, the MBAP framing,
   the server model driving a memory-backed handler, and back. One client,
   one connection, one server session; the client's write log is the server's
   input stream and the server's response frames are the client's input
   stream. Spec.RegFile is imported for the vocabulary of histories (rf_op)
   only. No proofs here. *)
From Modbus Require Import Base.Bytes Base.Cells Model.Encoding Model.Wire Model.Client Model.Server
  Spec.RegFile.

(* the handler's failure script: "no error" entries do not fail *)
Definition e2e_failure (f : option herr) : option herr :=
  match f with
  | Some HNone | None => None
  | Some e => Some e
  end.

(* The harness handler (harness/cmd/implrun/c04.go, memHandler): four tables
   of 65536 cells ([]bool / []uint16). When the script says so the invocation
   fails before touching the memory; a write stores Args at Addr, Addr+1, ...;
   the result is the content of the addressed cells. The unit id is ignored.
   Cells of the register tables are uint16: a load yields 16-bit values. *)
Definition e2e_mem_handler (fail : hreq -> option herr) : handler rfmem :=
  fun m r =>
    match e2e_failure (fail r) with
    | Some e => (m, mkhres [] [] e)
    | None =>
        let a := h_addr r in
        let q := h_qty r in
        match h_kind r with
        | HCoils =>
            let m' := if h_write r
                      then mkrfmem (cells_store (rf_coils m) a (h_bools r)) (rf_discrete m)
                                   (rf_holding m) (rf_input m)
                      else m in
            (m', mkhres (cells_load (rf_coils m') a q) [] HNone)
        | HDiscrete => (m, mkhres (cells_load (rf_discrete m) a q) [] HNone)
        | HHolding =>
            let m' := if h_write r
                      then mkrfmem (rf_coils m) (rf_discrete m)
                                   (cells_store (rf_holding m) a (h_regs r)) (rf_input m)
                      else m in
            (m', mkhres [] (map u16 (cells_load (rf_holding m') a q)) HNone)
        | HInput => (m, mkhres [] (map u16 (cells_load (rf_input m) a q)) HNone)
        end
    end.

(* client + connection + server + handler memory *)
Record e2e_state := mke2e {
  e2e_cfg : ccfg;          (* unit id, byte order, word order of the client *)
  e2e_mem : rfmem;         (* the handler's memory *)
  e2e_txn : N;             (* the client's transaction counter *)
  e2e_left : list N        (* response bytes the client has not consumed yet *)
}.

(* The server side of one exchange: the session loop (Server.server_session)
   reads one frame from what the client sent, processes it and answers; the
   function returns the new handler memory, the invocations, the bytes sent
   back and what the client sees once these are used up (silence, or the
   close of the connection when the session ended). Nothing sent: the session
   keeps waiting. *)
Definition e2e_serve (fail : hreq -> option herr) (m : rfmem) (sent : list N)
  : rfmem * list hreq * list N * send :=
  match sent with
  | [] => (m, [], [], Stall)
  | _ =>
      match read_mbap Stall sent with
      | (FOk req txn, _) =>
          let '(m', calls, act) := server_process (e2e_mem_handler fail) m req in
          match act with
          | Respond res => (m', calls, assemble_mbap txn res, Stall)
          | CloseLink => (m', calls, [], Closed)
          end
      | (FErr _, _) => (m, [], [], Closed)
      end
  end.

(* One public client call across the connection. What the client transmits
   does not depend on the reply stream (the request goes out before anything
   is read), so the write log is taken from a first evaluation of client_call
   and the reply stream is then fed to it. *)
Definition e2e_call (fail : hreq -> option herr) (s : e2e_state) (o : op)
  : e2e_state * rf_result :=
  let c := e2e_cfg s in
  let sent := concat (cr_writes (client_call FMbap c (e2e_txn s) o Stall (e2e_left s))) in
  let '(m', calls, reply, e) := e2e_serve fail (e2e_mem s) sent in
  let r := client_call FMbap c (e2e_txn s) o e (e2e_left s ++ reply) in
  (mke2e c m' (cr_txn r) (cr_rest r), (cr_res r, calls)).

(* SetEncoding: the byte order selector is tested first, then the word order
   selector; nothing changes unless both are known *)
Definition e2e_set_encoding (c : ccfg) (e w : N) : result ccfg :=
  if andb (negb (e =? 1)) (negb (e =? 2)) then Err EParams
  else if andb (negb (w =? 1)) (negb (w =? 2)) then Err EParams
  else Ok (mkcfg (c_unit c) (if e =? 1 then BigE else LittleE) (if w =? 1 then HighFirst else LowFirst)).

Definition e2e_step (fail : hreq -> option herr) (s : e2e_state) (x : rf_op)
  : e2e_state * rf_result :=
  match x with
  | RfCall o => e2e_call fail s o
  | RfSetUnit u =>
      (mke2e (mkcfg u (c_endian (e2e_cfg s)) (c_word (e2e_cfg s))) (e2e_mem s) (e2e_txn s) (e2e_left s),
       (Ok VUnit, []))
  | RfSetEnc e w =>
      match e2e_set_encoding (e2e_cfg s) e w with
      | Ok c' => (mke2e c' (e2e_mem s) (e2e_txn s) (e2e_left s), (Ok VUnit, []))
      | Err x => (s, (Err x, []))
      | Panic => (s, (Panic, []))
      | OutOfFuel => (s, (OutOfFuel, []))
      end
  end.

Fixpoint e2e_run (s : e2e_state) (h : list ((hreq -> option herr) * rf_op))
  : e2e_state * list rf_result :=
  match h with
  | [] => (s, [])
  | (fail, x) :: t =>
      let '(s1, out) := e2e_step fail s x in
      let '(s2, outs) := e2e_run s1 t in
      (s2, out :: outs)
  end.

Definition e2e_view (s : e2e_state) : ccfg * rfmem := (e2e_cfg s, e2e_mem s).
