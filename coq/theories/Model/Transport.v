(* The transport layer (tcp_transport.go, rtu_transport.go) as functions of an
   abstract outside world: the socket / serial link and the clock are
   functions that take and return the state of the world (an arbitrary GoLite
   value), exactly as the translated Go source calls them (Gen/SrcPure.v,
   functions translated with the world threaded through: socket.ReadFull,
   socket.Write, socket.SetDeadline, socket.Close, link.*, time.Now,
   time.Sleep). Proofs/SrcTransport*P.v prove that the translated functions
   compute these; Proofs/TransportP.v relates them, on worlds that are byte
   streams, to the framing model of Model/Wire.v. No proofs here. *)
From Coq Require Import List NArith Bool.
Import ListNotations.
From Modbus Require Import Base.Bytes Model.Crc Model.Wire Model.GoLite.
Open Scope N_scope.

(* ------------------------------------------------------------------ the world *)

Record tworld := mktworld {
  t_now : val -> val * N;                    (* time.Now(): an instant in ns *)
  t_sleep : val -> N -> val;                 (* time.Sleep(d): d is a 64-bit two's-complement duration *)
  t_setdl : val -> N -> val * N;             (* SetDeadline(instant): error value *)
  t_write : val -> list N -> val * N * N;    (* Write(bytes): count, error value *)
  t_readfull : val -> N -> val * list N * N; (* io.ReadFull(x, buf) with len(buf) = n: bytes read, error value *)
  t_close : val -> val * N                   (* Close(): error value *)
}.

(* Go error values the transport code compares with (numbered by the translator) *)
Record tcodes := mktcodes {
  c_timedout : N;   (* ErrRequestTimedOut *)
  c_badcrc : N;     (* ErrBadCRC *)
  c_short : N;      (* ErrShortFrame *)
  c_proto : N;      (* ErrProtocolError *)
  c_unkproto : N;   (* ErrUnknownProtocolId *)
  c_ueof : N        (* io.ErrUnexpectedEOF *)
}.

(* 64-bit two's-complement arithmetic, as GoLite's [U 64] computes it *)
Definition w64 (x : N) : N := x mod 2 ^ 64.
Definition add64 (a b : N) : N := (a + b) mod 2 ^ 64.
Definition sub64 (a b : N) : N := (a + 2 ^ 64 - b mod 2 ^ 64) mod 2 ^ 64.
Definition mul64 (a b : N) : N := (a * b) mod 2 ^ 64.
Definition minus_one64 : N := 2 ^ 64 - 1.
Definition slt64 (a b : N) : bool := sbias a <? sbias b.

Section Transport.
  Variables (T : tworld) (C : tcodes).

  (* what io.Writer and io.ReadFull guarantee, whatever the writer / reader *)
  Definition tworld_wf : Prop :=
    (forall w bs, let '(_, n, _) := t_write T w bs in n <= lenN bs) /\
    (forall w n, let '(_, got, e) := t_readfull T w n in
                 bytesb got = true /\ lenN got <= n /\ (e = 0 <-> lenN got = n) /\
                 (e = c_ueof C -> 0 < lenN got)).

  (* ---------------------------------------------------------------- MBAP *)

  (* readMBAPFrame: new world, frame (nil on error), transaction id, error value *)
  Definition t_read_mbap (w : val) : val * option pdu * N * N :=
    let '(w1, hdr, e1) := t_readfull T w 7 in
    if negb (e1 =? 0) then (w1, None, 0, e1)
    else
      let txn := nth 0 hdr 0 * 256 + nth 1 hdr 0 in
      let proto := nth 2 hdr 0 * 256 + nth 3 hdr 0 in
      let len := nth 4 hdr 0 * 256 + nth 5 hdr 0 in
      let unit := nth 6 hdr 0 in
      (* bytesNeeded = len - 1 (signed); bytesNeeded + 7 > 260, then bytesNeeded <= 0 *)
      if 254 <? len then (w1, None, txn, c_proto C)
      else if len <=? 1 then (w1, None, txn, c_proto C)
      else
        let '(w2, body, e2) := t_readfull T w1 (len - 1) in
        if negb (e2 =? 0) then (w2, None, txn, e2)
        else if negb (proto =? 0) then (w2, None, txn, c_unkproto C)
        else (w2, Some (mkpdu unit (nth 0 body 0) (tl body)), txn, 0).

  (* readResponse: [None] when the fuel of the loop runs out *)
  Fixpoint t_read_response (fuel : nat) (last : N) (w : val) : option (val * option pdu * N) :=
    match fuel with
    | O => None
    | S f =>
        let '(w1, p, txn, e) := t_read_mbap w in
        if e =? c_unkproto C then t_read_response f last w1
        else if negb (e =? 0) then Some (w1, p, e)
        else if negb (last =? txn) then t_read_response f last w1
        else Some (w1, p, 0)
    end.

  (* (tt *tcpTransport) ReadRequest: new lastTxnId, world, request, error value *)
  Definition t_tcp_read_request (tmo last : N) (w : val) : N * val * option pdu * N :=
    let '(w0, now) := t_now T w in
    let '(w1, e) := t_setdl T w0 (add64 now tmo) in
    if negb (e =? 0) then (last, w1, None, e)
    else
      let '(w2, p, txn, e2) := t_read_mbap w1 in
      if negb (e2 =? 0) then (last, w2, p, e2) else (txn, w2, p, 0).

  (* (tt *tcpTransport) WriteResponse *)
  Definition t_tcp_write_response (last : N) (res : pdu) (w : val) : val * N :=
    let '(w1, _, e) := t_write T w (assemble_mbap last res) in (w1, e).

  (* (tt *tcpTransport) ExecuteRequest: new lastTxnId, world, response, error value *)
  Definition t_tcp_execute (fuel : nat) (tmo last : N) (req : pdu) (w : val)
    : option (N * val * option pdu * N) :=
    let '(w0, now) := t_now T w in
    let '(w1, e) := t_setdl T w0 (add64 now tmo) in
    if negb (e =? 0) then Some (last, w1, None, e)
    else
      let last' := (last + 1) mod 65536 in
      let '(w2, _, e2) := t_write T w1 (assemble_mbap last' req) in
      if negb (e2 =? 0) then Some (last', w2, None, e2)
      else match t_read_response fuel last' w2 with
           | Some (w3, p, e3) => Some (last', w3, p, e3)
           | None => None
           end.

  (* ---------------------------------------------------------------- RTU *)

  (* readRTUFrame: new world, frame (nil on error), error value *)
  Definition t_read_rtu (w : val) : val * option pdu * N :=
    let '(w1, h, e1) := t_readfull T w 3 in
    let n1 := lenN h in
    if andb (orb (0 <? n1) (e1 =? 0)) (negb (n1 =? 3)) then (w1, None, c_short C)
    else if andb (negb (e1 =? 0)) (negb (e1 =? c_ueof C)) then (w1, None, e1)
    else
      match expected_len (nth 1 h 0) (nth 2 h 0) with
      | None => (w1, None, c_proto C)
      | Some n =>
          let need := n + 2 in
          if 256 <? 3 + need then (w1, None, c_proto C)
          else
            let '(w2, body, e2) := t_readfull T w1 need in
            if andb (negb (e2 =? 0)) (negb (e2 =? c_ueof C)) then (w2, None, e2)
            else if negb (lenN body =? need) then (w2, None, c_short C)
            else
              let data := firstn (N.to_nat n) body in
              if crc_is_equal (crc16 (h ++ data)) (nth (N.to_nat n) body 0) (nth (N.to_nat n + 1) body 0)
              then (w2, Some (mkpdu (nth 0 h 0) (nth 1 h 0) (nth 2 h 0 :: data)), 0)
              else (w2, None, c_badcrc C)
      end.

  (* discard(link) *)
  Definition t_discard (w : val) : val :=
    let '(w0, now) := t_now T w in
    let '(w1, _) := t_setdl T w0 (add64 now 500000) in
    let '(w2, _, _) := t_readfull T w1 1024 in
    w2.

  (* (rt *rtuTransport) ExecuteRequest: new lastActivity, world, response, error value *)
  Definition t_rtu_execute (tmo la t35 t1 : N) (req : pdu) (w : val) : N * val * option pdu * N :=
    let '(w0, now0) := t_now T w in
    let '(w1, e) := t_setdl T w0 (add64 now0 tmo) in
    if negb (e =? 0) then (la, w1, None, e)
    else
      let '(w2, now1) := t_now T w1 in
      let t := sub64 now1 (add64 la t35) in
      let w3 := if slt64 t 0 then t_sleep T w2 (mul64 t minus_one64) else w2 in
      let '(w4, ts) := t_now T w3 in
      let '(w5, n, e2) := t_write T w4 (assemble_rtu req) in
      if negb (e2 =? 0) then (la, w5, None, e2)
      else
        let la1 := add64 ts (mul64 (w64 n) t1) in
        let '(w6, now3) := t_now T w5 in
        let w7 := t_sleep T w6 (sub64 (add64 la1 t35) now3) in
        let '(w8, res, e3) := t_read_rtu w7 in
        let w9 := if orb (orb (e3 =? c_badcrc C) (e3 =? c_proto C)) (e3 =? c_short C)
                  then t_discard (t_sleep T w8 (mul64 256 t1)) else w8 in
        if negb (e3 =? c_timedout C)
        then let '(w10, now4) := t_now T w9 in (now4, w10, res, e3)
        else (la1, w9, res, e3).

  (* (rt *rtuTransport) WriteResponse: new lastActivity, world, error value *)
  Definition t_rtu_write_response (la t1 : N) (res : pdu) (w : val) : N * val * N :=
    let '(w1, n, e) := t_write T w (assemble_rtu res) in
    if negb (e =? 0) then (la, w1, e)
    else let '(w2, now) := t_now T w1 in (add64 now (mul64 t1 (w64 n)), w2, 0).
End Transport.

(* ------------------------------------------------------------------ socket wrappers (udp.go, tls_utils.go) *)

(* copy(dst, src): the new contents of dst *)
Definition go_copy (dst src : list N) : list N :=
  let k := Nat.min (length dst) (length src) in firstn k src ++ skipn k dst.
Definition go_copy_n (dst src : list N) : N := N.of_nat (Nat.min (length dst) (length src)).

Section Wrappers.
  (* the wrapped socket: [t_readfull T w n] stands for sock.Read(buf) with len(buf) = n *)
  Variable T : tworld.

  (* what a Read guarantees: bytes, at most len(buf) of them *)
  Definition tread_wf : Prop :=
    forall w n, let '(_, got, _) := t_readfull T w n in bytesb got = true /\ lenN got <= n.

  (* one part of (usw *udpSockWrapper) Read: [avail] bytes at the front of rxbuf go to buf,
     what does not fit moves to the front of rxbuf: new leftoverCount, rxbuf, buf, bytes copied *)
  Definition t_udp_take (avail : N) (rxbuf buf : list N) : N * list N * list N * N :=
    let src := firstn (N.to_nat avail) rxbuf in
    let k := go_copy_n buf src in
    let rxbuf' := if k <? avail then go_copy rxbuf (skipn (N.to_nat k) src) else rxbuf in
    (avail - k, rxbuf', go_copy buf src, k).

  (* (usw *udpSockWrapper) Read(buf): leftoverCount, rxbuf, buf, world, rlen, error value *)
  Definition t_udp_read (left : N) (rxbuf buf : list N) (w : val) : N * list N * list N * val * N * N :=
    if 0 <? left then
      let '(left', rxbuf', buf', k) := t_udp_take left rxbuf buf in (left', rxbuf', buf', w, k, 0)
    else
      let '(w1, got, e) := t_readfull T w (lenN rxbuf) in
      let rx1 := got ++ skipn (length got) rxbuf in
      if negb (e =? 0) then (left, rx1, buf, w1, lenN got, e)
      else let '(left', rxbuf', buf', k) := t_udp_take (lenN got) rx1 buf in (left', rxbuf', buf', w1, k, 0).

  (* (tsw *tlsSockWrapper) Read(buf): buf, world, rlen, error value *)
  Definition t_tls_read (buf : list N) (w : val) : list N * val * N * N :=
    let '(w1, got, e) := t_readfull T w (lenN buf) in
    (got ++ skipn (length got) buf, w1, lenN got, e).

  (* (tsw *tlsSockWrapper) Write(buf): after a write that timed out ([tmo_code]:
     the error values for which os.IsTimeout holds) the socket is closed *)
  Definition t_tls_write (tmo_code : N) (buf : list N) (w : val) : val * N * N :=
    let '(w1, n, e) := t_write T w buf in
    if andb (negb (e =? 0)) (e =? tmo_code) then (fst (t_close T w1), n, e) else (w1, n, e).
  (* (spw *serialPortWrapper) Read(rxbuf): rxbuf, world, count, error value. After the
     deadline nothing is read; the driver's own short timeout ([ser_tmo]) is masked *)
  Definition t_serial_read (c_timedout ser_tmo deadline : N) (buf : list N) (w : val) : list N * val * N * N :=
    let '(w0, now) := t_now T w in
    if deadline <? now then (buf, w0, 0, c_timedout)
    else
      let '(w1, got, e) := t_readfull T w0 (lenN buf) in
      (got ++ skipn (length got) buf, w1, lenN got,
       if andb (negb (e =? 0)) (e =? ser_tmo) then 0 else e).
End Wrappers.

(* ------------------------------------------------------------------ worlds that are byte streams *)

Fixpoint unbytes (l : list val) : list N :=
  match l with
  | VN n :: t => n mod 256 :: unbytes t
  | _ :: t => 0 :: unbytes t
  | [] => []
  end.

(* the incoming stream is the world; the clock stands still, writes and
   deadlines are accepted and forgotten. [sc]: the error value of an expired
   deadline, [ceof] / [cueof]: io.EOF / io.ErrUnexpectedEOF, [1]: any other error *)
Definition stream_world (e : send) (sc ceof cueof : N) : tworld := {|
  t_now := fun w => (w, 0);
  t_sleep := fun w _ => w;
  t_setdl := fun w _ => (w, 0);
  t_write := fun w bs => (w, lenN bs, 0);
  t_readfull := fun w n =>
    let s := match w with VL l => unbytes l | _ => [] end in
    match read_full (N.to_nat n) s with
    | RFull got rest => (vbytes rest, got, 0)
    | RShort got =>
        (vbytes [], got,
         match e, got with
         | Stall, _ => sc
         | Reset, _ => 1
         | Closed, [] => ceof
         | Closed, _ => cueof
         end)
    end;
  t_close := fun w => (w, 0)
|}.

(* ------------------------------------------------------------------ worlds with a clock *)

(* the world is [VL [VN clock; VL log]]: time.Now reads the clock, time.Sleep(d)
   advances it by d when d is positive (two's complement), a write is logged
   with the instant at which it starts and takes [wt] ns per byte; reads find
   nothing (the peer is silent: error value [sc], after [rd] ns) *)
Definition clock_of (w : val) : N := match w with VL (VN c :: _) => c | _ => 0 end.
Definition log_of (w : val) : list val := match w with VL [_; VL l] => l | _ => [] end.
Definition mkclock (c : N) (log : list val) : val := VL [VN c; VL log].

Definition clock_world (sc : N) : tworld := {|
  t_now := fun w => (w, clock_of w);
  t_sleep := fun w d => if slt64 0 d then mkclock (add64 (clock_of w) d) (log_of w) else w;
  t_setdl := fun w _ => (w, 0);
  t_write := fun w bs => (mkclock (clock_of w) (log_of w ++ [VN (clock_of w)]), lenN bs, 0);
  t_readfull := fun w n => if n =? 0 then (w, [], 0) else (w, [], sc);
  t_close := fun w => (w, 0)
|}.
