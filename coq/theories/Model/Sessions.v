(* Model of a server with many concurrent TCP sessions (server.go
   acceptTCPClients / handleTCPClient / handleTransport, tcp_transport.go).

   Every accepted connection is served by its own goroutine with its own
   transport object (own socket, own lastTxnId) and its own copies of the
   client address / role strings; the loop variables of handleTransport are
   locals. The only thing the sessions share is the user handler object. The
   server lock is taken in the admission and removal critical sections only
   (Model/Slots.v), never across a read or a handler call.

   The global server is therefore: the shared handler state + one private
   session state per connection. Input arrives as (connection, chunk of bytes)
   or (connection, end of stream) in an arbitrary interleaving; a step hands
   the chunk to that connection's session, which answers every complete frame
   now available in its own buffer (an incomplete frame waits for more bytes:
   nothing is consumed), calling the shared handler through server_process.
   A handler invocation is one atomic step of the shared state (handlers
   synchronise themselves; the library adds no lock around them).
   tcpTransport.lastTxnId is written by ReadRequest and read by WriteResponse
   of the same loop iteration, on a transport object owned by one session
   goroutine: it is the local `txn` of sess_drain (as in server_session).
   No proofs here. *)
From Modbus Require Import Base.Bytes Model.Encoding Model.Wire Model.Server.

(* what a handler sees: the request plus the address and role strings of the
   connection it came from (ids stand for the strings) *)
Record greq := mkgreq {
  g_conn_addr : N;       (* sock.RemoteAddr().String() of that connection *)
  g_role : N;            (* role taken from that connection's certificate ("" on plain TCP) *)
  g_req : hreq
}.

Definition ghandler (St : Type) := St -> greq -> St * hres.

(* observable events of one session; a call is recorded together with what
   the handler returned to it *)
Inductive gevent :=
| GEvCall (r : greq) (a : hres)
| GEvResp (frame : list N)
| GEvClosed.

Inductive ginput :=
| GData (chunk : list N)     (* bytes arriving on the connection *)
| GEnd.                      (* the stream ends: peer close / reset / idle deadline *)

(* private state of one session goroutine *)
Record gsess := mkgsess {
  gs_buf : list N;         (* bytes received and not yet consumed *)
  gs_addr : N;             (* clientAddr argument of handleTransport *)
  gs_role : N;             (* clientRole argument of handleTransport *)
  gs_closed : bool         (* handleTransport returned: socket closed *)
}.

Record gstate (St : Type) := mkgstate {
  g_shared : St;                       (* state behind the shared handler object *)
  g_sessions : list (N * gsess)        (* connection id -> session *)
}.
Arguments mkgstate {St} _ _.
Arguments g_shared {St} _.
Arguments g_sessions {St} _.

Fixpoint gs_lookup (c : N) (l : list (N * gsess)) : option gsess :=
  match l with
  | [] => None
  | (k, s) :: t => if k =? c then Some s else gs_lookup c t
  end.

Fixpoint gs_update (c : N) (v : gsess) (l : list (N * gsess)) : list (N * gsess) :=
  match l with
  | [] => []
  | (k, s) :: t => if k =? c then (k, v) :: t else (k, s) :: gs_update c v t
  end.

(* the i/o error that only means "not enough bytes yet" on a live stream *)
Definition gs_is_wait (e : err) : bool :=
  match e with ETimeout => true | _ => false end.

Section WithShared.
  Context {St : Type} (gh : ghandler St).

  (* the handler as one connection calls it *)
  Definition conn_handler (a ro : N) : handler St :=
    fun st r => gh st (mkgreq a ro r).

  (* the request loop of one session on the bytes it has: every complete
     frame is read, dispatched and answered; the loop stops when the next
     frame is incomplete (blocked in io.ReadFull) or when the session ends.
     Result: shared state, events, unread bytes, closed flag. *)
  Fixpoint sess_drain (fuel : nat) (a ro : N) (st : St) (buf : list N)
    : St * list gevent * list N * bool :=
    match fuel with
    | O => (st, [], buf, false)
    | S f =>
        match read_mbap Stall buf with
        | (FErr x, _) =>
            if gs_is_wait x then (st, [], buf, false)
            else (st, [GEvClosed], [], true)
        | (FOk req txn, rest) =>
            let '(st', calls, act) := server_process (conn_handler a ro) st req in
            let cev := map (fun r => GEvCall (mkgreq a ro r) (snd (gh st (mkgreq a ro r)))) calls in
            match act with
            | Respond res =>
                let '(st'', evs, b, cl) := sess_drain f a ro st' rest in
                (st'', cev ++ GEvResp (assemble_mbap txn res) :: evs, b, cl)
            | CloseLink => (st', cev ++ [GEvClosed], [], true)
            end
        end
    end.

  (* one input delivered to one session *)
  Definition sess_feed (st : St) (s : gsess) (x : ginput) : St * gsess * list gevent :=
    if gs_closed s then (st, s, [])
    else
      match x with
      | GEnd => (st, mkgsess [] (gs_addr s) (gs_role s) true, [GEvClosed])
      | GData chunk =>
          let buf := gs_buf s ++ chunk in
          let '(st', evs, b, cl) := sess_drain (S (length buf)) (gs_addr s) (gs_role s) st buf in
          (st', mkgsess b (gs_addr s) (gs_role s) cl, evs)
      end.

  (* a whole private session: inputs of one connection in order *)
  Fixpoint sess_feeds (st : St) (s : gsess) (xs : list ginput) : St * gsess * list gevent :=
    match xs with
    | [] => (st, s, [])
    | x :: t =>
        let '(st1, s1, e1) := sess_feed st s x in
        let '(st2, s2, e2) := sess_feeds st1 s1 t in
        (st2, s2, e1 ++ e2)
    end.

  (* one step of the global server: input for connection c; every output is
     tagged with the connection it is written to / attributed to *)
  Definition gstep (g : gstate St) (i : N * ginput) : gstate St * list (N * gevent) :=
    let c := fst i in
    match gs_lookup c (g_sessions g) with
    | None => (g, [])
    | Some s =>
        let '(st', s', evs) := sess_feed (g_shared g) s (snd i) in
        (mkgstate st' (gs_update c s' (g_sessions g)), map (fun e => (c, e)) evs)
    end.

  Fixpoint grun (g : gstate St) (ins : list (N * ginput)) : gstate St * list (N * gevent) :=
    match ins with
    | [] => (g, [])
    | i :: t =>
        let '(g1, o1) := gstep g i in
        let '(g2, o2) := grun g1 t in
        (g2, o1 ++ o2)
    end.
End WithShared.

(* freshly accepted connections: (id, address, role) *)
Definition gs_fresh (a ro : N) : gsess := mkgsess [] a ro false.

Definition ginit {St : Type} (st : St) (conns : list (N * (N * N))) : gstate St :=
  mkgstate st (map (fun x => (fst x, gs_fresh (fst (snd x)) (snd (snd x)))) conns).

(* the part of a tagged sequence that belongs to connection c *)
Fixpoint gproj {A : Type} (c : N) (l : list (N * A)) : list A :=
  match l with
  | [] => []
  | (k, x) :: t => if k =? c then x :: gproj c t else gproj c t
  end.

(* the byte stream a connection delivered before its end *)
Fixpoint gin_stream (xs : list ginput) : list N :=
  match xs with
  | [] => []
  | GData chunk :: t => chunk ++ gin_stream t
  | GEnd :: _ => []
  end.

Fixpoint gin_ended (xs : list ginput) : bool :=
  match xs with
  | [] => false
  | GData _ :: t => gin_ended t
  | GEnd :: _ => true
  end.

(* the same session fed with its whole stream at once *)
Definition sess_whole {St : Type} (gh : ghandler St) (st : St) (a ro : N) (stream : list N) (ended : bool)
  : St * gsess * list gevent :=
  let '(st', evs, b, cl) := sess_drain gh (S (length stream)) a ro st stream in
  if cl then (st', mkgsess b a ro true, evs)
  else if ended then (st', mkgsess [] a ro true, evs ++ [GEvClosed])
  else (st', mkgsess b a ro false, evs).

(* single-connection view of an event *)
Definition gev_strip (e : gevent) : event :=
  match e with
  | GEvCall r _ => EvCall (g_req r)
  | GEvResp f => EvResp f
  | GEvClosed => EvClosed
  end.

(* the answers the handler gave, in order *)
Fixpoint gev_answers (l : list gevent) : list hres :=
  match l with
  | [] => []
  | GEvCall _ a :: t => a :: gev_answers t
  | _ :: t => gev_answers t
  end.

(* a handler that replays recorded answers (the shared handler seen as an oracle) *)
Definition oracle_handler : handler (list hres) :=
  fun l _ => match l with
             | x :: t => (t, x)
             | [] => ([], mkhres [] [] HOther)
             end.

Definition gh_oracle : ghandler (list hres) := fun l r => oracle_handler l (g_req r).

(* a handler whose answer is a function of the request only *)
Definition gh_pure (f : greq -> hres) : ghandler unit := fun _ r => (tt, f r).
