(* Slots and addresses. In Model/Slots.v a connection is an identity (conn);
   the server's bookkeeping never looks at anything else. Whatever a
   connection has in common with other connections - first of all the source
   address (ip:port) its client dialled from: a client bound to a fixed local
   port that loses its connection and dials again is, for the server, a new
   connection from the address of a session it may not have ended yet - is a
   label  f : conn -> alabel  that need not be injective. The definitions
   below look at the active list through such a label; Properties/C09c.v states
   that the slot accounting is by connection for every label. No proofs here. *)
From Coq Require Import List Arith Bool.
Import ListNotations.
From Modbus Require Import Model.Slots Model.SlotsVisit.

Definition alabel := nat.

(* the members of the active list that carry the label a *)
Definition at_label (f : conn -> alabel) (a : alabel) (s : sstate) : list conn :=
  filter (fun c => Nat.eqb (f c) a) (clients s).

Fixpoint has_dup (l : list nat) : bool :=
  match l with
  | [] => false
  | x :: t => existsb (Nat.eqb x) t || has_dup t
  end.

(* two members of the active list carry the same label *)
Definition shared_label (f : conn -> alabel) (s : sstate) : bool :=
  has_dup (map f (clients s)).

(* a client comes back: its new connection d goes through the admission while
   the server still holds the session of its previous connection c; the server
   then finds out (for the reason w) that c is gone and winds it down *)
Definition comeback (c d : conn) (w : why) : list label :=
  arrival d ++ departure c w.
