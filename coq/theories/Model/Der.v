(* The part of Go's encoding/asn1 (go1.23) that runs when extractRole calls
   asn1.Unmarshal(ext.Value, &role) with role a Go string.  Model only, no
   proofs.  Mirrors the Go code statement by statement, with explicit offsets:
   indexing bytes[offset] and slicing bytes[a:b] have an explicit [DPanic]
   outcome for the run-time panic of an out-of-range access (proved
   unreachable in Proofs/DerP.v), [DErr] stands for a non-nil Go error. *)
From Modbus Require Import Base.Bytes Model.Utf8.

Inductive outcome (A : Type) : Type :=
| DOk (a : A)
| DErr          (* the Go function returns a non-nil error *)
| DPanic.       (* index / slice bounds out of range *)
Arguments DOk {A} a.
Arguments DErr {A}.
Arguments DPanic {A}.

(* asn1.tagAndLength *)
Record tag_len := mk_tag_len {
  tl_class : N;          (* b >> 6 *)
  tl_compound : bool;    (* b & 0x20 == 0x20 *)
  tl_tag : N;            (* b & 0x1f *)
  tl_length : N
}.

(* bytes[offset]; the caller has tested offset < len(bytes) beforehand *)
Definition index_at (bytes : list N) (offset : nat) : outcome N :=
  match nth_error bytes offset with
  | Some b => DOk b
  | None => DPanic
  end.

(* the loop over the numBytes length octets of the long form:

     for i := 0; i < numBytes; i++ {
       if offset >= len(bytes) { err = "truncated tag or length" }
       b = bytes[offset]; offset++
       if ret.length >= 1<<23 { err = "length too large" }
       ret.length <<= 8; ret.length |= int(b)
       if ret.length == 0 { err = "superfluous leading zeros in length" }
     }

   For a byte b, (length << 8) | b = length * 256 + b.  The 1<<23 test means
   that at most four significant octets pass and the result is below 2^31. *)
Fixpoint length_octets (bytes : list N) (num_bytes : nat) (offset : nat) (len : N)
  : outcome (N * nat) :=
  match num_bytes with
  | O => DOk (len, offset)
  | S n =>
    if Nat.leb (length bytes) offset then DErr
    else match index_at bytes offset with
         | DOk b =>
           if 2 ^ 23 <=? len then DErr
           else let len' := len * 256 + b in
                if len' =? 0 then DErr
                else length_octets bytes n (S offset) len'
         | DErr => DErr
         | DPanic => DPanic
         end
  end.

(* asn1.parseTagAndLength(bytes, initOffset).  The high-tag-number form
   (b & 0x1f == 0x1f, base-128 tag) is not modelled octet by octet: Go either
   fails inside it or obtains a tag >= 31, which no string type has, so
   parseField ends in "tags don't match" for a string target: always an error.
   extractRole only calls Unmarshal with first byte 0x0c anyway. *)
Definition parse_tag_len (bytes : list N) (init_offset : nat) : outcome (tag_len * nat) :=
  let offset := init_offset in
  if Nat.leb (length bytes) offset then DErr
  else match index_at bytes offset with
  | DOk b =>
    let offset := S offset in
    let class := b / 64 in
    let compound := (b / 32) mod 2 =? 1 in
    let tag := b mod 32 in
    if tag =? 31 then DErr
    else if Nat.leb (length bytes) offset then DErr   (* truncated tag or length *)
    else match index_at bytes offset with
    | DOk b =>
      let offset := S offset in
      if b / 128 =? 0 then
        (* short form: the length is in the bottom 7 bits *)
        DOk (mk_tag_len class compound tag (b mod 128), offset)
      else
        let num_bytes := b mod 128 in
        if num_bytes =? 0 then DErr                   (* indefinite length *)
        else match length_octets bytes (N.to_nat num_bytes) offset 0 with
        | DOk (len, offset) =>
          if len <? 128 then DErr                     (* non-minimal length *)
          else DOk (mk_tag_len class compound tag len, offset)
        | DErr => DErr
        | DPanic => DPanic
        end
    | DErr => DErr
    | DPanic => DPanic
    end
  | DErr => DErr
  | DPanic => DPanic
  end.

(* asn1.invalidLength(offset, length, sliceLength):
     offset+length < offset || offset+length > sliceLength
   on 64-bit ints; length < 2^31 here, so the sum does not wrap and the first
   disjunct is false. *)
Definition invalid_length (offset : nat) (len : N) (slice_length : nat) : bool :=
  N.of_nat slice_length <? N.of_nat offset + len.

Definition tag_utf8string : N := 12.

(* bytes[lo:hi] *)
Definition slice_o (bytes : list N) (lo hi : nat) : outcome (list N) :=
  match slice bytes lo hi with
  | Some l => DOk l
  | None => DPanic
  end.

(* the second half of parseField for a UTF8String, from the length check on:

     if invalidLength(offset, t.length, len(bytes)) -> "data truncated"
     innerBytes := bytes[offset : offset+t.length]; offset += t.length
     v, err = parseUTF8String(innerBytes)      utf8.Valid or error
   and, back in Unmarshal,
     rest = bytes[offset:] *)
Definition utf8_body (bytes : list N) (offset : nat) (len : N) : outcome (list N * list N) :=
  if invalid_length offset len (length bytes) then DErr
  else
    let end_ := (offset + N.to_nat len)%nat in
    match slice_o bytes offset end_ with
    | DOk inner =>
      if utf8_valid inner then
        match slice_o bytes end_ (length bytes) with
        | DOk rest => DOk (inner, rest)
        | DErr => DErr
        | DPanic => DPanic
        end
      else DErr
    | DErr => DErr
    | DPanic => DPanic
    end.

(* asn1.Unmarshal(bytes, &s) with s a string, for inputs whose identifier octet
   is 0x0c (UNIVERSAL, primitive, tag 12 = UTF8String): parseField with empty
   params.  Result: (the string, rest).

     if offset == len(bytes)            -> "sequence truncated"
     t, offset, err = parseTagAndLength
     universalTag: a string target accepts several universal string tags; for
       tag 12 the expected tag becomes TagUTF8String, class universal, primitive
     then utf8_body

   Other identifier octets are answered with DErr here: Go would run the
   decoders of the other string types for some of them, but extractRole never
   gets that far (Proofs/DerP.v: with first byte 0x0c the tag test passes). *)
Definition unmarshal_utf8string (bytes : list N) : outcome (list N * list N) :=
  if Nat.eqb (length bytes) 0 then DErr
  else match parse_tag_len bytes 0 with
  | DOk (t, offset) =>
    if negb (andb (tl_class t =? 0) (andb (tl_tag t =? tag_utf8string) (negb (tl_compound t))))
    then DErr
    else utf8_body bytes offset (tl_length t)
  | DErr => DErr
  | DPanic => DPanic
  end.
