(* Lifecycle of a tcp+tls server: connections in every phase of becoming a
   session while Start / Stop run.

   Model/Slots.v does not know about TLS: a connection holds its place on the
   active list from the admission step (Enrol) to the removal step (Remove)
   and its session goroutine lives exactly that long, whatever happens on the
   socket in between. On a tcp+tls server the session goroutine first runs
   the TLS handshake; only a connection whose handshake has completed can
   have a request dispatched to a handler. This file adds that to the system
   of Slots.v: the phase the PEER has reached on each connection

     PSilent   TCP connected, nothing sent (handshake not started)
     PHello    ClientHello sent, then stalled
     PEstab    handshake complete, idle between two requests
     PMid      handshake complete, first bytes of a request sent

   three peer steps (send the ClientHello, run the rest of the handshake with
   a credential the server accepts, send the first bytes of a request), and a
   counter of handler invocations. The server steps are the steps of Slots.v;
   in particular Stop closes every connection of the active list: a
   connection in its handshake is an enrolled connection that has not served
   a request, and Stop closes it like any other.
   No proofs here. *)
From Coq Require Import List Arith Bool.
Import ListNotations.
From Modbus Require Import Model.Slots.

Inductive phase := PSilent | PHello | PEstab | PMid.

Definition phase_estab (p : phase) : bool :=
  match p with PEstab | PMid => true | _ => false end.

Record tl_state := mk_tl {
  tl_srv : sstate;             (* the server system of Slots.v *)
  tl_phase : conn -> phase;    (* how far the peer has got on each connection *)
  tl_calls : nat               (* handler invocations so far *)
}.

Definition tl_init (maxc : nat) : tl_state := mk_tl (init maxc) (fun _ => PSilent) 0.

Inductive tl_label :=
| TSrv (l : label)     (* a step of the server system *)
| THello (c : conn)    (* the peer sends its ClientHello and stalls *)
| TShake (c : conn)    (* the peer runs (the rest of) the handshake, acceptable credential *)
| TPart (c : conn).    (* the peer sends the first bytes of a request and stalls *)

(* the session goroutine of c is running and the server has not closed c's socket *)
Definition tl_live (b : tl_state) (c : conn) : bool :=
  stat_eqb (stat (tl_srv b) c) Serving && negb (closed (tl_srv b) c).

(* the handshake completes exactly on a live connection that is not a session yet *)
Definition tl_shake_ok (b : tl_state) (c : conn) : bool :=
  tl_live b c && negb (phase_estab (tl_phase b c)).

(* a request reaches a handler exactly on a live connection that is a session *)
Definition tl_req_ok (b : tl_state) (c : conn) : bool :=
  tl_live b c && phase_estab (tl_phase b c).

Definition tl_step (b : tl_state) (l : tl_label) : tl_state :=
  match l with
  | TSrv (Req c) =>
      if tl_req_ok b c
      then mk_tl (step (tl_srv b) (Req c)) (upd (tl_phase b) c PEstab) (S (tl_calls b))
      else b
  | TSrv x => mk_tl (step (tl_srv b) x) (tl_phase b) (tl_calls b)
  | THello c =>
      match tl_phase b c with
      | PSilent => mk_tl (tl_srv b) (upd (tl_phase b) c PHello) (tl_calls b)
      | _ => b
      end
  | TShake c =>
      if tl_shake_ok b c
      then mk_tl (tl_srv b) (upd (tl_phase b) c PEstab) (tl_calls b)
      else b
  | TPart c =>
      if tl_req_ok b c
      then mk_tl (tl_srv b) (upd (tl_phase b) c PMid) (tl_calls b)
      else b
  end.

Definition tl_run (b : tl_state) (tr : list tl_label) : tl_state := fold_left tl_step tr b.

(* what the peer of c sees: the server has closed the socket (EOF / reset) *)
Definition tl_peer_closed (b : tl_state) (c : conn) : bool := closed (tl_srv b) c.

(* live session goroutines: one per connection between Enrol and Remove *)
Definition tl_session_goroutine (b : tl_state) (c : conn) : bool :=
  stat_eqb (stat (tl_srv b) c) Serving || stat_eqb (stat (tl_srv b) c) Ended.

Definition tl_sessions (b : tl_state) : nat :=
  length (filter (tl_session_goroutine b) (clients (tl_srv b))).

(* live accept goroutines *)
Definition tl_acceptors (b : tl_state) : nat := acceptors (tl_srv b) + zombies (tl_srv b).
