(* Model of the server request loop (server.go handleTransport with the TCP
   transport's ReadRequest / WriteResponse). The user handler is an arbitrary
   function: every behaviour the properties quantify over is an instance.
   Follows the tree with fix F5 applied. No proofs here. *)
From Modbus Require Import Base.Bytes Model.Encoding Model.Wire.

Inductive hkind := HCoils | HDiscrete | HHolding | HInput.

Record hreq := mkhreq {
  h_kind : hkind;
  h_unit : N;
  h_addr : N;
  h_qty : N;
  h_write : bool;
  h_bools : list bool;     (* Args of a coil write *)
  h_regs : list N          (* Args of a register write *)
}.

(* what a handler may return as its error *)
Inductive herr :=
| HNone
| HModbus (code : N)   (* one of the errors mapErrorToExceptionCode knows: code in 1,2,3,4,5,6,8,10,11 *)
| HProtocol            (* ErrProtocolError *)
| HOther.              (* any other error *)

Record hres := mkhres { r_bools : list bool; r_regs : list N; r_err : herr }.

Definition handler (St : Type) := St -> hreq -> St * hres.

Inductive action :=
| Respond (p : pdu)
| CloseLink.

(* mapErrorToExceptionCode *)
Definition herr_code (e : herr) : N :=
  match e with
  | HModbus c => c
  | _ => 4
  end.

Definition exception_pdu (req : pdu) (code : N) : pdu :=
  mkpdu (p_unit req) (N.lor 0x80 (p_fc req)) [code].

Definition be_word (l : list N) : N :=
  match l with a :: b :: _ => a * 256 + b | _ => 0 end.

Section WithHandler.
  Context {St : Type} (h : handler St).

  (* the error a handler call leaves in err (fix F5: a protocol error
     returned by a handler is turned into a server device failure) *)
  Definition norm_herr (e : herr) : herr :=
    match e with HProtocol => HModbus 4 | x => x end.

  Definition server_process (st : St) (req : pdu) : St * list hreq * action :=
    let fc := p_fc req in
    let pl := p_payload req in
    let exc c := Respond (exception_pdu req c) in
    if orb (fc =? 1) (fc =? 2) then
      if negb (length pl =? 4)%nat then (st, [], CloseLink)
      else
        let addr := be_word pl in
        let qty := be_word (skipn 2 pl) in
        if orb (2000 <? qty) (qty =? 0) then (st, [], CloseLink)
        else if 65535 <? addr + qty - 1 then (st, [], exc 2)
        else
          let r := mkhreq (if fc =? 1 then HCoils else HDiscrete) (p_unit req) addr qty false [] [] in
          let '(st', res) := h st r in
          match norm_herr (r_err res) with
          | HNone =>
              if negb (lenN (r_bools res) =? qty) then (st', [r], exc 4)
              else
                let n := lenN (r_bools res) in
                let bc := u8 (n / 8 + (if n mod 8 =? 0 then 0 else 1)) in
                (st', [r], Respond (mkpdu (p_unit req) fc (bc :: encode_bools (r_bools res))))
          | e => (st', [r], exc (herr_code e))
          end
    else if fc =? 5 then
      if negb (length pl =? 4)%nat then (st, [], CloseLink)
      else
        let addr := be_word pl in
        let v2 := nth 2 pl 0 in
        let v3 := nth 3 pl 0 in
        if orb (andb (negb (v2 =? 0xff)) (negb (v2 =? 0))) (negb (v3 =? 0)) then (st, [], CloseLink)
        else
          let r := mkhreq HCoils (p_unit req) addr 1 true [v2 =? 0xff] [] in
          let '(st', res) := h st r in
          match norm_herr (r_err res) with
          | HNone => (st', [r], Respond (mkpdu (p_unit req) fc (be16 addr ++ [v2; v3])))
          | e => (st', [r], exc (herr_code e))
          end
    else if fc =? 15 then
      if (length pl <? 6)%nat then (st, [], CloseLink)
      else
        let addr := be_word pl in
        let qty := be_word (skipn 2 pl) in
        if orb (1968 <? qty) (qty =? 0) then (st, [], CloseLink)
        else if 65535 <? addr + qty - 1 then (st, [], exc 2)
        else
          let expected := qty / 8 + (if qty mod 8 =? 0 then 0 else 1) in
          if negb (nth 4 pl 0 =? u8 expected) then (st, [], CloseLink)
          else if negb (lenN pl - 5 =? expected) then (st, [], CloseLink)
          else
            match decode_bools (N.to_nat qty) (skipn 5 pl) with
            | None => (st, [], CloseLink)      (* would be a panic; proved unreachable *)
            | Some args =>
                let r := mkhreq HCoils (p_unit req) addr qty true args [] in
                let '(st', res) := h st r in
                match norm_herr (r_err res) with
                | HNone => (st', [r], Respond (mkpdu (p_unit req) fc (be16 addr ++ be16 qty)))
                | e => (st', [r], exc (herr_code e))
                end
            end
    else if orb (fc =? 3) (fc =? 4) then
      if negb (length pl =? 4)%nat then (st, [], CloseLink)
      else
        let addr := be_word pl in
        let qty := be_word (skipn 2 pl) in
        if orb (125 <? qty) (qty =? 0) then (st, [], CloseLink)
        else if 65535 <? addr + qty - 1 then (st, [], exc 2)
        else
          let r := mkhreq (if fc =? 3 then HHolding else HInput) (p_unit req) addr qty false [] [] in
          let '(st', res) := h st r in
          match norm_herr (r_err res) with
          | HNone =>
              if negb (lenN (r_regs res) =? qty) then (st', [r], exc 4)
              else
                (st', [r], Respond (mkpdu (p_unit req) fc
                   (u8 (lenN (r_regs res) * 2) :: u16s_to_bytes BigE (r_regs res))))
          | e => (st', [r], exc (herr_code e))
          end
    else if fc =? 6 then
      if negb (length pl =? 4)%nat then (st, [], CloseLink)
      else
        let addr := be_word pl in
        let value := be_word (skipn 2 pl) in
        let r := mkhreq HHolding (p_unit req) addr 1 true [] [value] in
        let '(st', res) := h st r in
        match norm_herr (r_err res) with
        | HNone => (st', [r], Respond (mkpdu (p_unit req) fc (be16 addr ++ be16 value)))
        | e => (st', [r], exc (herr_code e))
        end
    else if fc =? 16 then
      if (length pl <? 6)%nat then (st, [], CloseLink)
      else
        let addr := be_word pl in
        let qty := be_word (skipn 2 pl) in
        if orb (123 <? qty) (qty =? 0) then (st, [], CloseLink)
        else if 65535 <? addr + qty - 1 then (st, [], exc 2)
        else
          let expected := qty * 2 in
          if negb (nth 4 pl 0 =? u8 expected) then (st, [], CloseLink)
          else if negb (lenN pl - 5 =? expected) then (st, [], CloseLink)
          else
            match bytes_to_u16s BigE (skipn 5 pl) with
            | None => (st, [], CloseLink)      (* would be a panic; proved unreachable *)
            | Some args =>
                let r := mkhreq HHolding (p_unit req) addr qty true [] args in
                let '(st', res) := h st r in
                match norm_herr (r_err res) with
                | HNone => (st', [r], Respond (mkpdu (p_unit req) fc (be16 addr ++ be16 qty)))
                | e => (st', [r], exc (herr_code e))
                end
            end
    else (st, [], exc 1).

  Inductive event :=
  | EvCall (r : hreq)
  | EvResp (frame : list N)
  | EvClosed.

  (* handleTransport over the TCP transport: any ReadRequest error (short
     read, bad length, foreign protocol id) ends the session; the connection
     is then closed by handleTCPClient. *)
  Fixpoint server_session (fuel : nat) (st : St) (e : send) (s : list N) : list event :=
    match fuel with
    | O => [EvClosed]
    | S f =>
        match read_mbap e s with
        | (FErr _, _) => [EvClosed]
        | (FOk req txn, rest) =>
            let '(st', calls, act) := server_process st req in
            map EvCall calls ++
            match act with
            | Respond res => EvResp (assemble_mbap txn res) :: server_session f st' e rest
            | CloseLink => [EvClosed]
            end
        end
    end.

  Definition server_run (st : St) (e : send) (s : list N) : list event :=
    server_session (S (length s)) st e s.
End WithHandler.
