(* The behaviour of the PINNED upstream tree at the three places that the
   fix: commits F1, F2, F3 repaired (client.go before 81c17f1, 7fb2e0c,
   f6f8230). Kept only to document in Coq why the full statements of C01 and
   C02 were false before the repairs. No proofs here. *)
From Modbus Require Import Base.Bytes Model.Encoding Model.Wire Model.Client.

(* F2: quantity * 2 (resp. * 4) computed in 16-bit arithmetic *)
Definition pinned_register_count (q w : N) : N := u16 (q * w).

Definition pinned_req_read_regs_typed (cfg : ccfg) (w a q : N) (rt : regtype) : result pdu :=
  req_read_regs cfg a (if w =? 1 then q else pinned_register_count q w) rt.

(* F3: len(values) narrowed to 16 bits before any check *)
Definition pinned_req_write_coils (cfg : ccfg) (a : N) (vs : list bool) : result pdu :=
  let quantity := u16 (lenN vs) in
  if quantity =? 0 then Err EParams
  else if 1968 <? quantity then Err EParams
  else if 65535 <? a + quantity - 1 then Err EParams
  else
    let enc := encode_bools vs in
    Ok (mkpdu (c_unit cfg) 15 (be16 a ++ be16 quantity ++ [u8 (lenN enc)] ++ enc)).

(* F1: for value = false only the low value byte was compared *)
Definition pinned_validate_write_coil (a : N) (v : bool) (req res : pdu) : result values :=
  if p_fc res =? p_fc req then
    match p_payload res with
    | [a1; a0; v1; v0] =>
        if negb (a1 * 256 + a0 =? a) then Err EProtocol
        else if andb v (negb (v1 =? 0xff)) then Err EProtocol
        else if negb (v0 =? 0) then Err EProtocol
        else Ok VUnit
    | _ => Err EProtocol
    end
  else exception_or_protocol req res.
