(* UTF-8 validity as decided by Go's unicode/utf8.Valid, and the UTF-8 encoder.
   Model only, no proofs.

   Go's Valid looks at the first byte of every sequence: below 0x80 it is a
   one byte sequence; otherwise a table (first[]) gives the size of the
   sequence and the range accepted for the SECOND byte (acceptRanges[]); the
   remaining continuation bytes must lie in 80..BF.  The table is

     first byte    size   second byte    following
     00..7F        1
     C2..DF        2      80..BF
     E0            3      A0..BF         80..BF
     E1..EC        3      80..BF         80..BF
     ED            3      80..9F         80..BF
     EE..EF        3      80..BF         80..BF
     F0            4      90..BF         80..BF 80..BF
     F1..F3        4      80..BF         80..BF 80..BF
     F4            4      80..8F         80..BF 80..BF
     80..C1, F5..FF       invalid

   i.e. the usual DFA: no overlong forms (C0, C1, E0 80.., F0 80..), no
   surrogates (ED A0..), nothing above U+10FFFF (F4 90.., F5..).  A sequence
   cut short by the end of the input is invalid. *)
From Modbus Require Import Base.Bytes.

Definition byte_between (lo hi b : N) : bool := andb (lo <=? b) (b <=? hi).

(* continuation byte *)
Definition is_cont (b : N) : bool := byte_between 0x80 0xBF b.

(* lowest / highest second byte accepted after a 3 or 4 byte lead *)
Definition second_lo (b0 : N) : N :=
  if b0 =? 0xE0 then 0xA0 else if b0 =? 0xF0 then 0x90 else 0x80.
Definition second_hi (b0 : N) : N :=
  if b0 =? 0xED then 0x9F else if b0 =? 0xF4 then 0x8F else 0xBF.

Fixpoint utf8_valid (l : list N) : bool :=
  match l with
  | [] => true
  | b0 :: t =>
    if b0 <? 0x80 then utf8_valid t
    else if byte_between 0xC2 0xDF b0 then
      match t with
      | b1 :: t' => andb (is_cont b1) (utf8_valid t')
      | _ => false
      end
    else if byte_between 0xE0 0xEF b0 then
      match t with
      | b1 :: b2 :: t' =>
        andb (byte_between (second_lo b0) (second_hi b0) b1) (andb (is_cont b2) (utf8_valid t'))
      | _ => false
      end
    else if byte_between 0xF0 0xF4 b0 then
      match t with
      | b1 :: b2 :: b3 :: t' =>
        andb (byte_between (second_lo b0) (second_hi b0) b1)
             (andb (is_cont b2) (andb (is_cont b3) (utf8_valid t')))
      | _ => false
      end
    else false
  end.

(* Unicode scalar values: code points that are not surrogates *)
Definition is_scalar (c : N) : bool :=
  orb (c <? 0xD800) (andb (0xE000 <=? c) (c <? 0x110000)).

(* UTF-8 encoding of one scalar value (RFC 3629 section 3) *)
Definition utf8_encode1 (c : N) : list N :=
  if c <? 0x80 then [c]
  else if c <? 0x800 then [0xC0 + c / 64; 0x80 + c mod 64]
  else if c <? 0x10000 then [0xE0 + c / 4096; 0x80 + (c / 64) mod 64; 0x80 + c mod 64]
  else [0xF0 + c / 262144; 0x80 + (c / 4096) mod 64; 0x80 + (c / 64) mod 64; 0x80 + c mod 64].

Definition utf8_encode (cs : list N) : list N := flat_map utf8_encode1 cs.
