(* udp.go: udpSockWrapper turns a datagram socket into a byte stream. It owns a
   receive buffer rxbuf of maxTCPFrameLength = 260 bytes and a count of
   leftover bytes (the first leftoverCount bytes of rxbuf are the part of the
   last datagram that the framer has not consumed yet). No proofs here. *)
From Modbus Require Import Base.Bytes Model.Crc Model.Encoding Model.Wire Model.Client Model.Server
  Model.Chunks.

Definition usw_rxbuf_len : nat := 260.

Record usw := mkusw {
  usw_left : list N;          (* rxbuf[0:leftoverCount] *)
  usw_net : list (list N)     (* datagrams queued in the socket, oldest first *)
}.

Definition usw_init (dgrams : list (list N)) : usw := mkusw [] dgrams.

(* udpSockWrapper.Read(buf), len(buf) = buf_len *)
Definition usw_read (buf_len : nat) (u : usw) : rd1_res usw :=
  match usw_left u with
  | _ :: _ =>
      (* leftoverCount > 0: copied = copy(buf, rxbuf[0:leftoverCount]); the
         remaining leftover bytes are moved to the front of rxbuf;
         leftoverCount -= copied *)
      Rd1 (firstn buf_len (usw_left u)) (mkusw (skipn buf_len (usw_left u)) (usw_net u))
  | [] =>
      match usw_net u with
      | [] => Rd1None                                  (* sock.Read fails: deadline *)
      | d :: net' =>
          (* rlen, err = sock.Read(rxbuf): one datagram, cut to len(rxbuf);
             the part that does not fit is discarded by the socket layer *)
          let rx := firstn usw_rxbuf_len d in
          (* copied = copy(buf, rxbuf[0:rlen]); leftoverCount = rlen - copied *)
          Rd1 (firstn buf_len rx) (mkusw (skipn buf_len rx) net')
      end
  end.

(* io.ReadFull over the wrapper *)
Definition usw_read_full (n : nat) (u : usw) : grf usw :=
  io_read_full usw_read (n + length (usw_net u)) n [] u.

(* the byte stream the wrapper presents: what is left of the last datagram,
   then every queued datagram cut to the receive buffer *)
Definition usw_flat (u : usw) : list N :=
  usw_left u ++ concat (map (firstn usw_rxbuf_len) (usw_net u)).

Definition usw_size (u : usw) : nat := length (usw_flat u).

(* client and server readers over the wrapper (tcp+udp://, rtuoverudp://) *)
Definition read_mbap_u := g_read_mbap usw_read_full.
Definition read_rtu_u := g_read_rtu usw_read_full.
Definition client_call_u := g_client_call usw_read_full usw_size.
