(* Modbus/TLS (tcp+tls): the LOCAL end's own credential and the clock peers are
   validated with. Model only, no proofs.

   Model/TlsPolicy.v knows the local certificate (TLSServerCert /
   TLSClientCert) as an opaque identity. Here it gets what a certificate also
   has, a validity period, and crypto/tls gets the one input through which a
   tls.Config can move the instant at which the PEER's certificates are
   validated: the field tls.Config.Time ("Time returns the current time as the
   number of seconds since the epoch. If Time is nil, TLS uses time.Now.").

   The oracles of Model/TlsPolicy.v become families indexed by that instant:
   `hs t pol peer` is the outcome of the handshake under tls.Config `pol` when
   the clock of the configuration reads t.

   Modelled from the repository:
     server.go startTLS and client.go Open build their tls.Config without a
     Time field: the clock is time.Now, whatever TLSServerCert / TLSClientCert
     hold. Nothing in NewServer / NewClient / startTLS / Open looks at the
     validity period of the local certificate (only at whether the pointer is
     nil, Model/Config.v). *)
From Modbus Require Import Base.Bytes Model.Wire Model.Client Model.Server Model.Role Model.Config
  Model.TlsPolicy.

(* validity period of a certificate: NotBefore, NotAfter (seconds since the epoch) *)
Record tls_window := mk_tls_window { twi_not_before : N; twi_not_after : N }.

(* x509: `now.Before(NotBefore)` / `now.After(NotAfter)` both false *)
Definition tls_in_window (t : N) (w : tls_window) : bool :=
  (twi_not_before w <=? t) && (t <=? twi_not_after w).

(* the key pair a configuration holds: its leaf and the validity period of that leaf *)
Record tls_own := mk_tls_own { two_cert : tls_cert; two_window : tls_window }.

Record tls_srv_conf_l := mk_tls_srv_conf_l {
  tsl_url : list N;
  tsl_timeout : Z;
  tsl_max_clients : N;
  tsl_own : option tls_own;                 (* TLSServerCert *)
  tsl_cas : option (list tls_cert)          (* TLSClientCAs *)
}.

Record tls_cli_conf_l := mk_tls_cli_conf_l {
  tcl_url_l : list N;
  tcl_timeout_l : Z;
  tcl_own : option tls_own;                 (* TLSClientCert *)
  tcl_roots_l : option (list tls_cert)      (* TLSRootCAs *)
}.

(* what the rest of the model (Model/TlsPolicy.v) is given *)
Definition tsl_conf (c : tls_srv_conf_l) : tls_srv_conf :=
  mk_tls_srv_conf (tsl_url c) (tsl_timeout c) (tsl_max_clients c)
                  (option_map two_cert (tsl_own c)) (tsl_cas c).

Definition tcl_conf (c : tls_cli_conf_l) : tls_cli_conf :=
  mk_tls_cli_conf (tcl_url_l c) (tcl_timeout_l c) (option_map two_cert (tcl_own c)) (tcl_roots_l c).

(* the same configuration holding a key pair with another validity period *)
Definition tls_own_set_window (w : tls_window) (o : tls_own) : tls_own :=
  mk_tls_own (two_cert o) w.

Definition tsl_set_window (c : tls_srv_conf_l) (w : tls_window) : tls_srv_conf_l :=
  mk_tls_srv_conf_l (tsl_url c) (tsl_timeout c) (tsl_max_clients c)
                    (option_map (tls_own_set_window w) (tsl_own c)) (tsl_cas c).

Definition tcl_set_window (c : tls_cli_conf_l) (w : tls_window) : tls_cli_conf_l :=
  mk_tls_cli_conf_l (tcl_url_l c) (tcl_timeout_l c)
                    (option_map (tls_own_set_window w) (tcl_own c)) (tcl_roots_l c).

(* tls.Config.Time: None = nil = time.Now *)
Definition tls_clock := option (N -> N).

(* what the clock of a configuration reads when time.Now() is `now` *)
Definition tls_clock_read (k : tls_clock) (now : N) : N :=
  match k with
  | None => now
  | Some f => f now
  end.

(* startTLS / Open: the Time field is left at its zero value *)
Definition tls_clock_of_server (c : tls_srv_conf_l) : tls_clock := None.
Definition tls_clock_of_client (c : tls_cli_conf_l) : tls_clock := None.

(* the instant at which the peer's certificates are validated *)
Definition tls_server_check_time (now : N) (c : tls_srv_conf_l) : N :=
  tls_clock_read (tls_clock_of_server c) now.

Definition tls_client_check_time (now : N) (c : tls_cli_conf_l) : N :=
  tls_clock_read (tls_clock_of_client c) now.

Section OraclesAt.
  (* Go's crypto/tls with its clock: first argument = what Config.Time() reads
     during the handshake *)
  Variable tls_handshake_srv_at : N -> tls_policy -> tls_peer -> option tls_session.
  Variable tls_handshake_cli_at : N -> tls_policy -> tls_peer -> option tls_session.
  (* time.Now() *)
  Variable tls_now : N.

  Section WithRoleHandler.
    Context {St : Type} (h : list N -> handler St).

    (* handleTCPClient on a server whose own key pair has a validity period *)
    Definition tls_server_conn_l (c : tls_srv_conf_l) (peer : tls_peer) (st : St) (e : send) (s : list N)
      : list event :=
      tls_server_conn (tls_handshake_srv_at (tls_server_check_time tls_now c)) h (tsl_conf c) peer st e s.
  End WithRoleHandler.

  (* Open() *)
  Definition tls_client_open_l (c : tls_cli_conf_l) (eff : client_eff) (server : tls_peer) : option tls_link :=
    tls_client_open (tls_handshake_cli_at (tls_client_check_time tls_now c)) (tcl_conf c) eff server.

  (* NewClient + Open + one call: everything written on the connection *)
  Definition tls_client_tx_l (c : tls_cli_conf_l) (server : tls_peer) (cfg : ccfg) (txn : N) (o : op)
                             (e : send) (s : list N) : list (list N) :=
    tls_client_tx (tls_handshake_cli_at (tls_client_check_time tls_now c)) (tcl_conf c) server cfg txn o e s.
End OraclesAt.
