(* Model of the timing part of rtu_transport.go. No proofs here.

   Go's time.Duration is an int64 count of nanoseconds; the model computes in
   Z with Go's truncating division (Z.quot). Proofs/TimingP.v shows that for
   the rates of the property (1 .. 10^7) no intermediate value leaves the
   int64 range, so Z arithmetic and int64 arithmetic coincide.

   Second part: the send-time state machine of rtuTransport.ExecuteRequest
   (rtu_transport.go:64-107) over an abstract clock. The clock is not
   deterministic: how long a statement takes, by how much a Sleep overshoots
   and when the reply arrives is chosen by an adversary. The choices of one
   exchange are the fields of the record [xchg]; the only thing the model
   assumes about them (predicate [admissible], used by the theorems, not by
   the functions) is that they are non-negative, i.e. the clock is monotone
   and Sleep d advances it by at least d. *)
From Modbus Require Import Base.Bytes.
Local Open Scope Z_scope.

(* ------------------------------------------------------------ computation *)

(* time.Second, in nanoseconds *)
Definition second_ns : Z := 1000000000.

(* serialCharTime: ct = 11 * time.Second / time.Duration(rate_bps) *)
Definition char_time (rate : Z) : Z := Z.quot (11 * second_ns) rate.

(* newRTUTransport: speed >= 19200 -> 1750 * time.Microsecond
                    else (serialCharTime(speed) * 35) / 10 *)
Definition t35 (rate : Z) : Z :=
  if 19200 <=? rate then 1750 * 1000 else Z.quot (char_time rate * 35) 10.

(* ------------------------------------------------------- send-time machine *)

(* what the exchange ended with, as far as the timing code can tell *)
Inductive outcome :=
| Heard      (* readRTUFrame returned anything but ErrRequestTimedOut: a reply,
                or garbage (bad CRC, short frame, protocol error) *)
| Silent     (* ErrRequestTimedOut: nothing came back *)
| WriteFail. (* link.Write failed: ExecuteRequest returns at line 83 *)

(* the transport's timing state plus the clock *)
Record tstate := mk_tstate {
  clock : Z;          (* current instant, ns *)
  last_activity : Z   (* rt.lastActivity, ns on the same clock *)
}.

(* one exchange: the request length and the adversary's choices (all delays
   in ns) *)
Record xchg := mk_xchg {
  x_n : Z;          (* bytes written by link.Write *)
  x_out : outcome;
  x_enter : Z;      (* idle time before the call + SetDeadline, up to the clock read of time.Since (line 72) *)
  x_sleep1 : Z;     (* overshoot of the first Sleep, up to ts := time.Now() (line 77) *)
  x_write : Z;      (* ts .. first byte handed to the link by Write (line 81) *)
  x_written : Z;    (* .. the time.Now() inside the Sleep argument (line 92) *)
  x_sleep2 : Z;     (* overshoot of the second Sleep *)
  x_read : Z;       (* duration of readRTUFrame (and of the re-sync sleep + discard, lines 97-102) *)
  x_rx : Z;         (* how long before the read returned the last byte of the reply had arrived *)
  x_stamp : Z       (* read returned .. time.Now() of line 106 *)
}.

Definition admissible (x : xchg) : Prop :=
  0 <= x_n x /\ 0 <= x_enter x /\ 0 <= x_sleep1 x /\ 0 <= x_write x /\
  0 <= x_written x /\ 0 <= x_sleep2 x /\ 0 <= x_read x /\ 0 <= x_rx x /\ 0 <= x_stamp x.

(* what an observer on the line sees of one exchange *)
Record event := mk_event {
  ev_out : outcome;
  ev_tx_start : Z;    (* the request starts being transmitted *)
  ev_tx_end : Z;      (* estimated end of the transmission: ts + n * t1 *)
  ev_rx_end : Z       (* Heard: the instant the last byte of the reply arrived *)
}.

(* time.Sleep(d): returns immediately when d <= 0, else after at least d *)
Definition sleep (now d extra : Z) : Z := now + Z.max 0 d + extra.

(* rtuTransport.ExecuteRequest, timing only *)
Definition exchange (t1 t35 : Z) (s : tstate) (x : xchg) : tstate * event :=
  let now0 := clock s + x_enter x in
  (* t = time.Since(lastActivity.Add(t35)); if t < 0 { time.Sleep(-t) } *)
  let t := now0 - (last_activity s + t35) in
  let ts := (if t <? 0 then sleep now0 (- t) 0 else now0) + x_sleep1 x in
  let tx_start := ts + x_write x in
  let now1 := tx_start + x_written x in
  match x_out x with
  | WriteFail =>
      (mk_tstate now1 (last_activity s), mk_event WriteFail tx_start tx_start tx_start)
  | o =>
      (* rt.lastActivity = ts.Add(time.Duration(n) * rt.t1) *)
      let la1 := ts + x_n x * t1 in
      (* time.Sleep(rt.lastActivity.Add(rt.t35).Sub(time.Now())) *)
      let now2 := sleep now1 (la1 + t35 - now1) (x_sleep2 x) in
      let ret := now2 + x_read x in
      let rx_end := ret - x_rx x in
      let now3 := ret + x_stamp x in
      (* if err != ErrRequestTimedOut { rt.lastActivity = time.Now() } *)
      (mk_tstate now3 (match o with Silent => la1 | _ => now3 end),
       mk_event o tx_start la1 rx_end)
  end.

(* a history of exchanges *)
Fixpoint run (t1 t35 : Z) (s : tstate) (xs : list xchg) : list event :=
  match xs with
  | [] => []
  | x :: xs' => let (s', e) := exchange t1 t35 s x in e :: run t1 t35 s' xs'
  end.

(* the instant recorded as the end of the last frame on the line: the arrival
   of the last reply byte when something was heard, the estimated end of the
   own transmission when nothing came back; a failed Write records nothing *)
Definition frame_end (e : event) : option Z :=
  match ev_out e with
  | Heard => Some (ev_rx_end e)
  | Silent => Some (ev_tx_end e)
  | WriteFail => None
  end.
