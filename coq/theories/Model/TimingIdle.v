(* Bytes that reach the client while it is idle. No proofs here.

   Model/Timing.v is a history of exchanges in which the only thing a client
   ever receives is what the read of its own exchange returns. On a shared
   line, and behind an rtuovertcp gateway, bytes also arrive BETWEEN two
   calls: the late reply to a request that timed out, a frame some other unit
   sends unasked. They wait in the link's buffer until the client reads the
   link again. The property speaks about every frame the client received, so
   it covers these too: a request must not start earlier than the inter-frame
   delay after the return of the read that took the last of those bytes,
   whichever statement of the client that read belongs to.

   This file adds the link's buffer and the caller's idle time to the
   send-time machine. What the client does with buffered bytes when a call
   begins is a component of the model, an [entry_rule]:
     LeaveQueued   rtu_transport.go: nothing is read before the request is
                   written; the bytes are met by the read of the exchange
                   (after the request and the post-transmit delay) and taken
                   as its reply, the instant after that read is recorded;
     DrainStamp    they are read and thrown away first, and the instant after
                   that read is recorded as line activity;
     DrainNoStamp  they are read and thrown away first and nothing is recorded.
   The observable is the timeline of the link as the client's side sees it:
   [Took a] (a read that returned bytes returned at a), [Sent b] (a request
   started at b).

   [idle_gap]/[idle_silence_okb] run the machine on the script of a
   correspondence case (scenario silenceidle) and give the smallest silence
   between a read that took bytes and the next request, and the predicate on
   a measured one. *)
From Modbus Require Import Base.Bytes Model.Timing.
Local Open Scope Z_scope.

Inductive entry_rule := LeaveQueued | DrainStamp | DrainNoStamp.

(* the rules that record what they read *)
Definition stamps (rule : entry_rule) : Prop :=
  match rule with DrainNoStamp => False | _ => True end.

(* one step of a session on an RTU link *)
Inductive istep :=
| SIdle (d : Z)                         (* the caller does nothing for d ns *)
| SArrive (len : Z)                     (* a frame of len bytes lands in the link's buffer *)
| SCall (x : xchg) (dr : Z) (reply : Z). (* ExecuteRequest. dr: duration of the read at entry when the rule
                                          has one; reply: length of the frame the device sends in answer
                                          during the call, 0 when it stays silent *)

Definition istep_ok (st : istep) : Prop :=
  match st with
  | SIdle d => 0 <= d
  | SArrive len => 1 <= len
  | SCall x dr reply => admissible x /\ 0 <= dr /\ 0 <= reply
  end.

(* what happens on the client's side of the link *)
Inductive lev :=
| Took (a : Z)     (* a read of the link that returned bytes returned at a *)
| Sent (b : Z).    (* a request started being transmitted at b *)

(* the inter-frame rule on an ordered pair of the timeline *)
Definition quiet (t35 : Z) (e1 e2 : lev) : Prop :=
  match e1, e2 with
  | Took a, Sent b => a + t35 <= b
  | _, _ => True
  end.

(* timing state of the transport and the frames waiting in the link's buffer *)
Record istate := mk_istate {
  i_t : tstate;
  i_q : list Z
}.

(* the exchange with the outcome the buffer dictates; the instant of the
   event is the return of the read (x_rx = 0) *)
Definition heard_as (x : xchg) (o : outcome) : xchg :=
  mk_xchg (x_n x) o (x_enter x) (x_sleep1 x) (x_write x) (x_written x) (x_sleep2 x)
          (x_read x) 0 (x_stamp x).

(* the beginning of a call *)
Definition entry (rule : entry_rule) (s : tstate) (q : list Z) (dr : Z) : tstate * list Z * list lev :=
  match rule, q with
  | LeaveQueued, _ => (s, q, [])
  | _, [] => (mk_tstate (clock s + dr) (last_activity s), [], [])
  | DrainStamp, _ :: _ =>
      let now := clock s + dr in
      (mk_tstate now (Z.max (last_activity s) now), [], [Took now])
  | DrainNoStamp, _ :: _ =>
      let now := clock s + dr in
      (mk_tstate now (last_activity s), [], [Took now])
  end.

Definition istep_run (rule : entry_rule) (t1 t35 : Z) (s : istate) (st : istep) : istate * list lev :=
  match st with
  | SIdle d =>
      (mk_istate (mk_tstate (clock (i_t s) + d) (last_activity (i_t s))) (i_q s), [])
  | SArrive len =>
      (mk_istate (i_t s) (i_q s ++ [len]), [])
  | SCall x dr reply =>
      let '(s0, q0, evs0) := entry rule (i_t s) (i_q s) dr in
      match x_out x with
      | WriteFail =>
          (* the request never left: no answer either *)
          let (s1, e) := exchange t1 t35 s0 x in
          (mk_istate s1 q0, evs0 ++ [Sent (ev_tx_start e)])
      | _ =>
          (* readRTUFrame takes the first frame there is: a buffered one
             before the answer to this request *)
          match q0 ++ (if 0 <? reply then [reply] else []) with
          | [] =>
              let (s1, e) := exchange t1 t35 s0 (heard_as x Silent) in
              (mk_istate s1 [], evs0 ++ [Sent (ev_tx_start e)])
          | _ :: q2 =>
              let (s1, e) := exchange t1 t35 s0 (heard_as x Heard) in
              (mk_istate s1 q2, evs0 ++ [Sent (ev_tx_start e); Took (ev_rx_end e)])
          end
      end
  end.

(* the timeline of a session *)
Fixpoint irun (rule : entry_rule) (t1 t35 : Z) (s : istate) (steps : list istep) : list lev :=
  match steps with
  | [] => []
  | st :: steps' =>
      let (s', evs) := istep_run rule t1 t35 s st in evs ++ irun rule t1 t35 s' steps'
  end.

(* the silences of a timeline: for every request, the time since the latest
   read that took bytes before it ([last]: the latest one so far) *)
Fixpoint gaps (last : option Z) (evs : list lev) : list Z :=
  match evs with
  | [] => []
  | Took a :: evs' => gaps (Some (match last with Some a0 => Z.max a0 a | None => a end)) evs'
  | Sent b :: evs' =>
      match last with
      | Some a => (b - a) :: gaps last evs'
      | None => gaps last evs'
      end
  end.

Definition min_gap (gs : list Z) : option Z :=
  match gs with
  | [] => None
  | g :: gs' => Some (fold_right Z.min g gs')
  end.

(* number of requests of a session *)
Definition script_calls (steps : list istep) : Z :=
  fold_right (fun st a => match st with SCall _ _ _ => 1 + a | _ => a end) 0 steps.

Definition sent_count (evs : list lev) : Z :=
  fold_right (fun ev a => match ev with Sent _ => 1 + a | _ => a end) 0 evs.

(* ------------------------------------------------ scripts of the check *)

(* a call of an n-byte request in which nothing but the line takes time *)
Definition quiet_call (n reply : Z) : istep :=
  SCall (mk_xchg n Heard 0 0 0 0 0 0 0 0) 0 reply.

(* a transport that has been silent for longer than the inter-frame delay *)
Definition idle_start (rate : Z) : istate := mk_istate (mk_tstate 0 (- t35 rate)) [].

(* the smallest silence between a read that took bytes and the next request
   when the session [steps] runs at [rate]; None: no request follows a read *)
Definition idle_gap (rule : entry_rule) (rate : Z) (steps : list istep) : option Z :=
  min_gap (gaps None (irun rule (char_time rate) (t35 rate) (idle_start rate) steps)).

(* predicate of the correspondence check on a session that made [n] requests
   and kept [gap] as its smallest measured silence (None: nothing to judge) *)
Definition idle_silence_okb (rate : Z) (steps : list istep) (n : Z) (gap : option Z) : bool :=
  (script_calls steps <=? n) &&
  match gap with
  | Some g => t35 rate <=? g
  | None => true
  end.
