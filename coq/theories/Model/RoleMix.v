(* ONE process with several running ModbusServer objects - typically a tcp+tls
   server (port 802) next to a plain tcp server (port 502) - and the sessions
   they accept, one after the other and overlapping.  Model only, no proofs.

   server.go acceptTCPClients / handleTCPClient: every accepted socket is
   served by a goroutine of the server object whose listener accepted it,

     func (ms *ModbusServer) handleTCPClient(sock net.Conn) {
       var clientRole string
       switch ms.transportType {
       case modbusTCP:
         ms.handleTransport(newTCPTransport(sock, ...), sock.RemoteAddr().String(), "")
       case modbusTCPOverTLS:
         tlsSock, clientRole, err = ms.startTLS(sock)
         if err == nil { ms.handleTransport(newTCPTransport(tlsSock, ...), ..., clientRole) }
       }
       ...
     }

   The role handed to handleTransport (and from there to every handler
   invocation of the session) is a LOCAL of this call: the literal "" on a
   plain tcp server, extractRole(PeerCertificates[0]) of THIS socket on a
   tcp+tls server.  Nothing is kept in the server object, and nothing is kept
   in the package (the process): the recursion below carries the server
   objects unchanged and has no process state.  (A library that recycled
   per-session state between connections, within one server or across the
   servers of the process, would need a state here, and the correspondence run
   of scenario tlsrolemix would disagree with this model.)

   A connection is (index of the server object that accepted it, its peer).
   The result has one entry per connection, in the order of the connections:
   None = no handler is ever invoked for it (startTLS returned an error, or
   there is no such server), Some role = the ClientRole every handler
   invocation of that session carries. *)
From Modbus Require Import Base.Bytes Model.Role Model.Config Model.TlsPolicy.

Section Oracle.
  (* crypto/tls, server side (see Model/TlsPolicy.v) *)
  Variable tls_handshake_srv : tls_policy -> tls_peer -> option tls_session.

  (* handleTCPClient on the server object NewServer builds from c: the role
     argument of handleTransport, None when handleTransport is not reached *)
  Definition mix_conn_role (c : tls_srv_conf) (peer : tls_peer) : option (list N) :=
    match tls_new_server c with
    | CfgErr _ => None                               (* no server object *)
    | CfgOk eff =>
        match se_transport eff with
        | TTcp => Some (session_role false [])       (* the literal "" *)
        | TTcpOverTls => tls_start_tls tls_handshake_srv c peer
        | _ => None                                  (* "unimplemented transport type": never built *)
        end
    end.

  (* the server objects of the process, and the connections in the order they
     are accepted *)
  Fixpoint mix_serve_sessions (srvs : list tls_srv_conf) (conns : list (nat * tls_peer))
    : list (option (list N)) :=
    match conns with
    | [] => []
    | (k, peer) :: later =>
        match nth_error srvs k with
        | Some c => mix_conn_role c peer
        | None => None
        end :: mix_serve_sessions srvs later
    end.
End Oracle.

(* the connections server object k accepted, in order *)
Fixpoint mix_conns_of (k : nat) (conns : list (nat * tls_peer)) : list tls_peer :=
  match conns with
  | [] => []
  | (j, peer) :: later => if Nat.eqb j k then peer :: mix_conns_of k later else mix_conns_of k later
  end.

(* the entries of a per-connection result that belong to server object k *)
Fixpoint mix_part_of {A : Type} (k : nat) (conns : list (nat * tls_peer)) (rs : list A) : list A :=
  match conns, rs with
  | (j, _) :: later, r :: more => if Nat.eqb j k then r :: mix_part_of k later more else mix_part_of k later more
  | _, _ => []
  end.
