(* Modbus/TLS (tcp+tls): ONE server object and a history of connection attempts
   some of which are still IN their handshake while later peers connect.
   Model only, no proofs.

   Model/TlsHistory.v takes the attempts of a history strictly one after the
   other: every peer does all it has to do at once. The property says that
   correctly authenticated peers are served - whatever the other peers of the
   server do, hence also when an earlier peer has opened its TCP connection
   and sends nothing, or sends half a ClientHello, or stops before its second
   flight, and stays like that while the authenticated client connects.

   Modelled from the repository:
     server.go acceptTCPClients: after Accept() the socket is enrolled in
       ms.tcpClients when len(ms.tcpClients) < MaxClients (else it is closed
       at once) and `go ms.handleTCPClient(sock)` is spun: the accept loop is
       back in Accept() without waiting for anything the peer has to send;
     handleTCPClient: startTLS (the tls.Config is built from ms.conf when the
       goroutine starts, Handshake() blocks in that goroutine only, for as
       long as the peer takes - the 30 s deadline is not modelled), then
       handleTransport, then the socket is closed and leaves ms.tcpClients.
   Hence a peer that is slow in its handshake holds one of the MaxClients
   places from the moment it is accepted and nothing else: the server object
   is what it was, the accept loop runs, every other accepted socket has a
   goroutine of its own.

   A step of such a history is an attempt with a PACE:
     PaceAtOnce  the peer does everything at once (a step of TlsHistory.v):
                 its place is free again before the next peer arrives;
     PaceLate    the peer stalls in its handshake while ALL the later steps
                 of the history arrive, then completes it and sends its
                 request: what the server decides for it is decided with the
                 tls.Config built when it arrived;
     PaceNever   the peer stalls likewise and then goes away without
                 completing the handshake: all the server ever sees of it is
                 a peer that presented no certificate and agreed on no
                 protocol version (tls_peer_abandons).
   The result lists the events of every step in the order of ARRIVAL. *)
From Modbus Require Import Base.Bytes Model.Wire Model.Client Model.Server Model.Role Model.Config
  Model.TlsPolicy Model.TlsHistory.

Inductive tls_pace := PaceAtOnce | PaceLate | PaceNever.

(* the connection stays on the active list while the later steps arrive *)
Definition tls_pace_holds (p : tls_pace) : bool :=
  match p with PaceAtOnce => false | PaceLate | PaceNever => true end.

Record tls_pstep (St : Type) := mk_tls_pstep {
  tps_pace : tls_pace;
  tps_attempt : tls_attempt St
}.
Arguments mk_tls_pstep {St} _ _.
Arguments tps_pace {St} _.
Arguments tps_attempt {St} _.

(* what a server-side Handshake() has seen of a peer that gives up half way *)
Definition tls_peer_abandons (p : tls_peer) : tls_peer :=
  mk_tls_peer (tpe_speaks_tls p) [] [].

(* the attempt as far as the server gets to see it *)
Definition tls_pstep_seen {St : Type} (s : tls_pstep St) : tls_attempt St :=
  match tps_pace s with
  | PaceNever => mk_tls_attempt (tls_peer_abandons (tat_peer (tps_attempt s))) (tat_state (tps_attempt s)) []
  | PaceAtOnce | PaceLate => tps_attempt s
  end.

(* MaxClients of the running server: the places of ms.tcpClients (no server
   object, no place) *)
Definition tls_places (c : tls_srv_conf) : N :=
  match tls_new_server c with
  | CfgOk eff => se_max_clients eff
  | CfgErr _ => 0
  end.

Section Oracles.
  Variable tls_handshake_srv : tls_policy -> tls_peer -> option tls_session.

  Section WithRoleHandler.
    Context {St : Type} (h : list N -> handler St).

    (* acceptTCPClients for one accepted socket, `held` places being taken by
       handshakes that are still pending: the server object afterwards, the
       events of the connection, the places taken afterwards *)
    Definition tls_pending_accept (o : tls_srv_obj) (held : N) (e : send) (s : tls_pstep St)
      : tls_srv_obj * list event * N :=
      if held <? tls_places (tso_conf o)
      then let (o1, evs) := tls_obj_accept tls_handshake_srv h o e (tls_pstep_seen s) in
           (o1, evs, if tls_pace_holds (tps_pace s) then held + 1 else held)
      else (o, [EvClosed], held).        (* "max. number of concurrent connections reached" *)

    Fixpoint tls_pending_history (o : tls_srv_obj) (held : N) (e : send) (l : list (tls_pstep St))
      : tls_srv_obj * list (list event) :=
      match l with
      | [] => (o, [])
      | s :: rest =>
          let '(o1, evs, held1) := tls_pending_accept o held e s in
          let (o2, more) := tls_pending_history o1 held1 e rest in
          (o2, evs :: more)
      end.

    (* NewServer + Start + the history *)
    Definition tls_server_pending (c : tls_srv_conf) (e : send) (l : list (tls_pstep St)) : list (list event) :=
      snd (tls_pending_history (tls_new_obj c) 0 e l).
  End WithRoleHandler.
End Oracles.

(* the steps of a history whose handshake stays pending *)
Definition tls_pending_count {St : Type} (l : list (tls_pstep St)) : N :=
  N.of_nat (length (filter (fun s => tls_pace_holds (tps_pace s)) l)).
