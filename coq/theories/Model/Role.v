(* ModbusServer.extractRole (server.go) and the role a session hands to the
   request handlers.  Model only, no proofs.

   A certificate is seen as its list of extensions, each one projected to
   (Id.Equal(modbusRoleOID), Value).

     for _, ext := range cert.Extensions {
       if ext.Id.Equal(modbusRoleOID) {
         if found { badCert = true; break }
         found = true
         if len(ext.Value) < 2 || ext.Value[0] != 0x0c { badCert = true; break }
         rest, err = asn1.Unmarshal(ext.Value, &role)
         if err != nil { badCert = true; break }
         if len(rest) != 0 { badCert = true; break }
       }
     }
     if badCert { role = "" }
     return

   The loop state is (role, found); the loop result is (role, badCert).  The
   variable role is whatever the last successful Unmarshal stored (Unmarshal
   stores the string before rest is looked at; on error it stores nothing). *)
From Modbus Require Import Base.Bytes Model.Utf8 Model.Der.

Definition cert_ext := (bool * list N)%type.

Fixpoint role_loop (exts : list cert_ext) (role : list N) (found : bool)
  : outcome (list N * bool) :=
  match exts with
  | [] => DOk (role, false)
  | (is_role, value) :: more =>
    if is_role then
      if found then DOk (role, true)
      else
        (* found = true from here on *)
        if Nat.ltb (length value) 2 then DOk (role, true)
        else match index_at value 0 with
        | DOk b0 =>
          if negb (b0 =? 0x0c) then DOk (role, true)
          else match unmarshal_utf8string value with
          | DOk (s, rest) =>
            if negb (Nat.eqb (length rest) 0) then DOk (s, true)
            else role_loop more s true
          | DErr => DOk (role, true)
          | DPanic => DPanic
          end
        | DErr => DErr
        | DPanic => DPanic
        end
    else role_loop more role found
  end.

(* the run of extractRole: DOk role, or DPanic *)
Definition extract_role_run (exts : list cert_ext) : outcome (list N) :=
  match role_loop exts [] false with
  | DOk (role, bad) => DOk (if bad then [] else role)
  | DErr => DErr
  | DPanic => DPanic
  end.

(* the returned string (Properties/C15.v, c15_total: the run is always DOk) *)
Definition extract_role (exts : list cert_ext) : list N :=
  match extract_role_run exts with
  | DOk r => r
  | _ => []
  end.

(* handleTCPClient: clientRole is the zero string unless the listener is
   tcp+tls, where startTLS sets it to extractRole(PeerCertificates[0]) *)
Definition session_role (tls : bool) (exts : list cert_ext) : list N :=
  if tls then extract_role exts else [].
