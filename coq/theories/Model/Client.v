(* Model of the client (client.go): request construction with the checks in
   the code's order, reply validation, the exchange over either framing.
   Follows the tree with the fix: commits F1-F4 applied. No proofs here. *)
From Modbus Require Import Base.Bytes Model.Crc Model.Encoding Model.Wire.

Inductive regtype := Holding | InputReg | BadRegType.

Inductive op :=
| OpReadBools (di : bool) (a q : N)
| OpReadRegs (w : N) (a q : N) (rt : regtype)   (* w registers per value: 1, 2 or 4 *)
| OpReadBytes (raw : bool) (a q : N) (rt : regtype)
| OpWriteCoil (a : N) (v : bool)
| OpWriteCoils (a : N) (vs : list bool)
| OpWriteReg (a v : N)
| OpWriteRegs (w : N) (a : N) (vs : list N)
| OpWriteBytes (raw : bool) (a : N) (bs : list N).

Inductive values :=
| VUnit
| VBools (l : list bool)
| VNums (l : list N)
| VBytes (l : list N).

Record ccfg := mkcfg { c_unit : N; c_endian : endian; c_word : wordorder }.

Inductive framing := FMbap | FRtu.

(* ------------------------------------------------------------ requests *)

(* registerCount (fix F2): saturates instead of wrapping *)
Definition register_count (q w : N) : N :=
  if 65535 <? q * w then 65535 else q * w.

Definition enc_value (cfg : ccfg) (w : N) (v : N) : list N :=
  if w =? 1 then u16_to_bytes (c_endian cfg) v
  else if w =? 2 then u32_to_bytes (c_endian cfg) (c_word cfg) v
  else u64_to_bytes (c_endian cfg) (c_word cfg) v.

Fixpoint swap_pairs (l : list N) : list N :=
  match l with
  | a :: b :: t => b :: a :: swap_pairs t
  | l' => l'
  end.

(* readBools request *)
Definition req_read_bools (cfg : ccfg) (di : bool) (a q : N) : result pdu :=
  if q =? 0 then Err EParams
  else if 2000 <? q then Err EParams
  else if 65535 <? a + q - 1 then Err EParams
  else Ok (mkpdu (c_unit cfg) (if di then 2 else 1) (be16 a ++ be16 q)).

(* readRegisters request *)
Definition req_read_regs (cfg : ccfg) (a q : N) (rt : regtype) : result pdu :=
  match rt with
  | BadRegType => Err EParams
  | _ =>
      if q =? 0 then Err EParams
      else if 125 <? q then Err EParams
      else if 65535 <? a + q - 1 then Err EParams
      else Ok (mkpdu (c_unit cfg) (match rt with Holding => 3 | _ => 4 end) (be16 a ++ be16 q))
  end.

(* writeRegisters request; bytes is the already encoded register image *)
Definition req_write_regs (cfg : ccfg) (a : N) (bytes : list N) : result pdu :=
  let len := lenN bytes in
  if 246 <? len then Err EParams
  else
    let quantity := u16 len / 2 in
    if quantity =? 0 then Err EParams
    else if 123 <? quantity then Err EParams
    else if 65535 <? a + quantity - 1 then Err EParams
    else Ok (mkpdu (c_unit cfg) 16 (be16 a ++ be16 quantity ++ [u8 (u16 len)] ++ bytes)).

Definition write_bytes_image (cfg : ccfg) (raw : bool) (bs : list N) : list N :=
  let padded := if Nat.odd (length bs) then bs ++ [0] else bs in
  match raw, c_endian cfg with
  | false, LittleE => swap_pairs padded
  | _, _ => padded
  end.

Definition client_request (cfg : ccfg) (o : op) : result pdu :=
  match o with
  | OpReadBools di a q => req_read_bools cfg di a q
  | OpReadRegs w a q rt => req_read_regs cfg a (if w =? 1 then q else register_count q w) rt
  | OpReadBytes raw a q rt => req_read_regs cfg a (q / 2 + q mod 2) rt
  | OpWriteCoil a v =>
      Ok (mkpdu (c_unit cfg) 5 (be16 a ++ (if v then [0xff; 0] else [0; 0])))
  | OpWriteCoils a vs =>
      let len := lenN vs in
      if 1968 <? len then Err EParams
      else
        let quantity := u16 len in
        if quantity =? 0 then Err EParams
        else if 1968 <? quantity then Err EParams
        else if 65535 <? a + quantity - 1 then Err EParams
        else
          let enc := encode_bools vs in
          Ok (mkpdu (c_unit cfg) 15 (be16 a ++ be16 quantity ++ [u8 (lenN enc)] ++ enc))
  | OpWriteReg a v =>
      Ok (mkpdu (c_unit cfg) 6 (be16 a ++ u16_to_bytes (c_endian cfg) v))
  | OpWriteRegs w a vs => req_write_regs cfg a (flat_map (enc_value cfg w) vs)
  | OpWriteBytes raw a bs => req_write_regs cfg a (write_bytes_image cfg raw bs)
  end.

(* ------------------------------------------------------------ replies *)

Definition known_exception (c : N) : bool := mem c [1; 2; 3; 4; 5; 6; 8; 10; 11].

(* mapExceptionCodeToError *)
Definition exc_err (c : N) : err := if known_exception c then EExc c else EExcUnknown c.

(* executeRequest's unit id rule *)
Definition unit_check (req res : pdu) : option err :=
  if N.land (p_fc res) 0x80 =? 0 then
    (if p_unit res =? p_unit req then None else Some EBadUnit)
  else
    (if orb (p_unit res =? p_unit req) (p_unit res =? 255) then None else Some EBadUnit).

Definition exception_or_protocol (req res : pdu) : result values :=
  if p_fc res =? N.lor (p_fc req) 0x80 then
    match p_payload res with
    | [c] => Err (exc_err c)
    | _ => Err EProtocol
    end
  else Err EProtocol.

Definition opt_result {A} (o : option A) (f : A -> values) : result values :=
  match o with Some x => Ok (f x) | None => Panic end.

(* expected payload of a 4-byte echo *)
Definition echo4 (req res : pdu) (a b : list N) : result values :=
  if p_fc res =? p_fc req then
    (if list_eqb (p_payload res) (a ++ b) then Ok VUnit else Err EProtocol)
  else exception_or_protocol req res.

Definition bool_bytes (q : N) : N := q / 8 + (if q mod 8 =? 0 then 0 else 1).

Definition validate_read_regs (req res : pdu) (q : N) (k : list N -> result values)
  : result values :=
  if p_fc res =? p_fc req then
    match p_payload res with
    | bc :: data =>
        if negb (lenN (p_payload res) =? 1 + 2 * q) then Err EProtocol
        else if negb (bc =? 2 * q) then Err EProtocol
        else k data
    | [] => Err EProtocol
    end
  else exception_or_protocol req res.

Definition client_validate (cfg : ccfg) (o : op) (req res : pdu) : result values :=
  match o with
  | OpReadBools di a q =>
      if p_fc res =? p_fc req then
        let expected := 1 + bool_bytes q in
        if negb (lenN (p_payload res) =? expected) then Err EProtocol
        else
          match p_payload res with
          | bc :: data =>
              if negb (bc + 1 =? expected) then Err EProtocol
              else opt_result (decode_bools (N.to_nat q) data) VBools
          | [] => Panic
          end
      else exception_or_protocol req res
  | OpReadRegs w a q rt =>
      validate_read_regs req res (if w =? 1 then q else register_count q w)
        (fun data =>
           if w =? 1 then opt_result (bytes_to_u16s (c_endian cfg) data) VNums
           else if w =? 2 then opt_result (bytes_to_u32s (c_endian cfg) (c_word cfg) data) VNums
           else opt_result (bytes_to_u64s (c_endian cfg) (c_word cfg) data) VNums)
  | OpReadBytes raw a q rt =>
      validate_read_regs req res (q / 2 + q mod 2)
        (fun data =>
           (* the in-place swap indexes values[i+1]: panics on an odd length *)
           if andb (negb raw) (match c_endian cfg with LittleE => true | BigE => false end)
              && Nat.odd (length data) then Panic
           else
             let sw := match raw, c_endian cfg with
                       | false, LittleE => swap_pairs data
                       | _, _ => data
                       end in
             if q mod 2 =? 1 then
               (match sw with
                | [] => Panic
                | _ => Ok (VBytes (firstn (length sw - 1) sw))
                end)
             else Ok (VBytes sw))
  | OpWriteCoil a v =>
      (* fix F1: both value bytes are compared with what was sent *)
      echo4 req res (be16 a) (if v then [0xff; 0] else [0; 0])
  | OpWriteCoils a vs => echo4 req res (be16 a) (be16 (u16 (lenN vs)))
  | OpWriteReg a v => echo4 req res (be16 a) (u16_to_bytes (c_endian cfg) v)
  | OpWriteRegs w a vs =>
      echo4 req res (be16 a) (be16 (u16 (lenN (flat_map (enc_value cfg w) vs)) / 2))
  | OpWriteBytes raw a bs =>
      echo4 req res (be16 a) (be16 (u16 (lenN (write_bytes_image cfg raw bs)) / 2))
  end.

(* ------------------------------------------------------------ exchange *)

Record call_result := mkcall {
  cr_res : result values;
  cr_writes : list (list N);    (* one entry per Write call on the connection *)
  cr_rest : list N;             (* peer bytes left unread *)
  cr_txn : N                    (* transaction counter after the call *)
}.

Definition transport_exchange (fr : framing) (txn : N) (req : pdu) (e : send) (s : list N)
  : result pdu * list (list N) * list N * N :=
  match fr with
  | FMbap =>
      let txn' := u16 (txn + 1) in
      let '(r, rest) := mbap_read_response (S (length s)) e txn' s in
      (r, [assemble_mbap txn' req], rest, txn')
  | FRtu =>
      let '(r, rest) := rtu_read_response e s in
      (r, [assemble_rtu req], rest, txn)
  end.

Definition client_call (fr : framing) (cfg : ccfg) (txn : N) (o : op) (e : send) (s : list N)
  : call_result :=
  match client_request cfg o with
  | Ok req =>
      let '(r, writes, rest, txn') := transport_exchange fr txn req e s in
      match r with
      | Ok res =>
          match unit_check req res with
          | Some x => mkcall (Err x) writes rest txn'
          | None => mkcall (client_validate cfg o req res) writes rest txn'
          end
      | Err x => mkcall (Err x) writes rest txn'
      | Panic => mkcall Panic writes rest txn'
      | OutOfFuel => mkcall OutOfFuel writes rest txn'
      end
  | Err x => mkcall (Err x) [] s txn
  | Panic => mkcall Panic [] s txn
  | OutOfFuel => mkcall OutOfFuel [] s txn
  end.
