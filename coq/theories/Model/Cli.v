(* Model of cmd/modbus-cli.go: the command parser (main's loop over
   flag.Args()), the numeric/address parsers, the execution loop issuing client
   calls and the values/addresses each output line carries. sleep, repeat, date,
   scan and ping are outside the model (refused here). strconv.ParseFloat
   enters as an oracle (Section variables). A small reference device (four
   tables address -> value) closes the loop for the correspondence check.
   No proofs here. *)
From Modbus Require Import Base.Bytes Model.Crc Model.Encoding Model.Wire Model.Client Model.Strconv.
From Coq Require String.
Import String.StringSyntax.
Local Delimit Scope string_scope with string.

(* ------------------------------------------------------------ strings *)

(* strings.Split(s, sep) for a one-byte separator: never empty, empty fields kept *)
Fixpoint cli_split (sep : N) (s : list N) : list (list N) :=
  match s with
  | [] => [[]]
  | c :: t =>
      if c =? sep then [] :: cli_split sep t
      else
        match cli_split sep t with
        | f :: fs => (c :: f) :: fs
        | [] => [[c]]
        end
  end.

Definition cli_in (s : list N) (names : list (list N)) : bool := existsb (list_eqb s) names.

Definition cli_n_rc : list (list N) :=
  Eval vm_compute in map sc_str ["rc"; "readCoil"; "readCoils"]%string.
Definition cli_n_rdi : list (list N) :=
  Eval vm_compute in map sc_str ["rdi"; "readDiscreteInput"; "readDiscreteInputs"]%string.
Definition cli_n_rh : list (list N) :=
  Eval vm_compute in map sc_str ["rh"; "readHoldingRegister"; "readHoldingRegisters"]%string.
Definition cli_n_ri : list (list N) :=
  Eval vm_compute in map sc_str ["ri"; "readInputRegister"; "readInputRegisters"]%string.
Definition cli_n_wc : list (list N) := Eval vm_compute in map sc_str ["wc"; "writeCoil"]%string.
Definition cli_n_wr : list (list N) := Eval vm_compute in map sc_str ["wr"; "writeRegister"]%string.
Definition cli_n_sid : list (list N) :=
  Eval vm_compute in map sc_str ["suid"; "setUnitId"; "sid"]%string.
Definition cli_s_true : list N := Eval vm_compute in sc_str "true"%string.
Definition cli_s_false : list N := Eval vm_compute in sc_str "false"%string.
Definition cli_s_bytes : list N := Eval vm_compute in sc_str "bytes"%string.
Definition cli_s_string : list N := Eval vm_compute in sc_str "string"%string.
Definition cli_s_big : list N := Eval vm_compute in sc_str "big"%string.
Definition cli_s_little : list N := Eval vm_compute in sc_str "little"%string.
Definition cli_n_hf : list (list N) := Eval vm_compute in map sc_str ["highfirst"; "hf"]%string.
Definition cli_n_lf : list (list N) := Eval vm_compute in map sc_str ["lowfirst"; "lf"]%string.

(* ------------------------------------------------------------ operations *)

Inductive cli_type := CtU16 | CtI16 | CtU32 | CtI32 | CtF32 | CtU64 | CtI64 | CtF64 | CtBytes.

Definition cli_type_names : list (list N * cli_type) :=
  Eval vm_compute in
    [(sc_str "uint16"%string, CtU16); (sc_str "int16"%string, CtI16); (sc_str "uint32"%string, CtU32);
     (sc_str "int32"%string, CtI32); (sc_str "float32"%string, CtF32); (sc_str "uint64"%string, CtU64);
     (sc_str "int64"%string, CtI64); (sc_str "float64"%string, CtF64); (sc_str "bytes"%string, CtBytes)].

Fixpoint cli_assoc {A} (s : list N) (l : list (list N * A)) : option A :=
  match l with
  | [] => None
  | (k, v) :: t => if list_eqb s k then Some v else cli_assoc s t
  end.

Definition cli_type_of (s : list N) : option cli_type := cli_assoc s cli_type_names.

(* registers per value *)
Definition cli_width (t : cli_type) : N :=
  match t with
  | CtU16 | CtI16 | CtBytes => 1
  | CtU32 | CtI32 | CtF32 => 2
  | CtU64 | CtI64 | CtF64 => 4
  end.

(* the fields of the operation struct that the command kind uses. q is the
   ADDITIONAL quantity (the number after '+'), v the unsigned image of the value
   (o.u16 / o.u32 / o.u64, or the IEEE bits of o.f32 / o.f64). *)
Inductive cli_operation :=
| CoReadBools (coil : bool) (a q : N)
| CoReadRegs (holding : bool) (t : cli_type) (a q : N)
| CoWriteCoil (a : N) (v : bool)
| CoWriteNum (t : cli_type) (a v : N)
| CoWriteBytes (a : N) (bs : list N)
| CoSetUnit (u : N).

Inductive cli_result (A : Type) :=
| CliOk (a : A)
| CliRefused.          (* message + os.Exit(2) *)
Arguments CliOk {A} a.
Arguments CliRefused {A}.

Definition cli_of_uint (r : sc_res) : cli_result N :=
  match r with ScOk v => CliOk v | _ => CliRefused end.

(* uintN(intN(val)): the two's-complement image *)
Definition cli_of_int (bits : N) (r : sc_ires) : cli_result N :=
  match r with
  | ScIOk z => CliOk (Z.to_N (Z.modulo z (Z.of_N (2 ^ bits))))
  | _ => CliRefused
  end.

Definition cli_of_opt {A} (o : option A) : cli_result A :=
  match o with Some x => CliOk x | None => CliRefused end.

(* parseUint16 *)
Definition cli_parse_u16 (s : list N) : cli_result N := cli_of_uint (sc_parse_uint 16 s).

(* parseAddressAndQuantity *)
Definition cli_parse_addr_qty (s : list N) : cli_result (N * N) :=
  match cli_split 43 s with
  | [_] =>
      match cli_parse_u16 s with
      | CliOk a => CliOk (a, 0)
      | CliRefused => CliRefused
      end
  | [sa; sq] =>
      match cli_parse_u16 sa with
      | CliOk a =>
          match cli_parse_u16 sq with
          | CliOk q => CliOk (a, q)
          | CliRefused => CliRefused
          end
      | CliRefused => CliRefused
      end
  | _ => CliRefused
  end.

Section Parser.
  (* strconv.ParseFloat(s, 32) narrowed to float32 / strconv.ParseFloat(s, 64):
     the IEEE bit pattern, None on any error *)
  Variable parse_float32 : list N -> option N.
  Variable parse_float64 : list N -> option N.

  (* the value parsers of wr, by type *)
  Definition cli_parse_value (t : cli_type) (s : list N) : cli_result N :=
    match t with
    | CtU16 => cli_of_uint (sc_parse_uint 16 s)
    | CtI16 => cli_of_int 16 (sc_parse_int 16 s)
    | CtU32 => cli_of_uint (sc_parse_uint 32 s)
    | CtI32 => cli_of_int 32 (sc_parse_int 32 s)
    | CtF32 => cli_of_opt (parse_float32 s)
    | CtU64 => cli_of_uint (sc_parse_uint 64 s)
    | CtI64 => cli_of_int 64 (sc_parse_int 64 s)
    | CtF64 => cli_of_opt (parse_float64 s)
    | CtBytes => CliRefused
    end.

  (* one iteration of the loop over flag.Args() *)
  Definition cli_parse_cmd (arg : list N) : cli_result cli_operation :=
    match cli_split 58 arg with
    | name :: args =>
        if cli_in name cli_n_rc || cli_in name cli_n_rdi then
          match args with
          | [x] =>
              match cli_parse_addr_qty x with
              | CliOk (a, q) => CliOk (CoReadBools (cli_in name cli_n_rc) a q)
              | CliRefused => CliRefused
              end
          | _ => CliRefused
          end
        else if cli_in name cli_n_rh || cli_in name cli_n_ri then
          match args with
          | [ty; x] =>
              match cli_type_of ty with
              | Some t =>
                  match cli_parse_addr_qty x with
                  | CliOk (a, q) => CliOk (CoReadRegs (cli_in name cli_n_rh) t a q)
                  | CliRefused => CliRefused
                  end
              | None => CliRefused
              end
          | _ => CliRefused
          end
        else if cli_in name cli_n_wc then
          match args with
          | [sa; sv] =>
              match cli_parse_u16 sa with
              | CliOk a =>
                  if list_eqb sv cli_s_true then CliOk (CoWriteCoil a true)
                  else if list_eqb sv cli_s_false then CliOk (CoWriteCoil a false)
                  else CliRefused
              | CliRefused => CliRefused
              end
          | _ => CliRefused
          end
        else if cli_in name cli_n_wr then
          match args with
          | [ty; sa; sv] =>
              match cli_parse_u16 sa with
              | CliOk a =>
                  if list_eqb ty cli_s_bytes then
                    match sc_hex_decode sv with
                    | Some bs => CliOk (CoWriteBytes a bs)
                    | None => CliRefused
                    end
                  else if list_eqb ty cli_s_string then CliOk (CoWriteBytes a sv)
                  else
                    match cli_type_of ty with
                    | Some t =>
                        match cli_parse_value t sv with
                        | CliOk v => CliOk (CoWriteNum t a v)
                        | CliRefused => CliRefused
                        end
                    | None => CliRefused
                    end
              | CliRefused => CliRefused
              end
          | _ => CliRefused
          end
        else if cli_in name cli_n_sid then
          match args with
          | [su] =>
              match sc_parse_uint 8 su with
              | ScOk u => CliOk (CoSetUnit u)
              | _ => CliRefused
              end
          | _ => CliRefused
          end
        else CliRefused
    | [] => CliRefused
    end.

  (* the whole loop: the first refused argument exits *)
  Fixpoint cli_parse_all (args : list (list N)) : cli_result (list cli_operation) :=
    match args with
    | [] => CliOk []
    | a :: t =>
        match cli_parse_cmd a with
        | CliOk o =>
            match cli_parse_all t with
            | CliOk os => CliOk (o :: os)
            | CliRefused => CliRefused
            end
        | CliRefused => CliRefused
        end
    end.
End Parser.

(* ------------------------------------------------------------ device *)

(* reference device: coils, discrete inputs, holding and input registers *)
Record cli_dev := mkclidev {
  dv_coil : N -> bool;
  dv_disc : N -> bool;
  dv_hold : N -> N;
  dv_inp : N -> N
}.

(* the deterministic initial contents of the emulator *)
Definition cli_pat_coil (a : N) : bool := (a + a / 3) mod 2 =? 1.
Definition cli_pat_disc (a : N) : bool := (a / 2 + a / 7) mod 2 =? 1.
Definition cli_pat_hold (a : N) : N := (a * 40503 + 4660) mod 65536.
Definition cli_pat_inp (a : N) : N := (a * 25173 + 13849) mod 65536.
Definition cli_dev_init : cli_dev := mkclidev cli_pat_coil cli_pat_disc cli_pat_hold cli_pat_inp.

Definition cli_upd {A} (f : N -> A) (a : N) (vs : list A) (dflt : A) : N -> A :=
  fun x => if (a <=? x) && (x <? a + lenN vs) then nth (N.to_nat (x - a)) vs dflt else f x.

Definition cli_range {A} (f : N -> A) (a q : N) : list A :=
  map (fun i => f (a + N.of_nat i)) (seq 0 (N.to_nat q)).

Definition cli_exc (req : pdu) (code : N) : pdu :=
  mkpdu (p_unit req) (p_fc req + 128) [code].

(* one request served by the device: the response and the new contents *)
Definition cli_dev_serve (d : cli_dev) (req : pdu) : pdu * cli_dev :=
  let fc := p_fc req in
  let reply := mkpdu (p_unit req) fc in
  match p_payload req with
  | a1 :: a0 :: b1 :: b0 :: data =>
      let a := a1 * 256 + a0 in
      let q := b1 * 256 + b0 in
      if (fc =? 1) || (fc =? 2) then
        match data with
        | [] =>
            if (q =? 0) || (2000 <? q) then (cli_exc req 3, d)
            else if 65536 <? a + q then (cli_exc req 2, d)
            else
              let enc := encode_bools (cli_range (if fc =? 1 then dv_coil d else dv_disc d) a q) in
              (reply (lenN enc :: enc), d)
        | _ => (cli_exc req 3, d)
        end
      else if (fc =? 3) || (fc =? 4) then
        match data with
        | [] =>
            if (q =? 0) || (125 <? q) then (cli_exc req 3, d)
            else if 65536 <? a + q then (cli_exc req 2, d)
            else
              let regs := cli_range (if fc =? 3 then dv_hold d else dv_inp d) a q in
              (reply (2 * q :: flat_map be16 regs), d)
        | _ => (cli_exc req 3, d)
        end
      else if fc =? 5 then
        match data with
        | [] =>
            if (q =? 65280) || (q =? 0) then
              (reply [a1; a0; b1; b0],
               mkclidev (cli_upd (dv_coil d) a [q =? 65280] false) (dv_disc d) (dv_hold d) (dv_inp d))
            else (cli_exc req 3, d)
        | _ => (cli_exc req 3, d)
        end
      else if fc =? 6 then
        match data with
        | [] =>
            (reply [a1; a0; b1; b0],
             mkclidev (dv_coil d) (dv_disc d) (cli_upd (dv_hold d) a [q] 0) (dv_inp d))
        | _ => (cli_exc req 3, d)
        end
      else if fc =? 15 then
        match data with
        | bc :: bytes =>
            if (q =? 0) || (1968 <? q) || negb (bc =? (q + 7) / 8) || negb (lenN bytes =? bc)
            then (cli_exc req 3, d)
            else if 65536 <? a + q then (cli_exc req 2, d)
            else
              match decode_bools (N.to_nat q) bytes with
              | Some l =>
                  (reply [a1; a0; b1; b0],
                   mkclidev (cli_upd (dv_coil d) a l false) (dv_disc d) (dv_hold d) (dv_inp d))
              | None => (cli_exc req 3, d)
              end
        | [] => (cli_exc req 3, d)
        end
      else if fc =? 16 then
        match data with
        | bc :: bytes =>
            if (q =? 0) || (123 <? q) || negb (bc =? 2 * q) || negb (lenN bytes =? bc)
            then (cli_exc req 3, d)
            else if 65536 <? a + q then (cli_exc req 2, d)
            else
              match bytes_to_u16s BigE bytes with
              | Some l =>
                  (reply [a1; a0; b1; b0],
                   mkclidev (dv_coil d) (dv_disc d) (cli_upd (dv_hold d) a l 0) (dv_inp d))
              | None => (cli_exc req 3, d)
              end
        | [] => (cli_exc req 3, d)
        end
      else (cli_exc req 1, d)
  | _ =>
      if (1 <=? fc) && (fc <=? 6) || (fc =? 15) || (fc =? 16) then (cli_exc req 3, d)
      else (cli_exc req 1, d)
  end.

(* ------------------------------------------------------------ execution *)

(* the client call of the execution loop's switch; None: no client call *)
Definition cli_to_op (c : cli_operation) : option op :=
  match c with
  | CoReadBools coil a q => Some (OpReadBools (negb coil) a (u16 (q + 1)))
  | CoReadRegs holding t a q =>
      let rt := if holding then Holding else InputReg in
      match t with
      | CtBytes => Some (OpReadBytes false a (u16 (q + 1)) rt)
      | _ => Some (OpReadRegs (cli_width t) a (u16 (q + 1)) rt)
      end
  | CoWriteCoil a v => Some (OpWriteCoil a v)
  | CoWriteNum t a v =>
      if cli_width t =? 1 then Some (OpWriteReg a v)
      else Some (OpWriteRegs (cli_width t) a [v])
  | CoWriteBytes a bs => Some (OpWriteBytes false a bs)
  | CoSetUnit _ => None
  end.

(* what an output line carries *)
Inductive cli_line :=
| ClFail                          (* "failed to ..." *)
| ClWrote                         (* "wrote ..." *)
| ClCrash                         (* run-time panic (proved unreachable) *)
| ClBool (a : N) (v : bool)
| ClNum (w a v : N)               (* w registers wide, address, unsigned value / bits *)
| ClBytes (a : N) (bs : list N).  (* one hex dump line *)

Fixpoint cli_mapi {A B} (f : N -> A -> B) (i : N) (l : list A) : list B :=
  match l with
  | [] => []
  | x :: t => f i x :: cli_mapi f (i + 1) t
  end.

(* hex dump lines of 16 bytes *)
Fixpoint cli_chunks (fuel : nat) (l : list N) : list (list N) :=
  match fuel with
  | O => []
  | S f =>
      match l with
      | [] => []
      | _ => firstn 16 l :: cli_chunks f (skipn 16 l)
      end
  end.

(* the Printf calls after each client call; idx is an int, the address
   arithmetic is uint16 *)
Definition cli_print (c : cli_operation) (r : result values) : list cli_line :=
  match r with
  | Err _ => [ClFail]
  | Panic | OutOfFuel => [ClCrash]
  | Ok v =>
      match c, v with
      | CoReadBools _ a _, VBools l =>
          cli_mapi (fun i b => ClBool (u16 (a + u16 i)) b) 0 l
      | CoReadRegs _ CtBytes a _, VBytes l =>
          cli_mapi (fun k ch => ClBytes (u16 (a + u16 (16 * k / 2))) ch) 0 (cli_chunks (length l) l)
      | CoReadRegs _ t a _, VNums l =>
          let w := cli_width t in
          if w =? 1 then cli_mapi (fun i x => ClNum w (u16 (a + u16 i)) x) 0 l
          else cli_mapi (fun i x => ClNum w (u16 (a + u16 (u16 i * w))) x) 0 l
      | CoWriteCoil _ _, _ | CoWriteNum _ _ _, _ | CoWriteBytes _ _, _ => [ClWrote]
      | _, _ => []
      end
  end.

Record cli_state := mkclist {
  cs_cfg : ccfg;
  cs_txn : N;
  cs_dev : cli_dev;
  cs_tx : list (list N);     (* frames written to the connection *)
  cs_out : list cli_line
}.

Definition cli_set_unit (cfg : ccfg) (u : N) : ccfg := mkcfg u (c_endian cfg) (c_word cfg).

(* one iteration of the execution loop: the client call runs against the
   device's reply to the request it builds *)
Definition cli_exec (st : cli_state) (c : cli_operation) : cli_state :=
  match cli_to_op c with
  | None =>
      match c with
      | CoSetUnit u =>
          mkclist (cli_set_unit (cs_cfg st) u) (cs_txn st) (cs_dev st) (cs_tx st) (cs_out st)
      | _ => st
      end
  | Some o =>
      let cfg := cs_cfg st in
      let '(reply, dev') :=
        match client_request cfg o with
        | Ok req =>
            let '(res, d') := cli_dev_serve (cs_dev st) req in
            (assemble_mbap (u16 (cs_txn st + 1)) res, d')
        | _ => ([], cs_dev st)
        end in
      let cr := client_call FMbap cfg (cs_txn st) o Stall reply in
      mkclist cfg (cr_txn cr) dev' (cs_tx st ++ cr_writes cr) (cs_out st ++ cli_print c (cr_res cr))
  end.

Definition cli_run (st : cli_state) (ops : list cli_operation) : cli_state :=
  fold_left cli_exec ops st.

(* ------------------------------------------------------------ main *)

Inductive cli_outcome :=
| CliExit (code : N)              (* exit before any connection *)
| CliDone (st : cli_state).       (* connected, ran the list, exit 0 *)

Definition cli_endian_of (s : list N) : option endian :=
  if list_eqb s cli_s_big then Some BigE
  else if list_eqb s cli_s_little then Some LittleE
  else None.

Definition cli_word_of (s : list N) : option wordorder :=
  if cli_in s cli_n_hf then Some HighFirst
  else if cli_in s cli_n_lf then Some LowFirst
  else None.

Section Main.
  Variable parse_float32 : list N -> option N.
  Variable parse_float64 : list N -> option N.

  (* main, given the values of --endianness, --word-order, --unit-id (flag's
     uint parser is strconv.ParseUint(s, 0, 64); an error exits with 2), the
     trailing arguments and the device on the other end *)
  Definition cli_main (endianness wordorder unitid : list N) (args : list (list N))
             (dev : cli_dev) : cli_outcome :=
    match sc_parse_uint 64 unitid with
    | ScOk unit =>
        match cli_endian_of endianness with
        | None => CliExit 1
        | Some e =>
            match cli_word_of wordorder with
            | None => CliExit 1
            | Some w =>
                match args with
                | [] => CliExit 0                       (* "nothing to do." *)
                | _ =>
                    match cli_parse_all parse_float32 parse_float64 args with
                    | CliRefused => CliExit 2
                    | CliOk ops =>
                        if 255 <? unit then CliExit 1
                        else CliDone (cli_run (mkclist (mkcfg unit e w) 0 dev [] []) ops)
                    end
                end
            end
        end
    | _ => CliExit 2
    end.
End Main.

(* the frames on the wire and the printed lines of an outcome *)
Definition cli_tx_log (o : cli_outcome) : list (list N) :=
  match o with CliExit _ => [] | CliDone st => cs_tx st end.

Definition cli_printed (o : cli_outcome) : list cli_line :=
  match o with CliExit _ => [] | CliDone st => cs_out st end.

Definition cli_exit_code (o : cli_outcome) : N :=
  match o with CliExit c => c | CliDone _ => 0 end.

(* cells of the device that differ from the initial pattern, among addrs *)
Definition cli_diff_coils (d : cli_dev) (addrs : list N) : list (N * bool) :=
  map (fun a => (a, dv_coil d a)) (filter (fun a => negb (Bool.eqb (dv_coil d a) (cli_pat_coil a))) addrs).

Definition cli_diff_holds (d : cli_dev) (addrs : list N) : list (N * N) :=
  map (fun a => (a, dv_hold d a)) (filter (fun a => negb (dv_hold d a =? cli_pat_hold a)) addrs).
