(* A client across Close() + Open() cycles (client.go: Open creates a new
   socket and a NEW transport - tcp_transport.go: newTCPTransport, lastTxnId 0 -
   Close closes the socket of the current one).

   Every Open() gives the client a new socket: a new TCP connection, or a UDP
   socket with a local address of its own. The sockets are numbered in the
   order they are opened. What the network hands over is addressed to ONE of
   these sockets: a device answers on the connection the request came in on /
   to the source address of the request datagram. Bytes addressed to a socket
   that is not the current one are never read by the client: the socket they
   were meant for is closed.

   State between steps: the number of the current socket and the state of the
   transport attached to it (Model/TxnHistory.v: counter, unread bytes, end of
   stream). A reopen is a new transport on a new, empty stream: counter 0,
   nothing unread. No proofs here. *)
From Modbus Require Import Base.Bytes Model.Wire Model.Client Model.TxnHistory.

(* bytes sent to socket number tg_sock (one datagram / one segment) *)
Record tr_dgram := mkdgram { tg_sock : N; tg_bytes : list N }.

Record tr_call := mktrcall {
  trc_op : op;                  (* the public call *)
  trc_in : list tr_dgram;       (* what the network delivers to the client host during the call *)
  trc_end : send                (* Closed / Reset: the peer then ends the current connection *)
}.

Inductive tr_step :=
| TrCall (c : tr_call)              (* one public call *)
| TrArrive (ds : list tr_dgram)     (* delivered while no call is outstanding *)
| TrReopen.                         (* Close() then Open() *)

Record tr_state := mktr { tr_sock : N; tr_th : th_state }.

(* the client after its first Open() *)
Definition tr_init : tr_state := mktr 0 th_init.

(* what socket k receives of ds, in order *)
Definition tr_deliver (k : N) (ds : list tr_dgram) : list N :=
  concat (map tg_bytes (filter (fun d => tg_sock d =? k) ds)).

(* the call as the transport attached to socket k sees it *)
Definition tr_concrete (k : N) (c : tr_call) : th_step :=
  mkthstep (trc_op c) (tr_deliver k (trc_in c)) (trc_end c).

Definition tr_step_run (fr : framing) (cfg : ccfg) (st : tr_state) (s : tr_step)
  : tr_state * option call_result :=
  match s with
  | TrCall c =>
      let '(th', r) := hist_step fr cfg (tr_th st) (tr_concrete (tr_sock st) c) in
      (mktr (tr_sock st) th', Some r)
  | TrArrive ds =>
      let th := tr_th st in
      (mktr (tr_sock st) (mkth (th_txn th) (th_left th ++ tr_deliver (tr_sock st) ds) (th_end th)), None)
  | TrReopen => (mktr (tr_sock st + 1) th_init, None)
  end.

(* the outcomes of the steps, in order (None for the steps that are not calls) *)
Fixpoint tr_run (fr : framing) (cfg : ccfg) (st : tr_state) (xs : list tr_step)
  : list (option call_result) :=
  match xs with
  | [] => []
  | x :: t => let '(st', r) := tr_step_run fr cfg st x in r :: tr_run fr cfg st' t
  end.

Fixpoint tr_final (fr : framing) (cfg : ccfg) (st : tr_state) (xs : list tr_step) : tr_state :=
  match xs with
  | [] => st
  | x :: t => tr_final fr cfg (fst (tr_step_run fr cfg st x)) t
  end.

(* the step with every datagram addressed to a socket older than m removed *)
Definition tr_keep (m : N) (ds : list tr_dgram) : list tr_dgram :=
  filter (fun d => m <=? tg_sock d) ds.

Definition tr_forget (m : N) (s : tr_step) : tr_step :=
  match s with
  | TrCall c => TrCall (mktrcall (trc_op c) (tr_keep m (trc_in c)) (trc_end c))
  | TrArrive ds => TrArrive (tr_keep m ds)
  | TrReopen => TrReopen
  end.
