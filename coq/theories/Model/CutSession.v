(* C13, the reply is cut in the MIDDLE of a session: a really opened client
   makes several calls on the one connection of its handle; a device answers
   the earlier ones with their valid reply (echoing the transaction id of the
   request) and the reply to the last one is cut after k bytes (the peer then
   stalls / closes / resets). The caller then does Close, a call on the closed
   handle, Open, and one more call that the device answers in full.

   The state carried from call to call is the one of Model/Handle.v: the
   transaction counter (the connection has nothing unread after a complete
   exchange). A call never dials: whatever the outcome of an exchange, the
   handle keeps talking on the connection made by Open() until Close(). The
   view of the listener at the client's address - the request frames received
   on EVERY connection it accepted, in order of acceptance - therefore has one
   entry per Open().
   No proofs here. *)
From Modbus Require Import Base.Bytes Model.Wire Model.Client Model.Handle.

(* one exchange of the session: the public call and the reply PDU the device
   holds for it *)
Record cs_call := mkcsc { csc_op : op; csc_reply : pdu }.

(* what a device puts on the wire for a reply PDU: MBAP echoes the transaction
   id of the request, RTU has none *)
Definition device_frame (fr : framing) (txn : N) (res : pdu) : list N :=
  match fr with
  | FMbap => assemble_mbap txn res
  | FRtu => assemble_rtu res
  end.

(* the reply of the device to the request a handle in state h transmits next *)
Definition cs_answer (fr : framing) (h : hd_state) (c : cs_call) : list N :=
  device_frame fr (u16 (hd_txn h + 1)) (csc_reply c).

(* the exchanges before the cut: each one answered in full *)
Fixpoint cs_earlier (fr : framing) (cfg : ccfg) (h : hd_state) (cs : list cs_call)
  : list call_result * hd_state :=
  match cs with
  | [] => ([], h)
  | c :: t =>
      let '(r, h1) := hd_call fr cfg h (csc_op c) Stall (cs_answer fr h c) in
      let '(rs, h2) := cs_earlier fr cfg h1 t in
      (r :: rs, h2)
  end.

Record cs_view := mkcsv {
  csv_results : list (result values);  (* the earlier calls, then the cut call *)
  csv_closed : result values;          (* the call between Close and Open *)
  csv_fresh : result values;           (* the call after Open *)
  csv_conns : list (list (list N))     (* request frames per accepted connection *)
}.

(* pre: the exchanges completed before; cut: the exchange whose reply ends
   after k bytes with stream end e; fresh: the exchange after Close; Open *)
Definition cut_session (fr : framing) (cfg : ccfg) (pre : list cs_call) (cut : cs_call)
  (e : send) (k : nat) (fresh : cs_call) : cs_view :=
  let h0 := hd_open (mkhd 0 [] true) in
  let '(rs, h1) := cs_earlier fr cfg h0 pre in
  let '(rc, h2) := hd_call fr cfg h1 (csc_op cut) e (firstn k (cs_answer fr h1 cut)) in
  let h3 := hd_close h2 in
  let '(rx, h4) := hd_call fr cfg h3 (csc_op fresh) Stall [] in
  let h5 := hd_open h4 in
  let '(rf, _) := hd_call fr cfg h5 (csc_op fresh) Stall (cs_answer fr h5 fresh) in
  mkcsv (map cr_res rs ++ [cr_res rc]) (cr_res rx) (cr_res rf)
        [concat (map cr_writes rs) ++ cr_writes rc ++ cr_writes rx; cr_writes rf].
