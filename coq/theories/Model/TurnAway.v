(* Lifecycle of a plain tcp server at its connection limit: connections the
   server serves AND connections it has turned away, in every state the peer
   can have put them in, while Start / Stop run.

   Model/Slots.v decides at the admission step (Enrol) whether a connection
   Accept has returned joins the active list or is turned away - because the
   list is full, or because the server has been stopped in the meantime - and
   a connection that is turned away is closed in that very step. What the
   PEER does on its connection does not depend on that decision, which it
   cannot see: it may stay silent, send the first bytes of a request and
   stall, or send a whole request - on a served connection and on one that
   has been turned away alike. This file adds to the system of Slots.v

     ta_part    the peer has sent the first bytes of a request (the rest is
                still to come), on any connection it holds
     ta_calls   the handler invocations so far
     ta_wrote   the responses the server has written on each connection

   so that "when Stop returns every client connection has been closed and
   nothing is sent on it afterwards" can be stated for EVERY connection the
   server has accepted, served or turned away, whatever the peer has sent on
   it. The server steps are the steps of Slots.v. No proofs here. *)
From Coq Require Import List Arith Bool.
Import ListNotations.
From Modbus Require Import Model.Slots.

Record ta_state := mk_ta {
  ta_srv : sstate;            (* the server system of Slots.v *)
  ta_part : conn -> bool;     (* first bytes of a request sent, rest pending *)
  ta_calls : nat;             (* handler invocations so far *)
  ta_wrote : conn -> nat      (* responses written by the server on each connection *)
}.

Definition ta_init (maxc : nat) : ta_state :=
  mk_ta (init maxc) (fun _ => false) 0 (fun _ => 0).

Inductive ta_label :=
| ASrv (l : label)     (* a step of the server system; Req c: the peer of c sends (the rest of) a request *)
| APart (c : conn).    (* the peer of c sends the first bytes of a request and stalls *)

(* the session goroutine of c is in its request loop and the server has not closed c's socket *)
Definition ta_live (b : ta_state) (c : conn) : bool :=
  stat_eqb (stat (ta_srv b) c) Serving && negb (closed (ta_srv b) c).

Definition ta_step (b : ta_state) (l : ta_label) : ta_state :=
  match l with
  | ASrv (Req c) =>
      (* a request is read, dispatched to a handler and answered exactly on a
         live connection; anywhere else the peer's bytes are lost *)
      if ta_live b c
      then mk_ta (step (ta_srv b) (Req c)) (upd (ta_part b) c false) (S (ta_calls b))
                 (upd (ta_wrote b) c (S (ta_wrote b c)))
      else b
  | ASrv x => mk_ta (step (ta_srv b) x) (ta_part b) (ta_calls b) (ta_wrote b)
  | APart c => mk_ta (ta_srv b) (upd (ta_part b) c true) (ta_calls b) (ta_wrote b)
  end.

Definition ta_run (b : ta_state) (tr : list ta_label) : ta_state := fold_left ta_step tr b.

(* Accept has returned the connection and its admission step has run: it is
   being served, or has been served, or has been turned away *)
Definition ta_accepted (b : ta_state) (c : conn) : bool :=
  match stat (ta_srv b) c with
  | Serving | Ended | Rejected | Removed => true
  | _ => false
  end.

(* turned away by the admission step: list full, or server stopped *)
Definition ta_turned_away (b : ta_state) (c : conn) : bool :=
  stat_eqb (stat (ta_srv b) c) Rejected.

(* what the peer of c sees: the server has closed the socket (EOF / reset) *)
Definition ta_peer_closed (b : ta_state) (c : conn) : bool := closed (ta_srv b) c.

(* live session goroutines: one per connection between Enrol and Remove *)
Definition ta_session_goroutine (b : ta_state) (c : conn) : bool :=
  stat_eqb (stat (ta_srv b) c) Serving || stat_eqb (stat (ta_srv b) c) Ended.

Definition ta_sessions (b : ta_state) : nat :=
  length (filter (ta_session_goroutine b) (clients (ta_srv b))).

(* live accept goroutines *)
Definition ta_acceptors (b : ta_state) : nat := acceptors (ta_srv b) + zombies (ta_srv b).

(* every goroutine the server has spawned and that has not returned: there is
   none on behalf of a connection that has been turned away *)
Definition ta_goroutines (b : ta_state) : nat := ta_acceptors b + ta_sessions b.
