(* Timed model of one client exchange (tcp_transport.go ExecuteRequest /
   readResponse, rtu_transport.go ExecuteRequest / readRTUFrame / discard,
   serial.go serialPortWrapper.Read). No proofs here.

   Time is a count of nanoseconds in Z. The peer is a TIMED STREAM: a list of
   (arrival time, byte) plus an optional close time. Arrival times are meant
   to be non-decreasing; the readers do not rely on it: a byte cannot be read
   before its own arrival nor before the bytes in front of it, i.e. the
   readers work with the running maximum of the arrival times, which is the
   identity on non-decreasing streams.

   What is modelled: the absolute i/o deadline D armed ONCE per request
   (SetDeadline(now + timeout)), io.ReadFull against that deadline, the frame
   readers and the MBAP skip loop of Model/Wire.v on top of it, the sleeps of
   the RTU transport (pre-send wait, n*t1 + t35 after the write, 256*t1
   before the flush) and the flush with its own 500 us deadline. Statements
   take no time; time.Sleep(d) lasts exactly max 0 d; Write returns at once
   (kernel buffered). Scheduling slack of real sleeps and reads is outside
   the model (validated by the timed harness with a fixed allowance). *)
From Modbus Require Import Base.Bytes Model.Crc Model.Encoding Model.Wire Model.Client.

(* ------------------------------------------------------------ io.ReadFull *)

Inductive tm_rf :=
| TmFull (got : list N) (t : Z) (rest : list (Z * N))             (* n bytes, completion time *)
| TmShort (got : list N) (e : err) (t : Z) (rest : list (Z * N)). (* fewer: what was read, ETimeout | EIO (EOF), time *)

Definition tm_rf_cons (b : N) (r : tm_rf) : tm_rf :=
  match r with
  | TmFull got t rest => TmFull (b :: got) t rest
  | TmShort got e t rest => TmShort (b :: got) e t rest
  end.

(* Until when a Read that starts at cur <= D can still deliver data.
   g = 0: a net.Conn (TCP, UDP, TLS, the scripted connection): the read is
   woken at the deadline D itself.
   g > 0: serialPortWrapper.Read (serial.go:75-89): the deadline is only
   looked at when Read is entered; the port read then blocks for up to g
   (10 ms) and returns (0, nil) when nothing came, so io.ReadFull polls at
   cur, cur + g, cur + 2g, ...: the last poll that starts at or before D ends
   at cur + (floor((D - cur) / g) + 1) * g, which lies in (D, D + g]. *)
Definition tm_horizon (g cur D : Z) : Z :=
  if (g <=? 0)%Z then D else (cur + ((D - cur) / g + 1) * g)%Z.

(* io.ReadFull(link, buf[0:n]) entered at time cur with the deadline D:
   - a Read entered after the deadline fails at once with a timeout
     (net.Conn: expired deadline; serial.go: time.Now().After(deadline));
   - otherwise the next byte is delivered when it arrives (or at once when it
     is already there), provided that is not after the horizon;
   - the peer's orderly close is seen once every byte has been read (EOF);
   - else the timeout is reported at the horizon.
   Every byte is delivered by a Read of its own (the finest chunking a link
   may produce; only relevant for g > 0, where the deadline is re-examined
   between two Reads). *)
Fixpoint read_full_t (g D : Z) (c : option Z) (n : nat) (cur : Z) (s : list (Z * N)) : tm_rf :=
  match n with
  | O => TmFull [] cur s
  | S n' =>
      if (D <? cur)%Z then TmShort [] ETimeout cur s
      else
        let h := tm_horizon g cur D in
        match s with
        | (t, b) :: s' =>
            if (t <=? h)%Z then tm_rf_cons b (read_full_t g D c n' (Z.max cur t) s')
            else TmShort [] ETimeout h s
        | [] =>
            match c with
            | Some tc =>
                if (tc <=? h)%Z then TmShort [] EIO (Z.max cur tc) []
                else TmShort [] ETimeout h []
            | None => TmShort [] ETimeout h []
            end
        end
  end.

(* ------------------------------------------------------------------ MBAP *)

(* readMBAPFrame (tcp_transport.go:127-186) on the timed stream; same
   decisions in the same order as Wire.read_mbap *)
Definition tm_read_mbap (g D : Z) (c : option Z) (now : Z) (s : list (Z * N))
  : frame_res * Z * list (Z * N) :=
  match read_full_t g D c 7 now s with
  | TmShort _ e t rest => (FErr e, t, rest)
  | TmFull hdr t1 rest =>
      match hdr with
      | [a1; a0; p1; p0; l1; l0; unit] =>
          let txn := a1 * 256 + a0 in
          let proto := p1 * 256 + p0 in
          let len := l1 * 256 + l0 in
          if (260 <? len - 1 + 7) then (FErr EProtocol, t1, rest)
          else if (len <=? 1) then (FErr EProtocol, t1, rest)
          else
            match read_full_t g D c (N.to_nat (len - 1)) t1 rest with
            | TmShort _ e t2 rest' => (FErr e, t2, rest')
            | TmFull body t2 rest' =>
                if negb (proto =? 0) then (FErr EUnknownProto, t2, rest')
                else
                  match body with
                  | fc :: payload => (FOk (mkpdu unit fc payload) txn, t2, rest')
                  | [] => (FErr EProtocol, t2, rest')
                  end
            end
      | _ => (FErr EProtocol, t1, rest)
      end
  end.

(* readResponse (tcp_transport.go:95-124): the skip loop. The deadline D is
   NOT re-armed inside the loop: every frame is read against the same D. *)
Fixpoint tm_mbap_read_response (fuel : nat) (g D : Z) (c : option Z) (txn : N) (now : Z)
  (s : list (Z * N)) : result pdu * Z * list (Z * N) :=
  match fuel with
  | O => (OutOfFuel, now, s)
  | S f =>
      match tm_read_mbap g D c now s with
      | (FErr EUnknownProto, t, s') => tm_mbap_read_response f g D c txn t s'
      | (FErr x, t, s') => (Err x, t, s')
      | (FOk p tid, t, s') =>
          if tid =? txn then (Ok p, t, s') else tm_mbap_read_response f g D c txn t s'
      end
  end.

(* tcpTransport.ExecuteRequest entered at t0: SetDeadline(t0 + timeout) once,
   Write, readResponse. Returns (result, finish time, unread peer bytes). *)
Definition mbap_exchange_t (timeout t0 : Z) (c : option Z) (txn : N) (s : list (Z * N))
  : result pdu * Z * list (Z * N) :=
  tm_mbap_read_response (S (length s)) 0 (t0 + timeout) c txn t0 s.

(* ------------------------------------------------------------------- RTU *)

(* readRTUFrame (rtu_transport.go:139-202) on the timed stream *)
Definition tm_read_rtu (g D : Z) (c : option Z) (now : Z) (s : list (Z * N))
  : result pdu * Z * list (Z * N) :=
  match read_full_t g D c 3 now s with
  | TmShort got e t rest =>
      match got with
      | [] => (Err e, t, rest)
      | _ => (Err EShortFrame, t, rest)
      end
  | TmFull hdr t1 rest =>
      match hdr with
      | [unit; fc; b2] =>
          match expected_len fc b2 with
          | None => (Err EProtocol, t1, rest)
          | Some n =>
              let need := n + 2 in
              if 256 <? 3 + need then (Err EProtocol, t1, rest)
              else
                match read_full_t g D c (N.to_nat need) t1 rest with
                | TmShort got e t2 rest' =>
                    (* a timeout is returned as such even after a partial read;
                       EOF after a partial read is ErrUnexpectedEOF => short frame *)
                    match e, got with
                    | EIO, _ :: _ => (Err EShortFrame, t2, rest')
                    | _, _ => (Err e, t2, rest')
                    end
                | TmFull body t2 rest' =>
                    let data := firstn (N.to_nat n) body in
                    match skipn (N.to_nat n) body with
                    | [lo; hi] =>
                        if crc_is_equal (crc16 ([unit; fc; b2] ++ data)) lo hi
                        then (Ok (mkpdu unit fc (b2 :: data)), t2, rest')
                        else (Err EBadCRC, t2, rest')
                    | _ => (Panic, t2, rest')
                    end
                end
          end
      | _ => (Panic, t1, rest)
      end
  end.

Record tm_conf := mk_tm_conf {
  tm_timeout : Z;   (* conf.Timeout *)
  tm_t1 : Z;        (* rt.t1: one character time *)
  tm_t35 : Z;       (* rt.t35 *)
  tm_gran : Z       (* 0: net.Conn; 10 ms: serialPortWrapper *)
}.

(* 500 * time.Microsecond *)
Definition tm_flush_window : Z := 500000.

(* discard (rtu_transport.go:249-256): SetDeadline(now + 500us); ReadFull of 1024 bytes *)
Definition tm_discard (g : Z) (c : option Z) (now : Z) (s : list (Z * N)) : Z * list (Z * N) :=
  match read_full_t g (now + tm_flush_window) c 1024 now s with
  | TmFull _ t rest => (t, rest)
  | TmShort _ _ t rest => (t, rest)
  end.

Definition tm_resync (x : err) : bool :=
  match x with EBadCRC | EProtocol | EShortFrame => true | _ => false end.

(* time.Sleep(d) entered at now *)
Definition tm_sleep (now d : Z) : Z := (now + Z.max 0 d)%Z.

(* the instant readRTUFrame is entered, for an ExecuteRequest entered at t0
   with rt.lastActivity = la that writes nreq bytes (rtu_transport.go:70-92) *)
Definition tm_rtu_now2 (k : tm_conf) (la t0 nreq : Z) : Z :=
  let t := (t0 - (la + tm_t35 k))%Z in                    (* time.Since(lastActivity.Add(t35)) *)
  let ts := if (t <? 0)%Z then tm_sleep t0 (- t) else t0 in (* if t < 0 { Sleep(-t) }; ts = Now() *)
  let la1 := (ts + nreq * tm_t1 k)%Z in                   (* lastActivity = ts.Add(n * t1) *)
  tm_sleep ts (la1 + tm_t35 k - ts).                      (* Sleep(lastActivity.Add(t35).Sub(Now())) *)

(* rtuTransport.ExecuteRequest (rtu_transport.go:59-110) entered at t0 with
   rt.lastActivity = la; nreq = bytes written. The deadline D is armed once,
   before the sleeps; the flush arms its own 500 us deadline. *)
Definition rtu_exchange_t (k : tm_conf) (la t0 nreq : Z) (c : option Z) (s : list (Z * N))
  : result pdu * Z * list (Z * N) :=
  let D := (t0 + tm_timeout k)%Z in
  match tm_read_rtu (tm_gran k) D c (tm_rtu_now2 k la t0 nreq) s with
  | (Err x, t3, rest) =>
      if tm_resync x then
        let now3 := tm_sleep t3 (256 * tm_t1 k) in
        let '(t4, rest') := tm_discard (tm_gran k) c now3 rest in
        (Err x, t4, rest')
      else (Err x, t3, rest)
  | r => r
  end.

(* ---------------------------------------------------------------- client *)

Record tm_call := mk_tm_call {
  tmc_res : result values;
  tmc_finish : Z;               (* the instant the public call returns *)
  tmc_rest : list (Z * N)       (* peer bytes left unread *)
}.

(* executeRequest + the per-call validation (client.go), as in Client.client_call;
   i/o timeouts are already the class ETimeout (= ErrRequestTimedOut) *)
Definition tm_client_call (fr : framing) (k : tm_conf) (la : Z) (cfg : ccfg) (txn : N) (o : op)
  (t0 : Z) (c : option Z) (s : list (Z * N)) : tm_call :=
  match client_request cfg o with
  | Ok req =>
      let '(r, t, rest) :=
        match fr with
        | FMbap => mbap_exchange_t (tm_timeout k) t0 c (u16 (txn + 1)) s
        | FRtu => rtu_exchange_t k la t0 (Z.of_nat (length (assemble_rtu req))) c s
        end in
      match r with
      | Ok res =>
          match unit_check req res with
          | Some x => mk_tm_call (Err x) t rest
          | None => mk_tm_call (client_validate cfg o req res) t rest
          end
      | Err x => mk_tm_call (Err x) t rest
      | Panic => mk_tm_call Panic t rest
      | OutOfFuel => mk_tm_call OutOfFuel t rest
      end
  | Err x => mk_tm_call (Err x) t0 s
  | Panic => mk_tm_call Panic t0 s
  | OutOfFuel => mk_tm_call OutOfFuel t0 s
  end.
