(* Goroutines sharing ONE client over an RTU-framed link whose device sometimes
   GARBLES a reply (C08, scenario "concgarble"): wrong CRC, unknown function
   code, trailing line noise, a frame cut short, or no answer at all.

   A call of a goroutine is given with the bytes the device puts on the line in
   answer to ITS request. The property ("each caller receives the reply to its
   own request", whatever the order in which the goroutines get the client)
   says that what a call returns is decided by its own answer alone: cg_own, one
   client_call of Model/Client.v on a quiet line (the RTU read of that model
   ends an exchange whose reply was garbled with the flush of the line, as
   rtu_transport.go does).

   cg_serial is the line as it really is: the exchanges happen one after the
   other in SOME order and whatever one exchange leaves on the line is there
   for the next. An answer is settled when its own exchange leaves nothing
   behind (cg_settled): the device of the scenario only gives such answers
   (the model side checks it on the input). Proofs/ConcGarbleP.v shows that
   then, in every order, cg_serial returns cg_own for every call. No proofs
   here; cg_expected and cg_all_settled are extracted. *)
From Coq Require Import List Bool NArith.
Import ListNotations.
From Modbus Require Import Base.Bytes Model.Wire Model.Client Spec.ModbusSpec.

(* the public call, the bytes the device answers its request with *)
Definition cg_call := (op * list N)%type.

(* the call on a quiet line facing its own answer, then silence *)
Definition cg_own (cfg : ccfg) (c : cg_call) : call_result :=
  client_call FRtu cfg 0 (fst c) Stall (snd c).

(* its exchange leaves nothing on the line *)
Definition cg_settled (cfg : ccfg) (c : cg_call) : bool :=
  match cr_rest (cg_own cfg c) with
  | [] => true
  | _ => false
  end.

(* the exchanges in the order in which they go over the line; left = what the
   previous exchanges left unread *)
Fixpoint cg_serial (cfg : ccfg) (left : list N) (l : list cg_call) : list call_result :=
  match l with
  | [] => []
  | c :: t =>
      let r := client_call FRtu cfg 0 (fst c) Stall (left ++ snd c) in
      r :: cg_serial cfg (cr_rest r) t
  end.

Definition cg_expected (cfg : ccfg) (l : list cg_call) : list call_result := map (cg_own cfg) l.

Definition cg_all_settled (cfg : ccfg) (l : list cg_call) : bool := forallb (cg_settled cfg) l.
