(* A session of calls on ONE client / ONE RTU transport facing a well-behaved
   device behind a line that damages some of the replies (rtu_transport.go:
   ExecuteRequest with its resynchronisation, readRTUFrame; client.go; for
   rtuoverudp the datagram adapter of udp.go presents each reply datagram as
   the next bytes of the stream).

   To every request the device produces a valid reply with data of its own
   ([valid]); what reaches the client is [wire]: the same bytes, or a damaged
   version of them. The run is rtuseq_run of Model/RtuSeq.v on what the line
   delivers, starting from a clean line. rtuseqbad_demands states, per call,
   what the property asks of its result: the values of THAT reply when the
   reply arrives intact, anything but a success when it does not.
   No proofs here. *)
From Modbus Require Import Base.Bytes Model.Wire Model.Client Model.RtuSeq Spec.ModbusSpec.

Inductive rb_step :=
| RbCall (o : op) (valid wire : list N)  (* a public call; the device's reply; what arrives *)
| RbCfg (c : ccfg).                      (* the client is reconfigured (unit id, byte / word order) *)

Definition rb_line (s : rb_step) : rs_step :=
  match s with
  | RbCall o _ wire => RsCall o wire
  | RbCfg c => RsCfg c
  end.

Definition rtuseqbad_run (cfg : ccfg) (steps : list rb_step) : list call_result :=
  rtuseq_run cfg [] (map rb_line steps).

Inductive rb_demand :=
| RbFresh (r : result values)   (* the reply arrived intact: its own values *)
| RbNotSuccess.                 (* the reply was damaged: never a success *)

Fixpoint rtuseqbad_demands (cfg : ccfg) (steps : list rb_step) : list rb_demand :=
  match steps with
  | [] => []
  | RbCfg c :: t => rtuseqbad_demands c t
  | RbCall o valid wire :: t =>
      (if list_eqb wire valid
       then RbFresh (cr_res (client_call FRtu cfg 0 o Stall valid))
       else RbNotSuccess) :: rtuseqbad_demands cfg t
  end.

(* the bytes left on the line when each call of the run starts (the recovery
   clause has a documented gap, finding F8, exactly where this is not empty) *)
Fixpoint rtuseqbad_lefts (left : list N) (rs : list call_result) : list (list N) :=
  match rs with
  | [] => []
  | r :: t => left :: rtuseqbad_lefts (cr_rest r) t
  end.
