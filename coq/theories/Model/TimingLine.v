(* Timing of a client opened on a real serial device. No proofs here.

   ModbusClient.Open(), case modbusRTU (client.go): the line settings of the
   configuration (speed, data bits, parity, stop bits) go to the serial port
   (newSerialPortWrapper), the transport is newRTUTransport(spw, url,
   conf.Speed, timeout, logger): its character time and inter-frame delay are
   those of Model/Timing.v at the configured speed. The Modbus serial-line
   guide fixes the character at eleven bit times; how many bits the UART
   really puts on the line for one character does not enter the delays.

   [silence_okb] is the predicate the correspondence check evaluates on the
   silence it measured between the end of a reply and the start of the next
   request of such a client (scenario silenceframing). *)
From Modbus Require Import Base.Bytes Model.Timing.
Local Open Scope Z_scope.

(* the serial line settings of a ClientConfiguration *)
Record line_cfg := mk_line_cfg {
  lc_speed : Z;        (* bits per second *)
  lc_data_bits : Z;
  lc_parity : Z;       (* PARITY_NONE = 0, PARITY_EVEN = 1, PARITY_ODD = 2 *)
  lc_stop_bits : Z     (* 0: left unset *)
}.

(* NewClient: stop bits left unset become 2 without parity, else 1 *)
Definition eff_stop_bits (c : line_cfg) : Z :=
  if lc_stop_bits c =? 0 then (if lc_parity c =? 0 then 2 else 1) else lc_stop_bits c.

(* length, in bit times, of one character as the UART frames it: start bit,
   data bits, parity bit if any, stop bits *)
Definition line_char_bits (c : line_cfg) : Z :=
  1 + lc_data_bits c + (if lc_parity c =? 0 then 0 else 1) + eff_stop_bits c.

(* the delays of the transport Open() builds: functions of the speed only *)
Definition open_t1 (c : line_cfg) : Z := char_time (lc_speed c).
Definition open_t35 (c : line_cfg) : Z := t35 (lc_speed c).

(* a silence of [gap] ns before a request is long enough *)
Definition silence_okb (c : line_cfg) (gap : Z) : bool := open_t35 c <=? gap.
