(* One running ModbusServer (tcp+tls) and TLS clients that keep a session cache
   (tls.Config.ClientSessionCache) across their connections, so that a later
   connection of the same client may RESUME an earlier session (TLS 1.2
   session tickets, TLS 1.3 pre-shared keys) instead of going through a full
   handshake.  Model only, no proofs.

   server.go startTLS does the same on every connection, resumed or not:

     err = tlsSock.Handshake()
     connState = tlsSock.ConnectionState()
     if len(connState.PeerCertificates) == 0 { err = ...; return }
     clientRole = ms.extractRole(connState.PeerCertificates[0])

   i.e. the role is a function of the connection state Handshake() left
   behind (tls_role_of_state); whether that state was negotiated by a full
   handshake or restored from a ticket (ConnectionState.DidResume) is not
   looked at.  Whether a session IS resumed is up to crypto/tls and to the
   configuration of the server (ticket keys, SessionTicketsDisabled, ...): it is
   part of the oracle below, next to the handshake itself.

   The oracle: tls_handshake_srv_r pol peer offer is Handshake() of
   tls.Server with configuration pol against the peer, which offers to resume
   `offer` (None: it offers nothing - no cache, an empty cache, or a cached
   session it cannot use); a ticket is represented by the connection state
   the server sealed into it.  The result carries DidResume and the
   connection state.

   The clients: a connection names the session cache its client uses (None:
   the client keeps no cache, as this library's own client); after a
   completed handshake the cache holds the session of that connection (the
   newest ticket replaces the older one). *)
From Modbus Require Import Base.Bytes Model.Role Model.TlsPolicy.

(* what Handshake() leaves behind on the server side *)
Record tls_rsession := mk_tls_rsession {
  trs_resumed : bool;                       (* ConnectionState.DidResume *)
  trs_state : tls_session                   (* Version, PeerCertificates *)
}.

(* the session caches of the clients: cache id -> the session it would offer *)
Definition tls_caches := list (N * tls_session).

Fixpoint tls_cache_get (k : N) (cs : tls_caches) : option tls_session :=
  match cs with
  | [] => None
  | (k', s) :: t => if k' =? k then Some s else tls_cache_get k t
  end.

Definition tls_cache_offer (k : option N) (cs : tls_caches) : option tls_session :=
  match k with Some id => tls_cache_get id cs | None => None end.

Definition tls_cache_put (k : option N) (r : option tls_rsession) (cs : tls_caches) : tls_caches :=
  match k, r with
  | Some id, Some rs => (id, trs_state rs) :: cs
  | _, _ => cs
  end.

(* a connection attempt: the cache of the client that makes it, and what it presents *)
Record tls_rconn := mk_tls_rconn { trc_cache : option N; trc_peer : tls_peer }.

(* startTLS after Handshake() returned nil *)
Definition tls_role_of_state (s : tls_session) : option (list N) :=
  match tss_peer_certs s with
  | [] => None                                   (* "no client certificate received" *)
  | leaf :: _ => Some (extract_role (tlc_exts leaf))
  end.

(* a crypto/tls that never resumes, from one that only does full handshakes *)
Definition tls_never_resumes (hs : tls_policy -> tls_peer -> option tls_session)
  : tls_policy -> tls_peer -> option tls_session -> option tls_rsession :=
  fun pol peer _ =>
    match hs pol peer with
    | Some s => Some (mk_tls_rsession false s)
    | None => None
    end.

Section Oracle.
  Variable tls_handshake_srv_r : tls_policy -> tls_peer -> option tls_session -> option tls_rsession.
  Variable tls_verifies : option (list tls_cert) -> tls_usage -> N -> list N -> list tls_cert -> Prop.
  Variable tls_now : N.

  (* crypto/tls, server side, with session resumption.  A handshake that was
     not resumed is what tls_srv_documented (Model/TlsPolicy.v) says; a
     resumed one needs a ticket offered by the peer and restores the version
     and the peer certificates of the session the ticket was issued on
     ("on a resumed session PeerCertificates is that of the original session") *)
  Definition tls_resume_documented : Prop :=
    forall pol peer offer rs, tls_handshake_srv_r pol peer offer = Some rs ->
      tpe_speaks_tls peer = true /\
      In (tss_version (trs_state rs)) (tpe_versions peer) /\
      tls_version_geb (tss_version (trs_state rs)) (tpo_min_version pol) = true /\
      (trs_resumed rs = false -> tpo_client_auth pol = TlsRequireAndVerify ->
       tss_peer_certs (trs_state rs) = tpe_chain peer /\ tpe_chain peer <> [] /\
       tls_verifies (tpo_pool pol) TlsUsageClientAuth tls_now [] (tpe_chain peer)) /\
      (trs_resumed rs = true ->
       exists t, offer = Some t /\
         tss_version (trs_state rs) = tss_version t /\
         tss_peer_certs (trs_state rs) = tss_peer_certs t).

  (* startTLS: Some (DidResume, role) when err == nil; DidResume is carried
     along for the statistics only *)
  Definition tls_start_tls_r (c : tls_srv_conf) (peer : tls_peer) (offer : option tls_session)
    : option (bool * list N) :=
    match tls_handshake_srv_r (tls_policy_of_server c) peer offer with
    | None => None                                 (* Handshake() failed *)
    | Some rs =>
        match tls_role_of_state (trs_state rs) with
        | None => None
        | Some role => Some (trs_resumed rs, role)
        end
    end.

  (* one server object, the connections in the order they are accepted; cs =
     what the caches of the clients hold when the first one connects *)
  Fixpoint tls_serve_cached (c : tls_srv_conf) (cs : tls_caches) (conns : list tls_rconn)
    : list (option (bool * list N)) :=
    match conns with
    | [] => []
    | x :: later =>
        let offer := tls_cache_offer (trc_cache x) cs in
        let r := tls_handshake_srv_r (tls_policy_of_server c) (trc_peer x) offer in
        tls_start_tls_r c (trc_peer x) offer ::
        tls_serve_cached c (tls_cache_put (trc_cache x) r cs) later
    end.
End Oracle.

(* the roles only: what the handlers of the connections see *)
Definition tls_roles_only (l : list (option (bool * list N))) : list (option (list N)) :=
  map (option_map snd) l.
