(* C01, seen from the network: what the listener at the client's configured
   address receives - on EVERY connection it accepts - during one public
   read/write call when the peer that holds the call's connection hangs up.

   The client model (Model/Client.v) talks on the one connection the handle
   was opened with: a call never dials. The view of the peer therefore has
   exactly one entry, the connection made by Open(), and that entry holds what
   the peer read of the call's write log before it dropped the connection.
   No proofs here. *)
From Modbus Require Import Base.Bytes Model.Wire Model.Client.

(* what the peer does with the call's connection *)
Inductive hangup :=
| HangAfter (e : send) (sent : list N)
    (* reads the whole request, sends `sent` (nothing, or part of a reply),
       then closes (e = Closed) / resets (e = Reset) the connection *)
| HangEarly (e : send) (k : nat).
    (* reads only the first k bytes of what the client writes (k = 0: hangs
       up before the request), then drops the connection *)

Record peer_view := mkpv {
  pv_conns : list (list N);   (* bytes received per accepted connection, in order of acceptance *)
  pv_res : result values      (* what the call returned *)
}.

Definition client_call_hangup (fr : framing) (cfg : ccfg) (txn : N) (o : op) (h : hangup)
  : peer_view :=
  match h with
  | HangAfter e sent =>
      let r := client_call fr cfg txn o e sent in
      mkpv [concat (cr_writes r)] (cr_res r)
  | HangEarly e k =>
      let r := client_call fr cfg txn o e [] in
      mkpv [firstn k (concat (cr_writes r))] (cr_res r)
  end.
