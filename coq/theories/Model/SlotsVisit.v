(* A connection's passage through the server's slot bookkeeping (Model/Slots.v),
   split at the two critical sections of server.go: the admission in
   acceptTCPClients and the removal at the bottom of handleTCPClient. What the
   connection does in between - requests, a TLS handshake that succeeds, fails
   or is abandoned half way - is not part of either: a peer of a tcp+tls server
   that never becomes a session is an arrival followed by a departure with no
   Req step in between. No proofs here. *)
From Coq Require Import List Arith Bool.
Import ListNotations.
From Modbus Require Import Model.Slots.

(* connect, be accepted, go through the admission critical section *)
Definition arrival (c : conn) : list label := [Arrive c; Take c; Enrol c].

(* handleTCPClient is done with the connection (for the reason w) and goes
   through the removal critical section *)
Definition departure (c : conn) (w : why) : list label := [End c w; Remove c].

(* a peer that occupies a slot and leaves without a single request dispatched *)
Definition visit (c : conn) (w : why) : list label := arrival c ++ departure c w.

Fixpoint visits (l : list (conn * why)) : list label :=
  match l with
  | [] => []
  | (c, w) :: t => visit c w ++ visits t
  end.
